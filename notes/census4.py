import sys; sys.path.insert(0,'/repo')
from probe import asm
from dec6809 import decode, Bad
defs=[('5','5'),('$05','5'),('$0005','5'),('200','200'),('$C8','200'),('$00C8','200'),('300','300'),('$1234','4660'),('%00000101','5'),("'A",'65')]
uses=['LDA #V','LDX #V','LDA V','LDA <V','LDA >V','LDA [V]','LDA V,X','LDX V,X','LDA [V,Y]','JMP V','STX V']
import collections
for spell,val in defs:
    row=[]
    for u in uses:
        outs=[]
        for order in (0,1):
            lines=['V EQU %s\n'%spell,'  %s \n'%u] if order==0 else ['  %s \n'%u,'V EQU %s\n'%spell]
            r=asm(lines,show=False)
            if r[0]!='ok': outs.append(r[0][:4]); continue
            b=r[1]; sz=[s for s in r[2].statements if s.mnemonic!='EQU'][0].code_pkg.size
            try:
                d=decode(b); ok = d[2]==len(b)==sz
                outs.append(bytes(b).hex()+('' if ok else '!'))
            except Bad as e: outs.append(bytes(b).hex()+'!BAD')
        row.append(outs[0] if outs[0]==outs[1] else '/'.join(outs))
    print('EQU %-10s'%spell, ' | '.join('%s=%s'%(u.split()[1],o) for u,o in zip(uses,row)))
