import sys; sys.path.insert(0,'/repo')
from dec6809 import decode, Bad
from cocoasm.instruction import INSTRUCTIONS
ALIAS={'LSL':'ASL','LSLA':'ASLA','LSLB':'ASLB','BHS':'BCC','BLO':'BCS','LBHS':'LBCC','LBLO':'LBCS'}
have=set()
for ins in INSTRUCTIONS:
    if ins.is_pseudo: continue
    m=ins.mode
    for op in [m.inh,m.imm,m.dir,m.ind,m.ext,m.rel]:
        if op is not None: have.add(op)
missing=[]
for pre in [None,0x10,0x11]:
    for op in range(256):
        if pre is None and op in (0x10,0x11): continue
        b=([pre] if pre is not None else [])+[op,0x84,0x12,0x34]
        try: d=decode(b)
        except Bad: continue
        code = op if pre is None else pre*256+op
        if code not in have: missing.append((hex(code), d[0]))
print('datasheet opcodes missing from table:', missing)
