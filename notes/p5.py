import sys; sys.path.insert(0,'/repo')
from p4 import run
from dec6809 import decode
def pcr(mn, k, back=False, ind=False, extra=[]):
    op = '[T,PCR]' if ind else 'T,PCR'
    if back: lines=['  ORG $1000','T NOP ']+['  NOP ']*k+extra+['  %s %s'%(mn,op)]
    else: lines=['  ORG $1000','  %s %s'%(mn,op)]+extra+['  NOP ']*k+['T NOP ']
    r=run(lines)
    if r[0]!='ok': return r[:3]
    p=r[2]; i=[j for j,s in enumerate(p.statements) if s.mnemonic==mn][0]; st=p.statements[i]
    from cocoasm.program import Program
    q=Program(); q.statements=[st]; b=q.get_binary_array()
    d=decode(b); a=st.code_pkg.address.int
    want=p.symbol_table['T'].int
    ok = d[2]==len(b) and d[1][0]=='pcr' and (a+d[2]+d[1][2])%65536==want and st.code_pkg.size==len(b)
    return (bytes(b).hex(), d, 'size',st.code_pkg.size, 'OK' if ok else 'WRONG')
if __name__=='__main__':
    for k in range(118,130): print('LEAX fwd',k,pcr('LEAX',k))
    for k in range(118,130): print('LEAX back',k,pcr('LEAX',k,True))
    for k in range(118,130): print('LDY fwd',k,pcr('LDY',k))
