# independent MC6809 decoder written from the datasheet opcode map (scratch census tool)
MEMOPS = {0:'NEG',3:'COM',4:'LSR',6:'ROR',7:'ASR',8:'ASL',9:'ROL',0xA:'DEC',0xC:'INC',0xD:'TST',0xE:'JMP',0xF:'CLR'}
INH = {0x12:'NOP',0x13:'SYNC',0x19:'DAA',0x1D:'SEX',0x39:'RTS',0x3A:'ABX',0x3B:'RTI',0x3D:'MUL',0x3F:'SWI'}
BR = ['BRA','BRN','BHI','BLS','BCC','BCS','BNE','BEQ','BVC','BVS','BPL','BMI','BGE','BLT','BGT','BLE']
ACC_A = {0:'SUBA',1:'CMPA',2:'SBCA',3:'SUBD',4:'ANDA',5:'BITA',6:'LDA',7:'STA',8:'EORA',9:'ADCA',0xA:'ORA',0xB:'ADDA',0xC:'CMPX',0xD:'JSR',0xE:'LDX',0xF:'STX'}
ACC_B = {0:'SUBB',1:'CMPB',2:'SBCB',3:'ADDD',4:'ANDB',5:'BITB',6:'LDB',7:'STB',8:'EORB',9:'ADCB',0xA:'ORB',0xB:'ADDB',0xC:'LDD',0xD:'STD',0xE:'LDU',0xF:'STU'}
IMM16 = {'SUBD','CMPX','LDX','ADDD','LDD','LDU','CMPD','CMPY','LDY','LDS','CMPU','CMPS'}
P2 = {3:'CMPD',0xC:'CMPY',0xE:'LDY',0xF:'STY'}; P2B={0xE:'LDS',0xF:'STS'}
P3 = {3:'CMPU',0xC:'CMPS'}
REGS = ['X','Y','U','S']
def s8(v): return v-256 if v>=128 else v
def s16(v): return v-65536 if v>=32768 else v
def s5(v): return v-32 if v>=16 else v
class Bad(Exception): pass
def idx(b, i):
    if i>=len(b): raise Bad('trunc postbyte')
    pb=b[i]; i+=1; r=REGS[(pb>>5)&3]
    if pb&0x80==0: return ('idx',r,'off5',s5(pb&0x1F),False), i
    ind=bool(pb&0x10); t=pb&0xF
    def need(n):
        if i+n>len(b): raise Bad('trunc operand')
    if t==0:
        if ind: raise Bad('illegal [,R+]')
        return ('idx',r,'inc1',0,False), i
    if t==1: return ('idx',r,'inc2',0,ind), i
    if t==2:
        if ind: raise Bad('illegal [,-R]')
        return ('idx',r,'dec1',0,False), i
    if t==3: return ('idx',r,'dec2',0,ind), i
    if t==4: return ('idx',r,'zero',0,ind), i
    if t==5: return ('idx',r,'B',0,ind), i
    if t==6: return ('idx',r,'A',0,ind), i
    if t==8: need(1); return ('idx',r,'off8',s8(b[i]),ind), i+1
    if t==9: need(2); return ('idx',r,'off16',s16(b[i]*256+b[i+1]),ind), i+2
    if t==0xB: return ('idx',r,'D',0,ind), i
    if t==0xC: need(1); return ('pcr',8,s8(b[i]),ind), i+1   # register bits are don't-care
    if t==0xD: need(2); return ('pcr',16,s16(b[i]*256+b[i+1]),ind), i+2
    if t==0xF and ind and (pb>>5)&3==0: need(2); return ('extind',b[i]*256+b[i+1]), i+2
    raise Bad('illegal postbyte %02X'%pb)
def operand(mn, mode, b, i):
    def need(n):
        if i+n>len(b): raise Bad('trunc operand')
    if mode=='imm':
        if mn in IMM16: need(2); return ('imm16',b[i]*256+b[i+1]), i+2
        need(1); return ('imm8',b[i]), i+1
    if mode=='dir': need(1); return ('dir',b[i]), i+1
    if mode=='ext': need(2); return ('ext',b[i]*256+b[i+1]), i+2
    if mode=='idx': return idx(b,i)
def grp(op, tabA, tabB):
    hi=op>>4; lo=op&0xF
    tab = tabA if hi in (8,9,0xA,0xB) else tabB
    mode={8:'imm',9:'dir',0xA:'idx',0xB:'ext',0xC:'imm',0xD:'dir',0xE:'idx',0xF:'ext'}[hi]
    if lo not in tab: raise Bad('illegal opcode')
    return tab[lo], mode
def decode(b):
    """returns (mnemonic, operand, length)"""
    if not b: raise Bad('empty')
    op=b[0]; i=1
    if op==0x10 or op==0x11:
        if len(b)<2: raise Bad('trunc page')
        op2=b[1]; i=2
        if op2==0x3F: return ('SWI2' if op==0x10 else 'SWI3', None, i)
        if op==0x10 and 0x21<=op2<=0x2F:
            if i+2>len(b): raise Bad('trunc rel16')
            return ('L'+BR[op2&0xF], ('rel16', s16(b[i]*256+b[i+1])), i+2)
        hi=op2>>4; lo=op2&0xF
        if op==0x10:
            if hi in (8,9,0xA,0xB) and lo in P2: mn=P2[lo]
            elif hi in (0xC,0xD,0xE,0xF) and lo in P2B: mn=P2B[lo]
            else: raise Bad('illegal page2 %02X'%op2)
        else:
            if hi in (8,9,0xA,0xB) and lo in P3: mn=P3[lo]
            else: raise Bad('illegal page3 %02X'%op2)
        mode={8:'imm',9:'dir',0xA:'idx',0xB:'ext',0xC:'imm',0xD:'dir',0xE:'idx',0xF:'ext'}[hi]
        if mode=='imm' and mn.startswith('ST'): raise Bad('illegal store imm')
        o,i=operand(mn,mode,b,i); return (mn,o,i)
    hi=op>>4; lo=op&0xF
    if hi==0 or hi==6 or hi==7:
        if lo not in MEMOPS: raise Bad('illegal opcode %02X'%op)
        mode={0:'dir',6:'idx',7:'ext'}[hi]
        o,i=operand(MEMOPS[lo],mode,b,i); return (MEMOPS[lo],o,i)
    if hi==4 or hi==5:
        if lo not in MEMOPS or lo==0xE: raise Bad('illegal opcode %02X'%op)
        return (MEMOPS[lo]+('A' if hi==4 else 'B'), None, i)
    if op in INH: return (INH[op], None, i)
    if op in (0x16,0x17):
        if i+2>len(b): raise Bad('trunc rel16')
        return ('LBRA' if op==0x16 else 'LBSR', ('rel16', s16(b[i]*256+b[i+1])), i+2)
    if op in (0x1A,0x1C,0x3C):
        if i+1>len(b): raise Bad('trunc imm')
        return ({0x1A:'ORCC',0x1C:'ANDCC',0x3C:'CWAI'}[op], ('imm8',b[i]), i+1)
    if op in (0x1E,0x1F):
        if i+1>len(b): raise Bad('trunc')
        pb=b[i]; R={0:'D',1:'X',2:'Y',3:'U',4:'S',5:'PC',8:'A',9:'B',0xA:'CC',0xB:'DP'}
        if pb>>4 not in R or pb&0xF not in R: raise Bad('illegal tfr reg')
        if ((pb>>4)>=8)!=((pb&0xF)>=8): raise Bad('tfr size mismatch')
        return ('EXG' if op==0x1E else 'TFR', ('regpair',R[pb>>4],R[pb&0xF]), i+1)
    if hi==2:
        if i+1>len(b): raise Bad('trunc rel8')
        return (BR[lo], ('rel8', s8(b[i])), i+1)
    if 0x30<=op<=0x33:
        o,i=idx(b,i); return (['LEAX','LEAY','LEAS','LEAU'][op&3], o, i)
    if 0x34<=op<=0x37:
        if i+1>len(b): raise Bad('trunc')
        return (['PSHS','PULS','PSHU','PULU'][op&3], ('mask',b[i]), i+1)
    if hi>=8:
        if op==0x8D:
            if i+1>len(b): raise Bad('trunc rel8')
            return ('BSR', ('rel8', s8(b[i])), i+1)
        mn,mode=grp(op,ACC_A,ACC_B)
        if mode=='imm' and (mn.startswith('ST') or mn=='JSR'): raise Bad('illegal opcode %02X'%op)
        o,i=operand(mn,mode,b,i); return (mn,o,i)
    raise Bad('illegal opcode %02X'%op)
