import sys; sys.path.insert(0,'/repo')
from probe import asm
from dec6809 import decode
import signal
class TO(Exception): pass
def h(*a): raise TO()
signal.signal(signal.SIGALRM,h)
def run(lines, t=3):
    signal.alarm(t)
    try: r=asm(lines, show=False)
    except TO: return ('TIMEOUT',)
    finally: signal.alarm(0)
    return r
def br(mn, k, back=False):
    if back: lines=['  ORG $1000','T NOP ']+['  NOP ']*k+['  %s T'%mn]
    else: lines=['  ORG $1000','  %s T'%mn]+['  NOP ']*k+['T NOP ']
    r=run(lines)
    if r[0]!='ok': return r[:3]
    p=r[2]; st=[s for s in p.statements if s.mnemonic==mn][0]
    full=r[1]; off=0
    from cocoasm.program import Program
    q=Program()
    for s2 in p.statements:
        q.statements=[s2]; n=len(q.get_binary_array())
        if s2 is st: b=bytes(full[off:off+n]); break
        off+=n
    d=decode(list(b)); a=st.code_pkg.address.int
    tgt=(a+d[2]+d[1][1])%65536 if d[2]==len(b) else None
    want=p.symbol_table['T'].int
    return (b.hex(), d, hex(a), 'target', hex(tgt) if tgt is not None else None, 'want', hex(want), 'OK' if tgt==want and st.code_pkg.size==len(b) else 'WRONG')
for k in [0,1,125,126,127,128,129,253,254,255,256]:
    print('BRA fwd',k, br('BRA',k)); 
for k in [0,1,123,124,125,126,127,128,250,253,254,255,256]:
    print('BRA back',k, br('BRA',k,True))
for k in [0,127,128,32760, 32767, 32768, 40000]:
    print('LBRA fwd',k, br('LBRA',k)); print('LBRA back',k,br('LBRA',k,True)); print('LBEQ back',k,br('LBEQ',k,True))
