import sys; sys.path.insert(0,'/repo')
from probe import asm
from dec6809 import decode, Bad
from cocoasm.instruction import INSTRUCTIONS
ALIAS={'LSL':'ASL','LSLA':'ASLA','LSLB':'ASLB','BHS':'BCC','BLO':'BCS','LBHS':'LBCC','LBLO':'LBCS'}
real=[i for i in INSTRUCTIONS if not i.is_pseudo]
print(len(real),'mnemonics')
# 1. table rows vs decoder
for ins in real:
    m=ins.mode; mn=ALIAS.get(ins.mnemonic,ins.mnemonic)
    for mode,op,sz in [('inh',m.inh,m.inh_sz),('imm',m.imm,m.imm_sz),('dir',m.dir,m.dir_sz),('ind',m.ind,m.ind_sz),('ext',m.ext,m.ext_sz),('rel',m.rel,m.rel_sz)]:
        if op is None:
            if sz: print('ROW', ins.mnemonic, mode, 'size without opcode', sz)
            continue
        ob=[op>>8, op&0xFF] if op>0xFF else [op]
        pad={'inh':[], 'imm':[0x12,0x34], 'dir':[0x12], 'ind':[0x84], 'ext':[0x12,0x34], 'rel':[0x12,0x34]}[mode]
        if ins.is_special: pad=[0x12] if ins.mnemonic in('PSHS','PSHU','PULS','PULU') else [0x89]
        try:
            d=decode(ob+pad)
        except Bad as e:
            print('ROW', ins.mnemonic, mode, hex(op), 'BAD', e); continue
        explen = d[2]
        if d[0]!=mn: print('ROW', ins.mnemonic, mode, hex(op), 'decodes as', d[0])
        # size check
        if mode=='ind': exp=len(ob)+1
        else: exp=d[2]
        if sz!=exp: print('ROW', ins.mnemonic, mode, hex(op), 'size', sz, 'expected', exp)
