from vf import *
import random
def rt(files, order=None):
    d = DiskFile(granule_fill_order=order)
    try: d.add_files(files)
    except Exception as e: return 'ADD-ERR %s %s' % (type(e).__name__, e)
    try: r = DiskFile(buffer=list(d.get_buffer())).list_files()
    except Exception as e: return 'LIST-ERR %s %s' % (type(e).__name__, e)
    ok = len(r)==len(files) and all(a.data==b.data and a.load_addr.int==b.load_addr.int and a.exec_addr.int==b.exec_addr.int and a.name==b.name.upper()[:8] for a,b in zip(r,files))
    return ok
bad=0
random.seed(3)
for n in list(range(0,12))+list(range(2285,2310))+list(range(4590,4615))+[2299+2304*3, 2298+2304*3,2297+2304*3, 65535]:
    d=[(i*7+1)&0xFF for i in range(n)]
    r=rt([mk("AB", d, load=0x1234, ex=0x5678)])
    if r is not True: bad+=1; print(n, r)
for t in range(200):
    fs=[mk("F%d"%i, [random.randrange(256)]*random.choice([0,1,2293,2294,2295,2296,2297,2298,2299,2300,4598,4601,4603,6905,random.randrange(9000)]), ex=random.randrange(65536)) for i in range(random.randrange(1,8))]
    order=list(range(68)); random.shuffle(order)
    r=rt(fs, order if t%2 else None)
    if r is not True: bad+=1; print([len(f.data) for f in fs], r)
print('bad',bad)
