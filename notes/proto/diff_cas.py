import sys, random, subprocess, time
sys.path.insert(0,'/root/scratch'); sys.path.insert(0,'/repo')
from vf import *
random.seed(7)
cases=[]
for i in range(300):
    fs=[]
    for j in range(random.randrange(0,4)):
        n=random.choice([0,1,254,255,256,509,510,511,765,random.randrange(0,3000), random.randrange(0,65536)])
        data=[random.choice([0x55,0x3C,0x00,0x01,0xFF,random.randrange(256)]) for _ in range(n)]
        name=''.join(random.choice('ABCxyz019@') for _ in range(random.randrange(0,13)))
        fs.append((name, random.randrange(4), random.choice([0,255]), random.randrange(65536), random.randrange(65536), data))
    cases.append(fs)
t=time.time()
impl=[]
for fs in cases:
    c=CassetteFile(); c.add_files([mk(n,d,typ=t_,dt=dt,load=l,ex=e) for (n,t_,dt,l,e,d) in fs]); impl.append(bytes(c.get_buffer()).hex().upper())
t1=time.time()-t
inp='\n'.join(';'.join('%s,%d,%d,%d,%d,%s'%(n.encode().hex(),t_,dt,l,e,bytes(d).hex()) for (n,t_,dt,l,e,d) in fs) for fs in cases)+'\n'
t=time.time()
out=subprocess.run(['./driver'],input=inp.encode(),capture_output=True).stdout.decode().split('\n')
t2=time.time()-t
bad=[i for i in range(len(cases)) if impl[i]!=out[i]]
print('cases',len(cases),'impl_s',round(t1,2),'model_s',round(t2,2),'mismatch',len(bad), 'total bytes', sum(len(x)//2 for x in impl))
