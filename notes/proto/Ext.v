Require Import Cas.
From Coq Require Import Extraction ExtrOcamlBasic.
Extraction Language OCaml.
Set Extraction Output Directory ".".
Extraction "cas_model.ml" write parse_block.
