(* Prototype: MC6809 opcode map (from the datasheet) — opcode -> (canonical mnemonic, addressing mode) *)
From Coq Require Import List NArith String Bool.
Import ListNotations.
Open Scope string_scope. Open Scope N_scope.

Inductive amode := MInh | MImm8 | MImm16 | MDir | MIdx | MExt | MRel8 | MRel16 | MRegPair | MRegMask.
Definition amode_eqb (a b : amode) : bool :=
  match a, b with MInh,MInh|MImm8,MImm8|MImm16,MImm16|MDir,MDir|MIdx,MIdx|MExt,MExt|MRel8,MRel8|MRel16,MRel16|MRegPair,MRegPair|MRegMask,MRegMask => true | _,_ => false end.

Fixpoint assoc {A} (k : N) (l : list (N * A)) : option A :=
  match l with [] => None | (k', v) :: r => if k =? k' then Some v else assoc k r end.

Definition memops : list (N * string) :=
  [(0,"NEG");(3,"COM");(4,"LSR");(6,"ROR");(7,"ASR");(8,"ASL");(9,"ROL");(10,"DEC");(12,"INC");(13,"TST");(14,"JMP");(15,"CLR")].
Definition branches : list (N * string) :=
  [(0,"BRA");(1,"BRN");(2,"BHI");(3,"BLS");(4,"BCC");(5,"BCS");(6,"BNE");(7,"BEQ");(8,"BVC");(9,"BVS");(10,"BPL");(11,"BMI");(12,"BGE");(13,"BLT");(14,"BGT");(15,"BLE")].
Definition accA : list (N * string) :=
  [(0,"SUBA");(1,"CMPA");(2,"SBCA");(3,"SUBD");(4,"ANDA");(5,"BITA");(6,"LDA");(7,"STA");(8,"EORA");(9,"ADCA");(10,"ORA");(11,"ADDA");(12,"CMPX");(13,"JSR");(14,"LDX");(15,"STX")].
Definition accB : list (N * string) :=
  [(0,"SUBB");(1,"CMPB");(2,"SBCB");(3,"ADDD");(4,"ANDB");(5,"BITB");(6,"LDB");(7,"STB");(8,"EORB");(9,"ADCB");(10,"ORB");(11,"ADDB");(12,"LDD");(13,"STD");(14,"LDU");(15,"STU")].
Definition row1 : list (N * (string * amode)) :=
  [(2,("NOP",MInh));(3,("SYNC",MInh));(6,("LBRA",MRel16));(7,("LBSR",MRel16));(9,("DAA",MInh));(10,("ORCC",MImm8));
   (12,("ANDCC",MImm8));(13,("SEX",MInh));(14,("EXG",MRegPair));(15,("TFR",MRegPair))].
Definition row3 : list (N * (string * amode)) :=
  [(0,("LEAX",MIdx));(1,("LEAY",MIdx));(2,("LEAS",MIdx));(3,("LEAU",MIdx));(4,("PSHS",MRegMask));(5,("PULS",MRegMask));
   (6,("PSHU",MRegMask));(7,("PULU",MRegMask));(9,("RTS",MInh));(10,("ABX",MInh));(11,("RTI",MInh));(12,("CWAI",MImm8));(13,("MUL",MInh));(15,("SWI",MInh))].
Definition imm16_names := ["SUBD";"CMPX";"LDX";"ADDD";"LDD";"LDU";"CMPD";"CMPY";"LDY";"LDS";"CMPU";"CMPS"].
Definition is_imm16 (n : string) := existsb (String.eqb n) imm16_names.
Definition is_store (n : string) := existsb (String.eqb n) ["STA";"STB";"STD";"STX";"STY";"STU";"STS";"JSR"].

Definition col_mode (name : string) (hi : N) : option amode :=
  match hi mod 4 with
  | 0 => if is_store name then None else Some (if is_imm16 name then MImm16 else MImm8)
  | 1 => Some MDir | 2 => Some MIdx | _ => Some MExt end.

Definition page0 (op : N) : option (string * amode) :=
  let hi := op / 16 in let lo := op mod 16 in
  match hi with
  | 0 => option_map (fun n => (n, MDir)) (assoc lo memops)
  | 1 => assoc lo row1
  | 2 => option_map (fun n => (n, MRel8)) (assoc lo branches)
  | 3 => assoc lo row3
  | 4 => if lo =? 14 then None else option_map (fun n => (String.append n "A", MInh)) (assoc lo memops)
  | 5 => if lo =? 14 then None else option_map (fun n => (String.append n "B", MInh)) (assoc lo memops)
  | 6 => option_map (fun n => (n, MIdx)) (assoc lo memops)
  | 7 => option_map (fun n => (n, MExt)) (assoc lo memops)
  | _ => if op =? 141 then Some ("BSR", MRel8) else
         match assoc lo (if hi <? 12 then accA else accB) with
         | Some n => option_map (fun m => (n, m)) (col_mode n hi)
         | None => None end
  end.
Definition page2 (op : N) : option (string * amode) :=
  let hi := op / 16 in let lo := op mod 16 in
  if op =? 63 then Some ("SWI2", MInh) else
  if (hi =? 2) && negb (lo =? 0) then option_map (fun n => (String.append "L" n, MRel16)) (assoc lo branches) else
  if (8 <=? hi) && (hi <? 12) then
    match assoc lo [(3,"CMPD");(12,"CMPY");(14,"LDY");(15,"STY")] with Some n => option_map (fun m => (n, m)) (col_mode n hi) | None => None end
  else if 12 <=? hi then
    match assoc lo [(14,"LDS");(15,"STS")] with Some n => option_map (fun m => (n, m)) (col_mode n hi) | None => None end
  else None.
Definition page3 (op : N) : option (string * amode) :=
  let hi := op / 16 in let lo := op mod 16 in
  if op =? 63 then Some ("SWI3", MInh) else
  if (8 <=? hi) && (hi <? 12) then
    match assoc lo [(3,"CMPU");(12,"CMPS")] with Some n => option_map (fun m => (n, m)) (col_mode n hi) | None => None end
  else None.
(* opcode as the tool writes it: one byte, or $10xx / $11xx *)
Definition lookup (code : N) : option (string * amode * N (* opcode bytes *)) :=
  if code <? 256 then (if (code =? 16) || (code =? 17) then None else option_map (fun x => (x, 1)) (page0 code))
  else if code / 256 =? 16 then option_map (fun x => (x, 2)) (page2 (code mod 256))
  else if code / 256 =? 17 then option_map (fun x => (x, 2)) (page3 (code mod 256))
  else None.
Definition operand_bytes (m : amode) : N :=
  match m with MInh => 0 | MImm8 | MDir | MRel8 | MRegPair | MRegMask | MIdx (* post-byte only *) => 1 | MImm16 | MExt | MRel16 => 2 end.
Definition canon (n : string) : string :=
  match assoc 0 (filter (fun p => String.eqb (fst (snd p)) n)
        [(0,("LSL","ASL"));(0,("LSLA","ASLA"));(0,("LSLB","ASLB"));(0,("BHS","BCC"));(0,("BLO","BCS"));(0,("LBHS","LBCC"));(0,("LBLO","LBCS"))]) with
  | Some (_, c) => c | None => n end.
