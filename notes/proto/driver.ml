open Cas_model
(* N <-> int *)
let rec pos_of_int n = if n = 1 then XH else if n land 1 = 0 then XO (pos_of_int (n lsr 1)) else XI (pos_of_int (n lsr 1))
let n_of_int n = if n = 0 then N0 else Npos (pos_of_int n)
let rec int_of_pos = function XH -> 1 | XO p -> 2 * int_of_pos p | XI p -> 2 * int_of_pos p + 1
let int_of_n = function N0 -> 0 | Npos p -> int_of_pos p
let bytes_of_hex s = List.init (String.length s / 2) (fun i -> n_of_int (int_of_string ("0x" ^ String.sub s (2*i) 2)))
let hex_of_bytes l = let b = Buffer.create 1024 in List.iter (fun x -> Buffer.add_string b (Printf.sprintf "%02X" (int_of_n x))) l; Buffer.contents b
let () =
  try while true do
    let line = input_line stdin in
    (* files separated by ';' ; fields name,type,dtype,load,exec,data separated by ',' *)
    let files = List.filter (fun s -> s <> "") (String.split_on_char ';' line) in
    let fs = List.map (fun s -> match String.split_on_char ',' s with
      | [n;t;d;l;e;dat] -> { c_name = bytes_of_hex n; c_type = n_of_int (int_of_string t); c_dtype = n_of_int (int_of_string d);
                              c_load = n_of_int (int_of_string l); c_exec = n_of_int (int_of_string e); c_data = bytes_of_hex dat }
      | _ -> failwith "bad") files in
    print_endline (hex_of_bytes (write fs))
  done with End_of_file -> ()
