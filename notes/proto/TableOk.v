From Coq Require Import List NArith String Bool.
Import ListNotations.
Require Import Tables Spec6809.
Open Scope N_scope.

Inductive column := CInh | CImm | CDir | CInd | CExt | CRel.
Definition col_accepts (c : column) (m : amode) : bool :=
  match c, m with
  | CInh, MInh | CImm, MImm8 | CImm, MImm16 | CImm, MRegPair | CImm, MRegMask | CDir, MDir | CInd, MIdx | CExt, MExt | CRel, MRel8 | CRel, MRel16 => true
  | _, _ => false end.
Definition cell_ok (name : string) (c : column) (op : option N) (sz : N) : bool :=
  match op with
  | None => sz =? 0
  | Some code => match lookup code with
                 | Some (n, m, ob) => String.eqb n (canon name) && col_accepts c m && (sz =? ob + operand_bytes m)
                 | None => false end
  end.
Definition row_ok (r : irow) : bool :=
  if is_pseudo r then true else
  cell_ok (mn r) CInh (inh r) (inh_sz r) && cell_ok (mn r) CImm (imm r) (imm_sz r) && cell_ok (mn r) CDir (dir r) (dir_sz r) &&
  cell_ok (mn r) CInd (ind r) (ind_sz r) && cell_ok (mn r) CExt (ext r) (ext_sz r) && cell_ok (mn r) CRel (rel r) (rel_sz r).
Definition bad_rows := map mn (filter (fun r => negb (row_ok r)) instructions).
Eval vm_compute in bad_rows.
(* completeness: every datasheet opcode is in the table under its own mnemonic *)
Definition table_has (code : N) (n : string) : bool :=
  existsb (fun r => String.eqb (canon (mn r)) n &&
     existsb (fun o => match o with Some c => c =? code | None => false end) [inh r; imm r; dir r; ind r; ext r; rel r]) instructions.
Definition codes := (map N.of_nat (seq 0 256) ++ map (fun i => 4096 + N.of_nat i) (seq 0 256) ++ map (fun i => 4352 + N.of_nat i) (seq 0 256))%list.
Definition missing := filter (fun c => match lookup c with Some (n, _, _) => negb (table_has c n) | None => false end) codes.
Eval vm_compute in missing.
Theorem table_complete : missing = []. Proof. vm_compute. reflexivity. Qed.
Theorem table_sound_except_known : bad_rows = ["SWI"; "SYNC"]%string. Proof. vm_compute. reflexivity. Qed.
