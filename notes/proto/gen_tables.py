import sys; sys.path.insert(0,'/repo')
from cocoasm.instruction import INSTRUCTIONS, Instruction, Mode
def opt(x): return 'None' if x is None else '(Some %d)' % x
def b(x): return 'true' if x else 'false'
flags=['is_pseudo','is_pseudo_define','is_string_define','is_special','is_include','is_short_branch','is_long_branch','is_origin','is_name','is_16_bit','is_lea','is_multi_byte','is_multi_word']
assert list(Instruction._fields)==['mnemonic','mode']+flags, Instruction._fields
assert list(Mode._fields)==['inh','inh_sz','imm','imm_sz','dir','dir_sz','ind','ind_sz','ext','ext_sz','rel','rel_sz'], Mode._fields
out=['From Coq Require Import List NArith String.','Import ListNotations.','Open Scope N_scope. Open Scope string_scope.',
'Record irow := { mn : string; inh : option N; inh_sz : N; imm : option N; imm_sz : N; dir : option N; dir_sz : N; ind : option N; ind_sz : N; ext : option N; ext_sz : N; rel : option N; rel_sz : N; '+' '.join('%s : bool;'%f for f in flags)[:-1]+' }.',
'Definition instructions : list irow := [']
rows=[]
for i in INSTRUCTIONS:
    m=i.mode
    assert isinstance(i.mnemonic,str) and i.mnemonic.isalnum()
    for v in m: assert v is None or (isinstance(v,int) and 0<=v<=0xFFFF)
    rows.append('  {| mn := "%s"; inh := %s; inh_sz := %d; imm := %s; imm_sz := %d; dir := %s; dir_sz := %d; ind := %s; ind_sz := %d; ext := %s; ext_sz := %d; rel := %s; rel_sz := %d; %s |}' % (
        i.mnemonic,opt(m.inh),m.inh_sz,opt(m.imm),m.imm_sz,opt(m.dir),m.dir_sz,opt(m.ind),m.ind_sz,opt(m.ext),m.ext_sz,opt(m.rel),m.rel_sz,
        '; '.join('%s := %s'%(f,b(getattr(i,f))) for f in flags)))
out.append(';\n'.join(rows)); out.append('].')
open('Tables.v','w').write('\n'.join(out)+'\n')
