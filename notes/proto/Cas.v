From Coq Require Import List NArith Arith PeanoNat Lia Bool.
Import ListNotations.
Local Open Scope N_scope.

Definition byte := N.
Record cfile := { c_name : list byte; c_type : byte; c_dtype : byte; c_load : N; c_exec : N; c_data : list byte }.

Fixpoint sumN (l : list N) : N := match l with [] => 0 | x :: r => x + sumN r end.
Definition rep (n : nat) (b : byte) : list byte := repeat b n.
Definition hi (w : N) := (w / 256) mod 256.
Definition lo (w : N) := w mod 256.

Fixpoint name8 (fuel : nat) (n : list byte) : list byte :=
  match fuel with O => [] | S f => match n with [] => 32 :: name8 f [] | c :: r => c :: name8 f r end end.

Definition header_payload (f : cfile) : list byte :=
  name8 8 (c_name f) ++ [c_type f; c_dtype f; 0; hi (c_load f); lo (c_load f); hi (c_exec f); lo (c_exec f)].
Definition block (ty : byte) (pl : list byte) : list byte :=
  [85; 60; ty; N.of_nat (length pl)] ++ pl ++ [(ty + N.of_nat (length pl) + sumN pl) mod 256; 85].

(* writer: data blocks, fuel = length of data *)
Fixpoint data_blocks (fuel : nat) (d : list byte) : list byte :=
  match fuel with
  | O => []
  | S f => match d with
           | [] => []
           | _ => if Nat.ltb (length d) 255 then block 1 d
                  else block 1 (firstn 255 d) ++ data_blocks f (skipn 255 d)
           end
  end.
Definition add_file (f : cfile) : list byte :=
  rep 128 0 ++ rep 128 85 ++ block 0 (header_payload f) ++ rep 128 0 ++ rep 128 85
  ++ data_blocks (S (length (c_data f))) (c_data f) ++ [85;60;255;0;255;85].
Definition write (fs : list cfile) : list byte := concat (map add_file fs).

(* spec: independent checksum-verifying parser of blocks *)
Definition parse_block (bs : list byte) : option (byte * list byte * list byte) :=
  match bs with
  | 85 :: 60 :: ty :: len :: rest =>
      let n := N.to_nat len in
      let pl := firstn n rest in
      match skipn n rest with
      | ck :: 85 :: rest' =>
          if (Nat.eqb (length pl) n) && (ck =? (ty + len + sumN pl) mod 256) then Some (ty, pl, rest') else None
      | _ => None
      end
  | _ => None
  end.

Lemma parse_block_block ty pl rest :
  (length pl <= 255)%nat -> parse_block (block ty pl ++ rest) = Some (ty, pl, rest).
Proof.
  intros H. unfold block, parse_block. cbn [app].
  rewrite Nat2N.id.
  rewrite <- app_assoc. rewrite firstn_app, Nat.sub_diag, firstn_all. cbn [firstn]. rewrite app_nil_r.
  rewrite skipn_app, Nat.sub_diag, skipn_all. cbn [skipn app].
  rewrite Nat.eqb_refl, N.eqb_refl. reflexivity.
Qed.
