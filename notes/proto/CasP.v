From Coq Require Import List NArith Arith PeanoNat Lia Bool.
Import ListNotations.
Require Import Cas.
Local Open Scope N_scope.

Definition parse_data_step (rec : list byte -> option (list byte * list byte)) (bs : list byte) :=
  match parse_block bs with
  | Some (1, pl, rest) => match pl with [] => None | _ =>
                            match rec rest with Some (d, r) => Some (pl ++ d, r) | None => None end end
  | Some (255, [], rest) => Some ([], rest)
  | _ => None
  end.
Fixpoint parse_data (fuel : nat) (bs : list byte) : option (list byte * list byte) :=
  match fuel with O => None | S f => parse_data_step (parse_data f) bs end.
Lemma parse_data_S f bs : parse_data (S f) bs = parse_data_step (parse_data f) bs. Proof. reflexivity. Qed.

Definition eof := [85;60;255;0;255;85].
Lemma parse_eof rest : parse_block (eof ++ rest) = Some (255, [], rest).
Proof. reflexivity. Qed.
Lemma step_eof rec rest : parse_data_step rec (eof ++ rest) = Some ([], rest).
Proof. unfold parse_data_step. now rewrite parse_eof. Qed.
Lemma step_block rec pl rest : pl <> [] -> (length pl <= 255)%nat ->
  parse_data_step rec (block 1 pl ++ rest) = match rec rest with Some (d, r) => Some (pl ++ d, r) | None => None end.
Proof. intros Hne Hl. unfold parse_data_step. rewrite parse_block_block by assumption. destruct pl; congruence. Qed.

Lemma data_blocks_ok : forall fuel d rest,
  (length d < fuel)%nat ->
  parse_data (S fuel) (data_blocks fuel d ++ eof ++ rest) = Some (d, rest).
Proof.
  induction fuel as [|f IH]; intros d rest Hf; [lia|].
  rewrite parse_data_S. cbn [data_blocks]. destruct d as [|x d'] eqn:Ed.
  - cbn [app]. apply step_eof.
  - rewrite <- Ed in *. assert (Hne: d <> []) by (subst; discriminate).
    destruct (Nat.ltb_spec (length d) 255) as [Hlt|Hge].
    + rewrite step_block; [|assumption|lia].
      destruct f; [rewrite Ed in Hf; cbn in Hf; lia|]. rewrite parse_data_S, step_eof. now rewrite app_nil_r.
    + rewrite <- app_assoc. rewrite step_block.
      * rewrite IH by (rewrite skipn_length; lia). now rewrite firstn_skipn.
      * intro E. apply (f_equal (@length _)) in E. rewrite firstn_length in E. cbn [length] in E. lia.
      * rewrite firstn_length; lia.
Qed.
Print Assumptions data_blocks_ok.
