import sys, random, collections, traceback; sys.path.insert(0,'/repo')
from p4 import run
random.seed(1)
base=open('/root/scratch/cli/flat.asm').read().split('\n')
base+=["MSG     FCC     \"HI THERE\"","        FDB     $0,1","        FCB     1,2","V       EQU     $10","        LDA     V,X","        LEAX    MSG,PCR","        LDB     [,X++]","        PSHS    A,B","        TFR     A,B","        LDA     #'A","        STX     MSG+1", "        RMB 2", "        SETDP $0E"]
alpha=" \tABXYUSDPCRabcxyz0123456789$#%<>[],+-*/';\"@_.:"
kinds=collections.Counter(); ex={}
for it in range(6000):
    lines=list(base)
    i=random.randrange(len(lines)); l=lines[i]
    m=random.random()
    if m<0.3 and l: 
        j=random.randrange(len(l)); l=l[:j]+random.choice(alpha)+l[j+1:]
    elif m<0.5 and l:
        j=random.randrange(len(l)); l=l[:j]+l[j+1:]
    elif m<0.7:
        j=random.randrange(len(l)+1); l=l[:j]+random.choice(alpha)+l[j:]
    elif m<0.8:
        f=l.split(); 
        if f: f.pop(random.randrange(len(f))); l=' '+' '.join(f)
    else:
        l=''.join(random.choice(alpha) for _ in range(random.randrange(1,20)))
    lines[i]=l
    r=run([x+'\n' for x in lines],t=2)
    if r[0]=='internal' or r[0]=='TIMEOUT':
        k=(r[0],)+tuple(r[1:2])+((r[2][:40],) if len(r)>2 else ())
        kinds[k]+=1; ex.setdefault(k,l)
    else: kinds[(r[0],)]+=1
for k,v in kinds.most_common(): print(v,k,repr(ex.get(k)))
