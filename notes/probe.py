import sys, traceback
sys.path.insert(0, '/repo')
from cocoasm.program import Program
from cocoasm.exceptions import ParseError, TranslationError

def asm(lines, show=True):
    p = Program()
    try:
        p.process(lines)
    except (ParseError, TranslationError) as e:
        if show: print("DIAG", type(e).__name__, e.value)
        return ('diag', type(e).__name__, str(e.value))
    except Exception as e:
        if show: print("INTERNAL", type(e).__name__, e)
        return ('internal', type(e).__name__, str(e))
    try:
        b = p.get_binary_array()
    except Exception as e:
        if show: print('INTERNAL-EMIT', type(e).__name__, e)
        return ('internal', type(e).__name__, str(e))
    if show:
        print(' '.join('%02X' % x for x in b))
        for s in p.get_statements(): print('   ', s.rstrip())
        print('   sym', p.get_symbol_table(), 'origin', p.origin.hex() if p.origin else None, 'name', p.name)
    return ('ok', b, p)

if __name__ == '__main__':
    for arg in sys.argv[1:]:
        print('>>>', repr(arg))
        asm(arg.split('|'))
