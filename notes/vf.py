import sys
sys.path.insert(0,'/repo')
from cocoasm.virtualfiles.cassette import CassetteFile
from cocoasm.virtualfiles.disk import DiskFile, DiskConstants
from cocoasm.virtualfiles.coco_file import CoCoFile
from cocoasm.values import NumericValue, NoneValue

def mk(name, data, typ=2, dt=0, load=0x0E00, ex=0x0E00, ext="BIN"):
    return CoCoFile(name=name, extension=ext, type=NumericValue(typ), data_type=NumericValue(dt),
                    load_addr=NumericValue(load), exec_addr=NumericValue(ex), data=list(data))
def show(f):
    return (f.name, f.extension, f.type.int, f.data_type.int, f.load_addr.int if not f.load_addr.is_none() else None, f.exec_addr.int if not f.exec_addr.is_none() else None, len(f.data))
