import sys, collections; sys.path.insert(0,'/repo')
from probe import asm
from dec6809 import decode, Bad, s8, s16
from cocoasm.instruction import INSTRUCTIONS
ALIAS={'LSL':'ASL','LSLA':'ASLA','LSLB':'ASLB','BHS':'BCC','BLO':'BCS','LBHS':'LBCC','LBLO':'LBCS'}
IMM16 = {'SUBD','CMPX','LDX','ADDD','LDD','LDU','CMPD','CMPY','LDY','LDS','CMPU','CMPS'}
real=[i for i in INSTRUCTIONS if not i.is_pseudo]
VALS=[0,1,15,16,17,127,128,129,255,256,257,4095,4096,32767,32768,65535,-1,-15,-16,-17,-127,-128,-129,-255,-256,-257,-32768]
def spellings(v):
    if v<0: return [('dec',str(v))]
    out=[('dec',str(v)),('hex','$%X'%v)]
    if v<256: out+= [('hex2','$%02X'%v),('hex4','$%04X'%v),('bin8','%'+format(v,'08b'))]
    else: out+=[('hex4','$%04X'%v)]
    out+=[('bin16','%'+format(v,'016b'))]
    return out
# representative mnemonics per class
reps={'acc8':'LDA','acc16':'LDX','page2_16':'LDY','mem':'INC','st8':'STA','st16':'STX','st16p2':'STY','lea':'LEAX','jmp':'JMP','neg':'NEG','cc':'ORCC'}
res=collections.defaultdict(list)
def check(mn, text, expect, cls, tag):
    """expect: None => must reject; else function(decoded)->bool"""
    r=asm(['  %s %s '%(mn,text)], show=False)
    key=(cls,tag)
    if r[0]=='internal': res[key+('INTERNAL',)].append((mn,text,r[1:])); return
    if r[0]=='diag':
        if expect is not None: res[key+('REJECTED-VALID',)].append((mn,text,r[2]))
        else: res[key+('ok-reject',)].append((mn,text))
        return
    b=r[1]; p=r[2]
    size=p.statements[0].code_pkg.size
    try: d=decode(b)
    except Bad as e:
        res[key+('MALFORMED',)].append((mn,text,bytes(b).hex(),str(e))); return
    if d[2]!=len(b): res[key+('TRAILING',)].append((mn,text,bytes(b).hex(),d)); return
    if expect is None: res[key+('ACCEPTED-INVALID',)].append((mn,text,bytes(b).hex(),d)); return
    if d[0]!=ALIAS.get(mn,mn) or not expect(d[1]): res[key+('MISCOMPILE',)].append((mn,text,bytes(b).hex(),d)); return
    if size!=len(b): res[key+('SIZE-MISMATCH',)].append((mn,text,bytes(b).hex(),size)); return
    res[key+('ok',)].append((mn,text))
for cls,mn in reps.items():
    ins=next(i for i in real if i.mnemonic==mn); m=ins.mode
    for v in VALS:
        for sp,txt in spellings(v):
            tag='%s'%sp
            # immediate
            if m.imm is not None:
                w16 = mn in IMM16
                lo,hi=(-32768,65535) if w16 else (-128,255)
                exp=(lambda o,v=v,w16=w16: o==(('imm16',v%65536) if w16 else ('imm8',v%256))) if lo<=v<=hi else None
                check(mn,'#'+txt,exp,cls,'imm:'+tag+(':fit' if exp else ':over'))
            else:
                check(mn,'#'+txt,None,cls,'imm-unsupported')
            # address
            if m.ext is not None and v>=0:
                exp=lambda o,v=v: o==('ext',v) or (v<256 and o==('dir',v))
                check(mn,txt,exp,cls,'addr:'+tag+(':lt256' if v<256 else ':ge256'))
                check(mn,'>'+txt,lambda o,v=v:o==('ext',v),cls,'>addr:'+tag)
                check(mn,'<'+txt,(lambda o,v=v:o==('dir',v)) if v<256 else None,cls,'<addr:'+tag+(':lt256' if v<256 else ':ge256'))
            if m.ind is not None:
                if v>=0: check(mn,'[%s]'%txt,lambda o,v=v:o==('extind',v),cls,'[addr]:'+tag+(':lt256' if v<256 else ':ge256'))
                vc = '0' if v==0 else 'o5' if -16<=v<=15 else 'o8' if -128<=v<=127 else 'o16' if -32768<=v<=32767 else 'big'
                for R in 'XYUS':
                    ok = v<=32767 or True
                    sv = v if v<32768 else v-65536
                    exp=lambda o,R=R,sv=sv: o[0]=='idx' and o[1]==R and ((o[2] in('off5','off8','off16') and o[3]==sv) or (o[2]=='zero' and sv==0)) and o[4]==False
                    check(mn,'%s,%s'%(txt,R),exp,cls,'n,R:'+tag+':'+vc)
                    exp=lambda o,R=R,sv=sv: o[0]=='idx' and o[1]==R and ((o[2] in('off8','off16') and o[3]==sv) or (o[2]=='zero' and sv==0)) and o[4]==True
                    check(mn,'[%s,%s]'%(txt,R),exp,cls,'[n,R]:'+tag+':'+vc)
                exp=lambda o,v=v: o[0]=='pcr' and (o[2]-v)%65536==0 and o[3]==False and (o[1]==16 or -128<=o[2]<=127)
                check(mn,'%s,PCR'%txt,exp,cls,'n,PCR:'+tag+':'+vc)
                exp=lambda o,v=v: o[0]=='pcr' and (o[2]-v)%65536==0 and o[3]==True
                check(mn,'[%s,PCR]'%txt,exp,cls,'[n,PCR]:'+tag+':'+vc)
for k in sorted(res):
    if k[2] in('ok','ok-reject'): continue
    print(k, len(res[k]), res[k][:3])
print('--- ok counts', sum(len(v) for k,v in res.items() if k[2] in('ok','ok-reject')), 'bad', sum(len(v) for k,v in res.items() if k[2] not in('ok','ok-reject')))
