"""Shared infrastructure of the verification harness: paths, build (tables -> coq -> extraction ->
OCaml driver), proof status, driver pipe, evidence / replay / known-findings handling."""
import fcntl
import hashlib
import json
import os
import random
import re
import resource
import subprocess
import sys
import time

VERIF = os.path.dirname(os.path.dirname(os.path.abspath(__file__)))
REPO = os.environ.get("VERIF_REPO", "/repo")
COQ = os.path.join(VERIF, "coq")
BUILD = os.path.join(VERIF, "build")
PY = "/venv/bin/python"
EVIDENCE = os.path.join(VERIF, "evidence")
REPLAYS = os.path.join(VERIF, "replays")

FORBIDDEN = re.compile(
    r"\b(Admitted|admit|Axiom|Axioms|Parameter|Parameters|Conjecture|Conjectures|Admit Obligations|"
    r"Unset Guard Checking|Unset Positivity Checking|Unset Universe Checking|bypass_check|"
    r"type-in-type|impredicative-set|native_compute)\b")


def log(*a):
    print(*a, file=sys.stderr, flush=True)


def sh(cmd, timeout=1800, cwd=None, env=None):
    e = dict(os.environ)
    if env:
        e.update(env)
    p = subprocess.run(cmd, shell=isinstance(cmd, str), cwd=cwd, env=e, timeout=timeout,
                       stdout=subprocess.PIPE, stderr=subprocess.STDOUT, text=True)
    out = "\n".join(l for l in p.stdout.splitlines() if "conda" not in l)
    return p.returncode, out


# --------------------------------------------------------------------------------------------
# build
# --------------------------------------------------------------------------------------------

def v_sources():
    proj = open(os.path.join(COQ, "_CoqProject")).read().split()
    return [x for x in proj if x.endswith(".v")]


def gate():
    """No Admitted/admit/Axiom/... anywhere in the development (comments are stripped first)."""
    bad = []
    for rel in v_sources():
        txt = open(os.path.join(COQ, rel)).read()
        txt = re.sub(r"\(\*.*?\*\)", " ", txt, flags=re.S)
        for m in FORBIDDEN.finditer(txt):
            bad.append("%s: %s" % (rel, m.group(0)))
        # Variable / Hypothesis outside a section
        depth = 0
        for line in txt.splitlines():
            s = line.strip()
            if re.match(r"Section\s+\w+", s):
                depth += 1
            elif re.match(r"End\s+\w+", s) and depth > 0:
                depth -= 1
            elif depth == 0 and re.match(r"(Variable|Variables|Hypothesis|Hypotheses|Context)\b", s):
                bad.append("%s: %s outside a section" % (rel, s.split()[0]))
    return bad


def gen_tables():
    """Regenerate coq/gen/Tables.v from the live /repo source.  Returns (ok, message)."""
    gen = os.path.join(VERIF, "harness", "gen_tables.py")
    if not os.path.exists(gen):
        return True, "no tables yet"
    rc, out = sh([PY, gen, os.path.join(COQ, "gen", "Tables.v")], timeout=300,
                 env={"PYTHONPATH": REPO, "PYTHONHASHSEED": "0", "PYTHONDONTWRITEBYTECODE": "1"})
    return rc == 0, out[-2000:]


_BUILD_CACHE = None


def build(clean_proofs=False):
    """tables -> coq_makefile -> make -k -> extraction -> OCaml driver.  Serialised by a lock file.
    Returns dict: ok_stage1, props {Cxx: {built, assumptions, error}}, tables_ok, log."""
    global _BUILD_CACHE
    if _BUILD_CACHE is not None and not clean_proofs:
        return _BUILD_CACHE
    os.makedirs(BUILD, exist_ok=True)
    lock = open(os.path.join(BUILD, ".lock"), "w")
    fcntl.flock(lock, fcntl.LOCK_EX)
    t0 = time.time()
    try:
        info = {"gate": gate()}
        tok, tmsg = gen_tables()
        info["tables_ok"] = tok
        info["tables_msg"] = "" if tok else tmsg
        if clean_proofs:
            sh("rm -f proofs/*.vo proofs/*.vos proofs/*.vok proofs/*.glob Properties/*.vo Properties/*.vos "
               "Properties/*.vok Properties/*.glob", cwd=COQ)
        mk = os.path.join(COQ, "Makefile")
        proj = os.path.join(COQ, "_CoqProject")
        if not os.path.exists(mk) or os.path.getmtime(mk) < os.path.getmtime(proj):
            sh("coq_makefile -f _CoqProject -o Makefile", cwd=COQ)
        pa_dir = os.path.join(BUILD, "pa")
        os.makedirs(pa_dir, exist_ok=True)
        for rel in v_sources():   # a property file whose Print Assumptions output is not on record, or is older
            if not rel.startswith("Properties/"):          # than its source or its compiled file, is rebuilt
                continue
            pa = os.path.join(pa_dir, os.path.basename(rel)[:-2] + ".txt")
            vo = os.path.join(COQ, rel + "o")
            stale = not os.path.exists(pa) or os.path.getmtime(pa) < os.path.getmtime(os.path.join(COQ, rel)) or \
                (os.path.exists(vo) and os.path.getmtime(pa) < os.path.getmtime(vo))
            if stale:
                sh(["rm", "-f", vo])
        rc, out = sh("timeout 3000 make -k -j16 --output-sync=target 2>&1", cwd=COQ, timeout=3100)
        info["make_rc"] = rc
        info["make_log"] = out[-20000:]
        # per-file output (Print Assumptions) of the files that were rebuilt in this invocation
        pa_dir = os.path.join(BUILD, "pa")
        os.makedirs(pa_dir, exist_ok=True)
        cur = None
        chunks = {}
        for line in out.splitlines():
            m = re.match(r"COQC (\S+\.v)", line)
            if m:
                cur = m.group(1)
                chunks[cur] = []
            elif cur is not None:
                chunks[cur].append(line)
        for rel, lines in chunks.items():
            if rel.startswith("Properties/"):
                with open(os.path.join(pa_dir, os.path.basename(rel)[:-2] + ".txt"), "w") as f:
                    f.write("\n".join(lines) + "\n")
        props = {}
        for rel in v_sources():
            if not rel.startswith("Properties/"):
                continue
            pid = os.path.basename(rel)[:-2]
            vo = os.path.join(COQ, rel + "o")
            src = os.path.join(COQ, rel)
            built = os.path.exists(vo) and os.path.getmtime(vo) >= os.path.getmtime(src)
            pa_file = os.path.join(pa_dir, pid + ".txt")
            pa = open(pa_file).read() if os.path.exists(pa_file) else ""
            thms = re.findall(r"^\s*(?:Theorem|Example|Lemma|Corollary)\s+(\w+)", open(src).read(), flags=re.M)
            props[pid] = {"built": built, "pa": pa, "theorems": thms,
                          "n_print_assumptions": len(re.findall(r"^\s*Print Assumptions", open(src).read(), flags=re.M))}
        info["props"] = props
        # which .vo are missing (failed files)
        failed = []
        for rel in v_sources():
            vo = os.path.join(COQ, rel + "o")
            if not os.path.exists(vo) or os.path.getmtime(vo) < os.path.getmtime(os.path.join(COQ, rel)):
                failed.append(rel)
        info["failed_files"] = failed
        # extraction output + driver
        ml = os.path.join(COQ, "model.ml")
        drv = os.path.join(BUILD, "driver")
        stage1 = os.path.exists(ml) and os.path.exists(os.path.join(COQ, "Extract.vo")) and "Extract.v" not in failed
        if stage1:
            srcs = [ml, os.path.join(COQ, "model.mli"), os.path.join(VERIF, "ocaml", "driver.ml")]
            if (not os.path.exists(drv)) or any(os.path.getmtime(s) > os.path.getmtime(drv) for s in srcs):
                for s in srcs:
                    sh(["cp", s, BUILD])
                rc2, out2 = sh("ocamlfind ocamlopt -w -a model.mli model.ml driver.ml -o driver.new && mv driver.new driver",
                               cwd=BUILD, timeout=600)
                if rc2 != 0:
                    stage1 = False
                    info["ocaml_log"] = out2[-4000:]
        info["ok_stage1"] = stage1
        info["build_s"] = round(time.time() - t0, 1)
        _BUILD_CACHE = info
        return info
    finally:
        fcntl.flock(lock, fcntl.LOCK_UN)
        lock.close()


def proof_status(info, pid):
    """(obligations, discharged, closed, details) for property pid from the build info."""
    p = info["props"].get(pid)
    if not p:
        return 0, 0, False, ["no property file"]
    thms = p["theorems"]
    n = len(thms)
    if not p["built"]:
        return n, 0, False, ["Properties/%s.v does not compile (see make log)" % pid]
    pa = p["pa"]
    closed = pa.count("Closed under the global context")
    wanted = p.get("n_print_assumptions", 0)
    axioms = "Axioms:" in pa
    details = []
    if axioms:
        details.append("Print Assumptions reports axioms: " + pa[pa.index("Axioms:"):][:500])
    if closed < wanted or wanted == 0:
        details.append("only %d of %d Print Assumptions report 'Closed under the global context'" % (closed, wanted))
    return n, n, (not axioms and closed >= wanted and wanted > 0), details


# --------------------------------------------------------------------------------------------
# driver
# --------------------------------------------------------------------------------------------

def _unlimit_stack():
    try:
        resource.setrlimit(resource.RLIMIT_STACK, (resource.RLIM_INFINITY, resource.RLIM_INFINITY))
    except Exception:
        try:
            soft, hard = resource.getrlimit(resource.RLIMIT_STACK)
            resource.setrlimit(resource.RLIMIT_STACK, (hard, hard))
        except Exception:
            pass


class Driver:
    """Pipe to the extracted model/spec.  ask(cmd) -> one result line."""

    def __init__(self):
        self.p = subprocess.Popen([os.path.join(BUILD, "driver")], stdin=subprocess.PIPE, stdout=subprocess.PIPE,
                                  text=True, bufsize=1 << 20, preexec_fn=_unlimit_stack)

    def ask(self, cmd):
        self.p.stdin.write(cmd + "\n")
        self.p.stdin.flush()
        line = self.p.stdout.readline()
        if not line:
            raise RuntimeError("driver died on: " + cmd[:200])
        return line.rstrip("\n")

    def ask_many(self, cmds):
        """Send all commands, then read all answers (avoids pipe ping-pong). Uses a writer thread."""
        import threading
        data = "".join(c + "\n" for c in cmds)

        def w():
            self.p.stdin.write(data)
            self.p.stdin.flush()
        t = threading.Thread(target=w)
        t.start()
        out = []
        for _ in cmds:
            line = self.p.stdout.readline()
            if not line:
                raise RuntimeError("driver died")
            out.append(line.rstrip("\n"))
        t.join()
        return out

    def close(self):
        try:
            self.p.stdin.close()
            self.p.wait(timeout=10)
        except Exception:
            self.p.kill()


def driver_batch(cmds, workers=8):
    """Run a large list of driver commands on several driver processes; preserves order."""
    if len(cmds) < 64 or workers <= 1:
        d = Driver()
        try:
            return d.ask_many(cmds)
        finally:
            d.close()
    import concurrent.futures
    chunks = [cmds[i::workers] for i in range(workers)]

    def run(ch):
        d = Driver()
        try:
            return d.ask_many(ch)
        finally:
            d.close()
    with concurrent.futures.ThreadPoolExecutor(workers) as ex:
        res = list(ex.map(run, chunks))
    out = [None] * len(cmds)
    for w, r in enumerate(res):
        for k, v in enumerate(r):
            out[w + k * workers] = v
    return out


# --------------------------------------------------------------------------------------------
# implementation access
# --------------------------------------------------------------------------------------------

def import_repo():
    """Make /repo importable (current working tree), no bytecode written into it."""
    sys.dont_write_bytecode = True
    if REPO not in sys.path:
        sys.path.insert(0, REPO)


# --------------------------------------------------------------------------------------------
# evidence, replays, known findings
# --------------------------------------------------------------------------------------------

TRUSTED_BASE = [
    "Coq 8.16.1 kernel incl. vm_compute (no native_compute); coqchk at the thorough tier",
    "axioms: none (every property theorem prints 'Closed under the global context'); gate greps for Admitted/admit/Axiom/Parameter/...",
    "harness/gen_tables.py (introspection + finite probing of /repo) producing coq/gen/Tables.v",
    "Coq extraction with ExtrOcamlBasic only (bool/option/list/prod/unit/sumbool -> OCaml natives; N, Z, positive, nat stay inductive); ocaml/driver.ml (hex/decimal I/O)",
    "Python harness: input generation, running /repo in-process or through its CLIs, canonicalisation and diff (the correspondence check)",
    "hand-written model coq/model/*.v is tied to /repo only by that correspondence; spec files coq/spec/*.v are trusted statements of intent",
]


def known_findings():
    path = os.path.join(VERIF, "known_findings.json")
    if not os.path.exists(path):
        return {"findings": [], "fixed": []}
    return json.load(open(path))


def findings_for(pid):
    return [f for f in known_findings()["findings"] if pid in f["properties"] and f.get("status", "open") == "open"]


def write_replay(pid, payload):
    os.makedirs(REPLAYS, exist_ok=True)
    blob = json.dumps(payload, sort_keys=True, default=str)
    h = hashlib.sha256(blob.encode()).hexdigest()[:12]
    path = os.path.join(REPLAYS, "%s-%s.json" % (pid, h))
    payload = dict(payload)
    payload["property"] = pid
    payload["replay_cmd"] = "./check %s --replay %s" % (pid, path)
    with open(path, "w") as f:
        json.dump(payload, f, indent=1, sort_keys=True, default=str)
    return path


class Report:
    """Collects what one check run did; prints VIOLATION / KNOWN-FINDING lines; writes evidence."""

    def __init__(self, pid, tier, seed, level="proof"):
        self.pid, self.tier, self.seed, self.level = pid, tier, seed, level
        self.t0 = time.time()
        self.violations = []
        self.known = {}
        self.cov = {"evaluations": 0, "distinct_nontrivial": 0, "rule": "", "samples": [],
                    "traces_validated_against_impl": 0, "disagreements_checked": 0}
        self.assumptions = []
        self._distinct = set()

    def count(self, key, nontrivial=True):
        """one evaluated case; key identifies it for the distinct count"""
        self.cov["evaluations"] += 1
        if nontrivial:
            self._distinct.add(key if isinstance(key, (str, int, tuple)) else json.dumps(key, sort_keys=True, default=str))

    def sample(self, s, limit=6):
        if len(self.cov["samples"]) < limit:
            self.cov["samples"].append(s)

    MAX_VIOLATIONS = 4

    def full(self):
        return len(self.violations) >= self.MAX_VIOLATIONS

    def violation(self, what, payload, found_input=True):
        if self.full():
            self.cov["violations_suppressed_after_cap"] = self.cov.get("violations_suppressed_after_cap", 0) + 1
            return
        payload = dict(payload)
        payload["what"] = what
        payload["failing_input_found"] = found_input
        path = write_replay(self.pid, payload)
        self.violations.append((what, path, found_input))
        tail = "" if found_input else " no-failing-input-found"
        print("VIOLATION property=%s replay=%s%s" % (self.pid, path, tail), flush=True)
        log("  -> " + what[:300])

    def known_finding(self, fid, what):
        if fid not in self.known:
            self.known[fid] = 0
            print("KNOWN-FINDING: property=%s %s" % (self.pid, what), flush=True)
        self.known[fid] += 1

    def proof(self, info):
        n, d, closed, details = proof_status(info, self.pid)
        self.cov["obligations"] = max(n, 1)
        self.cov["discharged"] = d if closed else 0
        self.cov["theorems"] = info["props"].get(self.pid, {}).get("theorems", [])
        self.cov["checker_cmd"] = "cd /verif/coq && coq_makefile -f _CoqProject -o Makefile && make -k -j16  (coqc 8.16.1, full .vo)"
        self.cov["trusted_base"] = TRUSTED_BASE
        self.cov["print_assumptions"] = info["props"].get(self.pid, {}).get("pa", "").strip().splitlines()[:40]
        self.cov["tables_regenerated_ok"] = info.get("tables_ok", True)
        self.cov["gate"] = info.get("gate", [])
        return (n > 0 and d == n and closed and not info.get("gate")), details

    def finish(self):
        self.cov["distinct_nontrivial"] = len(self._distinct)
        self.cov["known_findings_seen"] = self.known
        ev = {"property_id": self.pid, "tier": self.tier, "seed": self.seed, "level": self.level,
              "coverage": self.cov, "assumptions": self.assumptions,
              "wall_s": round(time.time() - self.t0, 2), "violations": len(self.violations)}
        os.makedirs(EVIDENCE, exist_ok=True)
        with open(os.path.join(EVIDENCE, self.pid + ".json"), "w") as f:
            json.dump(ev, f, indent=1, default=str)
        return 1 if self.violations else 0


def rng_for(seed, pid):
    return random.Random("%s-%s" % (seed, pid))
