"""Known-finding classes for the assembler properties: tight, decidable predicates over a generated case
(its source lines and the generator's description of it).  A failing case is suppressed only when it lies
in a class listed (open) in known_findings.json for the property AND the implementation's output equals the
model's prediction (checked by the caller)."""
import json
import os

import common


class Known:
    def __init__(self, pid):
        self.pid = pid
        self.entries = {f["id"]: f for f in common.findings_for(pid)}

    def witness_cases(self):
        for fid, f in self.entries.items():
            for w in f.get("witnesses", []):
                if w.get("kind") == "asm":
                    yield (w["lines"], dict(w.get("desc", {}), witness=fid))

    def describe(self, cls):
        f = self.entries[cls]
        w = next((w for w in f.get("witnesses", []) if w.get("kind") == "asm"), None)
        return "%s [%s] witness %s" % (f["class"], f["site"], "".join(w["lines"]).strip().replace("\n", " / ") if w else "")

    def classify(self, lines, desc, obs):
        for fid in self.entries:
            pred = PREDICATES.get(fid)
            if pred is not None and pred(lines, desc, obs):
                return fid
        return None


PREDICATES = {}
