"""Known-finding classes for the assembler properties: tight, decidable predicates over a generated case
(its source lines and the generator's description of it).  A failing case is suppressed only when it lies
in a class listed (open) in known_findings.json for the property AND the implementation's output equals the
model's prediction (checked by the caller)."""
import json
import os

import common


class Known:
    def __init__(self, pid):
        self.pid = pid
        self.entries = {f["id"]: f for f in common.findings_for(pid)}

    def witness_cases(self):
        for fid, f in self.entries.items():
            for w in f.get("witnesses", []):
                if w.get("kind") == "asm":
                    yield (w["lines"], dict(w.get("desc", {}), witness=fid))

    def describe(self, cls):
        f = self.entries[cls]
        w = next((w for w in f.get("witnesses", []) if w.get("kind") == "asm"), None)
        return "%s [%s] witness %s" % (f["class"], f["site"], "".join(w["lines"]).strip().replace("\n", " / ") if w else "")

    def classify(self, lines, desc, obs, k=None):
        """class of the failure at statement k (None / -1: the program as a whole)"""
        if desc.get("kind") == "fuzz":
            c = classify_fuzz(self.entries, lines, desc, obs)
            if c is not None:
                return c
        d = desc
        if desc.get("kind") in ("prog", "branch", "pcr", "pcr-multi", "mut", "random", "edge", "pcr-family", "include") and k is not None and k >= 0:
            d = describe_stmt(lines, k, obs) or desc
        if k == -1:
            d = dict(desc, _whole=True)
        for fid in self.entries:
            pred = PREDICATES.get(fid)
            if pred is not None and pred(lines, d, obs):
                return fid
        return None


PREDICATES = {}


# --------------------------------------------------------------------------------------------------
# predicates.  desc comes from the generators (asmgen): kind grid/label/special/fuzz/prog, form, value, spelling
# --------------------------------------------------------------------------------------------------
import re

STMT_RE = re.compile(r"^([\w@]*)\s+(\w+)\s+(\S*)")


def statements(lines):
    """(label, MNEMONIC, operand) of every non-blank, non-comment line"""
    out = []
    for l in lines:
        if not l.strip() or l.lstrip().startswith(";"):
            continue
        m = STMT_RE.match(l if l.endswith("\n") else l + "\n")
        if m:
            out.append((m.group(1), m.group(2).upper(), m.group(3)))
    return out


def symbol_kinds(lines):
    labels, equs = set(), set()
    for lb, mn, op in statements(lines):
        if lb:
            (equs if mn == "EQU" else labels).add(lb)
    return labels, equs


def form0(desc):
    return desc.get("form", "").split(",")[0]


def small_spelling(desc):
    """spellings whose NumericValue gets size_hint 2 / DIRECT, or which resolve through an EQU symbol below 256"""
    sp, v = desc.get("spelling"), desc.get("value")
    if v is None or not 0 <= v < 256:
        return False
    return sp in ("hex2", "bin8", "equ-dec", "equ-hex4") or (sp == "hexn" and len("%X" % v) == 2) or sp == "chr"


def is16(desc):
    import asmlib
    ins = next((x for x in asmlib.table() if x.mnemonic == desc.get("mn")), None)
    return bool(ins and ins.is_16_bit)


def p_label_as_index_offset(lines, desc, obs):
    if desc.get("kind") == "label":
        return form0(desc) in ("idxv", "iidxv")
    labels, _ = symbol_kinds(lines)
    for lb, mn, op in statements(lines):
        m = re.match(r"^\[?([$%]*\w+)(?:[+\-*/]([$%]*\w+))?,([^\]]*)\]?$", op)
        if m and (m.group(1) in labels or m.group(2) in labels) and "PCR" not in m.group(3):
            return True
    return False


def p_numeric_pcr(lines, desc, obs):
    if desc.get("kind") in ("grid",):
        return form0(desc) in ("pcr", "ipcr")
    labels, _ = symbol_kinds(lines)
    for lb, mn, op in statements(lines):
        m = re.match(r"^\[?([^,\[\]]*),[^\]]*PCR[^\]]*\]?$", op)
        if m:
            left = re.split(r"[+\-*/]", m.group(1))
            if not any(x in labels for x in left):
                return True
    return False


def p_low_address_label(lines, desc, obs):
    if desc.get("kind") == "label":
        if form0(desc) not in ("plain", "dir", "ext", "extind", "imm"):
            return False
        if obs[0] != "OK":
            return False
        k = desc["stmt"]
        val = obs[4][k - 1][0] if desc["spelling"] == "label-before" else obs[4][k + 1][0]
        return val < 256
    return False


def p_imm16_one_byte(lines, desc, obs):
    return desc.get("kind") == "grid" and form0(desc) == "imm" and desc.get("spelling", "").startswith("equ") and \
        0 <= desc.get("value", -1) < 256


def p_forced_extended_short_spelling(lines, desc, obs):
    return desc.get("kind") == "grid" and form0(desc) == "ext" and small_spelling(desc)


def p_indirect_address_one_byte(lines, desc, obs):
    return desc.get("kind") == "grid" and form0(desc) == "extind" and small_spelling(desc)


PREDICATES.update({
    "label_as_index_offset": p_label_as_index_offset,
    "numeric_pcr": p_numeric_pcr,
    "low_address_label": p_low_address_label,
    "imm16_one_byte": p_imm16_one_byte,
    "forced_extended_short_spelling": p_forced_extended_short_spelling,
    "indirect_address_one_byte": p_indirect_address_one_byte,
})


def p_forced_direct_out_of_range(lines, desc, obs):
    if desc.get("kind") == "grid" and form0(desc) == "dir":
        v = desc.get("value")
        return v is not None and not 0 <= v <= 255
    return False


def imm_is_16(desc):
    import asmlib
    ins = next((x for x in asmlib.table() if x.mnemonic == desc.get("mn")), None)
    return bool(ins and ins.mode.imm_sz - (2 if ins.mode.imm is not None and ins.mode.imm > 255 else 1) == 2)


def p_imm8_out_of_range(lines, desc, obs):
    if desc.get("kind") in ("grid", "label") and form0(desc) == "imm" and not imm_is_16(desc):
        v = desc.get("value")
        if desc.get("kind") == "label":
            return True           # a label (16-bit address) as an 8-bit immediate
        return v is not None and not -128 <= v <= 255
    return False


PREDICATES.update({"forced_direct_out_of_range": p_forced_direct_out_of_range, "imm8_out_of_range": p_imm8_out_of_range})


def p_forced_direct_label(lines, desc, obs):
    return desc.get("kind") == "label" and form0(desc) == "dir"


EXPR_RE = re.compile(r"^[#<>\[]*([$]*\w+)[+\-*/]([$]*\w+)")


def p_expression_width(lines, desc, obs):
    """an operand that is a two-term expression none of whose terms is a label (constants / EQU symbols only)"""
    labels, _ = symbol_kinds(lines)
    for lb, mn, op in statements(lines):
        m = EXPR_RE.match(op)
        if m and m.group(1) not in labels and m.group(2) not in labels:
            return True
    return False


PREDICATES.update({"forced_direct_label": p_forced_direct_label, "expression_width": p_expression_width})


# ---- deriving a description from raw operand text (fuzzed operands) ----
LIT_RE = re.compile(r"^(?:(\d+)|-(\d+)|\$([0-9A-Fa-f]{1,4})|%([01]{8}|[01]{16})|'(.))$")


def literal(txt):
    """(value, spelling) of a numeric literal, or None"""
    m = LIT_RE.match(txt)
    if not m:
        return None
    if m.group(1) is not None:
        return (int(m.group(1)), "dec") if int(m.group(1)) <= 65535 else None
    if m.group(2) is not None:
        return (-int(m.group(2)), "neg") if int(m.group(2)) <= 32768 else None
    if m.group(3) is not None:
        h = m.group(3)
        return (int(h, 16), {2: "hex2", 4: "hex4", 3: "hex3"}.get(len(h), "hexn"))
    if m.group(4) is not None:
        return (int(m.group(4), 2), "bin8" if len(m.group(4)) == 8 else "bin16")
    return (ord(m.group(5)), "chr")


def describe_operand(mn, op):
    """a grid-style description of a raw operand text when it has one of the grid's shapes, else None"""
    d = {"kind": "grid", "mn": mn}
    shapes = [("imm", r"^#(.+)$"), ("dir", r"^<(.+)$"), ("ext", r"^>(.+)$"), ("extind", r"^\[([^,\]]+)\]$"),
              ("ipcr", r"^\[([^,\]]+),PCR\]$"), ("pcr", r"^([^,\[\]]+),PCR$"), ("plain", r"^([^,\[\]#<>]+)$")]
    for f, rx in shapes:
        m = re.match(rx, op)
        if m:
            lit = literal(m.group(1))
            if lit is None:
                return None
            d.update(form=f, value=lit[0], spelling=lit[1])
            return d
    return None


def classify_fuzz(pid_entries, lines, desc, obs):
    d = describe_operand(desc.get("mn"), (desc.get("operand", "").split() or [""])[0])
    if d is None:
        return None
    for fid in pid_entries:
        pred = PREDICATES.get(fid)
        if pred is not None and pred(lines, d, obs):
            return fid
    return None


def describe_stmt(lines, k, obs):
    """grid/label-style description of statement k of a program, from its text (and the symbol values of obs)"""
    st = statements(lines)
    if k >= len(st):
        return None
    lb, mn, op = st[k]
    labels, equs = symbol_kinds(lines)
    d = describe_operand(mn, op)
    if d is not None:
        d["stmt"] = k
        return d
    symd = {}
    if obs[0] == "OK":
        symd = {n: (int(h, 16) if h else None) for n, h in obs[5]}
    for f, rx in [("imm", r"^#([A-Za-z0-9@]+)$"), ("dir", r"^<([A-Za-z0-9@]+)$"), ("ext", r"^>([A-Za-z0-9@]+)$"),
                  ("extind", r"^\[([A-Za-z0-9@]+)\]$"), ("plain", r"^([A-Za-z0-9@]+)$")]:
        m = re.match(rx, op)
        if m and m.group(1) in labels:
            return {"kind": "label-ref", "mn": mn, "form": f, "value": symd.get(m.group(1)), "stmt": k, "spelling": "label"}
        if m and m.group(1) in equs:
            return {"kind": "grid", "mn": mn, "form": f, "value": symd.get(m.group(1)), "stmt": k, "spelling": "equ-dec"}
    return {"kind": "stmt", "mn": mn, "operand": op, "stmt": k}


def p_noncontiguous_origin(lines, desc, obs):
    if not desc.get("_whole"):
        return False
    st = statements(lines)
    orgs = [k for k, (lb, mn, op) in enumerate(st) if mn == "ORG"]
    emitting_before = any(mn not in ("ORG", "NAM", "EQU", "SETDP", "END") for lb, mn, op in st[:orgs[0]]) if orgs else False
    return len(orgs) > 1 or emitting_before


PREDICATES["noncontiguous_origin"] = p_noncontiguous_origin
_old_low = p_low_address_label


def p_low_address_label2(lines, desc, obs):
    if desc.get("kind") == "label-ref":
        return desc.get("form") in ("plain", "dir", "ext", "extind", "imm") and desc.get("value") is not None and desc["value"] < 256
    return _old_low(lines, desc, obs)


_old_imm8 = p_imm8_out_of_range


def p_imm8_out_of_range2(lines, desc, obs):
    if desc.get("kind") == "label-ref":
        return desc.get("form") == "imm" and not imm_is_16(desc)
    return _old_imm8(lines, desc, obs)


_old_fdl = p_forced_direct_label


def p_forced_direct_label2(lines, desc, obs):
    if desc.get("kind") == "label-ref":
        return desc.get("form") == "dir"
    return _old_fdl(lines, desc, obs)


PREDICATES.update({"low_address_label": p_low_address_label2, "imm8_out_of_range": p_imm8_out_of_range2, "forced_direct_label": p_forced_direct_label2})


def p_address_expression_below_zero(lines, desc, obs):
    """label-k (as a PCR target or an absolute operand) where the label's address is smaller than k"""
    if obs[0] != "OK":
        return False
    symd = {n: (int(h, 16) if h else None) for n, h in obs[5]}
    st = statements(lines)
    k = desc.get("stmt")
    cand = [st[k]] if isinstance(k, int) and 0 <= k < len(st) else st
    for lb, mn, op in cand:
        m = re.match(r"^[#<>\[]*([A-Za-z][A-Za-z0-9@]*)-(\d+)", op)
        if m and symd.get(m.group(1)) is not None and symd[m.group(1)] < int(m.group(2)):
            return True
    return False


PREDICATES["address_expression_below_zero"] = p_address_expression_below_zero


def p_symbol_in_data(lines, desc, obs):
    if desc.get("kind") == "data":
        return bool(desc.get("has_symbol"))
    labels, equs = symbol_kinds(lines)
    for lb, mn, op in statements(lines):
        if mn in ("FCB", "FDB") and (any(t in labels or t in equs for t in re.split(r"[,+\-*/]", op))
                                     or re.match(r"^[$%]*\w+[+\-*/][$%]*\w+$", op)):
            return True
    return False


def p_data_value_width(lines, desc, obs):
    """FCB/FDB: a single negative value, or any value outside the directive's range"""
    if desc.get("kind") != "data" or desc.get("has_symbol"):
        return False
    lo, hi = (-128, 255) if desc.get("mn") == "FCB" else (-32768, 65535)
    vals = desc.get("vals", [])
    if any(not lo <= v <= hi for v in vals):
        return True
    return bool(desc.get("single")) and any(v < 0 for v in vals)


def p_symbol_in_data_list(lines, desc, obs):
    """an FCB/FDB LIST (two or more elements) one of whose elements is a symbol or an expression"""
    st = statements(lines)
    k = desc.get("stmt")
    if isinstance(k, int) and 0 <= k < len(st) and st[k][1] in ("FCB", "FDB"):
        st = [st[k]]
    for lb, mn, op in st:
        if mn in ("FCB", "FDB") and "," in op:
            if any(e != "" and literal(e) is None for e in op.split(",")):
                return True
    return False


PREDICATES.update({"symbol_in_data": p_symbol_in_data, "data_value_width": p_data_value_width,
                   "symbol_in_data_list": p_symbol_in_data_list})


# ---- C04: the expression positions / operand kinds on which the unchanged tree fails (committed table) ----
def c04_key(desc):
    """(position, operand kinds, operator, literal spelling class, result class)"""
    et = desc.get("etxt", "")
    sp = "bin" if "%" in et else "plain"
    terms = desc.get("terms", [])
    small = all(t[0] == "label" or t[-1] < 256 for t in terms)
    res = "divzero" if desc.get("divzero") else ("mayreject" if desc.get("may_reject") else "inrange")
    return "|".join([desc.get("pos", ""), ",".join(desc.get("kinds", ())), desc.get("op") or "", sp, "small" if small else "big", res])


def p_expr_valued_equ(lines, desc, obs):
    """the program has an EQU whose operand is not a plain numeric literal"""
    for lb, mn, op in statements(lines):
        if mn == "EQU" and literal(op) is None:
            return True
    return False


def p_indirect_label_expr(lines, desc, obs):
    labels, _ = symbol_kinds(lines)
    for lb, mn, op in statements(lines):
        m = re.match(r"^\[([$%]*\w+)[+\-*/]([$%]*\w+)\]$", op)
        if m and (m.group(1) in labels or m.group(2) in labels):
            return True
    return False


PREDICATES.update({"expr_valued_equ": p_expr_valued_equ, "indirect_label_expr": p_indirect_label_expr})
