"""C09 (adding / appending never disturbs stored files; image kind recognised on re-open),
C10 (an existing target is never modified unless append applies), C11 (the saved image holds the assembled
program at its origin under its name), C16 (file_util conversions carry every selected file across).

The REAL CLIs (/repo/assembler.py, /repo/file_util.py) are run in fresh temp directories; results are judged by
INDEPENDENT readers = the extracted spec parsers (SpecTape.parse, SpecDisk.fsck / SpecDisk.files) through the
driver; correspondence = the same invocation through the extracted model MVirtualFile (driver commands vfstore,
vfhist, futil, asmsave)."""
import concurrent.futures
import hashlib
import json
import os
import re
import queue
import shutil
import random
import subprocess
import tempfile
import threading

import common
import cassette as cas
import disk as dsk
from common import log

SIZE = 161280
PY = common.PY
CLI_ENV = {"PYTHONPATH": common.REPO, "PYTHONHASHSEED": "0", "PYTHONDONTWRITEBYTECODE": "1",
           "PATH": os.environ.get("PATH", "/usr/bin:/bin"), "LANG": "C.UTF-8"}
T0 = 10 ** 18            # mtime (ns) given to every file before a step: a rewrite with identical bytes is still seen
KINDS = ("bin", "cas", "dsk")
KF_EMPTY = "tape_empty_file"
KF_BIGTAPE = "tape_sniffed_as_disk"
POOL = 8


LOCK = threading.RLock()


def bump(rep, key):
    with LOCK:
        rep.cov[key] = rep.cov.get(key, 0) + 1


def hbump(hist, key):
    if hist is None:
        return
    with LOCK:
        hist[key] = hist.get(key, 0) + 1


class TSReport:
    """the Report shared by the worker threads: every mutating call under one lock"""

    def __init__(self, rep):
        object.__setattr__(self, "_r", rep)

    def __getattr__(self, n):
        a = getattr(self._r, n)
        if callable(a) and n in ("violation", "known_finding", "count", "sample", "full"):
            def locked(*x, **k):
                with LOCK:
                    return a(*x, **k)
            return locked
        return a

    def __setattr__(self, n, v):
        setattr(self._r, n, v)


def par_map(fn, items, rep):
    """fn(drv, item) over items on POOL worker threads, each with its own driver process; order preserved"""
    items = list(items)
    if not items:
        return []
    k = min(POOL, len(items))
    q = queue.Queue()
    drivers = [VDriver() for _ in range(k)]
    for d in drivers:
        q.put(d)

    def work(item):
        if rep.full():
            return None
        d = q.get()
        try:
            return fn(d, item)
        finally:
            q.put(d)
    try:
        with concurrent.futures.ThreadPoolExecutor(k) as ex:
            return list(ex.map(work, items))
    finally:
        for d in drivers:
            d.close()


class VDriver(common.Driver):
    def __init__(self):
        path = os.environ.get("VERIF_VF_DRIVER") or os.path.join(common.BUILD, "driver")
        self.p = subprocess.Popen([path], stdin=subprocess.PIPE, stdout=subprocess.PIPE, text=True, bufsize=1 << 20,
                                  preexec_fn=common._unlimit_stack)


def digest(x):
    return hashlib.sha256(json.dumps(x, sort_keys=True, default=str).encode()).hexdigest()


def hx(b):
    return bytes(b).hex() or "-"


def unhx(s):
    return b"" if s in ("-", "") else bytes.fromhex(s)


# a file everywhere in this module: (name:str, ext:str, type, dtype, load, exec, data:bytes)  — same text encoding as disk.py
enc_files = dsk.enc_files
dec_files = dsk.dec_files


def canon(name):
    """the comparison form of a name (PVirtualFile.canon): first 8 characters, upper-cased, NUL -> blank, blanks removed"""
    return name[:8].ljust(8).upper().replace("\0", " ").replace(" ", "")


def feq(a, b):
    """PVirtualFile.feq: name by canon, type / data type / data identical, addresses for machine-language files only"""
    return (canon(a[0]) == canon(b[0]) and a[2] == b[2] and a[3] == b[3] and a[6] == b[6]
            and (b[2] != 2 or (a[4] == b[4] and a[5] == b[5])))


def feq_lists(a, b):
    return len(a) == len(b) and all(feq(x, y) for x, y in zip(a, b))


# ---------------------------------------------------------------------------------------------
# independent readers (spec parsers through the driver)
# ---------------------------------------------------------------------------------------------

def spec_cas(drv, bs):
    r = drv.ask("casparse " + hx(bs))
    if not r.startswith("SOME"):
        return None
    return [(f[0], "", f[1], f[2], f[3], f[4], f[5]) for f in cas.dec_files(r[5:], True)]


def spec_dsk(drv, bs):
    if len(bs) != SIZE:
        return None
    if drv.ask("dskfsck " + hx(bs)) != "TRUE":
        return None
    r = drv.ask("dskfiles " + hx(bs))
    if not r.startswith("SOME"):
        return None
    return dec_files(r[5:])


def spec_files(drv, kind, bs):
    return spec_cas(drv, bs) if kind == "cas" else spec_dsk(drv, bs) if kind == "dsk" else None


def spec_kind(drv, bs):
    """what the content IS according to the format specifications: 'cas' | 'dsk' | 'raw'"""
    if spec_cas(drv, bs) is not None:
        return "cas"
    if spec_dsk(drv, bs) is not None:
        return "dsk"
    return "raw"


# ---------------------------------------------------------------------------------------------
# the implementation
# ---------------------------------------------------------------------------------------------

def cli(script, args, cwd, timeout=120):
    try:
        p = subprocess.run([PY, os.path.join(common.REPO, script)] + list(args), cwd=cwd, env=CLI_ENV, timeout=timeout,
                           stdout=subprocess.PIPE, stderr=subprocess.PIPE)
        return {"rc": p.returncode, "out": p.stdout.decode("latin-1"), "err": p.stderr.decode("latin-1")}
    except subprocess.TimeoutExpired:
        return {"rc": -9, "out": "", "err": "TIMEOUT"}


def impl_tape(files):
    return cas.impl_write([(f[0], f[2], f[3], f[4], f[5], f[6]) for f in files])


def impl_disk(files):
    steps = dsk.impl_add_steps(files, None)
    if len(steps) != len(files) or (steps and steps[-1][0] != "OK"):
        return None
    return steps[-1][1] if steps else bytes([0xFF]) * SIZE


def impl_image(kind, files):
    return impl_tape(files) if kind == "cas" else impl_disk(files)


def vf_classes():
    common.import_repo()
    from cocoasm.virtualfiles.virtual_file import VirtualFile, VirtualFileType
    from cocoasm.virtualfiles.source_file import SourceFile, SourceFileType
    from cocoasm.virtualfiles.coco_file import CoCoFile
    from cocoasm.values import NumericValue
    return VirtualFile, VirtualFileType, SourceFile, SourceFileType, CoCoFile, NumericValue


def assemble(src):
    """in-process: -> (name or None, origin int, image bytes) or None when the program does not assemble"""
    common.import_repo()
    from cocoasm.program import Program
    p = Program()
    try:
        p.process([l + "\n" for l in src.split("\n") if l != ""])
        img = bytes(p.get_binary_array())
    except Exception:  # noqa
        return None
    origin = int(getattr(p.origin, "int", 0) or 0)
    # the address the image was assembled for: the listing address of the first statement that emits a byte
    # (Program.origin must be that address; a load address taken from anywhere else misplaces the program)
    try:
        for st in p.get_statements():
            row = str(st)
            if row.startswith("$") and row[6:16].strip():
                origin = int(row[1:5], 16)
                break
    except Exception:  # noqa
        pass
    # the name the source gives the program: the operand of its (last) NAM statement, wherever it stands - read from the
    # source text, not from Program.name
    name = p.name
    try:
        import re as _re
        nams = [m.group(1) for m in (_re.match(r"^\S*\s+NAM\s+(\S+)", l, _re.I) for l in src.split("\n")) if m]
        if nams and name != nams[-1]:
            name = nams[-1]
    except Exception:  # noqa
        pass
    return name, origin, img


def mkdir():
    return tempfile.mkdtemp(prefix="vf-", dir="/tmp")


def snapshot(d):
    out = {}
    for n in sorted(os.listdir(d)):
        p = os.path.join(d, n)
        if os.path.isfile(p):
            with open(p, "rb") as f:
                out[n] = (f.read(), os.stat(p).st_mtime_ns)
    return out


def age(d):
    for n in os.listdir(d):
        os.utime(os.path.join(d, n), ns=(T0, T0))


def inv_args(inv):
    if inv["tool"] == "asm":
        a = [inv.get("prog", "p.asm")]
        for k in inv["kinds"]:
            a += ["--to_" + k, inv["targets"][k]]
        if inv.get("name"):
            a += ["--name", inv["name"]]
    else:
        a = [inv.get("src", "src.img")]
        for k in inv["kinds"]:
            a += ["--to_" + k, inv["targets"][k]]
        if inv.get("files"):
            a += ["--files"] + list(inv["files"])
        if inv.get("list"):
            a += ["--list"]
    if inv.get("append"):
        a.append("--append")
    return a


def run_case(case):
    """case = {"files": {name: hex}, "invs": [inv, ...]} -> list of observations (before, after, rc, out, err)"""
    d = mkdir()
    obs = []
    try:
        for n, h in case["files"].items():
            with open(os.path.join(d, n), "wb") as f:
                f.write(unhx(h))
        for inv in case["invs"]:
            age(d)
            before = snapshot(d)
            r = cli("assembler.py" if inv["tool"] == "asm" else "file_util.py", inv_args(inv), d)
            after = snapshot(d)
            r.update(before=before, after=after)
            obs.append(r)
    finally:
        shutil.rmtree(d, ignore_errors=True)
    return obs


def run_cases(cases):
    with concurrent.futures.ThreadPoolExecutor(POOL) as ex:
        return list(ex.map(run_case, cases))


# ---------------------------------------------------------------------------------------------
# the model on one invocation
# ---------------------------------------------------------------------------------------------

def fs_string(snap):
    return ";".join("%s=%s" % (n, hx(c[0])) for n, c in sorted(snap.items())) or "-"


def parse_fs(s):
    out = {}
    if s == "-":
        return out
    for kv in s.split(";"):
        k, v = kv.split("=")
        out[k] = None if v == "ABSENT" else unhx(v)
    return out


def model_inv(drv, inv, before, prog=None):
    """-> {"rc": int|None, "events": [...], "fs": {name: bytes|None}} or None when the model does not describe the case"""
    t = inv["targets"]
    sw = lambda k: t[k] if k in inv["kinds"] else "-"
    if inv["tool"] == "asm":
        name, origin, image = prog
        r = drv.ask("asmsave %s %s %s %s %s %d %s %d %s" % (
            fs_string(before), sw("bin"), sw("cas"), sw("dsk"), hx((inv.get("name") or "").encode("latin-1")),
            1 if inv.get("append") else 0, hx((name or "").encode("latin-1")), origin, hx(image)))
        if r.startswith("ERROR"):
            raise RuntimeError("driver: " + r[:200])
        ev, fs = r.split(" ")
        rc = None
    else:
        files = ",".join(hx(x.encode("latin-1")) for x in inv["files"]) if inv.get("files") else "-"
        r = drv.ask("futil %s %s %d %d %s %s %s %s" % (
            fs_string(before), inv.get("src", "src.img"), 1 if inv.get("append") else 0, 1 if inv.get("list") else 0,
            sw("bin"), sw("cas"), sw("dsk"), files))
        if r.startswith("ERROR"):
            raise RuntimeError("driver: " + r[:200])
        rc, ev, fs = r.split(" ")
        rc = int(rc)
    events = [] if ev == "-" else ev.split("|")
    # an Unmodelled step (non-ASCII stored name, buffer longer than a disk image) is a refusal in the model: the file
    # system it returns is still what the earlier steps wrote; messages / exit status are not compared then
    return {"rc": rc, "events": events, "fs": parse_fs(fs), "unmod": any("UNMOD" in e or "FUEL" in e for e in events)}


def out_events(tool, out):
    """the CLI's stdout as event classes comparable with the model's"""
    ev = []
    lines = [l for l in out.splitlines()]
    i = 0
    while i < len(lines):
        l = lines[i]
        m = re.match(r"-- File #(\d+) \[(.*)\] --$", l)
        if tool == "asm":
            m2 = re.match(r"Unable to save (binary|cassette|disk) file:$", l)
            m3 = re.match(r"No name for the program specified, not creating (cassette|disk) file$", l)
            if m2:
                ev.append("U" + {"binary": "bin", "cassette": "cas", "disk": "dsk"}[m2.group(1)])
                i += 1       # the error text follows
            elif m3:
                ev.append("N" + {"cassette": "cas", "disk": "dsk"}[m3.group(1)])
            elif l.strip():
                ev.append("?" + l[:40])
        else:
            if m:
                ev.append("F%s:%s" % (m.group(1), hx(m.group(2).encode("latin-1")).upper()))
            elif l.startswith("Saved to "):
                ev.append("S")
            elif l.startswith("More than one file exists"):
                ev.append("M")
            elif l.strip():
                ev.append("E")
        i += 1
    return ev


def model_event_classes(tool, events):
    out = []
    for e in events:
        if e[0] == "U":
            out.append("U" + e[1:4])
        elif e[0] == "N":
            out.append("N" + e[1:4])
        elif e[0] == "F":
            out.append(e)
        elif e[0] == "S":
            out.append("S")
        elif e[0] == "M":
            out.append("M")
        elif e[0] == "E":
            out.append("E")
        elif e[0] == "L":
            out.append("L")
    return out


# ---------------------------------------------------------------------------------------------
# judging one save (C10 rule + completeness), shared by C10 / C09 / C16 / C11
# ---------------------------------------------------------------------------------------------

def open_findings(pid):
    return {f["id"] for f in common.findings_for(pid)}


def judge_step(pid, drv, rep, inv, ob, newfiles, payload, prog=None, hist=None, empty_src=False):
    """The C10 clauses for every target of one CLI invocation, plus model correspondence.
    newfiles: {kind: [files expected to be added]}.  Returns True when nothing new was found."""
    ok = True
    before, after = ob["before"], ob["after"]
    kf = open_findings(pid)
    tool = inv["tool"]
    if ob["rc"] == -9:
        rep.violation("CLI timed out", dict(payload, kind="case"))
        return False
    if "Traceback" in ob["err"]:
        rep.violation("CLI ended in a traceback: " + ob["err"].strip().splitlines()[-1][:200], dict(payload, kind="case", stderr=ob["err"][-2000:]))
        return False
    targets = {inv["targets"][k]: k for k in inv["kinds"]}
    # nothing but the targets may change
    for n in set(before) | set(after):
        if n in targets:
            continue
        if n not in after or n not in before or after[n] != before[n]:
            rep.violation("a file that is not an output target changed: %s" % n, dict(payload, kind="case"))
            return False
    model = None
    try:
        model = model_inv(drv, inv, before, prog)
    except Exception as e:  # noqa
        rep.violation("model driver failed: %s" % e, dict(payload, kind="case"), found_input=False)
        return False
    bump(rep, "traces_validated_against_impl")
    unmod = model["unmod"]
    if unmod:
        bump(rep, "unmodelled")
    for tgt, kind in targets.items():
        old = before[tgt][0] if tgt in before else None
        new = after[tgt][0] if tgt in after else None
        written = (tgt in after) and (tgt not in before or after[tgt] != before[tgt])
        okind = None if old is None else spec_kind(drv, old)
        append = bool(inv.get("append"))
        allowed = old is None or (append and (kind == "bin" or okind == kind))
        key = "%s/%s/%s/%s" % (tool, kind, "append" if append else "noappend", "absent" if old is None else okind)
        hbump(hist, key + ("/written" if written else "/refused"))
        if new is None and old is not None:
            rep.violation("target %s was deleted" % tgt, dict(payload, kind="case"))
            ok = False
            continue
        mnew = model["fs"].get(tgt, old) if model else None
        if written and not allowed:
            if kind == "dsk" and append and okind == "cas" and len(old) >= SIZE and KF_BIGTAPE in kf:
                rep.known_finding(KF_BIGTAPE, "a %d-byte cassette image is sniffed as a DISK holding no files: --to_dsk --append overwrote it (virtual_file.py get_coco_files / disk.py list_files size test)" % len(old))
            else:
                rep.violation("existing target modified although %s (target held %s content, writing %s)" % (
                    "--append was not given" if not append else "its content is not a %s image" % kind, okind, kind),
                    dict(payload, kind="case", target=tgt))
                ok = False
            continue
        if not written:
            told = ob["out"].strip() != ""
            if tool == "futil" and ob["rc"] != 1:
                told = False
            if tool == "asm":
                evs = out_events("asm", ob["out"])
                told = ("U" + kind) in evs or "Ncas" in evs or "Ndsk" in evs
            if not told and not (tool == "futil" and later_target_skipped(inv, kind, ob)):
                rep.violation("target %s not written and the user is not told why (rc=%s, stdout=%r)" % (tgt, ob["rc"], ob["out"][:120]),
                              dict(payload, kind="case", target=tgt))
                ok = False
            elif unmod:
                pass
            elif old is None and model is not None and mnew is not None:
                bump(rep, "disagreements_checked")
                rep.violation("correspondence: model writes the new target %s, implementation refused: %r" % (tgt, ob["out"][:120]),
                              dict(payload, kind="case", target=tgt, relation="MVirtualFile.store = open/add/save"), found_input=False)
                ok = False
            elif model is not None and mnew != old:
                if old is not None and len(old) >= SIZE and okind == "cas":
                    pass     # big tape refused: C09's business (kind not recognised), consistent with C10
                else:
                    bump(rep, "disagreements_checked")
                    rep.violation("correspondence: model writes %s, implementation refused: %r" % (tgt, ob["out"][:120]),
                                  dict(payload, kind="case", target=tgt, relation="MVirtualFile.store = open/add/save"), found_input=False)
                    ok = False
            continue
        # written and allowed: complete image of the requested kind holding old files then new files
        add = newfiles.get(kind, [])
        if kind == "bin":
            good = new == b"".join(f[6] for f in add)
            why = "binary file is not the data of the file(s) saved"
        else:
            oldf = spec_files(drv, kind, old) if (old is not None and okind == kind) else []
            got = spec_files(drv, kind, new)
            good = got is not None and len(got) == len(oldf) + len(add) and got[:len(oldf)] == oldf and feq_lists(got[len(oldf):], add)
            why = "written %s image %s" % (kind, "is not well formed (spec parser rejects it)" if got is None else
                                           "lists %d files, expected %d old + %d new, old unchanged and in order" % (len(got), len(oldf), len(add)))
        if not good:
            in_empty = kind == "cas" and old is not None and okind == "cas" and any(len(f[6]) == 0 for f in (spec_cas(drv, old) or []))
            in_empty = in_empty or empty_src
            if in_empty and KF_EMPTY in kf and model is not None and mnew == new:
                rep.known_finding(KF_EMPTY, "a tape holding a file with empty data is read without it and without every later file: the image written from that listing lacks them (cassette.py read_file `if not data`)")
            else:
                rep.violation(why, dict(payload, kind="case", target=tgt))
                ok = False
                continue
        if model is not None and not unmod and mnew != new:
            bump(rep, "disagreements_checked")
            rep.violation("correspondence: bytes written to %s differ from the model's (%s)" % (tgt, "model refuses" if mnew == old else "both write"),
                          dict(payload, kind="case", target=tgt, relation="MVirtualFile.store/build_image = VirtualFile.save_virtual_file (byte-for-byte)"),
                          found_input=False)
            ok = False
    if model is not None and ok and not unmod:
        me = model_event_classes(tool, model["events"])
        ie = out_events(tool, ob["out"])
        if tool == "futil" and inv.get("list"):
            me, ie = [e for e in me if e != "L"], []
        if me != ie or (model["rc"] is not None and model["rc"] != ob["rc"]):
            bump(rep, "disagreements_checked")
            rep.violation("correspondence: CLI messages / exit status differ from the model: impl %s rc=%s, model %s rc=%s" % (ie[:8], ob["rc"], me[:8], model["rc"]),
                          dict(payload, kind="case", relation="MVirtualFile.file_util / asm_save events and exit status"), found_input=False)
            ok = False
    return ok


def later_target_skipped(inv, kind, ob):
    """file_util stops at the first failing block: a later switch is then legitimately untouched, the message was printed"""
    return ob["rc"] == 1 and ob["out"].strip() != ""


# ---------------------------------------------------------------------------------------------
# generators
# ---------------------------------------------------------------------------------------------

NAME_CHARS = "ABCDEFGHIJKLMNOPQRSTUVWXYZabcdefghijklmnopqrstuvwxyz0123456789"


def gen_name(rng, lo=1, hi=12):
    n = rng.choice([lo, 2, 5, 8, 8, 9, hi, rng.randrange(lo, hi + 1)])
    return rng.choice("ABCDEFGHIJKLMNOPQRSTUVWXYZabcdefghijklmnopqrstuvwxyz") + "".join(rng.choice(NAME_CHARS) for _ in range(n - 1))


def gen_cfile(rng, tier, allow_empty=False, unique=None):
    """a file with the boundary lengths of C06 (cassette)"""
    f = cas.gen_file(rng, "quick", allow_empty)
    name = gen_name(rng)
    if unique is not None:
        while canon(name) in unique or not canon(name):
            name = gen_name(rng)
        unique.add(canon(name))
    return (name, "BIN" if f[1] == 2 else "BAS", f[1], f[2], f[3], f[4], f[5])


def gen_dfile(rng, tier, unique=None, maxlen=None):
    """a file with the boundary lengths of C07 (disk)"""
    f = dsk.gen_file(rng, tier)
    if maxlen is not None and len(f[6]) > maxlen:
        f = f[:6] + (f[6][:maxlen],)
    name = gen_name(rng)
    if unique is not None:
        while canon(name) in unique:
            name = gen_name(rng)
        unique.add(canon(name))
    return (name, f[1], f[2], f[3], f[4], f[5], f[6])


def norm_for(kind, f):
    """what one trip through a container of the kind makes of a file (MVirtualFile.normc / normd)"""
    if kind == "cas":
        return (f[0][:8].ljust(8), "BIN" if f[2] == 2 else "BAS", f[2], f[3], f[4], f[5], f[6])
    return dsk.norm(f)


PROG = "  NAM HI\n  ORG $0E00\nSTART LDA #1\n  RTS\n"
SRC_FILE = ("SRC", "BIN", 2, 0, 0x1000, 0x1000, b"\x12\x39")


def big_tape():
    """the recorded witness of tape_sniffed_as_disk: three 60,000-byte files of zeros = 185,865 bytes"""
    return impl_tape([("BIG%d" % i, "BIN", 2, 0, 0x0E00, 0x0E00, bytes(60000)) for i in range(3)])


def target_contents(rng, tier, rep=None):
    """the pre-existing target classes of the C10 matrix: name -> bytes | None"""
    u = set()
    tape = impl_tape([gen_cfile(rng, tier, unique=u) for _ in range(rng.choice([1, 2]))])
    disk = impl_disk([gen_dfile(rng, tier, unique=u, maxlen=6000) for _ in range(rng.choice([1, 2]))])
    raw = bytes([0x86, 0x01, 0xB7, 0x04, 0x00, 0x39]) * rng.randrange(1, 40)
    arb = [bytes(rng.randrange(256) for _ in range(rng.choice([1, 20, 300, 2000]))),
           b"hello world, not an image\n",
           tape[:rng.randrange(300, len(tape))],                      # a truncated tape
           bytes([0x55, 0x3C, 0x00, 0x0F]) + bytes(rng.randrange(256) for _ in range(40))]   # a header and garbage
    # content of at least the size of a disk image that is neither a disk nor a tape: a large raw binary, or
    # large arbitrary bytes with free-looking directory marks (the size test is the disk reader's only test)
    bigraw = bytes([0x86, 0x01, 0xB7, 0x04, 0x00, 0x39]) * rng.randrange(27000, 30000)
    bigarb = bytearray(rng.randrange(256) for _ in range(2000)) * 90
    for e in range(72):
        bigarb[78848 + 32 * e] = rng.choice([0x00, 0xFF])
    # where a disk keeps its allocation table: random bytes, or tables no disk can have (zeros - what a recording of
    # zero-filled data holds there -, one value throughout, a granule linked to itself, a link to a free granule)
    pats = ["zeros", "self", "const", "tofree", "random"]     # (longer-than-a-disk content with a table a disk could have is outside the model: DESIGN 11)
    fat = rng.choice(pats) if rep is None else pats[rep % len(pats)]
    if fat != "random":
        tbl = {"zeros": [0] * 68, "const": [rng.randrange(1, 68)] * 68}.get(fat)
        if tbl is None:
            tbl = [0xFF] * 68
            g = rng.randrange(68)
            h = (g + 1 + rng.randrange(66)) % 68
            if fat == "self":
                tbl[g] = g
            else:
                tbl[g] = h
        bigarb[78592:78592 + 68] = bytes(tbl)
    # a genuine disk image one of whose files holds the bytes of a tape recording (a .cas kept on a disk)
    inner = impl_tape([("INNER", "BIN", 2, 0, 0x0E00, 0x0E00, bytes(rng.randrange(256) for _ in range(rng.choice([1, 200, 600]))))])
    disktape = impl_disk([("TAPEIMG", "BIN", 2, 0, 0x0E00, 0x0E00, inner)])
    t = {"absent": None, "empty": b"", "cassette": tape, "disk": rng.choice([disk, disk, disktape]), "rawbin": raw,
         "arbitrary": rng.choice(arb), ("bigarbitrary" if rep is not None and rep < 4 else rng.choice(["bigraw", "bigarbitrary"])): None}
    t = {k: (bigraw if k == "bigraw" else bytes(bigarb) if k == "bigarbitrary" else v) for k, v in t.items()}
    if tier == "thorough":
        t["arbitrary2"] = arb[2]
        t["arbitrary3"] = arb[3]
        t["bigtape"] = big_tape()
        t["bigarbitrary"] = bytes(bigarb)
    return t


# ---------------------------------------------------------------------------------------------
# C10
# ---------------------------------------------------------------------------------------------

def c10_inv(tool, kind, append, target="t.out", files=None):
    return {"tool": tool, "kinds": [kind], "targets": {kind: target}, "append": append, "prog": "p.asm", "src": "src.img",
            "files": files}


def c10_newfiles(inv, prog, before, drv):
    """the file(s) an invocation is expected to add, per kind"""
    if inv["tool"] == "asm":
        name, origin, image = prog
        nm = name or inv.get("name") or ""
        return {k: [(nm, "bin", 2, 0, origin, origin, image)] for k in inv["kinds"]}
    src = before.get(inv.get("src", "src.img"))
    if src is None:
        return {k: [] for k in inv["kinds"]}
    sk = spec_kind(drv, src[0])
    fl = spec_files(drv, sk, src[0]) if sk != "raw" else []
    if inv.get("files"):
        req = {r.upper() for r in inv["files"]}
        fl = [f for f in fl if f[0].strip().replace("\0", "").upper() in req]
    return {k: fl for k in inv["kinds"]}


def c10_check_case(pid, drv, rep, case, obs, hist):
    prog = assemble(unhx(case["files"]["p.asm"]).decode()) if "p.asm" in case["files"] else None
    ok = True
    for i, (inv, ob) in enumerate(zip(case["invs"], obs)):
        nf = c10_newfiles(inv, prog, ob["before"], drv)
        payload = {"case": case, "step": i, "stdout": ob["out"][:600], "rc": ob["rc"]}
        ok = judge_step(pid, drv, rep, inv, ob, nf, payload, prog, hist) and ok
    return ok


def c10_cases(rng, tier):
    cases = []
    reps = 2 if tier == "quick" else 8
    for rep_i in range(reps):
        tc = target_contents(rng, tier, rep_i)
        base = {"p.asm": hx(PROG.encode()), "src.img": hx(impl_tape([SRC_FILE]))}
        for tool in ("asm", "futil"):
            for kind in KINDS:
                for append in (False, True):
                    for tname, content in tc.items():
                        files = dict(base)
                        if content is not None:
                            files["t.out"] = hx(content)
                        cases.append({"label": "%s/%s/%s/%s" % (tool, kind, "append" if append else "noappend", tname),
                                      "files": files, "invs": [c10_inv(tool, kind, append)]})
    return cases


def c10_sequences(rng, tier, n):
    cases = []
    for _ in range(n):
        tc = target_contents(rng, "quick")
        files = {"p.asm": hx(PROG.encode()), "src.img": hx(impl_tape([SRC_FILE]))}
        for t in ("a.out", "b.out"):
            c = tc[rng.choice(list(tc))]
            if c is not None:
                files[t] = hx(c)
        invs = []
        for _ in range(rng.randrange(2, 6)):
            tool = rng.choice(["asm", "futil"])
            if rng.random() < 0.25:   # several switches in one invocation
                ks = rng.sample(KINDS, rng.choice([2, 3]))
                ks = [k for k in KINDS if k in ks]
                invs.append({"tool": tool, "kinds": ks, "targets": {k: rng.choice(["a.out", "b.out", "c.out"]) for k in ks},
                             "append": rng.random() < 0.6, "prog": "p.asm", "src": "src.img", "files": None})
                if len(set(invs[-1]["targets"].values())) < len(ks):
                    invs[-1]["targets"] = dict(zip(ks, ["a.out", "b.out", "c.out"]))
            else:
                invs.append(c10_inv(tool, rng.choice(KINDS), rng.random() < 0.6, rng.choice(["a.out", "b.out", "c.out"])))
        cases.append({"label": "sequence", "files": files, "invs": invs})
    return cases


def run_c10(pid, tier, rng, drv, rep, hist):
    cases = c10_cases(rng, tier) + c10_sequences(rng, tier, {"quick": 48, "thorough": 500}[tier])
    allobs = run_cases(cases)
    for case, obs in zip(cases, allobs):
        rep.count(digest([sorted(case["files"].items()), case["invs"]]))
        hbump(hist, "case:" + case["label"].split("/")[0])
        if len(rep.cov["samples"]) < 5 and case["label"] != "sequence":
            rep.sample({"case": case["label"], "stdout": obs[0]["out"][:160], "rc": obs[0]["rc"],
                        "target_written": obs[0]["after"].get("t.out") != obs[0]["before"].get("t.out")})
    par_map(lambda d, co: c10_check_case(pid, d, rep, co[0], co[1], hist), zip(cases, allobs), rep)
    failed_append_cases(pid, rep, hist, rng)


# ---------------------------------------------------------------------------------------------
# a save that fails must leave what is stored alone (C09, C10): implementation only
# ---------------------------------------------------------------------------------------------

def failed_append_cases(pid, rep, hist, rng):
    """assembler.py --append with a --name that cannot be written as bytes (a character above U+00FF; the model's
    alphabet is one byte per character, so this is judged on the implementation alone): the save is refused - and
    the image that was there, with the files it holds, must be exactly what it was (false upstream: truncated to
    0 bytes, repair F54)"""
    for kind in ("cas", "dsk"):
        for bad in ("\u0100B", "A\u20acC", "\U0001F600"):
            d = mkdir()
            try:
                with open(os.path.join(d, "p.asm"), "w") as f:
                    f.write(prog_of_size("FIRST", rng.choice([1, 20, 300]), 0x0E00, 1))
                with open(os.path.join(d, "q.asm"), "w") as f:
                    f.write("  ORG $2000\nSTART LDA #1\n  RTS\n")
                sw = "--to_" + kind
                r1 = cli("assembler.py", ["p.asm", sw, "t.img"], d)
                path = os.path.join(d, "t.img")
                if not os.path.exists(path):
                    rep.violation("assembler.py %s did not create the image: %s" % (sw, (r1["out"] + r1["err"])[-160:]), {"kind": "failed-append", "container": kind})
                    continue
                before = open(path, "rb").read()
                r2 = cli("assembler.py", ["q.asm", sw, "t.img", "--append", "--name", bad], d)
                after = open(path, "rb").read() if os.path.exists(path) else None
                rep.count(("failed-append", kind, bad))
                hbump(hist, "failed-append/" + kind)
                if "Traceback" in r2["err"]:
                    rep.violation("assembler.py --append --name %r: uncaught exception %s" % (bad, r2["err"].strip()[-120:]),
                                  {"kind": "failed-append", "container": kind, "name": bad})
                elif after != before and not (after is not None and len(after) > len(before) and "Unable" not in r2["out"]):
                    rep.violation("a refused append (--name %r: %s) did not leave the %s image alone: %d bytes before, %s after" % (
                        bad, r2["out"].strip()[-60:], kind, len(before), "no file" if after is None else "%d bytes" % len(after)),
                        {"kind": "failed-append", "container": kind, "name": bad, "stdout": r2["out"][:300]})
            finally:
                shutil.rmtree(d, ignore_errors=True)


# ---------------------------------------------------------------------------------------------
# C09
# ---------------------------------------------------------------------------------------------

def inproc_history(kind, ops):
    """ops: list of ("A", file) | ("S",).  Real temp file, VirtualFile in-process.
    -> list of snapshots (bytes after the save, number of adds so far, listing on re-open or error string)"""
    VirtualFile, VFT, SourceFile, SFT, CoCoFile, NV = vf_classes()
    vk = {"cas": VFT.CASSETTE, "dsk": VFT.DISK}[kind]
    d = mkdir()
    path = os.path.join(d, "h.img")
    snaps = []
    listing = lambda v: [(f.name, f.extension, f.type.int, f.data_type.int, f.load_addr.int, f.exec_addr.int, bytes(f.data)) for f in v.list_files()]
    try:
        v = VirtualFile(SourceFile(path, file_type=SFT.BINARY), vk)
        v.open_virtual_file()
        n = 0
        for op in list(ops) + [("S",)]:
            if op[0] == "A":
                f = op[1]
                v.add_coco_file(CoCoFile(name=f[0], extension=f[1], type=NV(f[2]), data_type=NV(f[3]), load_addr=NV(f[4]),
                                         exec_addr=NV(f[5]), data=list(f[6])))
                n += 1
                continue
            try:
                v.save_virtual_file(append_mode=True)
            except Exception as e:  # noqa
                snaps.append({"error": "save: %s: %s" % (type(e).__name__, e), "n": n})
                break
            with open(path, "rb") as fh:
                bs = fh.read()
            v = VirtualFile(SourceFile(path, file_type=SFT.BINARY), vk)
            try:
                v.open_virtual_file()
                snaps.append({"bytes": bs, "n": n, "listing": listing(v), "kind": v.virtual_file_type.name})
            except Exception as e:  # noqa
                snaps.append({"bytes": bs, "n": n, "error": "reopen: %s: %s" % (type(e).__name__, e)})
                break
    finally:
        shutil.rmtree(d, ignore_errors=True)
    return snaps


def gen_history(rng, tier, kind):
    u = set()
    k = rng.choice([1, 2, 2, 3, 4, 5, 6])
    ops = []
    budget = 60
    for _ in range(k):
        if kind == "cas":
            f = gen_cfile(rng, tier, allow_empty=(rng.random() < 0.06), unique=u)
        else:
            f = gen_dfile(rng, tier, unique=u)
            need = dsk.needed(f)
            if need > budget:
                f = f[:6] + (f[6][:2000],)
                need = 1
            budget -= need
        # a file kept on a disk may be anything - also a recording of a tape (a .CAS kept on the disk)
        if kind == "dsk" and rng.random() < 0.12:
            inner = impl_tape([("INNER", "BIN", 2, 0, 0x0E00, 0x0E00, bytes(rng.randrange(256) for _ in range(rng.choice([1, 40, 300]))))])
            f = f[:6] + (inner,)
        # a name stored before may be stored again (a rebuilt program under the same name, GAME.BAS next to GAME.BIN):
        # both files are kept, in order
        prev = [o[1] for o in ops if o[0] == "A"]
        if prev and rng.random() < 0.2:
            o = rng.choice(prev)
            f = (o[0],) + ((f[1],) if rng.random() < 0.5 else (o[1],)) + tuple(f[2:])
        ops.append(("A", f))
        if rng.random() < 0.45:
            ops.append(("S",))
    return ops


def enc_ops(ops):
    return ";".join("S" if o[0] == "S" else enc_files([o[1]]) for o in ops) or "-"


def dec_ops(s):
    return [] if s == "-" else [("S",) if x == "S" else ("A", dec_files(x)[0]) for x in s.split(";")]


def c09_check_history(pid, drv, rep, kind, ops, hist):
    kf = open_findings(pid)
    key = {"kind": "history", "container": kind, "ops": enc_ops(ops)}
    adds = [o[1] for o in ops if o[0] == "A"]
    snaps = inproc_history(kind, ops)
    mr = drv.ask("vfhist %s %s" % (kind, enc_ops(ops)))
    bump(rep, "traces_validated_against_impl")
    # finding classes an input may fall in
    saves_after = lambda i: any(o[0] == "S" for o in ops[i + 1:]) or True
    empty_cls = kind == "cas" and any(o[0] == "A" and len(o[1][6]) == 0 for o in ops)
    ok = True
    final = None
    for s in snaps:
        exp = [norm_for(kind, f) for f in adds[:s["n"]]]
        if "bytes" not in s:
            # a save failed: legitimate only as a full disk, and the model must agree
            if kind == "dsk" and mr.startswith("DIAG"):
                hbump(hist, "disk_full")
                return True
            rep.violation("save failed in a history: %s (model: %s)" % (s["error"][:160], mr[:40]), key)
            return False
        final = s["bytes"]
        big = kind == "cas" and len(s["bytes"]) >= SIZE
        sf = spec_files(drv, kind, s["bytes"])
        good = sf is not None and [(x[0],) + x[2:] for x in sf] == [(x[0],) + x[2:] for x in exp] and \
            (kind == "cas" or [x[1] for x in sf] == [x[1] for x in exp])
        relisted = "listing" in s and s["kind"] == {"cas": "CASSETTE", "dsk": "DISK"}[kind] and \
            [(x[0],) + x[2:] for x in s["listing"]] == [(x[0],) + x[2:] for x in exp] and \
            (kind == "cas" or [x[1] for x in s["listing"]] == [x[1] for x in exp])
        if good and relisted:
            continue
        impl_final = snaps[-1].get("bytes") if ("bytes" in snaps[-1] and "error" not in snaps[-1]) else None
        agree = (mr.startswith("OK") and impl_final is not None and unhx(mr[3:]) == impl_final) or \
                (mr.startswith("DIAG") and impl_final is None)
        if empty_cls and KF_EMPTY in kf and agree:
            rep.known_finding(KF_EMPTY, "a tape file with empty data, and every later file, is missing after save/re-open (history %s...)" % key["ops"][:60])
            return True
        if big and KF_BIGTAPE in kf:
            rep.known_finding(KF_BIGTAPE, "a %d-byte cassette image written by the tool is re-opened as %s (virtual_file.py get_coco_files consults the disk reader first)" % (
                len(s["bytes"]), s.get("kind", s.get("error", "?"))[:60]))
            return True
        what = "image not well formed or files disturbed (spec parser: %s files, expected %d)" % ("no" if sf is None else len(sf), len(exp)) if not good else \
            "re-opened image does not list the stored files unchanged (kind %s, %s)" % (s.get("kind"), s.get("error", "%d files" % len(s.get("listing", []))))
        rep.violation("after %d adds: %s" % (s["n"], what), key)
        return False
    # correspondence: the final image byte for byte
    if mr.startswith("UNMODELLED") or mr.startswith("FUEL"):
        bump(rep, "unmodelled")
    elif not (mr.startswith("OK ") and unhx(mr[3:]) == final):
        bump(rep, "disagreements_checked")
        rep.violation("correspondence: MVirtualFile.image_after differs from the bytes the implementation wrote (%s)" % mr[:30],
                      dict(key, relation="MVirtualFile.run_hist / image_after = VirtualFile open/add/save on a real file"), found_input=False)
        ok = False
    return ok


def prog_of_size(name, n, origin, mode):
    """an assembly program of exactly n bytes"""
    lines = ["  NAM %s" % name, "  ORG $%04X" % origin]
    if mode == 0 or n < 4:
        lines += ["  FCB %d" % ((i * 7 + n) & 255) for i in range(n)] if n < 40 else ["  RMB %d" % n]
    else:
        lines += ["START LDA #$%02X" % (n & 255), "  RMB %d" % (n - 3) if n > 3 else "", "  RTS"]
    return "\n".join(l for l in lines if l) + "\n"


def c09_cli_cases(rng, tier, n):
    cases = []
    cl = [1, 2, 254, 255, 256, 257, 510, 511, 765, 1020]
    dl = [1, 2293, 2294, 2295, 2304, 4598, 4599, 255, 256, 3000]
    for i in range(n):
        kind = "cas" if i % 2 == 0 else "dsk"
        u = set()
        names_used = set()
        steps = []
        files = {}
        for j in range(rng.choice([2, 3, 3, 4])):
            name = gen_name(rng)
            while canon(name) in u:
                name = gen_name(rng)
            if u and rng.random() < 0.2:
                name = rng.choice(sorted(names_used))         # the same program name appended again
            u.add(canon(name))
            names_used.add(name)
            size = rng.choice(cl if kind == "cas" else dl)
            files["p%d.asm" % j] = hx(prog_of_size(name, size, rng.choice([0x0E00, 0x10, 0x7F00, 0x100]), rng.randrange(2)).encode())
            steps.append({"tool": "asm", "kinds": [kind], "targets": {kind: "t.img"}, "append": True, "prog": "p%d.asm" % j})
        cases.append({"label": "append-" + kind, "files": files, "invs": steps})
    return cases


def c09_check_cli(pid, drv, rep, case, obs, hist):
    kind = case["invs"][0]["kinds"][0]
    stored = []
    for i, (inv, ob) in enumerate(zip(case["invs"], obs)):
        prog = assemble(unhx(case["files"][inv["prog"]]).decode())
        payload = {"case": case, "step": i, "stdout": ob["out"][:400], "rc": ob["rc"]}
        if prog is None:
            bump(rep, "generator_rejected")
            return True
        name, origin, image = prog
        new = (name, "bin", 2, 0, origin, origin, image)
        if not judge_step(pid, drv, rep, inv, ob, {kind: [new]}, payload, prog, hist):
            return False
        got = spec_files(drv, kind, ob["after"]["t.img"][0]) if "t.img" in ob["after"] else None
        if got is None or not feq_lists(got, stored + [new]):
            rep.violation("after %d appends the image does not list all earlier files unchanged, in order, and the new one last" % (i + 1), dict(payload, kind="case"))
            return False
        if i > 0 and got[:len(stored)] != prev:
            rep.violation("append %d changed how an earlier file lists" % (i + 1), dict(payload, kind="case"))
            return False
        prev = got
        stored.append(new)
    return True


def run_c09(pid, tier, rng, drv, rep, hist):
    # the recorded witnesses of the open known findings first
    for kfd in common.findings_for(pid):
        for w in kfd.get("witnesses", []):
            if w.get("kind") == "files" and kfd["id"] == KF_EMPTY:
                fs = [(f[0], "BIN", f[1], f[2], f[3], f[4], bytes.fromhex(f[5])) for f in w["files"]]
                c09_check_history(pid, drv, rep, "cas", [("A", f) for f in fs[:2]] + [("S",), ("A", fs[2])], hist)
            if w.get("kind") == "bigtape":
                fs = [("BIG%d" % i, "BIN", 2, 0, 0x0E00, 0x0E00, bytes(w["length"])) for i in range(w["count"])]
                c09_check_history(pid, drv, rep, "cas", [("A", f) for f in fs] + [("S",)], hist)
    n_hist = {"quick": 160, "thorough": 2500}[tier]
    hs = []
    for i in range(n_hist):
        kind = "cas" if i % 2 == 0 else "dsk"
        ops = gen_history(rng, tier, kind)
        hs.append((kind, ops))
        rep.count(digest([kind, enc_ops(ops)]))
        hbump(hist, "history/%s/adds=%d" % (kind, sum(1 for o in ops if o[0] == "A")))
        hbump(hist, "history/reopens=%d" % min(4, sum(1 for o in ops if o[0] == "S")))
        if i < 3:
            rep.sample({"container": kind, "history": ["S" if o[0] == "S" else "A(%s,%d bytes)" % (o[1][0], len(o[1][6])) for o in ops]})
    par_map(lambda d, ko: c09_check_history(pid, d, rep, ko[0], ko[1], hist), hs, rep)
    if tier == "thorough" and not rep.full():   # growing tapes across the 161,280-byte line
        for fill in (0x00, 0x41, 0xFF):
            fs = [("G%d" % i, "BIN", 2, 0, 0x0E00, 0x0E00, bytes([fill]) * 50000) for i in range(4)]
            ops = []
            for f in fs:
                ops += [("A", f), ("S",)]
            rep.count(("grow", fill))
            c09_check_history(pid, drv, rep, "cas", ops, hist)
    cases = c09_cli_cases(rng, tier, {"quick": 24, "thorough": 300}[tier])
    allobs = run_cases(cases)
    for case in cases:
        rep.count(digest([case["files"], case["invs"]]))
        hbump(hist, "cli/" + case["label"])
    par_map(lambda d, co: c09_check_cli(pid, d, rep, co[0], co[1], hist), zip(cases, allobs), rep)
    failed_append_cases(pid, rep, hist, rng)


# ---------------------------------------------------------------------------------------------
# C16
# ---------------------------------------------------------------------------------------------

def recase(rng, s, mode):
    if mode == "upper":
        return s.upper()
    if mode == "lower":
        return s.lower()
    return "".join(c.upper() if rng.random() < 0.5 else c.lower() for c in s)


def c16_case(rng, tier, i):
    skind = "cas" if i % 2 == 0 else "dsk"
    tkind = rng.choice(["cas", "dsk"])
    u = set()
    k = rng.choice([1, 2, 3, 3, 4])
    allow_empty = rng.random() < 0.05
    if skind == "cas":
        fl = [gen_cfile(rng, tier, allow_empty=allow_empty, unique=u) for _ in range(k)]
    else:
        fl = [gen_dfile(rng, tier, unique=u, maxlen=12000) for _ in range(k)]
        if not allow_empty:
            fl = [f if len(f[6]) else f[:6] + (b"\x01",) for f in fl]
    img = impl_image(skind, fl)
    if img is None:
        return None
    sel = None
    mode = rng.choice(["none", "upper", "lower", "mixed"])
    if mode != "none":
        pick = [f for f in fl if rng.random() < 0.6] or [fl[0]]
        sel = [recase(rng, canon(f[0]), mode) for f in pick]
        if rng.random() < 0.3:
            sel.append("NOSUCH")
        rng.shuffle(sel)
    invs = [{"tool": "futil", "kinds": [tkind], "targets": {tkind: "t.img"}, "append": False, "src": "src.img", "files": sel},
            {"tool": "futil", "kinds": [skind], "targets": {skind: "back.img"}, "append": False, "src": "t.img", "files": None}]
    return {"label": "%s->%s->%s/%s" % (skind, tkind, skind, mode), "files": {"src.img": hx(img)}, "invs": invs,
            "empty": any(len(f[6]) == 0 for f in fl)}


def c16_bin_case(rng, tier, many):
    skind = rng.choice(["cas", "dsk"])
    u = set()
    fl = [(gen_cfile if skind == "cas" else gen_dfile)(rng, tier, unique=u) for _ in range(rng.choice([2, 3]) if many else 1)]
    fl = [f if len(f[6]) else f[:6] + (b"\x07",) for f in fl]
    fl = [f[:6] + (f[6][:9000],) for f in fl]
    img = impl_image(skind, fl)
    sel = [canon(fl[0][0]).lower()] if rng.random() < 0.3 else None
    return {"label": "%s->bin/%s" % (skind, "many" if many else "one"), "files": {"src.img": hx(img)},
            "invs": [{"tool": "futil", "kinds": ["bin"], "targets": {"bin": "t.bin"}, "append": False, "src": "src.img", "files": sel}],
            "many": many, "empty": False}


def c16_check(pid, drv, rep, case, obs, hist):
    kf = open_findings(pid)
    src = unhx(case["files"]["src.img"])
    skind = spec_kind(drv, src)
    sfiles = spec_files(drv, skind, src)
    inv0, ob0 = case["invs"][0], obs[0]
    tk = inv0["kinds"][0]
    payload = {"case": {k: v for k, v in case.items()}, "stdout": ob0["out"][:600], "rc": ob0["rc"]}
    if inv0.get("files"):
        req = {r.upper() for r in inv0["files"]}
        sel = [f for f in sfiles if f[0].strip().upper() in req]
    else:
        sel = list(sfiles)
    empty_cls = case.get("empty") and KF_EMPTY in kf

    def finding_or_violation(what, step):
        mod = None
        try:
            mod = model_inv(drv, case["invs"][step], obs[step]["before"])
        except Exception:  # noqa
            pass
        tgt = list(case["invs"][step]["targets"].values())[0]
        same = mod is not None and mod["fs"].get(tgt) == (obs[step]["after"].get(tgt) or (None,))[0]
        if empty_cls and same:
            rep.known_finding(KF_EMPTY, "a tape file with empty data (and every later file) is lost in a conversion that reads the tape (%s)" % case["label"])
            return True
        rep.violation(what, dict(payload, kind="case", step=step))
        return False

    if tk == "bin":
        if case["many"]:
            if "t.bin" in ob0["after"] or ob0["rc"] != 1 or not ob0["out"].strip():
                rep.violation("--to_bin on an image holding %d files did not refuse (rc=%s, file created=%s)" % (len(sfiles), ob0["rc"], "t.bin" in ob0["after"]), dict(payload, kind="case"))
                return False
            return judge_step(pid, drv, rep, inv0, ob0, {"bin": []}, payload, None, hist)
        return judge_step(pid, drv, rep, inv0, ob0, {"bin": sel}, payload, None, hist)
    # conversion: first leg
    if not judge_step(pid, drv, rep, inv0, ob0, {tk: sel}, payload, None, hist, empty_src=bool(case.get("empty"))):
        return False
    got = spec_files(drv, tk, ob0["after"]["t.img"][0]) if "t.img" in ob0["after"] else None
    if got is None or not feq_lists(got, sel):
        return finding_or_violation("converted %s image lists %s, expected the %d selected files of the source in source order" % (
            tk, "nothing (not well formed)" if got is None else "%d files" % len(got), len(sel)), 0)
    # second leg: back to the source kind, everything
    inv1, ob1 = case["invs"][1], obs[1]
    bk = inv1["kinds"][0]
    if not judge_step(pid, drv, rep, inv1, ob1, {bk: got}, dict(payload, stdout=ob1["out"][:600], rc=ob1["rc"]), None, hist, empty_src=bool(case.get("empty"))):
        return False
    back = spec_files(drv, bk, ob1["after"]["back.img"][0]) if "back.img" in ob1["after"] else None
    if back is None or not feq_lists(back, sel):
        return finding_or_violation("chain %s: the image converted back lists %s, expected the %d selected files" % (
            case["label"], "nothing" if back is None else "%d files" % len(back), len(sel)), 1)
    return True


def run_c16(pid, tier, rng, drv, rep, hist):
    cases = []
    # the recorded tape_empty_file witness as a conversion source
    for kfd in common.findings_for(pid):
        for w in kfd.get("witnesses", []):
            if w.get("kind") == "files" and kfd["id"] == KF_EMPTY:
                fs = [(f[0], "BIN", f[1], f[2], f[3], f[4], bytes.fromhex(f[5])) for f in w["files"]]
                cases.append({"label": "cas->dsk->cas/witness", "files": {"src.img": hx(impl_tape(fs))}, "empty": True, "invs": [
                    {"tool": "futil", "kinds": ["dsk"], "targets": {"dsk": "t.img"}, "append": False, "src": "src.img", "files": None},
                    {"tool": "futil", "kinds": ["cas"], "targets": {"cas": "back.img"}, "append": False, "src": "t.img", "files": None}]})
    n = {"quick": 140, "thorough": 1500}[tier]
    for i in range(n):
        c = c16_case(rng, tier, i)
        if c is not None:
            cases.append(c)
    for i in range({"quick": 16, "thorough": 120}[tier]):
        cases.append(c16_bin_case(rng, tier, many=(i % 2 == 0)))
    allobs = run_cases(cases)
    for case, obs in zip(cases, allobs):
        rep.count(digest([case["files"], case["invs"]]))
        hbump(hist, case["label"])
        if len(rep.cov["samples"]) < 5:
            rep.sample({"case": case["label"], "files_option": case["invs"][0].get("files"), "stdout": obs[0]["out"][:200]})
    par_map(lambda d, co: c16_check(pid, d, rep, co[0], co[1], hist), zip(cases, allobs), rep)


# ---------------------------------------------------------------------------------------------
# C11
# ---------------------------------------------------------------------------------------------

def program_pool(rng):
    """(label, source, --name or None) — small valid programs: with/without NAM, with/without ORG, origins below $100,
    names of 1..12 characters in either case, sizes from 1 byte to several KiB"""
    P = []
    bodies = [
        ("1byte", "  RTS\n"),
        ("tiny", "START LDA #1\n  RTS\n"),
        ("loop", "START LDX #$0400\nL1 CLR ,X+\n  CMPX #$0600\n  BNE L1\n  RTS\n"),
        ("fcb", "DATA FCB 1,2,3,4,5\n  FDB $1234,$ABCD\n"),
        ("fcc", "MSG FCC \"HELLO, WORLD\"\n  FCB 0\n"),
        ("rmb254", "  RMB 254\n"), ("rmb255", "  RMB 255\n"), ("rmb256", "  NOP\n  RMB 255\n"),
        ("blk510", "  RMB 510\n"), ("blk511", "  RMB 511\n"),
        ("g2293", "  RMB 2293\n"), ("g2294", "  RMB 2294\n"), ("g2295", "  LDA #2\n  RMB 2293\n"),
        ("g2304", "  RMB 2304\n"), ("g4598", "  RMB 4598\n  RTS\n"), ("kib5", "  LDA #5\n  RMB 5000\n  RTS\n"),
        ("kib9", "  RMB 9000\n  FCB $55,$3C,$00,$FF\n"),
        ("markers", "  FCB $55,$3C,$00,$0F,$55,$3C,$01,$FF,$55,$3C,$FF,$00\n"),
        ("branch", "START BRA NEXT\n  NOP\nNEXT LDA <$10\n  STA >$0400\n  RTS\n"),
        ("jsr", "START JSR SUB\n  RTS\nSUB LDB #$FF\n  RTS\n"),
        # the location counter set again before the first byte: the image is assembled for the last of them
        ("org2", "  ORG $2000\nSTART JMP NEXT\nNEXT RTS\n"),
        ("orgequ", "SCREEN EQU $0400\n  ORG $3F00\nSTART LDX #SCREEN\n  JMP START\n"),
        ("org3", "  ORG 0\n  ORG $7000\nSTART JSR SUB\nSUB RTS\n"),
    ]
    # a NAM statement is the program's name wherever it stands: after the first instruction, after a data table, last
    late = [("namlate1", "START LDA #1\n  NAM %s\n  RTS\n"), ("namlate2", "TABLE FCB 1,2,3\n  NAM %s\nSTART LDX #TABLE\n  RTS\n"),
            ("namlate3", "START CLRA\n  RTS\n  NAM %s\n  END START\n")]
    origins = [None, "$0E00", "$10", "$00FF", "256", "$7F00", "$FF00", "$0001", "3584", "$0600"]
    names = ["A", "hi", "Hello", "GAMEDATA", "lowercas", "MixedCase9", "ABCDEFGHIJKL", "x1", "Z", "prog12345678"]
    i = 0
    for bl, body in bodies:
        for variant in range(2):
            org = origins[i % len(origins)]
            nm = names[i % len(names)]
            how = ["nam", "arg", "none", "nam", "both"][i % 5]
            src = ""
            if how in ("nam", "both"):
                src += "  NAM %s\n" % nm
            if org is not None:
                src += "  ORG %s\n" % org
            src += body
            if variant == 1 and bl in ("tiny", "loop", "branch", "jsr"):
                src += "  END START\n"
            elif variant == 1 and bl in ("fcb", "1byte"):
                src += "  END\n"
            arg = {"arg": nm, "both": "OTHER", "nam": None, "none": None}[how]
            P.append(("%s/%s/org=%s/%s" % (bl, how, org, nm if how != "none" else "-"), src, arg))
            i += 1
    for j, (bl, body) in enumerate(late):
        nm = names[(j * 3 + 1) % len(names)]
        for arg in (None, "OTHER"):
            P.append(("%s/late/%s" % (bl, arg or "-"), "  ORG $0E00\n" + body % nm, arg))
    return P


SWITCH_SETS = [["bin"], ["cas"], ["dsk"], ["bin", "cas"], ["bin", "dsk"], ["cas", "dsk"], ["bin", "cas", "dsk"]]


def c11_check(pid, drv, rep, case, obs, hist):
    inv, ob = case["invs"][0], obs[0]
    src = unhx(case["files"]["p.asm"]).decode()
    prog = assemble(src)
    payload = {"case": case, "stdout": ob["out"][:600], "rc": ob["rc"], "kind": "case"}
    if prog is None:
        bump(rep, "generator_rejected")
        return True
    name, origin, image = prog
    eff = name or inv.get("name") or ""
    if "Traceback" in ob["err"] or ob["rc"] != 0:
        rep.violation("assembler.py failed on an assemblable program: rc=%s %s" % (ob["rc"], ob["err"].strip()[-200:]), payload)
        return False
    ok = True
    for k in inv["kinds"]:
        tgt = inv["targets"][k]
        data = ob["after"].get(tgt, (None,))[0]
        if k == "bin":
            if data != image:
                rep.violation("--to_bin file is not the assembled image (%s bytes vs %d)" % ("no file" if data is None else len(data), len(image)), payload)
                ok = False
            continue
        if not eff:
            if data is not None or "No name for the program specified" not in ob["out"]:
                rep.violation("no NAM and no --name, yet a %s file was created or nothing was said" % k, payload)
                ok = False
            continue
        # the no-name guard of an earlier switch does not apply here; the container must hold exactly one ML file
        fl = spec_files(drv, k, data) if data is not None else None
        if fl is None or len(fl) != 1:
            rep.violation("%s image %s" % (k, "missing" if data is None else "not well formed" if fl is None else "lists %d files" % len(fl)), payload)
            ok = False
            continue
        f = fl[0]
        exp_name = eff[:8].ljust(8) if k == "cas" else eff[:8].upper().replace(" ", "")
        good = (f[2] == 2 and f[3] == 0 and f[6] == image and f[4] == origin and f[5] == origin and f[0].upper() == exp_name.upper())
        if k == "dsk":
            good = good and f[1] == "BIN"
        if not good:
            rep.violation("%s image does not hold the program: name %r (expected %r), type %d/%d, load $%04X exec $%04X (origin $%04X), data %s" % (
                k, f[0], exp_name, f[2], f[3], f[4], f[5], origin, "equal" if f[6] == image else "DIFFERENT (%d vs %d bytes)" % (len(f[6]), len(image))), payload)
            ok = False
    if not ok:
        return False
    # correspondence with MCli.assembler_main: the model assembles the same lines, turns its origin Value into the header
    # word (origin_word) and saves; exit status, messages and every written byte must agree
    lines = ",".join(l.encode("latin-1").hex() or "_" for l in src.splitlines(keepends=True)) or "-"
    sw = lambda k: inv["targets"][k] if k in inv["kinds"] else "-"
    r = drv.ask("asmmain %s %s %s %s %s %d - %s" % (fs_string(ob["before"]), sw("bin"), sw("cas"), sw("dsk"),
                                                  hx((inv.get("name") or "").encode("latin-1")), 1 if inv.get("append") else 0, lines))
    bump(rep, "main_traces")
    if r.startswith("ERROR") or "UNMOD" in r.split(" ")[1] or "FUEL" in r.split(" ")[1]:
        bump(rep, "unmodelled")
    else:
        mrc, mev, mfs = r.split(" ")
        mfs = parse_fs(mfs)
        same = int(mrc) == ob["rc"] and all(mfs.get(inv["targets"][k]) == ob["after"].get(inv["targets"][k], (None,))[0] for k in inv["kinds"]) \
            and model_event_classes("asm", [] if mev == "-" else mev.split("|")) == out_events("asm", ob["out"])
        if not same:
            bump(rep, "disagreements_checked")
            rep.violation("correspondence: MCli.assembler_main (assemble + origin_word + asm_save) differs from assembler.py: model rc=%s %s" % (mrc, mev[:80]),
                          dict(payload, relation="MCli.assembler_main = assembler.py main()"), found_input=False)
            return False
    # correspondence with the model of the save part (and the C10 clauses on fresh targets)
    nf = {k: [(eff, "bin", 2, 0, origin, origin, image)] for k in inv["kinds"]}
    if not eff:
        # the guard RETURNS: a dsk switch after a refused cas switch is skipped silently — judged by the model only
        mod = model_inv(drv, inv, ob["before"], prog)
        bump(rep, "traces_validated_against_impl")
        if mod is not None and not mod["unmod"]:
            same = all(mod["fs"].get(inv["targets"][k]) == ob["after"].get(inv["targets"][k], (None,))[0] for k in inv["kinds"])
            if not same or model_event_classes("asm", mod["events"]) != out_events("asm", ob["out"]):
                bump(rep, "disagreements_checked")
                rep.violation("correspondence: asm_save differs from assembler.py on a program without a name", dict(payload, relation="MVirtualFile.asm_save"), found_input=False)
                return False
        return True
    return judge_step(pid, drv, rep, inv, ob, nf, payload, prog, hist)


def run_c11(pid, tier, rng, drv, rep, hist):
    pool = program_pool(rng)
    if tier == "thorough":
        sizes = [1, 2, 3, 4, 253, 254, 255, 256, 257, 509, 510, 511, 512, 765, 2293, 2294, 2295, 2296, 2303, 2304, 2305, 4597, 4598, 4599, 6901]
        for j in range(250):
            n = rng.choice(sizes) if rng.random() < 0.7 else rng.randrange(1, 12000)
            org = rng.choice([0, 1, 0x10, 0xFF, 0x100, 0x0E00, 0x7FFF, 0x8000, rng.randrange(0, 0xFFFF - n)])
            nm = gen_name(rng)
            src = prog_of_size(nm, n, org, rng.randrange(2))
            arg = None
            how = "nam"
            if rng.random() < 0.3:       # the name comes from --name instead of NAM
                src = "".join(l + "\n" for l in src.split("\n") if l and not l.startswith("  NAM"))
                arg, how = nm, "arg"
            pool.append(("gen%d/%s/org=$%04X/%s" % (n, how, org, nm), src, arg))
    rep.cov["programs"] = len(pool)
    cases = []
    for i, (label, src, arg) in enumerate(pool):
        sets = SWITCH_SETS
        seen = []
        for ks in sets:
            if ks in seen:
                continue
            seen.append(ks)
            inv = {"tool": "asm", "kinds": ks, "targets": {k: "out." + k for k in ks}, "append": False, "prog": "p.asm", "name": arg}
            cases.append({"label": label + "/" + "+".join(ks), "files": {"p.asm": hx(src.encode())}, "invs": [inv]})
    allobs = run_cases(cases)
    sizes = {}
    for case, obs in zip(cases, allobs):
        rep.count(case["label"])
        parts = case["label"].split("/")
        hbump(hist, "name=" + parts[1])
        hbump(hist, "switches=" + parts[-1])
        hbump(hist, parts[2])
        if len(rep.cov["samples"]) < 5:
            rep.sample({"program": case["label"], "stdout": obs[0]["out"][:120], "files": {n: len(c[0]) for n, c in obs[0]["after"].items()}})
    par_map(lambda d, co: c11_check(pid, d, rep, co[0], co[1], hist), zip(cases, allobs), rep)
    rep.cov["program_sizes"] = sorted({len(assemble(src)[2]) for _, src, _ in pool if assemble(src)})


# ---------------------------------------------------------------------------------------------

RULES = {
    "C09": "histories of add(file) / save+re-open through VirtualFile on real temp files (cassette: lengths 0,1,254..257,509..512,k*255+-1,random; "
           "disk: lengths within 13 bytes of granule / sector multiples, random up to 65535, ML/BASIC/ASCII; names 1..12 chars either case; up to the "
           "capacity of the medium) and sequences of 2..4 `assembler.py --to_cas/--to_dsk --append` runs; after every save the spec parser of the image "
           "must list all earlier files unchanged, in order, new ones after; distinct = distinct encoded history / CLI sequence",
    "C10": "the full matrix {assembler.py, file_util.py} x {--to_bin,--to_cas,--to_dsk} x {--append, no append} x pre-existing target {absent, empty, "
           "cassette image, disk image, raw binary, arbitrary bytes (random / text / truncated tape / tape header + garbage)} (+ a 185,865-byte tape at the "
           "thorough tier) and random sequences of 2..5 invocations (single and combined switches) on one directory; bytes + mtime before/after, stdout, "
           "exit status; the old content's kind is judged by the spec parsers, not by the tool; distinct = distinct (files, invocations)",
    "C11": "a pool of programs (with/without NAM, --name, neither or both; with/without ORG; origins incl. < $100 and decimal; names 1..12 chars either case; "
           "sizes 1 byte .. 9 KiB incl. tape-block and granule boundaries; with/without END operand) x output switch sets (each alone and combined); the "
           "assembled image comes from Program.process in-process; containers read by the spec parsers; distinct = distinct (program, switch set)",
    "C16": "generated cassette and disk images (1..4 files, boundary lengths, names 1..12 chars either case) x target kind x --files subsets in "
           "upper/lower/mixed case (with a non-matching name) x the chain back to the source kind; --to_bin on 1 and on >1 files; judged through the spec "
           "parsers with the explicit comparison rule (name by 8-char upper-cased unpadded form, type/data type/data equal, addresses for ML files only); "
           "distinct = distinct (source image, options)",
}
ASSUME = [
    "names / extensions / --files arguments are 7-bit ASCII without blanks",
    "host file system effects are observed as whole-file content + mtime in a private temp directory (no concurrent writers, no symlinks, regular files only)",
    "the old content's container kind is decided by the spec parsers (SpecTape.parse; SpecDisk.fsck + files on exactly 161,280 bytes), raw otherwise",
    "argparse, print formatting and Python's open()/os.path.exists are exercised through the real CLIs but not modelled beyond message classes and exit status",
    "MDisk.list_files is Unmodelled on buffers longer than 161,280 bytes: there the class predicate of tape_sniffed_as_disk alone decides",
]


def run(pid, tier, seed, rep, info):
    rng = common.rng_for(seed, pid)
    proof_ok, details = True, []
    if pid != "C11" or "C11" in info.get("props", {}):
        proof_ok, details = rep.proof(info)
    else:
        rep.level = "translation_validation"
        rep.cov["obligations"] = 1
        rep.cov["discharged"] = 0
        rep.cov["theorems"] = []
    hist = {}
    drv = VDriver()
    try:
        {"C09": run_c09, "C10": run_c10, "C11": run_c11, "C16": run_c16}[pid](pid, tier, rng, drv, TSReport(rep), hist)
    finally:
        drv.close()
    rep.cov["input_distribution"] = hist
    rep.cov["rule"] = RULES[pid]
    rep.assumptions = list(ASSUME)
    if not proof_ok and not rep.violations:
        rep.violation("proof obligation no longer checks: " + "; ".join(details),
                      {"theorem_file": "coq/Properties/%s.v" % pid, "details": details, "make_log": info.get("make_log", "")[-3000:]}, found_input=False)


def replay(pid, path):
    r = json.load(open(path))
    common.build()
    rep = common.Report(pid, "quick", 0)
    drv = VDriver()
    hist = {}
    ok = False
    try:
        if r.get("kind") == "history":
            ok = c09_check_history(pid, drv, rep, r["container"], dec_ops(r["ops"]), hist)
        elif r.get("kind") == "case" and "case" in r:
            case = r["case"]
            obs = run_case(case)
            if pid == "C10":
                ok = c10_check_case(pid, drv, rep, case, obs, hist)
            elif pid == "C09":
                ok = c09_check_cli(pid, drv, rep, case, obs, hist)
            elif pid == "C16":
                ok = c16_check(pid, drv, rep, case, obs, hist)
            else:
                ok = c11_check(pid, drv, rep, case, obs, hist)
        elif r.get("kind") == "failed-append":
            failed_append_cases(pid, rep, hist, random.Random(1))
            ok = True
        else:
            print("replay: nothing executable recorded (%s)" % r.get("what", "")[:200])
            return 1
    finally:
        drv.close()
    print("replay:", "passes now" if ok and not rep.violations else "still fails")
    return 0 if ok and not rep.violations else 1
