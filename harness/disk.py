"""C07 (disk round trip / reader on any valid image), C08 (every written image is a valid Disk BASIC
filesystem), C15 (exact space accounting).  Correspondence: MDisk (extracted Coq) vs cocoasm.virtualfiles.disk
byte-for-byte on add sequences, and reader vs reader on generated images.  Oracles on the implementation's
output: extracted SpecDisk.fsck / SpecDisk.files, and per-step accounting."""
import json
import os

import common
from common import log

GR = 2304
FAT = 78592
DIR = 78848
SIZE = 161280
NAME_CHARS = "ABCDEFGHIJKLMNOPQRSTUVWXYZabcdefghijklmnopqrstuvwxyz0123456789"


def impl():
    common.import_repo()
    from cocoasm.virtualfiles.disk import DiskFile, DiskConstants
    from cocoasm.virtualfiles.coco_file import CoCoFile
    from cocoasm.values import NumericValue
    from cocoasm.virtualfiles.virtual_file_exceptions import VirtualFileValidationError
    return DiskFile, DiskConstants, CoCoFile, NumericValue, VirtualFileValidationError


# harness file: (name, ext, type, ascii, load, exec, data)

def overhead(f):
    return 10 if f[2] == 2 else (0 if f[3] == 255 else 3)


def needed(f):
    return (len(f[6]) + overhead(f)) // GR + 1


def gen_len(rng, tier):
    r = rng.random()
    if r < 0.45:
        k = rng.randrange(0, 4) if rng.random() < 0.8 else rng.randrange(4, 11)
        return max(0, k * GR + rng.randrange(-13, 11))
    if r < 0.65:
        return max(0, rng.randrange(0, 40) * 256 + rng.randrange(-13, 11))
    if r < 0.9:
        return rng.randrange(0, 6000)
    return rng.randrange(0, 65536)


def gen_file(rng, tier, n=None):
    kind = rng.choice(["ML", "ML", "BASIC", "ASCII"])
    ty, asc = {"ML": (2, rng.choice([0, 0, 255])), "BASIC": (rng.choice([0, 1, 3]), 0), "ASCII": (rng.choice([0, 1, 3]), 255)}[kind]
    if n is None:
        n = gen_len(rng, tier)
    m = rng.randrange(4)
    if m == 0:
        data = bytes(rng.randrange(256) for _ in range(n))
    elif m == 1:
        data = bytes([rng.choice([0xFF, 0x00, 0xC1, 0x99])]) * n
    else:
        data = bytes((i * 7 + m) & 255 for i in range(n))
    name = "".join(rng.choice(NAME_CHARS) for _ in range(rng.choice([1, 2, 5, 8, 8, 9, 12, rng.randrange(1, 13)])))
    ext = "".join(rng.choice(NAME_CHARS) for _ in range(rng.choice([0, 1, 3, 3, 3])))
    addr = lambda: rng.choice([0, 255, 256, 0x0E00, 0x7FFF, 0xFFFF, rng.randrange(65536)])
    return (name, ext, ty, asc, addr(), addr(), data)


def gen_seq(rng, tier):
    m = rng.random()
    if m < 0.6:
        return [gen_file(rng, tier) for _ in range(rng.choice([1, 1, 2, 3, 4, 6, 9]))]
    if m < 0.75:  # many small: slot / granule exhaustion by count
        return [gen_file(rng, tier, rng.choice([0, 1, 10, 300, 2293, 2294])) for _ in range(rng.choice([66, 67, 68, 69, 70, 73]))]
    if m < 0.9:  # few large: granule exhaustion
        return [gen_file(rng, tier, rng.randrange(20000, 65536)) for _ in range(rng.choice([2, 3, 4, 5]))]
    return [gen_file(rng, tier, rng.choice([GR * k + d for k in range(1, 5) for d in range(-12, 3)])) for _ in range(rng.randrange(2, 12))]


def gen_order(rng, default):
    if rng.random() < 0.6:
        return list(default)
    o = list(range(68))
    rng.shuffle(o)
    return o


def enc_files(fs):
    if not fs:
        return "-"
    return ";".join("%s,%s,%d,%d,%d,%d,%s" % (f[0].encode("latin-1").hex() or "-", f[1].encode("latin-1").hex() or "-",
                                             f[2], f[3], f[4], f[5], f[6].hex() or "-") for f in fs)


def dec_files(s):
    if s == "-":
        return []
    out = []
    for part in s.split(";"):
        x = part.split(",")
        h = lambda v: bytes.fromhex(v) if v != "-" else b""
        out.append((h(x[0]).decode("latin-1"), h(x[1]).decode("latin-1"), int(x[2]), int(x[3]), int(x[4]), int(x[5]), h(x[6])))
    return out


def norm(f):
    ml = f[2] == 2
    nm = f[0][:8].ljust(8).upper().replace("\0", " ").replace(" ", "")
    ext = f[1][:3].ljust(3).upper().replace("\0", " ")
    return (nm, ext, f[2], f[3], f[4] if ml else 0, f[5] if ml else 0, f[6])


def same_files(a, b):
    """property-level comparison: names case-insensitive"""
    if len(a) != len(b):
        return False
    return all(x[0].upper() == y[0].upper() and x[1].upper() == y[1].upper() and x[2:] == y[2:] for x, y in zip(a, b))


def impl_add_steps(fs, order):
    """-> (list of per-step results).  step result: ('OK', image bytes) | ('DIAG', msg) | ('INTERNAL', name)"""
    DiskFile, DC, CoCoFile, NV, VFVE = impl()
    d = DiskFile(granule_fill_order=list(order)) if order is not None else DiskFile()
    steps = []
    for f in fs:
        cf = CoCoFile(name=f[0], extension=f[1], type=NV(f[2]), data_type=NV(f[3]), load_addr=NV(f[4]), exec_addr=NV(f[5]), data=list(f[6]))
        try:
            d.add_file(cf)
        except VFVE as e:
            # what the container still lists after the refusal (the files stored before it must all be there)
            try:
                after = [(x.name, x.extension, x.type.int, x.data_type.int, x.load_addr.int, x.exec_addr.int, bytes(x.data)) for x in d.list_files()]
            except Exception as e2:  # noqa
                after = "%s: %s" % (type(e2).__name__, e2)
            steps.append(("DIAG", str(e), after))
            break
        except Exception as e:  # noqa
            steps.append(("INTERNAL", "%s: %s" % (type(e).__name__, e)))
            break
        steps.append(("OK", bytes(d.get_buffer())))
    return steps


def impl_list(img):
    DiskFile, DC, CoCoFile, NV, VFVE = impl()
    try:
        files = DiskFile(buffer=list(img)).list_files()
    except VFVE as e:
        return ("DIAG", str(e))
    except UnicodeDecodeError:
        return ("UNMODELLED",)
    except Exception as e:  # noqa
        return ("INTERNAL", "%s: %s" % (type(e).__name__, e))
    return ("OK", [(f.name, f.extension, f.type.int, f.data_type.int, f.load_addr.int, f.exec_addr.int, bytes(f.data)) for f in files])


def parse_model_list(r):
    if r.startswith("OK "):
        return ("OK", dec_files(r[3:]))
    return (r.split()[0],) + tuple(r.split()[1:])


def acct(img):
    """(free granules, set of used granules, number of used directory entries) read straight from the image"""
    usedg = {g for g in range(68) if img[FAT + g] != 0xFF}
    nent = sum(1 for i in range(72) if img[DIR + 32 * i] not in (0x00, 0xFF))
    return 68 - len(usedg), usedg, nent


# ---------------------------------------------------------------------------------------------
# independent builder of valid images the tool's writer never produces (fragmented chains, holes in the directory)
# ---------------------------------------------------------------------------------------------

def goff(g):
    return GR * g + (2 * GR if g > 33 else 0)


def build_image(rng, fs):
    img = bytearray([0xFF] * SIZE)
    for i in range(FAT + 68, FAT + 256):
        img[i] = rng.choice([0, 0, 0xFF])
    free = list(range(68))
    rng.shuffle(free)
    slots = list(range(72))
    if rng.random() < 0.5:
        rng.shuffle(slots)
    slots = sorted(slots[:len(fs)])
    deleted = [s for s in range(72) if s not in slots and rng.random() < 0.1]
    for s in deleted:
        img[DIR + 32 * s] = 0x00
        for k in range(1, 32):
            img[DIR + 32 * s + k] = rng.randrange(256)
    stored = []
    for f, slot in zip(fs, slots):
        ml = f[2] == 2
        L = len(f[6])
        if ml:
            stream = bytes([0, L >> 8, L & 255, f[4] >> 8, f[4] & 255]) + f[6] + bytes([0xFF, 0, 0, f[5] >> 8, f[5] & 255])
        elif f[3] == 255:
            stream = f[6]
        else:
            stream = bytes([0xFF, L >> 8, L & 255]) + f[6]
        S = len(stream)
        style = rng.randrange(3)
        if S % GR == 0 and S > 0 and style == 0:
            n = S // GR          # real Disk BASIC style: exactly full last granule, 9 sectors, 256 bytes
            s, b = 9, 256
        else:
            n = S // GR + 1
            r = S - (n - 1) * GR
            if r == 0 and style == 1 and n > 1 and not (not ml and f[3] == 255):
                s, b = 0, 0    # $C0 terminator (the code's ASCII length arithmetic is a recorded finding)
            elif r % 256 == 0 and r > 0 and style != 2:
                s, b = r // 256, 256
            else:
                s, b = r // 256 + 1, r % 256
        if n > len(free):
            break
        chain = [free.pop() for _ in range(n)]
        for k, g in enumerate(chain):
            piece = stream[k * GR:(k + 1) * GR]
            img[goff(g):goff(g) + len(piece)] = piece
            if rng.random() < 0.3:  # junk after the end of the stream inside an allocated granule
                for j in range(goff(g) + len(piece), goff(g) + GR):
                    img[j] = 0xE5
            img[FAT + g] = chain[k + 1] if k + 1 < n else 0xC0 + s
        name = f[0][:8].upper().ljust(8)
        ext = f[1][:3].upper().ljust(3)
        e = name.encode() + ext.encode() + bytes([f[2], f[3], chain[0], b >> 8, b & 255]) + bytes(rng.choice([0, 0xFF, 7]) for _ in range(16))
        img[DIR + 32 * slot:DIR + 32 * slot + 32] = e
        stored.append((name.replace(" ", ""), ext, f[2], f[3], f[4] if ml else 0, f[5] if ml else 0, f[6]))
    return bytes(img), stored


# ---------------------------------------------------------------------------------------------

def check_sequence(pid, fs, order, default_order, drv, rep, hist):
    """one add sequence.  Returns False on a new violation."""
    key = {"files": enc_files(fs), "order": order}
    steps = impl_add_steps(fs, order)
    okfiles = [f for f, s in zip(fs, steps) if s[0] == "OK"]
    ordstr = ",".join(map(str, order if order is not None else default_order))
    # --- model on the same sequence ---
    r = drv.ask("dskadd %s %s" % (ordstr, enc_files(fs[:len(steps)])))
    rep.cov["traces_validated_against_impl"] += 1
    last = steps[-1] if steps else ("OK", bytes([0xFF]) * SIZE)
    model_ok = r.startswith("OK ")
    ok = True
    if r.startswith("UNMODELLED"):
        rep.cov["unmodelled"] = rep.cov.get("unmodelled", 0) + 1
        return True
    corr = None
    if last[0] == "OK":
        if not model_ok:
            corr = "model: %s, implementation stored all %d files" % (r[:40], len(steps))
        else:
            mimg = bytes.fromhex(r.split(" ")[2]) if len(r.split(" ")) > 2 else b""
            if steps and mimg != last[1]:
                diff = [i for i in range(SIZE) if mimg[i] != last[1][i]][:8]
                corr = "images differ at offsets %s (model chains %s)" % (diff, r.split(" ")[1][:80])
    else:
        if model_ok:
            corr = "model stores all files, implementation failed at file %d: %s" % (len(steps), last[1][:80])
        elif (last[0] == "DIAG") != r.startswith("DIAG"):
            corr = "outcome class differs: impl %s / model %s" % (last[:2], r[:30])
    # --- property oracles on the IMPLEMENTATION's output ---
    prev_img = bytes([0xFF]) * SIZE
    found = False
    for i, (f, s) in enumerate(zip(fs, steps)):
        F, usedg, nent = acct(prev_img)
        n = needed(f)
        hist["needs=%d" % min(n, 12)] = hist.get("needs=%d" % min(n, 12), 0) + 1
        if s[0] == "OK":
            img = s[1]
            F2, usedg2, nent2 = acct(img)
            if pid == "C15":
                what = None
                if n > F:
                    what = "file needing %d granules stored with only %d free" % (n, F)
                elif F - F2 != n:
                    what = "file needing %d granules used %d" % (n, F - F2)
                elif not usedg <= usedg2 or nent2 != nent + 1:
                    what = "granules released or directory entries %d -> %d" % (nent, nent2)
                if what:
                    rep.violation("accounting: " + what, dict(key, kind="seq", step=i))
                    found = True
                    break
            prev_img = img
        else:
            hist["fail"] = hist.get("fail", 0) + 1
            if pid == "C15":
                fits = n <= F and nent < 72
                if fits or s[0] != "DIAG":
                    rep.violation("a file needing %d granules with %d free granules and %d directory entries used failed: %s" % (n, F, nent, s[1][:100]),
                                  dict(key, kind="seq", step=i))
                    found = True
                elif len(s) > 2 and prev_img is not None:
                    before = impl_list(prev_img)
                    if before[0] == "OK" and (not isinstance(s[2], list) or not same_files([norm(x) for x in s[2]], [norm(x) for x in before[1]])):
                        rep.violation("after a refused addition the container no longer lists the %d files stored before it (%s)" % (
                            len(before[1]), ("%d files" % len(s[2])) if isinstance(s[2], list) else s[2][:80]), dict(key, kind="seq", step=i))
                        found = True
            break
    if okfiles and not found:
        img = [s for s in steps if s[0] == "OK"][-1][1]
        if pid == "C08":
            if len(img) != SIZE:
                rep.violation("image is %d bytes" % len(img), dict(key, kind="seq"))
                found = True
            else:
                v = drv.ask("dskfsck " + img.hex())
                if v != "TRUE":
                    why = drv.ask("dskfiles " + img.hex())[:60]
                    rep.violation("written image fails the Disk BASIC consistency check (SpecDisk.fsck; files view: %s)" % why, dict(key, kind="seq"))
                    found = True
        if pid == "C07":
            il = impl_list(img)
            ml = parse_model_list(drv.ask("dsklist " + img.hex()))
            exp = [norm(f) for f in okfiles]
            if not (il[0] == "OK" and same_files(il[1], exp)):
                rep.violation("write-then-list does not return the files written: %s" % str(il)[:160],
                              dict(key, kind="seq", listing=str(il)[:3000]))
                found = True
            elif ml[0] != "UNMODELLED" and not (ml[0] == "OK" and il[1] == ml[1]):
                corr = corr or "reader: model listing differs from implementation listing"
    if corr and not found:
        rep.cov["disagreements_checked"] += 1
        rep.violation("correspondence MDisk vs disk.py broken: " + corr,
                      dict(key, kind="seq", relation="MDisk.add_files/image_of = DiskFile.add_files/get_buffer (byte-for-byte); MDisk.list_files = DiskFile.list_files"),
                      found_input=False)
        found = True
    return not found


def check_image(img, stored, drv, rep, valid=True):
    """reader on an independently built image"""
    il = impl_list(img)
    ml = parse_model_list(drv.ask("dsklist " + img.hex()))
    rep.cov["traces_validated_against_impl"] += 1
    if valid:
        v = drv.ask("dskfsck " + img.hex())
        sf = drv.ask("dskfiles " + img.hex())
        if v != "TRUE" or not sf.startswith("SOME") or not same_files(dec_files(sf[5:]), stored):
            rep.cov["generator_rejected_by_spec"] = rep.cov.get("generator_rejected_by_spec", 0) + 1
            return True   # the generator and the spec disagree: not evidence about the tool
        if not (il[0] == "OK" and same_files(il[1], stored)):
            rep.violation("listing a valid Disk BASIC image does not return the files it contains: %s" % str(il)[:200],
                          {"kind": "image", "image": img.hex(), "expected": [list(f[:6]) + [f[6].hex()] for f in stored]})
            return False
    if ml[0] in ("UNMODELLED", "FUEL"):
        rep.cov["unmodelled"] = rep.cov.get("unmodelled", 0) + 1
        return True
    same = (il[0] == ml[0]) and (il[0] != "OK" or il[1] == ml[1])
    if not same and not (il[0] == "INTERNAL" and ml[0] == "DIAG"):
        rep.cov["disagreements_checked"] += 1
        rep.violation("correspondence MDisk.list_files vs DiskFile.list_files broken on a %s image: impl %s / model %s" % ("valid" if valid else "corrupted", str(il)[:80], str(ml)[:80]),
                      {"kind": "image", "image": img.hex(), "relation": "MDisk.list_files = DiskFile.list_files"}, found_input=False)
        return False
    return True


def corrupt(rng, img):
    b = bytearray(img)
    m = rng.randrange(4)
    if m == 0:
        b[FAT + rng.randrange(68)] = rng.choice([0xFF, 0xC1, 0xC9, rng.randrange(68)])
    elif m == 1:
        b[DIR + 32 * rng.randrange(4) + rng.choice([11, 12, 13, 14, 15])] = rng.randrange(256)
    elif m == 2:
        g = rng.randrange(68)
        b[goff(g) + rng.randrange(6)] = rng.randrange(256)
    else:
        return bytes(b[:rng.choice([0, 100, SIZE - 1])])
    return bytes(b)


def run(pid, tier, seed, rep, info):
    rng = common.rng_for(seed, pid)
    proof_ok, details = rep.proof(info)
    DiskFile, DC, _, _, _ = impl()
    default_order = list(DC.GRANULE_FILL_ORDER)
    n_seq = {"quick": 60, "thorough": 1500}[tier]
    n_img = {"quick": 40, "thorough": 1200}[tier]
    hist = {}
    drv = common.Driver()
    try:
        lay = drv.ask("dsklayout")
        if lay != "TRUE":
            rep.violation("disk.py layout constants no longer match the half-track layout of the model (%s)" % lay, {"kind": "layout"}, found_input=False)
        for kf in common.findings_for(pid):
            for w in kf.get("witnesses", []):
                if w.get("kind") == "seq":
                    fs = dec_files(w["files"])
                    check_sequence(pid, fs, w.get("order"), default_order, drv, rep, hist)
        # boundary lengths, one ML file each (every length within 12 bytes of a granule multiple)
        bl = [k * GR + d for k in (1, 2) for d in range(-12, 3)] + [0, 1, 255, 256, 257]
        if tier == "thorough":
            bl += [k * GR + d for k in range(3, 8) for d in range(-12, 3)] + [k * 256 + d for k in range(1, 20) for d in (-11, -10, -6, -5, -1, 0, 1)]
        for n in bl:
            for kind in ((2, 0), (0, 0), (1, 255)):
                f = ("L%d" % n, "BIN", kind[0], kind[1], 0x0E00, 0x0E10, bytes((i * 3 + n) & 255 for i in range(n)))
                pre = ("PRE", "BIN", 2, 0, 0, 0, b"\x01" * (33 * GR % 7 + 5))
                fs = [f] if n % 2 else [pre, f]
                rep.count(("len", n, kind))
                check_sequence(pid, fs, None, default_order, drv, rep, hist)
                if rep.full():
                    break
            if rep.full():
                break
        # fill an empty disk completely with one-granule files (capacity), default order
        if pid in ("C15", "C08") and not rep.full():
            fs = [("F%d" % i, "DAT", 2, 0, i, i, bytes([i])) for i in range(70)]
            rep.count(("fill68",))
            check_sequence(pid, fs, None, default_order, drv, rep, hist)
        for i in range(n_seq):
            if rep.full():
                break
            fs = gen_seq(rng, tier)
            order = gen_order(rng, default_order)
            order = None if order == default_order else order
            rep.count((enc_files(fs)[:3000], str(order)), nontrivial=len(fs) > 0)
            hist["seq_files=%s" % (len(fs) if len(fs) < 10 else "10+")] = hist.get("seq_files=%s" % (len(fs) if len(fs) < 10 else "10+"), 0) + 1
            if i < 3:
                rep.sample({"files": [(f[0], f[1], f[2], f[3], "%d bytes" % len(f[6])) for f in fs[:6]], "n_files": len(fs), "order": "default" if order is None else "permuted"})
            check_sequence(pid, fs, order, default_order, drv, rep, hist)
        if pid == "C07":
            for i in range(n_img):
                if rep.full():
                    break
                fs = [gen_file(rng, tier) for _ in range(rng.choice([0, 1, 2, 3, 5, 8]))]
                img, stored = build_image(rng, fs)
                rep.count(("img", img[FAT:FAT + 68].hex(), enc_files(fs)[:500]), nontrivial=len(stored) > 0)
                hist["image"] = hist.get("image", 0) + 1
                if i < 2:
                    rep.sample({"independent_image_files": [(f[0], len(f[6])) for f in stored], "fat": img[FAT:FAT + 68].hex()})
                check_image(img, stored, drv, rep, True)
                bad = corrupt(rng, img)
                rep.count(("bad", i))
                hist["corrupted"] = hist.get("corrupted", 0) + 1
                check_image(bad, None, drv, rep, False)
    finally:
        drv.close()
    rep.cov["input_distribution"] = hist
    rep.cov["rule"] = ("add sequences of 1..73 files on a blank image (lengths within 12 bytes of granule/sector multiples, random up to 65535; ML/BASIC/ASCII; names 1..12 chars either case; "
                       "default and randomly permuted fill orders; fill-to-exhaustion runs)" +
                       ("; independently built valid images with fragmented chains, directory holes and alternative last-sector encodings, and corrupted variants" if pid == "C07" else "") +
                       "; distinct = distinct encoded sequence/image; non-trivial = at least one file")
    rep.assumptions = ["names/extensions are 7-bit ASCII", "files are CoCoFile objects with NumericValue(int) fields as the readers and assembler.py build them",
                       "image compared byte-for-byte with the model's image after the last successful add"]
    if not proof_ok and not rep.violations:
        rep.violation("proof obligation no longer checks: " + "; ".join(details),
                      {"theorem_file": "coq/Properties/%s.v" % pid, "details": details, "make_log": info.get("make_log", "")[-3000:]}, found_input=False)


def replay(pid, path):
    r = json.load(open(path))
    common.build()
    rep = common.Report(pid, "quick", 0)
    DiskFile, DC, _, _, _ = impl()
    drv = common.Driver()
    try:
        if r.get("kind") == "seq":
            ok = check_sequence(pid, dec_files(r["files"]), r.get("order"), list(DC.GRANULE_FILL_ORDER), drv, rep, {})
        elif r.get("kind") == "image":
            exp = [tuple(f[:6]) + (bytes.fromhex(f[6]),) for f in r["expected"]] if r.get("expected") else None
            ok = check_image(bytes.fromhex(r["image"]), exp, drv, rep, exp is not None)
        else:
            print("replay: nothing executable recorded (%s)" % r.get("what", "")[:200])
            return 1
    finally:
        drv.close()
    print("replay:", "passes now" if ok and not rep.violations else "still fails")
    return 0 if ok and not rep.violations else 1
