"""Entry point: ./check <id> quick|thorough | ./check <id> --replay <path> | ./check setup"""
import importlib
import json
import os
import sys
import traceback

sys.path.insert(0, os.path.dirname(os.path.abspath(__file__)))
import common  # noqa: E402

MODULES = {
    "C06": "cassette", "C14": "cassette",
    "C07": "disk", "C08": "disk", "C15": "disk",
    "C09": "vfile", "C10": "vfile", "C11": "vfile", "C16": "vfile",
    "C01": "asm", "C12": "asm", "C02": "asm", "C03": "asm", "C04": "asm", "C05": "asm", "C13": "asm",
    "C17": "asm_meta", "C18": "asm_meta", "C19": "asm_meta",
}


def main():
    args = sys.argv[1:]
    if not args:
        print(__doc__)
        return 2
    if args[0] == "setup":
        info = common.build()
        bad = [r for r in info["failed_files"]]
        print("setup: stage1 ok=%s, failed files=%s, gate=%s, %.1fs" % (info["ok_stage1"], bad, info["gate"], info["build_s"]))
        if not info["ok_stage1"]:
            print(info.get("make_log", "")[-3000:])
            print(info.get("ocaml_log", ""))
        return 0 if info["ok_stage1"] else 1
    pid = args[0]
    if pid not in MODULES:
        print("unknown property", pid)
        return 2
    mod = importlib.import_module(MODULES[pid])
    seed = int(os.environ.get("VERIF_SEED", "1"))
    if len(args) >= 3 and args[1] == "--replay":
        return mod.replay(pid, args[2])
    tier = args[1] if len(args) > 1 else os.environ.get("VERIF_TIER", "quick")
    rep = common.Report(pid, tier, seed)
    try:
        info = common.build(clean_proofs=(tier == "thorough" and os.environ.get("VERIF_NO_CLEAN") != "1"))
        if not info["ok_stage1"]:
            rep.violation("stage-1 build (model/spec/extraction/driver) failed: " + info.get("make_log", "")[-1500:],
                          {"build": info.get("make_log", "")[-4000:]}, found_input=False)
            return rep.finish()
        mod.run(pid, tier, seed, rep, info)
    except Exception:
        tb = traceback.format_exc()
        common.log(tb)
        rep.violation("check crashed: " + tb[-1500:], {"traceback": tb}, found_input=False)
    return rep.finish()


if __name__ == "__main__":
    sys.exit(main())
