"""C01 (every instruction statement is encoded as the instruction it names), C12 (no accepted statement yields
a malformed or truncated instruction), C02 (listing addresses, symbols and image agree), C03 (branch and
PC-relative displacements), C04 (expressions), C05 (data directives), C13 (termination / no internal error).

Every case is run on the implementation (/repo, in-process under a watchdog) and on the extracted Coq model
(correspondence), and the IMPLEMENTATION's output is judged by property oracles written from the property
text: the extracted datasheet decoder Spec6809.decode, address arithmetic, expected data bytes.
A failing case is suppressed only if it lies in a class listed in known_findings.json AND the implementation's
output equals the model's prediction for it (the model pins the unchanged tree's behaviour)."""
import collections
import json
import os
import re

import asmgen
import asmlib
import common
import kf

REGCODE = {"D": 0, "X": 1, "Y": 2, "U": 3, "S": 4, "PC": 5, "A": 8, "B": 9, "CC": 10, "DP": 11}
REGSIZE = {"D": 16, "X": 16, "Y": 16, "U": 16, "S": 16, "PC": 16, "A": 8, "B": 8, "CC": 8, "DP": 8}
MASK = {"CC": 1, "A": 2, "B": 4, "D": 6, "DP": 8, "X": 16, "Y": 32, "U": 64, "S": 64, "PC": 128}

_DS = None


def ds_modes(drv):
    """canonical mnemonic -> set of datasheet addressing modes (from the extracted Spec6809 opcode map)"""
    global _DS
    if _DS is None:
        _DS = collections.defaultdict(set)
        for ent in drv.ask("dsmodes").split(";"):
            m, a, _, _ = ent.split(",")
            _DS[m].add(a)
    return _DS


# --------------------------------------------------------------------------------------------------
# what the source says (expected denotation) — from the README grammar and the datasheet mode table
# --------------------------------------------------------------------------------------------------

def expectation(desc, modes):
    """-> ('valid', checker) | ('reject',) | ('none',)   for the statement under test.
    checker(fields, value) -> bool judges the decoded operand fields."""
    mn = asmlib.canon(desc["mn"])
    ms = modes.get(mn, set())
    form = desc["form"]
    v = desc.get("value")
    parts = form.split(",")
    f = parts[0]
    if ("reglist" in ms or "regpair" in ms) and f not in ("reglist", "regpair"):
        return ("none",)          # the grid's operand forms mean something else for PSH/PUL/TFR/EXG
    if f == "inh":
        return ("valid", lambda fl, val: fl == ["inh"]) if "inh" in ms else ("reject",)
    if f == "reglist":
        regs = desc["regs"]
        own = "S" if mn in ("PSHS", "PULS") else "U"
        if not regs or any(r not in MASK or r == own for r in regs):
            return ("reject",)
        mask = 0
        for r in regs:
            mask |= MASK[r]
        return ("valid", lambda fl, val: fl == ["reglist", str(mask)])
    if f == "regpair":
        regs = desc["regs"]
        if len(regs) != 2 or any(r not in REGCODE for r in regs) or REGSIZE[regs[0]] != REGSIZE[regs[1]]:
            return ("reject",)
        return ("valid", lambda fl, val: fl[:3] == ["regpair", str(REGCODE[regs[0]]), str(REGCODE[regs[1]])])
    if v is None and f in ("imm", "plain", "dir", "ext", "extind", "idxv", "iidxv", "pcr", "ipcr"):
        return ("none",)
    if f == "imm":
        if "imm8" in ms:
            return ("valid", lambda fl, val: fl == ["imm8", str(val % 256)]) if -128 <= v <= 255 else ("reject",)
        if "imm16" in ms:
            return ("valid", lambda fl, val: fl == ["imm16", str(val % 65536)]) if -32768 <= v <= 65535 else ("reject",)
        return ("reject",)
    if f in ("plain", "dir", "ext"):
        if "rel8" in ms or "rel16" in ms:
            return ("none",)
        if v < 0:
            return ("none",) if (f == "plain" and ("dir" in ms or "ext" in ms)) else ("reject",) if f == "dir" else ("none",)
        okd = "dir" in ms and v <= 255 and f in ("plain", "dir")
        oke = "ext" in ms and v <= 65535 and f in ("plain", "ext")
        if not okd and not oke:
            return ("reject",)
        return ("valid", lambda fl, val: (okd and fl == ["dir", str(val)]) or (oke and fl == ["ext", str(val)]))
    if "idx" not in ms or f == "badidx":
        return ("reject",)
    if f == "extind":
        return ("valid", lambda fl, val: fl == ["idx", "extind", str(val)]) if 0 <= v <= 65535 else ("none",)
    simple = {"idx0": ("zero", "0"), "iidx0": ("zero", "1"), "inc2": ("inc2", "0"), "iinc2": ("inc2", "1"),
              "dec2": ("dec2", "0"), "idec2": ("dec2", "1")}
    if f in simple:
        k, ind = simple[f]
        return ("valid", lambda fl, val: fl == ["idx", k, parts[1], ind])
    if f in ("inc1", "dec1"):
        return ("valid", lambda fl, val: fl == ["idx", f, parts[1]])
    if f in ("iinc1", "idec1"):
        return ("reject",)
    if f in ("acc", "iacc"):
        return ("valid", lambda fl, val: fl == ["idx", "acc", parts[1], parts[2], "1" if f == "iacc" else "0"])
    if f in ("idxv", "iidxv"):
        ind = "1" if f == "iidxv" else "0"
        r = parts[1]
        if not -32768 <= v <= 65535:
            return ("none",)

        def chk(fl, val):
            if fl[:2] == ["idx", "zero"]:
                return val == 0 and fl[2:] == [r, ind]
            if fl[:2] == ["idx", "off5"]:
                return ind == "0" and fl[2] == r and int(fl[3]) == val
            if fl[:2] == ["idx", "off8"]:
                return fl[2] == r and int(fl[3]) == val and fl[4] == ind
            if fl[:2] == ["idx", "off16"]:
                return fl[2] == r and (int(fl[3]) - val) % 65536 == 0 and fl[4] == ind
            return False
        return ("valid", chk)
    if f in ("pcr", "ipcr"):
        ind = "1" if f == "ipcr" else "0"

        def chk(fl, val):
            if fl[:2] == ["idx", "pc8"]:
                return int(fl[2]) == val and fl[3] == ind
            if fl[:2] == ["idx", "pc16"]:
                return (int(fl[2]) - val) % 65536 == 0 and fl[3] == ind
            return False
        return ("valid", chk) if -32768 <= v <= 65535 else ("none",)
    return ("none",)


# --------------------------------------------------------------------------------------------------
# judging one implementation observation
# --------------------------------------------------------------------------------------------------

def decode_stmt(drv, hexbytes):
    return asmlib.parse_decode(drv.ask("decode " + (hexbytes or "-")))


def is_instruction(mn):
    ins = next((i for i in asmlib.table() if i.mnemonic == mn), None)
    return ins is not None and not ins.is_pseudo


def judge_c12(drv, obs, lines_mn):
    """every accepted instruction statement: bytes decode as exactly one instruction of that mnemonic, consuming
    all of them, count = reserved size.  -> None or a failure string.  lines_mn: mnemonic per emitted statement."""
    for k, (addr, size, hb) in enumerate(obs[4]):
        mn = lines_mn[k] if k < len(lines_mn) else None
        if mn is None or not is_instruction(mn):
            continue
        n = len(hb) // 2
        if n != size:
            return "statement %d (%s): %d bytes emitted, %d reserved" % (k, mn, n, size)
        d = decode_stmt(drv, hb)
        if d is None:
            return "statement %d (%s): bytes %s do not decode as an MC6809 instruction" % (k, mn, hb)
        if d[2] != 0:
            return "statement %d (%s): bytes %s decode with %d bytes left over" % (k, mn, hb, d[2])
        if d[0] != asmlib.canon(mn):
            return "statement %d (%s): bytes %s decode as %s" % (k, mn, hb, d[0])
        if d[1][0] == "regpair" and d[1][3] != "1":
            return "statement %d (%s): register pair of mixed sizes" % (k, mn)
    return None


MN_RE = re.compile(r"^[\w@]*\s+(\w+)")


def mnemonics_of(lines):
    out = []
    for l in lines:
        if not l.strip() or l.lstrip().startswith(";"):
            continue
        m = MN_RE.match(l)
        out.append(m.group(1).upper() if m else None)
    return out


def label_value(desc, obs):
    """value of the label L in the label cases, from the listing addresses of the implementation's own output"""
    k = desc["stmt"]
    if desc["spelling"] == "label-expr":
        return desc["value"]
    if desc["spelling"] == "label-before":
        return obs[4][k - 1][0]
    return obs[4][k + 1][0]


def check_case(pid, lines, desc, i, m, drv, rep, hist):
    """judge one (implementation, model) observation pair for property pid.  Returns (violation_text|None, found_input)"""
    modes = ds_modes(drv)
    fail = None
    if pid in ("C01", "C12") and desc.get("kind") in ("grid", "label", "special"):
        exp = expectation(desc, modes)
        hist["expect=" + exp[0]] += 1
        k = desc.get("stmt", 0)
        if i[0] == "OK":
            fail = judge_c12(drv, i, mnemonics_of(lines)) if pid == "C12" else None
            if fail is None and exp[0] == "reject" and pid == "C12":
                fail = "ill-typed statement accepted: %s -> %s" % (lines[k].strip(), i[4][k][2])
            if fail is None and exp[0] == "valid" and pid == "C01":
                hb = i[4][k][2]
                d = decode_stmt(drv, hb)
                val = desc.get("value")
                if desc.get("kind") == "label":
                    val = label_value(desc, i)
                    if desc["form"] in ("pcr", "ipcr"):
                        val = val - (i[4][k][0] + len(hb) // 2)
                        val = (val + 32768) % 65536 - 32768
                    exp = expectation(dict(desc, value=val), modes)
                if exp[0] == "valid":
                    if d is None or d[2] != 0:
                        fail = "%s -> %s is not one well-formed instruction" % (lines[k].strip(), hb)
                    elif d[0] != asmlib.canon(desc["mn"]) or not exp[1](d[1], val):
                        fail = "%s -> %s decodes as %s %s" % (lines[k].strip(), hb, d[0], ",".join(d[1]))
        elif i[0] == "DIAG":
            if exp[0] == "valid" and pid == "C01":
                fail = "valid statement rejected: %s" % lines[k].strip()
        else:
            fail = "%s on %s" % (i, lines[k].strip())
    elif pid == "C12":
        if i[0] == "OK":
            fail = judge_c12(drv, i, mnemonics_of(lines))
        elif i[0] != "DIAG":
            fail = "outcome %s" % (i,)
    elif pid == "C02":
        fail = judge_c02(lines, desc, i)
    elif pid == "C03":
        fail = judge_c03(drv, lines, desc, i)
    elif pid == "C04":
        fail = judge_c04(drv, lines, desc, i)
    elif pid == "C05":
        fail = judge_c05(lines, desc, i)
    elif pid == "C13":
        if i[0] not in ("OK", "DIAG"):
            fail = "assembly ended with %s" % (i,)
    return fail


# ---------------------------------------------------------------------------------------------- C02
def judge_c02(lines, desc, i):
    """-> None | text | list of (statement index, text): every failing statement is reported separately"""
    want = desc.get("expect")
    if want == "diag":
        return None if i[0] == "DIAG" else "%s accepted/crashed: %s" % (desc.get("why"), i[0])
    if i[0] != "OK":
        return None             # not accepted: termination / internal errors are property C13's business
    _, img, origin, name, st, syms = i
    mns = mnemonics_of(lines) if not desc.get("files") else None
    cat = "".join(b for _, _, b in st)
    if cat != img:
        return "image is not the concatenation of the statements' bytes"
    out = []
    for k, (a, sz, b) in enumerate(st):
        if len(b) // 2 != sz:
            out.append((k, "statement %d: listing reserves %d bytes, %d emitted (%s)" % (k, sz, len(b) // 2, b)))
    for k in range(len(st) - 1):
        if mns and mns[k + 1] == "ORG":
            continue
        if st[k + 1][0] != st[k][0] + st[k][1]:
            out.append((k, "statement %d at $%04X + %d bytes, next statement listed at $%04X" % (k, st[k][0], st[k][1], st[k + 1][0])))
    if not out:
        # loading the image at the origin puts every statement's bytes at its listing address
        base = origin if origin is not None else 0
        off = 0
        for k, (a, sz, b) in enumerate(st):
            if b and base + off != a:
                out.append((-1, "statement %d listed at $%04X but its bytes load at $%04X (origin $%04X + %d)" % (k, a, base + off, base, off)))
                break
            off += len(b) // 2
    # symbols
    symd = dict(syms)
    import kf
    stl = kf.statements(lines) if mns else []
    if mns and len(stl) == len(st):
        for k, (lb, mn, op) in enumerate(stl):
            if not lb:
                continue
            if mn == "EQU":
                lit = kf.literal(op)
                if lit is not None and lit[0] >= 0 and int(symd.get(lb, "0") or "0", 16) != lit[0]:
                    out.append((k, "EQU symbol %s = %s, defined as %s" % (lb, symd.get(lb), op)))
            elif mn != "ORG":
                if lb not in symd or symd[lb] == "" or int(symd[lb], 16) != st[k][0]:
                    out.append((k, "label %s has value %s, its statement is listed at $%04X" % (lb, symd.get(lb), st[k][0])))
    return out or None


# ---------------------------------------------------------------------------------------------- C03
REL_RE = re.compile(r"^\[?([A-Za-z][A-Za-z0-9@]*)(?:([+-])(\d+|[A-Za-z][A-Za-z0-9@]*))?(,PCR)?\]?$")


def judge_c03(drv, lines, desc, i):
    """every branch / label,PCR statement: (address of next instruction + d) mod 65536 = address of label + k;
    a short branch out of range must be rejected"""
    if desc.get("expect") == "diag":
        return None if i[0] == "DIAG" else "short branch out of range not rejected: %s" % (i[0],)
    if i[0] == "DIAG":
        return "in-range program rejected" if desc.get("expect") == "ok" else None
    if i[0] != "OK":
        return None
    import kf
    st = i[4]
    stl = kf.statements(lines)
    if len(stl) != len(st):
        return None
    addr_of = {}
    out = []
    for k, (lb, mn, op) in enumerate(stl):
        if lb and mn != "EQU":
            addr_of[lb] = st[k][0]
    for k, (lb, mn, op) in enumerate(stl):
        ins = next((x for x in asmlib.table() if x.mnemonic == mn), None)
        if ins is None or ins.is_pseudo:
            continue
        m = REL_RE.match(op)
        if not m or m.group(1) not in addr_of:
            continue
        is_branch = ins.is_short_branch or ins.is_long_branch
        if not is_branch and not m.group(4):
            continue
        kc = m.group(3)
        if kc and not kc.isdigit():
            if kc not in desc.get("equ", {}):
                continue                    # a symbolic constant this case does not describe
            kc = desc["equ"][kc]
        target = addr_of[m.group(1)] + (int(kc) if kc else 0) * (-1 if m.group(2) == "-" else 1)
        a, sz, hb = st[k]
        d = decode_stmt(drv, hb)
        if d is None or d[2] != 0:
            out.append((k, "statement %d (%s %s): %s is not one instruction" % (k, mn, op, hb)))
            continue
        f = d[1]
        if f[0] in ("rel8", "rel16"):
            disp = int(f[1])
        elif f[0] == "idx" and f[1] in ("pc8", "pc16"):
            disp = int(f[2])
            if (f[3] == "1") != op.startswith("["):
                out.append((k, "statement %d (%s %s): indirect flag wrong in %s" % (k, mn, op, hb)))
                continue
        else:
            out.append((k, "statement %d (%s %s): %s decodes as %s" % (k, mn, op, hb, ",".join(f))))
            continue
        nxt = a + len(hb) // 2
        if (nxt + disp) % 65536 != target % 65536:
            out.append((k, "statement %d (%s %s) at $%04X: displacement %d reaches $%04X, target is $%04X" % (k, mn, op, a, disp, (nxt + disp) % 65536, target % 65536)))
    return out or None


# ---------------------------------------------------------------------------------------------- C04
def expr_value(desc, obs):
    """arithmetic value of the generated expression (Python ints, truncating division), labels taken from the
    implementation's own symbol table; None = division by zero"""
    symd = {k: (int(v, 16) if v else None) for k, v in obs[5]} if obs[0] == "OK" else {}
    vals = []
    for t in desc["terms"]:
        if t[0] == "label":
            if symd.get(t[1]) is None:
                return "nolabel"
            vals.append(symd[t[1]])
        elif t[0] == "equl":               # an EQU symbol defined by label arithmetic: (kind, name, label, constant)
            if symd.get(t[2]) is None:
                return "nolabel"
            vals.append(symd[t[2]] + t[3])
        else:
            vals.append(t[-1])
    if len(vals) == 1:
        return vals[0]
    a, b = vals
    op = desc["op"]
    if op == "/" and b == 0:
        return None
    return {"+": a + b, "-": a - b, "*": a * b, "/": (abs(a) // abs(b)) * (1 if (a >= 0) == (b >= 0) else -1) if b else 0}[op]


def fits_position(pos, val):
    """8-bit positions must hold the value; 16-bit positions may reduce it modulo 65536 (or reject it)"""
    return {"imm8": -128 <= val <= 255, "fcb": -128 <= val <= 255}.get(pos, True)


def judge_c04(drv, lines, desc, i):
    k = desc["stmt"]
    src = lines[k].strip()
    if desc.get("divzero"):
        return None if i[0] == "DIAG" else "division by zero not rejected: %s -> %s" % (src, i[0])
    pos = desc["pos"]
    if i[0] == "DIAG":
        # rejection is right when the value cannot be represented at this position; the value is known here when
        # no label defined after the statement is involved
        known = dict(desc.get("label_addr", {}))
        if all(t[0] != "label" or t[1] in known for t in desc["terms"]):
            fake = ("OK", "", None, None, (), tuple((n, "%X" % a) for n, a in known.items()))
            val = expr_value(desc, fake)
            if val is None or not fits_position(pos, val) or not 0 <= val <= 65535:
                return None
            return "%s rejected (value %d)" % (src, val)
        return None
    if i[0] != "OK":
        return "%s: %s" % (src, i)
    val = expr_value(desc, i)
    if val == "nolabel":
        return None
    a, sz, hb = i[4][k]
    if not fits_position(pos, val):
        return "%s accepted (value %d cannot be represented here) -> %s" % (src, val, hb)
    want = val % 65536
    if pos == "equ":
        got = dict(i[5]).get("R")
        # the symbol table renders a negative constant in two's complement at the width of its rendering:
        # -3 is listed as FFFD or as FD (both are -3; uses of R are judged by the other positions)
        if got not in (None, "") and -128 <= val < 0 and len(got) <= 2 and int(got, 16) == val % 256:
            return None
        return None if got not in (None, "") and int(got, 16) == want else "%s: R = %s, expression value is $%X" % (src, got, want)
    if pos in ("fcb", "fdb"):
        w = 2 if pos == "fcb" else 4
        return None if hb == ("%0" + str(w) + "X") % (val % (256 if pos == "fcb" else 65536)) else "%s -> %s, value is $%X" % (src, hb, want)
    d = decode_stmt(drv, hb)
    if d is None or d[2] != 0:
        return "%s -> %s is not one instruction" % (src, hb)
    f = d[1]
    if pos == "pcr" and desc["has_label"]:
        want = (val - (a + len(hb) // 2)) % 65536          # a label expression is a target address
    ok = {"imm8": f == ["imm8", str(val % 256)],
          "imm16": f == ["imm16", str(want)],
          "ext": f in (["ext", str(want)], ["dir", str(want)]),
          "extind": f == ["idx", "extind", str(want)],
          "idx": (f[:2] in (["idx", "off5"], ["idx", "off8"], ["idx", "off16"]) and (int(f[3]) - want) % 65536 == 0) or (f[:2] == ["idx", "zero"] and want == 0),
          "pcr": f[:2] in (["idx", "pc8"], ["idx", "pc16"]) and (int(f[2]) - want) % 65536 == 0}[pos]
    return None if ok else "%s -> %s decodes as %s, expression value is $%X" % (src, hb, ",".join(f), val % 65536)


# ---------------------------------------------------------------------------------------------- C05
def judge_c05(lines, desc, i):
    exp = desc.get("expect")
    if exp == "diag":
        return None if i[0] == "DIAG" else "%s: expected a diagnostic, got %s %s" % (desc.get("why"), i[0], i[1][:40] if i[0] == "OK" else "")
    if i[0] != "OK":
        return "%s: %s" % (lines[desc.get("stmt", 0)].strip()[:60], "rejected" if i[0] == "DIAG" else i)
    k = desc.get("stmt", 0)
    hb = i[4][k][2] if k < len(i[4]) else ""
    if desc.get("kind") == "nobytes":
        hb = i[1]                 # the whole image must be empty / only what the other statements emit
        if len(i[4]) > 1:
            hb = "".join(b for j, (_, _, b) in enumerate(i[4]) if j == k)
    if hb != desc["bytes"]:
        return "%s -> %s, specified %s" % (lines[desc.get("stmt", 0)].strip()[:60], hb[:60], desc["bytes"][:60])
    if "image_prefix" in desc and not i[1].startswith(desc["image_prefix"]):
        return "%s: the image is %s, the statements around the directive emit %s" % (lines[desc.get("stmt", 0)].strip()[:60], i[1][:40], desc["image_prefix"])
    return None


# --------------------------------------------------------------------------------------------------

def cases_for(pid, tier, rng):
    reps, rest = asmgen.mnemonic_shapes()
    q = tier == "quick"
    if pid in ("C01", "C12"):
        mns = reps + (rng.sample(rest, 12) if q else rest)
        for c in asmgen.grid_cases(mns, rng, values_per_form=(10 if q else None)):
            yield c
        for c in asmgen.label_cases(reps if q else reps + rest, rng):
            yield c
        for c in asmgen.special_cases(rng, full=not q):
            yield c
        for c in asmgen.bad_index_cases(["LDA", "LEAX", "STX", "JMP", "LDY", "CMPU"] if q else reps + rest, rng, full=not q):
            yield c
        if pid == "C12":
            n = 4000 if q else 60000
            pool = [i.mnemonic for i in asmlib.real_instructions()]
            for _ in range(n):
                mn = rng.choice(pool)
                base = rng.choice(["#$10", "$1234", "5,X", "[$1234]", "A,Y", ",U++", "[D,S]", "<$20", ">$0300", "-3,Y", "300,PCR", "X,Y", "A,B,X"])
                op = base
                for _ in range(rng.choice([0, 1, 1, 2, 3])):
                    op = asmgen._mutate(rng, op).strip() or op
                yield ([" %s %s\n" % (mn, op)], {"kind": "fuzz", "mn": mn, "operand": op})
    elif pid == "C02":
        for c in asmgen.grid_cases(reps, rng, values_per_form=(3 if q else 12)):
            yield c
        for c in asmgen.label_cases(reps[:4] if q else reps, rng):
            yield c
        for _ in range(1500 if q else 40000):
            yield (asmgen.rand_program(rng), {"kind": "prog"})
        for _ in range(100 if q else 2000):
            p = asmgen.rand_program(rng, n=rng.choice([3, 6, 10]), org=False)
            m = rng.randrange(3)
            if m == 0:       # duplicate label
                p.insert(rng.randrange(len(p) + 1), "DUP NOP\n")
                p.insert(rng.randrange(len(p) + 1), "DUP %s\n" % rng.choice(["NOP", "RMB 2", "EQU 5", "FCB 1"]))
                yield (p, {"kind": "prog", "expect": "diag", "why": "label defined twice"})
            elif m == 1:     # undefined symbol
                p.insert(rng.randrange(len(p) + 1), " %s\n" % rng.choice(["JMP NOWHERE", "LDA #UNDEF", "BRA MISSING", "LDX NOSUCH,PCR", "LDA NOSUCH+1"]))
                yield (p, {"kind": "prog", "expect": "diag", "why": "symbol never defined"})
            else:            # a later ORG / code before ORG
                p.insert(rng.randrange(1, len(p) + 1), " ORG $%04X\n" % rng.choice([0x2000, 0x0100, 0x4000]))
                if rng.random() < 0.5:
                    p.insert(0, " ORG $1000\n")
                yield (p, {"kind": "prog", "noncontiguous": True})
        # an ORG after code that restates the running address (number, EQU symbol or expression): the image is
        # still contiguous, and its origin is where it starts
        sized = [("NOP", 1), ("LDA #1", 2), ("LDX #$1234", 3), ("RMB 5", 5), ("FDB 1,2", 4), ("FCC /AB/", 2), ("JMP $2000", 3),
                 ("LDA <$10", 2), ("CLRA", 1), ("LDA 100,X", 3), ("LBRA START", 3)]
        for _ in range(120 if q else 3000):
            base = rng.choice([0x0E00, 0x3000, 0x0020, 0xFF00, 0])
            head = [" ORG $%04X\n" % base] if (base or rng.random() < 0.5) else []
            addr = base + 1
            pre = []
            for _ in range(rng.randrange(1, 6)):
                t, n = rng.choice(sized)
                pre.append(" %s\n" % t)
                addr += n
            spell = rng.choice(["$%04X" % addr, "%d" % addr, "HERE", "$%X+0" % addr, "BASE+%d" % (addr - base)])
            eq = ["HERE EQU $%04X\n" % addr] if spell == "HERE" else ["BASE EQU $%04X\n" % base] if spell.startswith("BASE") else []
            lines = head + eq + ["START NOP\n"] + pre + [" ORG %s\n" % spell, "DATA FCB $AA\n", " JMP DATA\n"]
            if rng.random() < 0.3:
                lines += [" ORG $%04X\n" % (addr + 4), " NOP\n"]
            yield (lines, {"kind": "prog", "restated_org": True})
    elif pid == "C03":
        for c in asmgen.branch_cases(rng, tier):
            yield c
    elif pid == "C04":
        for c in asmgen.expr_cases(rng, tier):
            yield c
    elif pid == "C05":
        for c in asmgen.data_cases(rng, tier):
            yield c
    elif pid == "C13":
        for c in asmgen.stress_cases(rng, tier):
            yield c


def run(pid, tier, seed, rep, info):
    rng = common.rng_for(seed, pid)
    proof_ok, details = rep.proof(info) if pid in info["props"] else (True, [])
    hist = collections.Counter()
    drv = common.Driver()
    known = kf.Known(pid)
    pending = []
    try:
        cases = list(known.witness_cases()) + list(cases_for(pid, tier, rng))
        progs = [(l, d.get("files")) for l, d in cases]
        I = asmlib.impl_batch(progs)
        # source text outside Latin-1 is outside the model's alphabet: those cases are judged on the implementation alone
        M = asmlib.model_batch([((l, f) if not d.get("impl_only") else ([" NOP\n"], None)) for (l, f), (_, d) in zip(progs, cases)])
        M = [i if d.get("impl_only") else m for (_, d), i, m in zip(cases, I, M)]
        for (lines, desc), i, m in zip(cases, I, M):
            key = "".join(lines)
            rep.count(key, nontrivial=(i[0] == "OK"))
            hist["outcome=" + asmlib.outcome_class(i)] += 1
            hist["kind=" + desc.get("kind", "?")] += 1
            rep.cov["traces_validated_against_impl"] += 1
            same = asmlib.same_obs(i, m)
            if m[0] == "UNMODELLED":
                hist["unmodelled"] += 1
            if desc.get("witness"):
                # the recorded witness of an open finding: it must still behave as the model (= the unchanged tree) predicts
                if same:
                    rep.known_finding(desc["witness"], known.describe(desc["witness"]))
                    hist["known:" + desc["witness"]] += 1
                else:
                    rep.violation("the witness of known finding %s no longer behaves as recorded" % desc["witness"],
                                  {"kind": "asm", "lines": lines, "desc": desc, "impl": str(i)[:2000], "model": str(m)[:2000]})
                continue
            fail = check_case(pid, lines, desc, i, m, drv, rep, hist)
            if fail is not None:
                fails = fail if isinstance(fail, list) else [(desc.get("stmt"), fail)]
                unlisted = []
                for k, text in fails:
                    cls = known.classify(lines, desc, i, k)
                    if cls is not None and same:
                        rep.known_finding(cls, known.describe(cls))
                        hist["known:" + cls] += 1
                    else:
                        unlisted.append((k, text, cls))
                if unlisted:
                    k, text, cls = unlisted[0]
                    rep.violation(text, {"kind": "asm", "lines": lines, "desc": {x: y for x, y in desc.items() if not callable(y)}, "files": desc.get("files"),
                                         "impl": str(i)[:3000], "model": str(m)[:3000], "statement": k,
                                         "in_listed_class": cls, "impl_equals_model": same, "all_failures": [t for _, t, _ in unlisted][:5]})
            elif not same:
                # the correspondence is broken on this input but the property oracle passes on it: keep looking for an
                # input on which the property itself fails; these are reported only when the search finds none
                rep.cov["disagreements_checked"] += 1
                hist["correspondence_breaks"] += 1
                if len(pending) < 3:
                    pending.append(("correspondence broken (model and implementation differ; the property oracle passes on this input): %s" % "".join(lines)[:120],
                                    {"kind": "asm", "lines": lines, "desc": {x: y for x, y in desc.items() if not callable(y)}, "impl": str(i)[:3000], "model": str(m)[:3000],
                                     "relation": "MProgram.assemble = Program.process (outcome class, image, addresses, sizes, symbols, origin, name)"}))
            if len(rep.cov["samples"]) < 5 and i[0] == "OK" and desc.get("kind") != "witness":
                rep.sample({"lines": lines, "impl": str(i)[:200]})
            if rep.full():
                break
    finally:
        drv.close()
        asmlib.close_pool()
    if pending and not rep.violations:
        for text, data in pending[:2]:
            rep.violation(text, data, found_input=False)
    rep.cov["input_distribution"] = dict(hist)
    rep.cov["programs"] = rep.cov["evaluations"]
    rep.cov["rule"] = RULES.get(pid, "")
    rep.assumptions = ["source text is 7-bit ASCII, one line per list element ending in a newline (what readlines() yields)",
                       "direct page register assumed 0 (direct and extended interchangeable below $100 unless < or > is written)",
                       "the expected denotation of a generated statement comes from the generator's own description of it (README grammar)"]
    if not proof_ok and not rep.violations:
        rep.violation("proof obligation no longer checks: " + "; ".join(details),
                      {"theorem_file": "coq/Properties/%s.v" % pid, "details": details, "make_log": info.get("make_log", "")[-3000:]}, found_input=False)


RULES = {
    "C01": "statement grid: one mnemonic per distinct table-row shape (all at thorough) x every operand form of the README grammar x boundary values 0..65535 and -32768..-1 x every literal spelling (decimal, $ natural/2/3/4 digits, % 8/16, 'c, leading zero) and EQU symbols, labels before/after at origins 0/$10/$0E00, PSH/PUL lists, all TFR/EXG pairs; distinct = distinct source text; non-trivial = accepted by the implementation",
    "C02": "random programs of 1..40 statements (every operand form, data directives, labels on any statement, forward/backward references, branches and label,PCR operands, ORG none/0/<$100/$100/high), the statement grid (size vs bytes of every form), duplicate-label / undefined-symbol / later-ORG variants; distinct = distinct source text; non-trivial = accepted",
    "C03": "all 19 short and 19 long branch mnemonics and label,PCR / [label,PCR] / label+-k,PCR operands on 1- and 2-byte-opcode instructions, forward and backward, at distances around the 8-bit limits (every distance at thorough) and the 16-bit limits, with 0..3 other not-yet-sized PCR statements in between; distinct = distinct source text; non-trivial = accepted",
    "C04": "every operand position (8/16-bit immediate, extended, extended indirect, index offset, PCR target, EQU, FCB, FDB) x {number, EQU symbol, label before, label after} op {number, EQU symbol, label} for + - * / x spellings x results around 0, 255/256, 32767/32768, 65535/65536, negative, division by zero; distinct = distinct source text; non-trivial = accepted",
    "C05": "FCB/FDB value lists of length 1..64 in every spelling incl. negatives, out-of-range values and symbols; FCC strings of printable ASCII of length 0..255 with runs of spaces, ';' and every delimiter; RMB n for boundary and random n; EQU/ORG/SETDP/NAM/END/INCLUDE emit nothing; distinct = distinct source text; non-trivial = accepted",
    "C13": "single-line mutations of valid programs, random lines over the source alphabet, the label,PCR boundary family at every distance with several undecided statements, INCLUDE cycles and missing files, empty operands, unterminated strings; outcome must be an image or a diagnostic, never an internal error or a time-out; a CLI sample checks exit status and that no output file is written; distinct = distinct source text; non-trivial = not blank",
    "C12": "the C01 grid plus ill-typed variants (out-of-range values, wrong registers, missing modes) and mutated operand strings over the operand alphabet for random mnemonics; distinct = distinct source text; non-trivial = accepted",
}


def replay(pid, path):
    r = json.load(open(path))
    common.build()
    if r.get("kind") != "asm":
        print("replay: nothing executable recorded (%s)" % r.get("what", "")[:200])
        return 1
    drv = common.Driver()
    try:
        lines, desc = r["lines"], r.get("desc", {})
        i = asmlib.impl_asm(lines, r.get("files"))
        m = asmlib.model_batch([(lines, r.get("files"))])[0]
        hist = collections.Counter()
        rep = common.Report(pid, "quick", 0)
        fail = check_case(pid, lines, desc, i, m, drv, rep, hist)
        bad = fail is not None or not asmlib.same_obs(i, m)
    finally:
        drv.close()
    print("replay:", "still fails: %s" % (fail or "model/implementation differ") if bad else "passes now")
    return 1 if bad else 0
