"""C01 (every instruction statement is encoded as the instruction it names), C12 (no accepted statement yields
a malformed or truncated instruction), C02 (listing addresses, symbols and image agree), C03 (branch and
PC-relative displacements), C04 (expressions), C05 (data directives), C13 (termination / no internal error).

Every case is run on the implementation (/repo, in-process under a watchdog) and on the extracted Coq model
(correspondence), and the IMPLEMENTATION's output is judged by property oracles written from the property
text: the extracted datasheet decoder Spec6809.decode, address arithmetic, expected data bytes.
A failing case is suppressed only if it lies in a class listed in known_findings.json AND the implementation's
output equals the model's prediction for it (the model pins the unchanged tree's behaviour)."""
import collections
import json
import os
import re

import asmgen
import asmlib
import common
import kf

REGCODE = {"D": 0, "X": 1, "Y": 2, "U": 3, "S": 4, "PC": 5, "A": 8, "B": 9, "CC": 10, "DP": 11}
REGSIZE = {"D": 16, "X": 16, "Y": 16, "U": 16, "S": 16, "PC": 16, "A": 8, "B": 8, "CC": 8, "DP": 8}
MASK = {"CC": 1, "A": 2, "B": 4, "D": 6, "DP": 8, "X": 16, "Y": 32, "U": 64, "S": 64, "PC": 128}

_DS = None


def ds_modes(drv):
    """canonical mnemonic -> set of datasheet addressing modes (from the extracted Spec6809 opcode map)"""
    global _DS
    if _DS is None:
        _DS = collections.defaultdict(set)
        for ent in drv.ask("dsmodes").split(";"):
            m, a, _, _ = ent.split(",")
            _DS[m].add(a)
    return _DS


# --------------------------------------------------------------------------------------------------
# what the source says (expected denotation) — from the README grammar and the datasheet mode table
# --------------------------------------------------------------------------------------------------

def expectation(desc, modes):
    """-> ('valid', checker) | ('reject',) | ('none',)   for the statement under test.
    checker(fields, value) -> bool judges the decoded operand fields."""
    mn = asmlib.canon(desc["mn"])
    ms = modes.get(mn, set())
    form = desc["form"]
    v = desc.get("value")
    parts = form.split(",")
    f = parts[0]
    if ("reglist" in ms or "regpair" in ms) and f not in ("reglist", "regpair"):
        return ("none",)          # the grid's operand forms mean something else for PSH/PUL/TFR/EXG
    if f == "inh":
        return ("valid", lambda fl, val: fl == ["inh"]) if "inh" in ms else ("reject",)
    if f == "reglist":
        regs = desc["regs"]
        own = "S" if mn in ("PSHS", "PULS") else "U"
        if not regs or any(r not in MASK or r == own for r in regs):
            return ("reject",)
        mask = 0
        for r in regs:
            mask |= MASK[r]
        return ("valid", lambda fl, val: fl == ["reglist", str(mask)])
    if f == "regpair":
        regs = desc["regs"]
        if len(regs) != 2 or any(r not in REGCODE for r in regs) or REGSIZE[regs[0]] != REGSIZE[regs[1]]:
            return ("reject",)
        return ("valid", lambda fl, val: fl[:3] == ["regpair", str(REGCODE[regs[0]]), str(REGCODE[regs[1]])])
    if v is None and f in ("imm", "plain", "dir", "ext", "extind", "idxv", "iidxv", "pcr", "ipcr"):
        return ("none",)
    if f == "imm":
        if "imm8" in ms:
            return ("valid", lambda fl, val: fl == ["imm8", str(val % 256)]) if -128 <= v <= 255 else ("reject",)
        if "imm16" in ms:
            return ("valid", lambda fl, val: fl == ["imm16", str(val % 65536)]) if -32768 <= v <= 65535 else ("reject",)
        return ("reject",)
    if f in ("plain", "dir", "ext"):
        if "rel8" in ms or "rel16" in ms:
            return ("none",)
        if v < 0:
            return ("none",) if (f == "plain" and ("dir" in ms or "ext" in ms)) else ("reject",) if f == "dir" else ("none",)
        okd = "dir" in ms and v <= 255 and f in ("plain", "dir")
        oke = "ext" in ms and v <= 65535 and f in ("plain", "ext")
        if not okd and not oke:
            return ("reject",)
        return ("valid", lambda fl, val: (okd and fl == ["dir", str(val)]) or (oke and fl == ["ext", str(val)]))
    if "idx" not in ms:
        return ("reject",)
    if f == "extind":
        return ("valid", lambda fl, val: fl == ["idx", "extind", str(val)]) if 0 <= v <= 65535 else ("none",)
    simple = {"idx0": ("zero", "0"), "iidx0": ("zero", "1"), "inc2": ("inc2", "0"), "iinc2": ("inc2", "1"),
              "dec2": ("dec2", "0"), "idec2": ("dec2", "1")}
    if f in simple:
        k, ind = simple[f]
        return ("valid", lambda fl, val: fl == ["idx", k, parts[1], ind])
    if f in ("inc1", "dec1"):
        return ("valid", lambda fl, val: fl == ["idx", f, parts[1]])
    if f in ("iinc1", "idec1"):
        return ("reject",)
    if f in ("acc", "iacc"):
        return ("valid", lambda fl, val: fl == ["idx", "acc", parts[1], parts[2], "1" if f == "iacc" else "0"])
    if f in ("idxv", "iidxv"):
        ind = "1" if f == "iidxv" else "0"
        r = parts[1]
        if not -32768 <= v <= 65535:
            return ("none",)

        def chk(fl, val):
            if fl[:2] == ["idx", "zero"]:
                return val == 0 and fl[2:] == [r, ind]
            if fl[:2] == ["idx", "off5"]:
                return ind == "0" and fl[2] == r and int(fl[3]) == val
            if fl[:2] == ["idx", "off8"]:
                return fl[2] == r and int(fl[3]) == val and fl[4] == ind
            if fl[:2] == ["idx", "off16"]:
                return fl[2] == r and (int(fl[3]) - val) % 65536 == 0 and fl[4] == ind
            return False
        return ("valid", chk)
    if f in ("pcr", "ipcr"):
        ind = "1" if f == "ipcr" else "0"

        def chk(fl, val):
            if fl[:2] == ["idx", "pc8"]:
                return int(fl[2]) == val and fl[3] == ind
            if fl[:2] == ["idx", "pc16"]:
                return (int(fl[2]) - val) % 65536 == 0 and fl[3] == ind
            return False
        return ("valid", chk) if -32768 <= v <= 65535 else ("none",)
    return ("none",)


# --------------------------------------------------------------------------------------------------
# judging one implementation observation
# --------------------------------------------------------------------------------------------------

def decode_stmt(drv, hexbytes):
    return asmlib.parse_decode(drv.ask("decode " + (hexbytes or "-")))


def is_instruction(mn):
    ins = next((i for i in asmlib.table() if i.mnemonic == mn), None)
    return ins is not None and not ins.is_pseudo


def judge_c12(drv, obs, lines_mn):
    """every accepted instruction statement: bytes decode as exactly one instruction of that mnemonic, consuming
    all of them, count = reserved size.  -> None or a failure string.  lines_mn: mnemonic per emitted statement."""
    for k, (addr, size, hb) in enumerate(obs[4]):
        mn = lines_mn[k] if k < len(lines_mn) else None
        if mn is None or not is_instruction(mn):
            continue
        n = len(hb) // 2
        if n != size:
            return "statement %d (%s): %d bytes emitted, %d reserved" % (k, mn, n, size)
        d = decode_stmt(drv, hb)
        if d is None:
            return "statement %d (%s): bytes %s do not decode as an MC6809 instruction" % (k, mn, hb)
        if d[2] != 0:
            return "statement %d (%s): bytes %s decode with %d bytes left over" % (k, mn, hb, d[2])
        if d[0] != asmlib.canon(mn):
            return "statement %d (%s): bytes %s decode as %s" % (k, mn, hb, d[0])
        if d[1][0] == "regpair" and d[1][3] != "1":
            return "statement %d (%s): register pair of mixed sizes" % (k, mn)
    return None


MN_RE = re.compile(r"^[\w@]*\s+(\w+)")


def mnemonics_of(lines):
    out = []
    for l in lines:
        if not l.strip() or l.lstrip().startswith(";"):
            continue
        m = MN_RE.match(l)
        out.append(m.group(1).upper() if m else None)
    return out


def label_value(desc, obs):
    """value of the label L in the label cases, from the listing addresses of the implementation's own output"""
    k = desc["stmt"]
    if desc["spelling"] == "label-before":
        return obs[4][k - 1][0]
    return obs[4][k + 1][0]


def check_case(pid, lines, desc, i, m, drv, rep, hist):
    """judge one (implementation, model) observation pair for property pid.  Returns (violation_text|None, found_input)"""
    modes = ds_modes(drv)
    fail = None
    if pid in ("C01", "C12") and desc.get("kind") in ("grid", "label", "special"):
        exp = expectation(desc, modes)
        hist["expect=" + exp[0]] += 1
        k = desc.get("stmt", 0)
        if i[0] == "OK":
            fail = judge_c12(drv, i, mnemonics_of(lines)) if pid == "C12" else None
            if fail is None and exp[0] == "reject" and pid == "C12":
                fail = "ill-typed statement accepted: %s -> %s" % (lines[k].strip(), i[4][k][2])
            if fail is None and exp[0] == "valid" and pid == "C01":
                hb = i[4][k][2]
                d = decode_stmt(drv, hb)
                val = desc.get("value")
                if desc.get("kind") == "label":
                    val = label_value(desc, i)
                    if desc["form"] in ("pcr", "ipcr"):
                        val = val - (i[4][k][0] + len(hb) // 2)
                        val = (val + 32768) % 65536 - 32768
                    exp = expectation(dict(desc, value=val), modes)
                if exp[0] == "valid":
                    if d is None or d[2] != 0:
                        fail = "%s -> %s is not one well-formed instruction" % (lines[k].strip(), hb)
                    elif d[0] != asmlib.canon(desc["mn"]) or not exp[1](d[1], val):
                        fail = "%s -> %s decodes as %s %s" % (lines[k].strip(), hb, d[0], ",".join(d[1]))
        elif i[0] == "DIAG":
            if exp[0] == "valid" and pid == "C01":
                fail = "valid statement rejected: %s" % lines[k].strip()
        else:
            fail = "%s on %s" % (i, lines[k].strip())
    elif pid == "C12":
        if i[0] == "OK":
            fail = judge_c12(drv, i, mnemonics_of(lines))
        elif i[0] != "DIAG":
            fail = "outcome %s" % (i,)
    return fail


# --------------------------------------------------------------------------------------------------

def cases_for(pid, tier, rng):
    reps, rest = asmgen.mnemonic_shapes()
    if pid in ("C01", "C12"):
        mns = reps + (rng.sample(rest, 12) if tier == "quick" else rest)
        for c in asmgen.grid_cases(mns, rng, values_per_form=(10 if tier == "quick" else None)):
            yield c
        for c in asmgen.label_cases(reps if tier == "quick" else reps + rest, rng):
            yield c
        for c in asmgen.special_cases(rng, full=(tier != "quick")):
            yield c
        if pid == "C12":
            n = 4000 if tier == "quick" else 60000
            pool = [i.mnemonic for i in asmlib.real_instructions()]
            for _ in range(n):
                mn = rng.choice(pool)
                base = rng.choice(["#$10", "$1234", "5,X", "[$1234]", "A,Y", ",U++", "[D,S]", "<$20", ">$0300", "-3,Y", "300,PCR", "X,Y", "A,B,X"])
                op = base
                for _ in range(rng.choice([0, 1, 1, 2, 3])):
                    op = asmgen._mutate(rng, op).strip() or op
                yield ([" %s %s\n" % (mn, op)], {"kind": "fuzz", "mn": mn, "operand": op})


def run(pid, tier, seed, rep, info):
    rng = common.rng_for(seed, pid)
    proof_ok, details = rep.proof(info) if pid in info["props"] else (True, [])
    hist = collections.Counter()
    drv = common.Driver()
    known = kf.Known(pid)
    try:
        cases = list(known.witness_cases()) + list(cases_for(pid, tier, rng))
        progs = [(l, None) for l, d in cases]
        I = asmlib.impl_batch(progs)
        M = asmlib.model_batch(progs)
        for (lines, desc), i, m in zip(cases, I, M):
            key = "".join(lines)
            rep.count(key, nontrivial=(i[0] == "OK"))
            hist["outcome=" + asmlib.outcome_class(i)] += 1
            hist["kind=" + desc.get("kind", "?")] += 1
            rep.cov["traces_validated_against_impl"] += 1
            same = asmlib.same_obs(i, m)
            if m[0] == "UNMODELLED":
                hist["unmodelled"] += 1
            fail = check_case(pid, lines, desc, i, m, drv, rep, hist)
            if fail is not None:
                cls = known.classify(lines, desc, i)
                if cls is not None and same:
                    rep.known_finding(cls, known.describe(cls))
                    hist["known:" + cls] += 1
                    continue
                rep.violation(fail, {"kind": "asm", "lines": lines, "desc": desc, "impl": str(i)[:3000], "model": str(m)[:3000],
                                     "in_listed_class": cls, "impl_equals_model": same})
            elif not same:
                rep.cov["disagreements_checked"] += 1
                rep.violation("correspondence broken (model and implementation differ; the property oracle passes on this input): %s" % "".join(lines)[:120],
                              {"kind": "asm", "lines": lines, "desc": desc, "impl": str(i)[:3000], "model": str(m)[:3000],
                               "relation": "MProgram.assemble = Program.process (outcome class, image, addresses, sizes, symbols, origin, name)"},
                              found_input=False)
            if len(rep.cov["samples"]) < 5 and i[0] == "OK" and desc.get("kind") != "witness":
                rep.sample({"lines": lines, "impl": str(i)[:200]})
            if rep.full():
                break
    finally:
        drv.close()
        asmlib.close_pool()
    rep.cov["input_distribution"] = dict(hist)
    rep.cov["programs"] = rep.cov["evaluations"]
    rep.cov["rule"] = RULES.get(pid, "")
    rep.assumptions = ["source text is 7-bit ASCII, one line per list element ending in a newline (what readlines() yields)",
                       "direct page register assumed 0 (direct and extended interchangeable below $100 unless < or > is written)",
                       "the expected denotation of a generated statement comes from the generator's own description of it (README grammar)"]
    if not proof_ok and not rep.violations:
        rep.violation("proof obligation no longer checks: " + "; ".join(details),
                      {"theorem_file": "coq/Properties/%s.v" % pid, "details": details, "make_log": info.get("make_log", "")[-3000:]}, found_input=False)


RULES = {
    "C01": "statement grid: one mnemonic per distinct table-row shape (all at thorough) x every operand form of the README grammar x boundary values 0..65535 and -32768..-1 x every literal spelling (decimal, $ natural/2/3/4 digits, % 8/16, 'c, leading zero) and EQU symbols, labels before/after at origins 0/$10/$0E00, PSH/PUL lists, all TFR/EXG pairs; distinct = distinct source text; non-trivial = accepted by the implementation",
    "C12": "the C01 grid plus ill-typed variants (out-of-range values, wrong registers, missing modes) and mutated operand strings over the operand alphabet for random mnemonics; distinct = distinct source text; non-trivial = accepted",
}


def replay(pid, path):
    r = json.load(open(path))
    common.build()
    if r.get("kind") != "asm":
        print("replay: nothing executable recorded (%s)" % r.get("what", "")[:200])
        return 1
    drv = common.Driver()
    try:
        lines, desc = r["lines"], r.get("desc", {})
        i = asmlib.impl_asm(lines)
        m = asmlib.model_batch([(lines, None)])[0]
        hist = collections.Counter()
        rep = common.Report(pid, "quick", 0)
        fail = check_case(pid, lines, desc, i, m, drv, rep, hist)
        bad = fail is not None or not asmlib.same_obs(i, m)
    finally:
        drv.close()
    print("replay:", "still fails: %s" % (fail or "model/implementation differ") if bad else "passes now")
    return 1 if bad else 0
