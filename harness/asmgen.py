"""Generators for assembler inputs: the statement grid (mnemonic x operand form x value x spelling), random
programs with labels / branches / PCR / data, expression grids, data-directive cases, malformed lines."""
import asmlib

VALUES = [0, 1, 2, 15, 16, 17, 31, 32, 100, 126, 127, 128, 129, 200, 254, 255, 256, 257, 1000, 4095, 4096,
          32766, 32767, 32768, 32769, 40000, 65534, 65535]
NEG_VALUES = [-1, -2, -15, -16, -17, -100, -127, -128, -129, -130, -255, -256, -257, -1000, -32767, -32768]
REGS = ["X", "Y", "U", "S"]
ALLREGS = ["A", "B", "D", "X", "Y", "U", "S", "CC", "DP", "PC"]


def spellings(v):
    """every literal spelling of the value v (>= 0), tagged"""
    out = [("dec", str(v))]
    out.append(("hexn", "$%X" % v))
    if v < 256:
        out.append(("hex2", "$%02X" % v))
        out.append(("bin8", "%" + format(v, "08b")))
        if 33 <= v <= 126 and chr(v) in "abcXYZ019><'\";:,.#?$%^&*()=!+-/":
            out.append(("chr", "'" + chr(v)))
    out.append(("hex4", "$%04X" % v))
    out.append(("bin16", "%" + format(v, "016b")))
    if v < 4096:
        out.append(("hex3", "$%03X" % v))
    out.append(("dec0", "0" + str(v)))
    return out


def value_texts(v):
    if v < 0:
        return [("neg", str(v))]
    return spellings(v)


def operand_forms(kind):
    """templates with {v}; kind tells which value domain applies.  (form_id, template, needs_value)"""
    forms = [("inh", "", False), ("imm", "#{v}", True), ("plain", "{v}", True), ("dir", "<{v}", True), ("ext", ">{v}", True),
             ("extind", "[{v}]", True)]
    for r in REGS:
        forms += [("idx0," + r, "," + r, False), ("idxv," + r, "{v}," + r, True),
                  ("acc,A," + r, "A," + r, False), ("acc,B," + r, "B," + r, False), ("acc,D," + r, "D," + r, False),
                  ("inc1," + r, "," + r + "+", False), ("inc2," + r, "," + r + "++", False),
                  ("dec1," + r, ",-" + r, False), ("dec2," + r, ",--" + r, False),
                  ("iidx0," + r, "[," + r + "]", False), ("iidxv," + r, "[{v}," + r + "]", True),
                  ("iacc,A," + r, "[A," + r + "]", False), ("iacc,B," + r, "[B," + r + "]", False), ("iacc,D," + r, "[D," + r + "]", False),
                  ("iinc2," + r, "[," + r + "++]", False), ("idec2," + r, "[,--" + r + "]", False),
                  ("iinc1," + r, "[," + r + "+]", False), ("idec1," + r, "[,-" + r + "]", False)]
    forms += [("pcr", "{v},PCR", True), ("ipcr", "[{v},PCR]", True)]
    return forms


def mnemonic_shapes():
    """one representative mnemonic per distinct (mode availability, sizes, flags) shape, plus the rest"""
    shapes = {}
    for i in asmlib.real_instructions():
        m = i.mode
        key = (m.inh is not None, m.imm is not None, m.dir is not None, m.ind is not None, m.ext is not None, m.rel is not None,
               m.inh_sz, m.imm_sz, m.dir_sz, m.ind_sz, m.ext_sz, m.rel_sz, i.is_special, i.is_16_bit, i.is_lea,
               i.is_short_branch, i.is_long_branch,
               # the opcode page of every mode ($10 / $11 prefixed opcodes are shapes of their own)
               tuple(None if o is None else o >> 8 for o in (m.inh, m.imm, m.dir, m.ind, m.ext, m.rel)))
        shapes.setdefault(key, []).append(i.mnemonic)
    reps = [v[0] for v in shapes.values()]
    rest = [m for v in shapes.values() for m in v[1:]]
    return reps, rest


def grid_cases(mnemonics, rng, values_per_form=None, with_symbols=True):
    """yield (lines, desc) single-statement programs (plus defining lines for symbols)"""
    for mn in mnemonics:
        for fid, tmpl, needs in operand_forms(None):
            if not needs:
                yield ([" %s %s\n" % (mn, tmpl)], {"mn": mn, "form": fid, "kind": "grid"})
                continue
            vals = VALUES + NEG_VALUES
            if values_per_form:
                # the width boundaries are always there (whatever the seed), the rest is sampled
                always = [v for v in (-129, -128, -255, 127, 128, 255, 256, -32768, 32767, 65535, 0, 15, 16, -16, -17) if v in vals]
                rest_ = [v for v in vals if v not in always]
                vals = always + rng.sample(rest_, min(max(values_per_form - 4, 3), len(rest_)))
            for v in vals:
                for sp, txt in value_texts(v):
                    yield ([" %s %s\n" % (mn, tmpl.format(v=txt))], {"mn": mn, "form": fid, "value": v, "spelling": sp, "kind": "grid"})
                if with_symbols and v >= 0:
                    for sp, txt in (("equ-dec", str(v)), ("equ-hex4", "$%04X" % v)):
                        yield (["V EQU %s\n" % txt, " %s %s\n" % (mn, tmpl.format(v="V"))],
                               {"mn": mn, "form": fid, "value": v, "spelling": sp, "kind": "grid", "stmt": 1})


def label_cases(mnemonics, rng):
    """label operands: before / after the statement, at low and high addresses, every form that takes a value"""
    for mn in mnemonics:
        for fid, tmpl, needs in operand_forms(None):
            if not needs:
                continue
            for org in (None, 0x10, 0x0E00):
                pre = [] if org is None else [" ORG $%04X\n" % org]
                base = org or 0
                yield (pre + ["L NOP\n", " %s %s\n" % (mn, tmpl.format(v="L"))],
                       {"mn": mn, "form": fid, "value": base, "spelling": "label-before", "kind": "label", "stmt": len(pre) + 1, "org": org})
                yield (pre + [" %s %s\n" % (mn, tmpl.format(v="L")), "L NOP\n"],
                       {"mn": mn, "form": fid, "value": None, "spelling": "label-after", "kind": "label", "stmt": len(pre), "org": org})
        # label arithmetic behind an explicit < or >: the direct page offset is an UNSIGNED byte (a result below 0 or above
        # 255 is rejected), the extended address a 16-bit word
        for org, k in ((0x10, -0x20), (0x10, 5), (0x00, -1), (0x40, -0x41), (0x80, 0x7F), (0x80, 0x80), (0x0E00, -0x0DFF), (0x0E00, -0x0E01)):
            e = "L+%d" % k if k >= 0 else "L-%d" % -k
            for fid, tm in (("dir", "<%s"), ("ext", ">%s")):
                yield ([" ORG $%04X\n" % org, "L NOP\n", " %s %s\n" % (mn, tm % e)],
                       {"mn": mn, "form": fid, "value": org + k, "spelling": "label-expr", "kind": "label", "stmt": 2, "org": org})


def special_cases(rng, full=False):
    import itertools
    for mn in ["PSHS", "PSHU", "PULS", "PULU"]:
        for r in ALLREGS:
            yield ([" %s %s\n" % (mn, r)], {"mn": mn, "form": "reglist", "regs": [r], "kind": "special"})
        for k in (2, 3, 5, 8):
            for _ in range(6 if not full else 30):
                rs = rng.sample(ALLREGS, k)
                yield ([" %s %s\n" % (mn, ",".join(rs))], {"mn": mn, "form": "reglist", "regs": rs, "kind": "special"})
        yield ([" %s\n" % mn], {"mn": mn, "form": "reglist", "regs": [], "kind": "special"})
        yield ([" %s A,A\n" % mn], {"mn": mn, "form": "reglist", "regs": ["A", "A"], "kind": "special"})
        yield ([" %s Z\n" % mn], {"mn": mn, "form": "reglist", "regs": ["Z"], "kind": "special"})
    for mn in ["TFR", "EXG"]:
        for a, b in itertools.product(ALLREGS, ALLREGS):
            yield ([" %s %s,%s\n" % (mn, a, b)], {"mn": mn, "form": "regpair", "regs": [a, b], "kind": "special"})
        for t in ["A", "A,B,X", "", "Q,A", "A,Q", "a,b"]:
            yield ([" %s %s\n" % (mn, t)], {"mn": mn, "form": "regpair", "regs": t.split(","), "kind": "special", "bad": True})


def bad_index_cases(mns, rng, full=False):
    """indexed operands whose parts are each well formed but whose COMBINATION is not an MC6809 addressing mode:
    ,PCR without an offset, an accumulator offset with PCR or with auto increment/decrement, a register with both
    a decrement prefix and an increment suffix, a constant offset with auto increment/decrement, more than two
    signs.  All must be rejected."""
    regs = ["X", "Y", "U", "S"]
    ops = [",PCR", "[,PCR]"]
    for a in ["A", "B", "D"]:
        ops += ["%s,PCR" % a, "[%s,PCR]" % a]
        for r in regs:
            ops += ["%s,%s+" % (a, r), "%s,%s++" % (a, r), "%s,-%s" % (a, r), "%s,--%s" % (a, r), "[%s,%s++]" % (a, r), "[%s,--%s]" % (a, r)]
    for r in regs:
        for pre in ["-", "--"]:
            for suf in ["+", "++"]:
                ops += [",%s%s%s" % (pre, r, suf), "[,%s%s%s]" % (pre, r, suf)]
        ops += ["5,%s+" % r, "-3,--%s" % r, "[5,%s++]" % r, "$1234,-%s" % r, ",%s+++" % r, ",---%s" % r, ",+%s" % r, ",%s-" % r,
                "[,%s+]" % r, "[,-%s]" % r]
    for mn in mns:
        for op in (ops if full else rng.sample(ops, 24)):
            yield ([" %s %s\n" % (mn, op)], {"mn": mn, "form": "badidx", "kind": "grid", "operand": op})


# ------------------------------------------------------------------------------------------------
# random programs (C02 / C03 / C13 / C17 / C18 / C19)
# ------------------------------------------------------------------------------------------------

SIMPLE = ["NOP", "RTS", "CLRA", "INCB", "MUL", "ABX", "SWI", "SYNC", "DAA", "SEX"]
SHORT_BR = ["BRA", "BEQ", "BNE", "BCC", "BCS", "BHS", "BLO", "BMI", "BPL", "BVC", "BVS", "BGE", "BGT", "BHI", "BLE", "BLS", "BLT", "BRN", "BSR"]
LONG_BR = ["LBRA", "LBEQ", "LBNE", "LBCC", "LBCS", "LBHS", "LBLO", "LBMI", "LBPL", "LBVC", "LBVS", "LBGE", "LBGT", "LBHI", "LBLE", "LBLS", "LBLT", "LBRN", "LBSR"]
IDX_MN = ["LDA", "STB", "LDX", "LEAX", "LEAY", "JSR", "LDY", "CMPS", "STU", "ADDD", "NEG", "JMP", "LDS", "CMPU"]


def rand_stmt(rng, labels, allow_pcr=True):
    """one random well-formed statement body 'MNEM OPERAND' referring to labels in `labels`"""
    r = rng.random()
    L = rng.choice(labels) if labels else None
    if r < 0.18:
        return rng.choice(SIMPLE)
    if r < 0.30 and L:
        return "%s %s" % (rng.choice(SHORT_BR + LONG_BR), L)
    if r < 0.40 and L and allow_pcr:
        t = rng.choice(["%s,PCR", "[%s,PCR]", "%s+1,PCR", "%s-2,PCR"]) % L
        return "%s %s" % (rng.choice(IDX_MN), t)
    if r < 0.50 and L:
        mn = rng.choice(["JMP", "JSR", "LDX", "LDA", "STD", "LDY", "CMPX"])
        forms = [">%s", "%s", "%s+1", "[%s]", "%s-2"] + (["#%s"] if mn in ("LDX", "LDY", "CMPX") else [])
        return "%s %s" % (mn, rng.choice(forms) % L)
    if r < 0.525 and L:
        # a symbol as a data element (today it emits zeros: known-finding class symbol_in_data); whatever it emits,
        # the bytes must be as many as the statement's reserved size
        return rng.choice(["FDB %s", "FCB %s", "FDB %s+1"]) % L
    if r < 0.58:
        return "RMB %d" % rng.choice([0, 1, 2, 5, 100, 120, 121, 122, 123, 124, 125, 126, 127, 128, 129, 130, 250, 300])
    if r < 0.64:
        return "FCB %s" % ",".join(str(rng.randrange(256)) for _ in range(rng.choice([1, 2, 3, 8])))
    if r < 0.68:
        return "FDB %s" % ",".join("$%04X" % rng.randrange(65536) for _ in range(rng.choice([1, 2, 4])))
    if r < 0.72:
        return 'FCC "%s"' % "".join(rng.choice("AB c;d,e  \t") for _ in range(rng.randrange(0, 9)))
    mn = rng.choice(IDX_MN + ["LDB", "ORA", "SUBD", "CMPX", "STA", "STX", "TST", "CLR", "INC"])
    v = rng.choice(VALUES[:18] + [0x0E00, 0x1234])
    form = rng.choice(["#%d", "$%04X", "<$%02X", ">$%04X", "%d,X", "%d,Y", ",U", ",S++", ",--X", "A,X", "D,Y", "[%d,X]", "[$%04X]", "-%d,X", "[-%d,U]", "[,Y]", "[B,S]"])
    if "%" in form:
        if "02X" in form:
            v &= 0xFF
        form = form % v
    if mn.startswith("ST") and form.startswith("#"):
        form = form[1:]
    if mn in ("LEAX", "LEAY", "JSR", "JMP", "NEG", "TST", "CLR", "INC") and form.startswith("#"):
        form = ",X"
    if mn in ("LEAX", "LEAY") and not ("," in form):
        form = ",X"
    return "%s %s" % (mn, form)


def rand_program(rng, n=None, org=True, names=None):
    n = n or rng.choice([1, 2, 3, 5, 8, 12, 20, 40])
    nlabels = rng.randrange(0, max(1, n // 2) + 1)
    pool = names or ["L%d" % k for k in range(40)] + ["LOOP", "START", "DONE", "TBL", "A1", "B2", "XX", "PCR1", "S9", "AT@X"]
    labels = rng.sample(pool, min(nlabels, len(pool)))
    lines = []
    if org and rng.random() < 0.9:
        lines.append(" ORG %s\n" % rng.choice(["$0E00", "$0E00", "$1000", "$7F00", "3584", "$FF00", "$0100", "$0100", "$4000", "$0000", "$0010", "$00F0"]))
    if rng.random() < 0.3:
        lines.append(" NAM %s\n" % rng.choice(["TEST", "hello", "LONGNAME12", "A"]))
    where = {}
    for lb in labels:
        where.setdefault(rng.randrange(n), []).append(lb)
    for k in range(n):
        body = rand_stmt(rng, labels)
        lbs = where.get(k, [])
        if lbs:
            lines.append("%s %s\n" % (lbs[0], body))
            for extra in lbs[1:]:
                lines.append("%s NOP\n" % extra)
        else:
            lines.append(" %s\n" % body)
    if rng.random() < 0.3:
        lines.append(" END\n")
    return lines


def mutate_line(rng, line):
    """single-line mutation; the line keeps at most one newline, at its end (as readlines() produces)"""
    nl = line.endswith("\n")
    out = _mutate(rng, line[:-1] if nl else line)
    out = out.replace("\n", "")
    return out + ("\n" if nl and rng.random() < 0.95 else "")


def _mutate(rng, line):
    m = rng.randrange(9)
    alphabet = " \tABXYZLDNOP019#$%<>[],+-;'\"*/@._"
    if m == 0 and line:
        i = rng.randrange(len(line))
        return line[:i] + line[i + 1:]
    if m == 1:
        i = rng.randrange(len(line) + 1)
        return line[:i] + rng.choice(alphabet) + line[i:]
    if m == 2 and line:
        i = rng.randrange(len(line))
        return line[:i] + rng.choice(alphabet) + line[i + 1:]
    if m == 3:
        parts = line.split()
        if parts:
            parts.pop(rng.randrange(len(parts)))
        return " " + " ".join(parts)
    if m == 4:
        parts = line.split()
        if parts:
            k = rng.randrange(len(parts))
            parts.insert(k, parts[k])
        return " " + " ".join(parts)
    if m == 5:
        return line.rstrip()
    if m == 6:
        return "".join(rng.choice(alphabet) for _ in range(rng.randrange(1, 14)))
    if m == 7:
        return line.replace(" ", "  ", 1)
    return line + " ; c"


# ------------------------------------------------------------------------------------------------
# C03: branches and label,PCR at distances around the limits
# ------------------------------------------------------------------------------------------------

def filler(n):
    """n bytes of filler that needs no operand resolution"""
    return [" RMB %d\n" % n] if n else []


def branch_cases(rng, tier):
    q = tier == "quick"
    short_d = [0, 1, 2, 100, 124, 125, 126, 127, 128, 129, 130, 131, 200] if q else list(range(0, 301))
    for mn in SHORT_BR:
        for n in (short_d if mn in ("BRA", "BNE", "BSR") or not q else [0, 125, 126, 127, 128, 129]):
            # forward: d = n (bytes between the end of the branch and the target)
            yield (["S %s T\n" % mn] + filler(n) + ["T NOP\n"], {"kind": "branch", "dir": "fwd", "n": n, "expect": "ok" if n <= 127 else "diag"})
            # backward: d = -(n + 1 + 2) with a 1-byte target statement
            yield (["T NOP\n"] + filler(n) + [" %s T\n" % mn], {"kind": "branch", "dir": "bwd", "n": n, "expect": "ok" if n + 3 <= 128 else "diag"})
    long_d = [0, 1, 126, 127, 128, 129, 255, 256, 300, 32760, 32764, 32765, 32766, 32767, 32768, 32769, 40000]
    for mn in LONG_BR:
        for n in (long_d if mn in ("LBRA", "LBNE", "LBSR") or not q else [0, 127, 128, 300]):
            yield (["S %s T\n" % mn] + filler(n) + ["T NOP\n"], {"kind": "branch", "dir": "fwd", "n": n, "expect": "ok"})
            yield (["T NOP\n"] + filler(n) + [" %s T\n" % mn], {"kind": "branch", "dir": "bwd", "n": n, "expect": "ok"})
    # branches with other statements (incl. undecided PCR statements) in between, origins near the wrap
    for _ in range(150 if q else 3000):
        mn = rng.choice(SHORT_BR + LONG_BR)
        mid = [" %s\n" % rand_stmt(rng, ["T", "S"]) for _ in range(rng.randrange(0, 12))]
        org = rng.choice([[], [" ORG $0E00\n"], [" ORG $FF00\n"], [" ORG $00F0\n"]])
        if rng.random() < 0.5:
            yield (org + ["S %s T\n" % mn] + mid + ["T NOP\n"], {"kind": "branch", "dir": "fwd-mixed"})
        else:
            yield (org + ["T NOP\n", "S NOP\n"] + mid + [" %s T\n" % mn], {"kind": "branch", "dir": "bwd-mixed"})
    # label,PCR
    pcr_mn = ["LEAX", "LDA", "LDX", "LDY", "CMPS", "JSR", "STD", "LEAS"]
    dist = list(range(108, 136)) if q else list(range(0, 300))
    for mn in (pcr_mn[:4] if q else pcr_mn):
        for tmpl in (["T,PCR", "[T,PCR]"] if q else ["T,PCR", "[T,PCR]", "T+1,PCR", "T-2,PCR"]):
            for n in (dist if mn in ("LEAX", "LDY") or not q else [118, 119, 120, 121, 122, 123, 124, 125, 126, 127, 128, 129]):
                yield ([" %s %s\n" % (mn, tmpl)] + filler(n) + ["T NOP\n"], {"kind": "pcr", "dir": "fwd", "n": n})
                yield (["T NOP\n"] + filler(n) + [" %s %s\n" % (mn, tmpl)], {"kind": "pcr", "dir": "bwd", "n": n})
    for n in [250, 32750, 32760, 32761, 32762, 32763, 32764, 32765, 32766, 32767, 32768, 32770, 33000]:
        for mn in ("LEAX", "LDY"):
            yield ([" %s T,PCR\n" % mn] + filler(n) + ["T NOP\n"], {"kind": "pcr", "dir": "fwd", "n": n})
            yield (["T NOP\n"] + filler(n) + [" %s T,PCR\n" % mn], {"kind": "pcr", "dir": "bwd", "n": n})
    # label+k,PCR / label-k,PCR with k chosen so that the net displacement lies around the 8-bit limits in both
    # directions (the constant, not the distance to the label, decides the width)
    nets = list(range(-133, -123)) + list(range(122, 132)) if q else list(range(-140, -115)) + list(range(115, 140))
    for mn in (["LEAX", "LDA"] if q else pcr_mn):
        for n in ([0, 60, 200] if q else [0, 1, 60, 126, 127, 128, 200, 300, 1000]):
            for net in nets:
                for ind in (["%s,PCR"] if q else ["%s,PCR", "[%s,PCR]"]):
                    # backward: statement at T+1+n, 8-bit form is 3 bytes long (4 with a page prefix): net = k - n - 4
                    k = net + n + 4
                    e = "T+%d" % k if k >= 0 else "T-%d" % -k
                    yield (["T NOP\n"] + filler(n) + [" %s %s\n" % (mn, ind % e)], {"kind": "pcr", "dir": "bwd-const", "n": n, "net": net})
                    # forward: target T at a + size + n: net = n + k
                    k = net - n
                    e = "T+%d" % k if k >= 0 else "T-%d" % -k
                    yield ([" %s %s\n" % (mn, ind % e)] + filler(n) + ["T NOP\n"], {"kind": "pcr", "dir": "fwd-const", "n": n, "net": net})
    # the same with the constant reached through an EQU symbol of either sign: label+K / label-K with K EQU +-m
    # (the width decision and the emitted displacement must use the same signed constant)
    for mn in (["LEAX", "LDY"] if q else pcr_mn):
        for n in ([0, 50, 110] if q else [0, 1, 20, 50, 100, 110, 121, 126, 200]):
            for net in (nets[::2] if q else nets):
                for sgn in ("+", "-"):
                    for ind in (["%s,PCR"] if q else ["%s,PCR", "[%s,PCR]"]):
                        for fwd in (False, True):
                            k = (net - n) if fwd else (net + n + 4)          # label + k = target
                            kv = k if sgn == "+" else -k                      # T+K or T-K
                            if not -32768 <= kv <= 65535:
                                continue
                            equ = ["K EQU %d\n" % kv]
                            stmt = " %s %s\n" % (mn, ind % ("T%sK" % sgn))
                            lines = equ + ([stmt] + filler(n) + ["T NOP\n"] if fwd else ["T NOP\n"] + filler(n) + [stmt])
                            yield (lines, {"kind": "pcr", "dir": ("fwd" if fwd else "bwd") + "-equconst", "n": n, "net": net, "equ": {"K": kv}})
    # label and constant each inside the 8-bit window, their sum outside it (and the other way round)
    for mn in (["LEAX"] if q else pcr_mn[:4]):
        for n in ([20, 50, 100, 120] if q else [5, 20, 50, 64, 100, 120, 125]):
            for c in ([10, 30, 100, 127] if q else [1, 10, 30, 64, 100, 120, 127, 128]):
                for sgn in ("+", "-"):
                    for fwd in (False, True):
                        stmt = " %s T%s%d,PCR\n" % (mn, sgn, c)
                        yield ([stmt] + filler(n) + ["T NOP\n"] if fwd else ["T NOP\n"] + filler(n) + [stmt],
                               {"kind": "pcr", "dir": ("fwd" if fwd else "bwd") + "-sum", "n": n, "c": c})
    # several undecided PCR statements whose sizes depend on each other
    for _ in range(600 if q else 20000):
        k = rng.randrange(1, 5)
        targets = ["T%d" % j for j in range(k)] + ["FAR"]
        body = []
        for j in range(k):
            body.append(" %s %s\n" % (rng.choice(pcr_mn), rng.choice(["%s,PCR", "[%s,PCR]", "%s+1,PCR"]) % rng.choice(targets)))
            if rng.random() < 0.5:
                body.append(" %s\n" % rng.choice(["LDA 100,X", "LDX $1234", "NOP", "LDA -20,Y", "LDD 300,U"]))
        n = rng.choice(list(range(100, 132)))
        body += filler(n)
        lines = []
        placed = set()
        for j, t in enumerate(targets[:-1]):
            pos = rng.randrange(len(body) + 1)
            body.insert(pos, "%s NOP\n" % t)
        lines = body + filler(rng.choice([0, 200, 400])) + ["FAR NOP\n"]
        if rng.random() < 0.3:
            lines = [" ORG $%04X\n" % rng.choice([0x0E00, 0xFE00, 0x00F0])] + lines
        yield (lines, {"kind": "pcr-multi", "k": k, "n": n})


# ------------------------------------------------------------------------------------------------
# C04: expressions
# ------------------------------------------------------------------------------------------------

def num_spell(rng, v):
    return rng.choice([t for _, t in spellings(v) if not t.startswith("'")])


def expr_cases(rng, tier):
    q = tier == "quick"
    positions = [("imm8", "LDA #%s"), ("imm16", "LDX #%s"), ("ext", "LDA %s"), ("ext", "JMP %s"), ("extind", "LDA [%s]"),
                 ("idx", "LDA %s,X"), ("idx", "LDX %s,Y"), ("pcr", "LEAX %s,PCR"), ("equ", "R EQU %s"), ("fcb", "FCB %s"), ("fdb", "FDB %s")]
    nums = [0, 1, 2, 5, 15, 16, 100, 127, 128, 255, 256, 257, 1000, 4096, 32767, 32768, 65535]
    ops = ["+", "-", "*", "/"]
    NEG_NUMS = [-1, -2, -3, -5, -7, -16, -100, -127, -128, -129, -255, -256, -300, -1000, -32768]
    n_each = 16 if q else 140
    for pos, tmpl in positions:
        for kinds in [("num", "num"), ("equ", "num"), ("num", "equ"), ("equ", "equ"), ("lb", "num"), ("la", "num"), ("num", "lb"), ("lb", "lb"), ("lb", "equ"), ("single-equ",), ("single-lb",), ("single-la",)]:
            for _ in range(n_each if len(kinds) == 2 else 4):
                org = rng.choice([0x1000, 0x0E00, 0x0020, 0x8000])
                pre = [" ORG $%04X\n" % org]
                post = []
                terms = []
                texts = []
                here = org
                label_addr = {}
                for side, kd in enumerate(kinds):
                    kd = kd.replace("single-", "")
                    if kd == "num":
                        v = rng.choice(nums)
                        terms.append(("num", v))
                        texts.append(num_spell(rng, v))
                    elif kd == "equ":
                        v = rng.choice(nums + NEG_NUMS) if rng.random() < 0.5 else rng.choice(nums)
                        nm = "V%d" % side
                        pre.append("%s EQU %s\n" % (nm, num_spell(rng, v) if v >= 0 else str(v)))
                        terms.append(("equ", nm, v))
                        texts.append(nm)
                    elif kd == "lb":
                        nm = "B%d" % side
                        pre.append("%s NOP\n" % nm)
                        label_addr[nm] = here
                        fl = rng.choice([0, 3, 300])
                        pre += filler(fl)
                        here += 1 + fl
                        terms.append(("label", nm))
                        texts.append(nm)
                    else:
                        nm = "A%d" % side
                        post += filler(rng.choice([0, 3, 300]))
                        post.append("%s NOP\n" % nm)
                        terms.append(("label", nm))
                        texts.append(nm)
                op = rng.choice(ops) if len(kinds) == 2 else None
                etxt = texts[0] if op is None else texts[0] + op + texts[1]
                body = tmpl % etxt
                line = (body if pos == "equ" else " " + body) + "\n"
                desc = {"kind": "expr", "pos": pos, "terms": terms, "op": op, "stmt": len(pre), "etxt": etxt, "label_addr": label_addr,
                        "has_label": any(t[0] == "label" for t in terms), "kinds": kinds}
                if op == "/" and terms[1][0] != "label" and terms[1][-1] == 0:
                    desc["divzero"] = True
                # may_reject: decided at judge time from the value; computed here when no label is involved
                if not desc["has_label"]:
                    vals = [t[-1] for t in terms]
                    if not desc.get("divzero"):
                        r = vals[0] if op is None else {"+": vals[0] + vals[1], "-": vals[0] - vals[1], "*": vals[0] * vals[1], "/": vals[0] // vals[1] if vals[1] else 0}[op]
                        desc["may_reject"] = not 0 <= r <= 65535
                else:
                    desc["may_reject"] = op in ("-", "*")
                yield (pre + [line] + post, desc)
    # PCR targets label+c / label-c / c+label where the distance to the label and the constant each fit a signed byte
    # and their sum may not; the constant literal or an EQU symbol of either sign
    for d in ([20, 50, 100, 120] if q else [0, 5, 20, 50, 64, 100, 120, 125, 200]):
        for c in ([10, 30, 100, 127, -30, -100] if q else [1, 10, 30, 64, 100, 120, 127, 128, 200, -1, -10, -30, -100, -127, -128]):
            for form in ("l+c", "l-c", "c+l", "l+e", "l-e", "e+l"):
                for after in (False, True):
                    if c < 0 and "c" in form:
                        continue                      # a literal term cannot be negative
                    nm = "A0" if after else "B0"
                    org = 0x1000
                    pre = [" ORG $%04X\n" % org] + (["V1 EQU %d\n" % c] if "e" in form else [])
                    ct = ("equ", "V1", c) if "e" in form else ("num", c)
                    ctxt = "V1" if "e" in form else str(c)
                    if form[0] == "l":
                        terms, op, etxt = [("label", nm), ct], form[1], nm + form[1] + ctxt
                    else:
                        terms, op, etxt = [ct, ("label", nm)], "+", ctxt + "+" + nm
                    label_addr = {}
                    if after:
                        lines = pre + [" LEAX %s,PCR\n" % etxt] + filler(d) + ["A0 NOP\n"]
                        k = len(pre)
                    else:
                        label_addr["B0"] = org
                        lines = pre + ["B0 NOP\n"] + filler(d) + [" LEAX %s,PCR\n" % etxt]
                        k = len(lines) - 1
                    yield (lines, {"kind": "expr", "pos": "pcr", "terms": terms, "op": op, "stmt": k, "etxt": etxt, "label_addr": label_addr,
                                   "has_label": True, "kinds": ("pcr-sum", form), "may_reject": False})
    # a term that is an EQU symbol defined by label arithmetic (X EQU L+2): it stands for its value (false upstream: 0, F56)
    for pos, tmpl in [p for p in positions if p[0] in ("imm16", "ext", "extind", "idx", "pcr", "equ", "fdb")]:
        for org in ([0x1000, 0x0020] if q else [0x1000, 0x0020, 0x0E00, 0x7000, 0x9000]):
            for k in ([2, -1] if q else [0, 2, -1, 100, -300]):
                for form in ("l+x", "x+l", "x-l", "l-x"):
                    pre = [" ORG $%04X\n" % org, "B0 NOP\n", " RMB 7\n", "B1 NOP\n", "V1 EQU B0%s%d\n" % ("+" if k >= 0 else "-", abs(k))]
                    lt, xt = ("label", "B1"), ("equl", "V1", "B0", k)
                    terms = [lt, xt] if form[0] == "l" else [xt, lt]
                    etxt = ("B1" if form[0] == "l" else "V1") + form[1] + ("V1" if form[0] == "l" else "B1")
                    body = tmpl % etxt
                    line = (body if pos == "equ" else " " + body) + "\n"
                    yield (pre + [line], {"kind": "expr", "pos": pos, "terms": terms, "op": form[1], "stmt": len(pre), "etxt": etxt,
                                          "label_addr": {"B0": org, "B1": org + 8}, "has_label": True, "kinds": ("equl", form), "may_reject": True})
    # order independence: the same EQU symbol defined before and after its use
    for _ in range(40 if q else 600):
        v = rng.choice(nums)
        pos, tmpl = rng.choice(positions[:8])
        yield ([" ORG $1000\n", " " + tmpl % "V9" + "\n", "V9 EQU %s\n" % num_spell(rng, v)],
               {"kind": "expr", "pos": pos, "terms": [("equ", "V9", v)], "op": None, "stmt": 1, "etxt": "V9", "has_label": False, "kinds": ("equ-after",), "may_reject": False})


# ------------------------------------------------------------------------------------------------
# C05: data directives
# ------------------------------------------------------------------------------------------------

PRINTABLE = "".join(chr(c) for c in range(32, 127))


def data_cases(rng, tier):
    q = tier == "quick"

    def enc(v, w):
        return ("%0" + str(2 * w) + "X") % (v % (256 ** w))
    for mn, w, lo, hi in (("FCB", 1, -128, 255), ("FDB", 2, -32768, 65535)):
        for _ in range(400 if q else 8000):
            n = rng.choice([1, 1, 2, 3, 8, 16, 64])
            vals, txt, bad, sym = [], [], False, False
            for _ in range(n):
                r = rng.random()
                if r < 0.70:
                    v = rng.choice(VALUES)
                    v = v if v <= hi or rng.random() < 0.08 else v % (hi + 1)
                    t = num_spell(rng, v)
                elif r < 0.9:
                    v = rng.choice(NEG_VALUES)
                    v = v if v >= lo or rng.random() < 0.08 else -(abs(v) % (-lo)) - 1
                    t = str(v)
                else:
                    v = 0x34
                    t = "SYM"
                    sym = True
                bad = bad or not lo <= v <= hi
                vals.append(v)
                txt.append(t)
            lines = ["SYM EQU $34\n", " %s %s\n" % (mn, ",".join(txt))]
            d = {"kind": "data", "mn": mn, "n": n, "stmt": 1, "has_symbol": sym, "has_negative": any(v < 0 for v in vals), "single": n == 1, "vals": vals}
            if bad:
                d.update(expect="diag", why="%s value outside %d..%d" % (mn, lo, hi))
            else:
                d["bytes"] = "".join(enc(v, w) for v in vals)
            yield (lines, d)
    # labels in data
    for mn, w in (("FCB", 1), ("FDB", 2)):
        yield ([" ORG $0012\n", "L NOP\n", " %s L\n" % mn], {"kind": "data", "mn": mn, "stmt": 2, "has_symbol": True, "bytes": enc(0x12, w), "single": True, "vals": [0x12]})
        yield ([" ORG $0012\n", "L NOP\n", " %s 1,L\n" % mn], {"kind": "data", "mn": mn, "stmt": 2, "has_symbol": True, "bytes": enc(1, w) + enc(0x12, w), "single": False, "vals": [1, 0x12]})
    # FCC
    delims = "\"'/|!#$%&()*+,-.:;<=>?@[]^_`{}~ABZaz09"
    for _ in range(500 if q else 10000):
        d = rng.choice(delims)
        n = rng.choice([0, 1, 2, 3, 8, 32, 100, 254, 255, rng.randrange(256)])
        # control characters (a TAB in a string is plausible) are characters too; no newline or carriage return
        alphabet = rng.choice([PRINTABLE, " ;A", "  ", PRINTABLE, ";,\"'/ ", "A\tB", "\t\x01\x0f\x7f ", PRINTABLE + "\t"])
        s = "".join(rng.choice(alphabet) for _ in range(n)).replace(d, "x" if d != "x" else "y")
        # the string ends at the FIRST closing delimiter: what follows may contain that character again
        tail = rng.choice(["", " ; comment", " trailing words", "   ", " ;", " ; say %sHI%s" % (d, d), " %s" % d])
        lb = rng.choice(["", "MSG"])
        yield (["%s FCC %s%s%s%s\n" % (lb, d, s, d, tail)], {"kind": "fcc", "stmt": 0, "bytes": s.encode("latin-1").hex().upper(), "len": n, "delim": d})
    for bad in ['"ABC', "/AB", '"', "", '"AB\' x']:
        yield ([" FCC %s\n" % bad], {"kind": "fcc", "stmt": 0, "expect": "diag", "why": "unterminated string"})
    # RMB
    for n in [0, 1, 2, 127, 128, 255, 256, 257, 1000, 4095, 32768, 65535] + [rng.randrange(65536) for _ in range(20 if q else 300)]:
        for t in {str(n), "$%X" % n, "$%04X" % n}:
            yield ([" RMB %s\n" % t], {"kind": "rmb", "stmt": 0, "bytes": "00" * n, "n": n})
    # directives that emit nothing
    for ln in [" ORG $1000\n", "V EQU 5\n", " SETDP 0\n", " SETDP $10\n", " NAM TEST\n", " END\n", " END START\n", " END $1000\n", "X1 SET 5\n"]:
        yield ([ln, "START NOP\n"] if "START" in ln else [ln], {"kind": "nobytes", "stmt": 0, "bytes": ""})
    yield ([" INCLUDE other.asm\n"], {"kind": "nobytes", "stmt": 0, "bytes": "", "files": {"other.asm": []}})
    # an EQU of a number, a symbol, constant arithmetic, a label, label arithmetic (label before or after): no bytes for
    # the EQU, and the image is exactly what the other statements emit
    for e in ["5", "$1234", "V", "V+1", "5*3", "L", "L+1", "L-1", "1+L", "L*2", "L2", "L2+1", "L2-L", "L+V", "L2-1"]:
        for tail in ([], [" LDX #X\n"]):
            lines = [" ORG $1000\n", "L NOP\n", "V EQU 5\n", "X EQU %s\n" % e, "L2 RTS\n"] + tail
            yield (lines, {"kind": "nobytes", "stmt": 3, "bytes": "", "image_prefix": "1239"})


# ------------------------------------------------------------------------------------------------
# C13: stress
# ------------------------------------------------------------------------------------------------

def stress_cases(rng, tier):
    q = tier == "quick"
    for _ in range(5000 if q else 100000):
        p = rand_program(rng, n=rng.choice([1, 2, 3, 6]))
        for _ in range(rng.choice([1, 1, 2])):
            i = rng.randrange(len(p))
            p[i] = mutate_line(rng, p[i])
        yield (p, {"kind": "mut"})
    # characters outside 7-bit ASCII anywhere in a line: strings, labels, operands, comments
    wide = ["\u00e9", "\u00ff", "\u0100", "\u20ac", "\U0001F600", "\u0009", "\u007f", "\u00a0"]
    shapes = [' FCC "A%sB"\n', ' FCC /%s/\n', "L%s NOP\n", " LDA #'%s\n", " NAM caf%s\n", " LDA #1 ; %s\n", " FCB %s\n", " LDA %s,X\n",
              ' FCC "%s%s"\n', " JMP L%s\n"]
    for sh in shapes:
        for w in wide:
            ln = sh % ((w,) * sh.count("%s"))
            # the model's alphabet is 7-bit ASCII (Python's \w also takes accented letters): anything beyond it is judged
            # on the implementation alone - result or diagnostic, never an uncaught exception
            yield ([ln, " NOP\n"], {"kind": "edge", "impl_only": any(ord(c) > 127 for c in ln)})
    # EQU symbols defined through each other in a circle: a diagnostic, never a hang or a crash
    for prog in [["A1 EQU A1\n"], ["A1 EQU B1\n", "B1 EQU A1\n"], ["A1 EQU B1\n", "B1 EQU C1\n", "C1 EQU A1\n"],
                 ["V1 EQU V2\n", "V2 EQU V3\n", "V3 EQU V2\n"], ["A1 EQU B1+1\n", "B1 EQU A1+1\n"], ["A1 EQU B1\n", "B1 EQU A1+1\n"],
                 ["A1 EQU A1+1\n"], ["A1 EQU B1\n", "B1 EQU C1\n", "C1 EQU 5\n"], ["A1 EQU B1\n", "B1 EQU NOSUCH\n"]]:
        for tail in ([], [" LDA #A1\n"], [" NOP\n", " LDX A1\n"]):
            yield (prog + tail, {"kind": "edge"})
            yield ([" ORG $1000\n", "L0 NOP\n"] + prog + tail, {"kind": "edge"})
    # numbers of absurd length (Python refuses to convert more than 4300 decimal digits: false upstream, repair F55)
    for body in ["9" * 4301, "0" * 4400 + "5", "1" * 5000, "0" * 6000]:
        for sh in [" LDA %s\n", " LDA #-%s\n", " FCB 1,%s\n", " FDB %s\n", " RMB %s\n", "V EQU %s\n", " LDA $%s\n", " LDA %%%s\n", " LDX %s,X\n"]:
            yield ([sh % body, " NOP\n"], {"kind": "edge"})
    alphabet = " \tABXYZLDNOPRMB019#$%<>[],+-;'\"*/@._\n"
    for _ in range(1500 if q else 30000):
        p = ["".join(rng.choice(alphabet[:-1]) for _ in range(rng.randrange(0, 16))) + "\n" for _ in range(rng.choice([1, 2, 3]))]
        yield (p, {"kind": "random"})
    for ln in [" END\n", " NAM\n", " BRA\n", " FCB\n", " FDB\n", " RMB\n", " ORG\n", " EQU 5\n", "V EQU\n", " LDA #\n", " LDA [\n", " LDA ]\n", " LDA ,\n", " LDA ,,\n",
               " FCC\n", ' FCC "\n', ' FCC "abc\n', " INCLUDE\n", " SETDP\n", " PSHS\n", " TFR\n", " TFR A\n", " LDA '\n", " LDA $\n", " LDA %\n", " LDA -\n",
               "B1 EQU A1+1\n", " LDA [1,2,3]\n", " JMP [,]\n", " LEAX ,PCR\n", " LEAX [,PCR]\n", " LDA ''\n", "\n", "", " ", ";", "L\n", "L:\n"]:
        yield ([ln], {"kind": "edge"})
        yield (["A1 NOP\n", ln, " NOP\n"], {"kind": "edge"})
    # the PCR boundary family at every distance, with several undecided statements
    for c in branch_cases(rng, tier):
        if c[1]["kind"].startswith("pcr"):
            yield (c[0], {"kind": "pcr-family"})
    # INCLUDE: cycles, missing files, deep nesting
    yield ([" INCLUDE a.asm\n"], {"kind": "include", "files": {"a.asm": [" INCLUDE b.asm\n"], "b.asm": [" INCLUDE a.asm\n"]}})
    yield ([" INCLUDE a.asm\n"], {"kind": "include", "files": {"a.asm": [" INCLUDE a.asm\n"]}})
    yield ([" NOP\n", " INCLUDE missing.asm\n"], {"kind": "include", "files": {}})
    yield ([" INCLUDE a.asm\n", " INCLUDE a.asm\n"], {"kind": "include", "files": {"a.asm": [" NOP\n"]}})
    deep = {"f%d.asm" % k: [" NOP\n", " INCLUDE f%d.asm\n" % (k + 1)] for k in range(30)}
    deep["f30.asm"] = [" RTS\n"]
    yield ([" INCLUDE f0.asm\n"], {"kind": "include", "files": deep})
