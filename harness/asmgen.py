"""Generators for assembler inputs: the statement grid (mnemonic x operand form x value x spelling), random
programs with labels / branches / PCR / data, expression grids, data-directive cases, malformed lines."""
import asmlib

VALUES = [0, 1, 2, 15, 16, 17, 31, 32, 100, 126, 127, 128, 129, 200, 254, 255, 256, 257, 1000, 4095, 4096,
          32766, 32767, 32768, 32769, 40000, 65534, 65535]
NEG_VALUES = [-1, -2, -15, -16, -17, -100, -127, -128, -129, -130, -255, -256, -257, -1000, -32767, -32768]
REGS = ["X", "Y", "U", "S"]
ALLREGS = ["A", "B", "D", "X", "Y", "U", "S", "CC", "DP", "PC"]


def spellings(v):
    """every literal spelling of the value v (>= 0), tagged"""
    out = [("dec", str(v))]
    out.append(("hexn", "$%X" % v))
    if v < 256:
        out.append(("hex2", "$%02X" % v))
        out.append(("bin8", "%" + format(v, "08b")))
        if 33 <= v <= 126 and chr(v) in "abcXYZ019><'\";:,.#?$%^&*()=!+-/":
            out.append(("chr", "'" + chr(v)))
    out.append(("hex4", "$%04X" % v))
    out.append(("bin16", "%" + format(v, "016b")))
    if v < 4096:
        out.append(("hex3", "$%03X" % v))
    out.append(("dec0", "0" + str(v)))
    return out


def value_texts(v):
    if v < 0:
        return [("neg", str(v))]
    return spellings(v)


def operand_forms(kind):
    """templates with {v}; kind tells which value domain applies.  (form_id, template, needs_value)"""
    forms = [("inh", "", False), ("imm", "#{v}", True), ("plain", "{v}", True), ("dir", "<{v}", True), ("ext", ">{v}", True),
             ("extind", "[{v}]", True)]
    for r in REGS:
        forms += [("idx0," + r, "," + r, False), ("idxv," + r, "{v}," + r, True),
                  ("acc,A," + r, "A," + r, False), ("acc,B," + r, "B," + r, False), ("acc,D," + r, "D," + r, False),
                  ("inc1," + r, "," + r + "+", False), ("inc2," + r, "," + r + "++", False),
                  ("dec1," + r, ",-" + r, False), ("dec2," + r, ",--" + r, False),
                  ("iidx0," + r, "[," + r + "]", False), ("iidxv," + r, "[{v}," + r + "]", True),
                  ("iacc,A," + r, "[A," + r + "]", False), ("iacc,B," + r, "[B," + r + "]", False), ("iacc,D," + r, "[D," + r + "]", False),
                  ("iinc2," + r, "[," + r + "++]", False), ("idec2," + r, "[,--" + r + "]", False),
                  ("iinc1," + r, "[," + r + "+]", False), ("idec1," + r, "[,-" + r + "]", False)]
    forms += [("pcr", "{v},PCR", True), ("ipcr", "[{v},PCR]", True)]
    return forms


def mnemonic_shapes():
    """one representative mnemonic per distinct (mode availability, sizes, flags) shape, plus the rest"""
    shapes = {}
    for i in asmlib.real_instructions():
        m = i.mode
        key = (m.inh is not None, m.imm is not None, m.dir is not None, m.ind is not None, m.ext is not None, m.rel is not None,
               m.inh_sz, m.imm_sz, m.dir_sz, m.ind_sz, m.ext_sz, m.rel_sz, i.is_special, i.is_16_bit, i.is_lea,
               i.is_short_branch, i.is_long_branch)
        shapes.setdefault(key, []).append(i.mnemonic)
    reps = [v[0] for v in shapes.values()]
    rest = [m for v in shapes.values() for m in v[1:]]
    return reps, rest


def grid_cases(mnemonics, rng, values_per_form=None, with_symbols=True):
    """yield (lines, desc) single-statement programs (plus defining lines for symbols)"""
    for mn in mnemonics:
        for fid, tmpl, needs in operand_forms(None):
            if not needs:
                yield ([" %s %s\n" % (mn, tmpl)], {"mn": mn, "form": fid, "kind": "grid"})
                continue
            vals = VALUES + NEG_VALUES
            if values_per_form:
                vals = rng.sample(vals, min(values_per_form, len(vals)))
            for v in vals:
                for sp, txt in value_texts(v):
                    yield ([" %s %s\n" % (mn, tmpl.format(v=txt))], {"mn": mn, "form": fid, "value": v, "spelling": sp, "kind": "grid"})
                if with_symbols and v >= 0:
                    for sp, txt in (("equ-dec", str(v)), ("equ-hex4", "$%04X" % v)):
                        yield (["V EQU %s\n" % txt, " %s %s\n" % (mn, tmpl.format(v="V"))],
                               {"mn": mn, "form": fid, "value": v, "spelling": sp, "kind": "grid", "stmt": 1})


def label_cases(mnemonics, rng):
    """label operands: before / after the statement, at low and high addresses, every form that takes a value"""
    for mn in mnemonics:
        for fid, tmpl, needs in operand_forms(None):
            if not needs:
                continue
            for org in (None, 0x10, 0x0E00):
                pre = [] if org is None else [" ORG $%04X\n" % org]
                base = org or 0
                yield (pre + ["L NOP\n", " %s %s\n" % (mn, tmpl.format(v="L"))],
                       {"mn": mn, "form": fid, "value": base, "spelling": "label-before", "kind": "label", "stmt": len(pre) + 1, "org": org})
                yield (pre + [" %s %s\n" % (mn, tmpl.format(v="L")), "L NOP\n"],
                       {"mn": mn, "form": fid, "value": None, "spelling": "label-after", "kind": "label", "stmt": len(pre), "org": org})


def special_cases(rng, full=False):
    import itertools
    for mn in ["PSHS", "PSHU", "PULS", "PULU"]:
        for r in ALLREGS:
            yield ([" %s %s\n" % (mn, r)], {"mn": mn, "form": "reglist", "regs": [r], "kind": "special"})
        for k in (2, 3, 5, 8):
            for _ in range(6 if not full else 30):
                rs = rng.sample(ALLREGS, k)
                yield ([" %s %s\n" % (mn, ",".join(rs))], {"mn": mn, "form": "reglist", "regs": rs, "kind": "special"})
        yield ([" %s\n" % mn], {"mn": mn, "form": "reglist", "regs": [], "kind": "special"})
        yield ([" %s A,A\n" % mn], {"mn": mn, "form": "reglist", "regs": ["A", "A"], "kind": "special"})
        yield ([" %s Z\n" % mn], {"mn": mn, "form": "reglist", "regs": ["Z"], "kind": "special"})
    for mn in ["TFR", "EXG"]:
        for a, b in itertools.product(ALLREGS, ALLREGS):
            yield ([" %s %s,%s\n" % (mn, a, b)], {"mn": mn, "form": "regpair", "regs": [a, b], "kind": "special"})
        for t in ["A", "A,B,X", "", "Q,A", "A,Q", "a,b"]:
            yield ([" %s %s\n" % (mn, t)], {"mn": mn, "form": "regpair", "regs": t.split(","), "kind": "special", "bad": True})


# ------------------------------------------------------------------------------------------------
# random programs (C02 / C03 / C13 / C17 / C18 / C19)
# ------------------------------------------------------------------------------------------------

SIMPLE = ["NOP", "RTS", "CLRA", "INCB", "MUL", "ABX", "SWI", "SYNC", "DAA", "SEX"]
SHORT_BR = ["BRA", "BEQ", "BNE", "BCC", "BCS", "BHS", "BLO", "BMI", "BPL", "BVC", "BVS", "BGE", "BGT", "BHI", "BLE", "BLS", "BLT", "BRN", "BSR"]
LONG_BR = ["LBRA", "LBEQ", "LBNE", "LBCC", "LBCS", "LBHS", "LBLO", "LBMI", "LBPL", "LBVC", "LBVS", "LBGE", "LBGT", "LBHI", "LBLE", "LBLS", "LBLT", "LBRN", "LBSR"]
IDX_MN = ["LDA", "STB", "LDX", "LEAX", "LEAY", "JSR", "LDY", "CMPS", "STU", "ADDD", "NEG", "JMP", "LDS", "CMPU"]


def rand_stmt(rng, labels, allow_pcr=True):
    """one random well-formed statement body 'MNEM OPERAND' referring to labels in `labels`"""
    r = rng.random()
    L = rng.choice(labels) if labels else None
    if r < 0.18:
        return rng.choice(SIMPLE)
    if r < 0.30 and L:
        return "%s %s" % (rng.choice(SHORT_BR + LONG_BR), L)
    if r < 0.40 and L and allow_pcr:
        t = rng.choice(["%s,PCR", "[%s,PCR]", "%s+1,PCR", "%s-2,PCR"]) % L
        return "%s %s" % (rng.choice(IDX_MN), t)
    if r < 0.50 and L:
        return "%s %s" % (rng.choice(["JMP", "JSR", "LDX", "LDA", "STD"]), rng.choice([">%s", "%s", "%s+1", "[%s]", "#%s"]) % L if rng.random() < 0.8 else L)
    if r < 0.58:
        return "RMB %d" % rng.choice([0, 1, 2, 5, 100, 120, 121, 122, 123, 124, 125, 126, 127, 128, 129, 130, 250, 300])
    if r < 0.64:
        return "FCB %s" % ",".join(str(rng.randrange(256)) for _ in range(rng.choice([1, 2, 3, 8])))
    if r < 0.68:
        return "FDB %s" % ",".join("$%04X" % rng.randrange(65536) for _ in range(rng.choice([1, 2, 4])))
    if r < 0.72:
        return 'FCC "%s"' % "".join(rng.choice("AB c;d,e  ") for _ in range(rng.randrange(0, 9)))
    mn = rng.choice(IDX_MN + ["LDB", "ORA", "SUBD", "CMPX", "STA", "STX", "TST", "CLR", "INC"])
    v = rng.choice(VALUES[:18] + [0x0E00, 0x1234])
    form = rng.choice(["#%d", "$%04X", "<$%02X", ">$%04X", "%d,X", "%d,Y", ",U", ",S++", ",--X", "A,X", "D,Y", "[%d,X]", "[$%04X]", "-%d,X", "[-%d,U]", "[,Y]", "[B,S]"])
    if "%" in form:
        if "02X" in form:
            v &= 0xFF
        form = form % v
    if mn.startswith("ST") and form.startswith("#"):
        form = form[1:]
    if mn in ("LEAX", "LEAY", "JSR", "JMP", "NEG", "TST", "CLR", "INC") and form.startswith("#"):
        form = ",X"
    if mn in ("LEAX", "LEAY") and not ("," in form):
        form = ",X"
    return "%s %s" % (mn, form)


def rand_program(rng, n=None, org=True, names=None):
    n = n or rng.choice([1, 2, 3, 5, 8, 12, 20, 40])
    nlabels = rng.randrange(0, max(1, n // 2) + 1)
    pool = names or ["L%d" % k for k in range(40)] + ["LOOP", "START", "DONE", "TBL", "A1", "B2", "XX", "PCR1", "S9", "AT@X"]
    labels = rng.sample(pool, min(nlabels, len(pool)))
    lines = []
    if org and rng.random() < 0.7:
        lines.append(" ORG %s\n" % rng.choice(["$0E00", "$0000", "$0010", "$00F0", "$7F00", "3584", "$FF00", "$0100"]))
    if rng.random() < 0.3:
        lines.append(" NAM %s\n" % rng.choice(["TEST", "hello", "LONGNAME12", "A"]))
    where = {}
    for lb in labels:
        where.setdefault(rng.randrange(n), []).append(lb)
    for k in range(n):
        body = rand_stmt(rng, labels)
        lbs = where.get(k, [])
        if lbs:
            lines.append("%s %s\n" % (lbs[0], body))
            for extra in lbs[1:]:
                lines.append("%s NOP\n" % extra)
        else:
            lines.append(" %s\n" % body)
    if rng.random() < 0.3:
        lines.append(" END\n")
    return lines


def mutate_line(rng, line):
    """single-line mutation; the line keeps at most one newline, at its end (as readlines() produces)"""
    nl = line.endswith("\n")
    out = _mutate(rng, line[:-1] if nl else line)
    out = out.replace("\n", "")
    return out + ("\n" if nl and rng.random() < 0.95 else "")


def _mutate(rng, line):
    m = rng.randrange(9)
    alphabet = " \tABXYZLDNOP019#$%<>[],+-;'\"*/@._"
    if m == 0 and line:
        i = rng.randrange(len(line))
        return line[:i] + line[i + 1:]
    if m == 1:
        i = rng.randrange(len(line) + 1)
        return line[:i] + rng.choice(alphabet) + line[i:]
    if m == 2 and line:
        i = rng.randrange(len(line))
        return line[:i] + rng.choice(alphabet) + line[i + 1:]
    if m == 3:
        parts = line.split()
        if parts:
            parts.pop(rng.randrange(len(parts)))
        return " " + " ".join(parts)
    if m == 4:
        parts = line.split()
        if parts:
            k = rng.randrange(len(parts))
            parts.insert(k, parts[k])
        return " " + " ".join(parts)
    if m == 5:
        return line.rstrip()
    if m == 6:
        return "".join(rng.choice(alphabet) for _ in range(rng.randrange(1, 14)))
    if m == 7:
        return line.replace(" ", "  ", 1)
    return line + " ; c"
