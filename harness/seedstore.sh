#!/bin/bash
# usage: harness/seedstore.sh <seed-id> <prop> [tier] [extra props...] — confirm a sub-agent's seeded change from its
# patch.diff on a CLEAN checkout of the worktree /tmp/wt/<id> (no git stash: the stash is shared between worktrees),
# run ./check <prop> against it (patch applied to /repo, then reverted), store it under /verif/seeded/<id>/.
id="$1"; prop="$2"; tier="${3:-quick}"; wt=/tmp/wt/$id
cd $wt || exit 2
cp -r _seed /tmp/_seed_$id
git checkout -q -- . ; git clean -qfd -e _seed
git checkout -q --detach "$(git -C /repo rev-parse HEAD)" || { echo "cannot move the worktree to /repo HEAD"; exit 2; }
/venv/bin/python _seed/demo.py >/dev/null 2>&1; without=$?
git apply _seed/patch.diff || { echo "patch does not apply to a clean worktree"; exit 2; }
suite=$(/venv/bin/python -m pytest -q -p no:cacheprovider 2>&1 | tail -1)
/venv/bin/python _seed/demo.py >/dev/null 2>&1; with=$?
echo "suite: $suite | demo with change rc=$with, without rc=$without"
cd /repo; [ -n "$(git status --porcelain)" ] && { echo "repo not clean"; exit 2; }
git apply $wt/_seed/patch.diff || { echo "patch does not apply to /repo HEAD"; exit 2; }
cd /verif; out=$(./check "$prop" "$tier" 2>&1); rc=$?
git -C /repo checkout -- . ; git -C /repo status --porcelain
echo "$out" | grep -E "VIOLATION|->" | head -4 | cut -c1-300
echo "check $prop rc=$rc"
mkdir -p /verif/seeded/$id; cp $wt/_seed/patch.diff $wt/_seed/demo.py /verif/seeded/$id/
SUITE="$suite" WITH=$with WITHOUT=$without RC=$rc PROP=$prop TIER=$tier ID=$id OUT="$(echo "$out" | grep -E 'VIOLATION|->' | head -2 | cut -c1-300)" python3 - <<'PY'
import json,os
e=os.environ
m=json.load(open('/tmp/wt/%s/_seed/meta.json'%e['ID']))
m.update({"id":e['ID'],"breaks":e['PROP'],
 "confirmed":{"suite_with_change":e['SUITE'],"demo_with_change":"exit %s"%e['WITH'],"demo_without_change":"exit %s"%e['WITHOUT']},
 "detected_by":{"./check %s %s"%(e['PROP'],e['TIER']):("exit %s: "%e['RC'])+e['OUT']},
 "what_i_ran":"demo on a clean checkout and with patch.diff applied, pytest with the patch (scratch worktree); git -C /repo apply patch.diff; ./check %s %s; git -C /repo checkout -- ."%(e['PROP'],e['TIER'])})
json.dump(m,open('/verif/seeded/%s/meta.json'%e['ID'],'w'),indent=1)
PY
