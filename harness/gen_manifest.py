"""Writes /verif/MANIFEST.json from the table below (kept in one place so it stays valid)."""
import json, os
V = os.path.dirname(os.path.dirname(os.path.abspath(__file__)))
NOTE = ("Trusted: Coq 8.16.1 kernel + vm_compute; no axioms (Print Assumptions: closed under the global context); "
        "gen_tables.py translator; extraction (ExtrOcamlBasic only) + ocaml/driver.ml; the Python correspondence harness. "
        "The hand-written model is tied to /repo by the correspondence run on every check.")
CHECKS = {
 "C06": ("proof", "Theorems (coq/Properties/C06.v): write-then-list round trip for every file list without empty-data files, and the model reader returns exactly the files of ANY well-formed stream (inductive grammar: arbitrary gaps/leaders, any 1..255 chunking); the full statement is refuted for empty-data files (known finding tape_empty_file, witness replayed). Correspondence: model writer/reader vs cassette.py on generated file lists, general well-formed streams and malformed streams.", "6 C06/C14", "Coq proof (induction over stream grammar) + model/implementation correspondence"),
 "C07": ("proof", "Theorems (coq/Properties/C07.v): for EVERY file list the model writer stores on a blank image under ANY fill order of granule numbers, the model reader and the spec view SpecDisk.files of the flat 161,280-byte image return exactly the files written (names upper-cased/8, ext/3, addresses for ML files); and the model reader returns SpecDisk.files img on ANY 161,280-byte image where that view is defined (chains in any order, non-adjacent, across track 17), under two stated domain restrictions (ASCII directory names; no ASCII-kind file ending in a $C0 terminator). Correspondence: MDisk writer byte-for-byte and reader vs disk.py on add sequences, independently built fragmented images and corrupted images.", "6 C07/C08/C15", "Coq proof (history-based writer model, chain-walk reader, slice/render isomorphism) + byte-exact correspondence"),
 "C08": ("proof", "Theorem C08_every_written_image_is_valid: for EVERY add sequence from the blank image under ANY fill order of granule numbers, the flat image passes SpecDisk.fsck (size; chains within 0..67, no revisit, $C0+s terminator s<=9; disjoint chains; every non-free FAT entry on a chain; implied length = stream length; stream decodes in chain order; everything else still $FF). Correspondence: image byte-for-byte vs DiskFile.add_file; oracle: extracted fsck on the implementation's image.", "6 C07/C08/C15", "Coq proof (invariant wf_state over add sequences, pointwise FAT/granule views) + byte-exact correspondence"),
 "C15": ("proof", "Theorems (coq/Properties/C15.v): on every reachable state a file needing n <= F granules is stored in exactly n distinct previously-free granules and one slot, F drops by n; n is the minimum (+1 at exact multiples); n > F fails with the tool's diagnostic and no state change; the regenerated default fill order covers all 68 granules and the regenerated slot-search bound exceeds 68; the free count read from the flat image equals the model's. Correspondence: per-step accounting on the implementation's images, fill-to-exhaustion runs, default and permuted orders.", "6 C07/C08/C15", "Coq proof (allocation lemmas by induction, regenerated fill order checked by vm_compute reflection) + correspondence"),
 "C14": ("proof", "Theorem C14_written_tape_wellformed: for EVERY file list the model writer's stream parses under the checksum-verifying spec parser SpecTape.parse to exactly the files written (no hypothesis on content or length). Correspondence: byte-for-byte MCassette.write vs CassetteFile.add_files; oracle: extracted SpecTape.parse on the implementation's bytes.", "6 C06/C14", "Coq proof (induction on data length / file list) + byte-exact correspondence"),
}
NA = []
def main():
    checks = []
    for pid in sorted(CHECKS):
        cat, text, ref, tech = CHECKS[pid]
        checks.append({"property_id": pid, "quick_cmd": "./check %s quick" % pid, "thorough_cmd": "./check %s thorough" % pid,
                       "evidence_file": "evidence/%s.json" % pid, "replay_cmd_template": "./check %s --replay {path}" % pid,
                       "engine": "coq-proof+correspondence", "level_claimed": {"category": cat, "text": text, "design_ref": "DESIGN.md section " + ref},
                       "level_note": NOTE, "technique": tech})
    props = [json.loads(l)["id"] for l in open(os.path.join(V, "properties.jsonl"))]
    na = list(NA) + [{"property_id": p, "reason": "not yet claimed: check under construction in this round (see DESIGN.md section 10)"} for p in props if p not in CHECKS and p not in [x["property_id"] for x in NA]]
    m = {"version": 1, "setup_cmd": "./check setup",
         "hooks": {"guard": "COCOASM_VERIF", "enable": "no source hooks are needed: the checks import /repo's modules and run its CLIs directly", "baseline_off_cmd": "cd /repo && /venv/bin/python -m pytest -q -p no:cacheprovider", "source_commits": [], "add_only": True},
         "engines": [{"name": "coq-proof+correspondence", "path": "coq/ harness/ ocaml/", "serves_properties": sorted(CHECKS), "kind_free_text": "Coq 8.16.1 theorems over an executable Gallina model; model regenerated (tables) / validated (logic) against /repo on every run by extraction to OCaml and differential execution"}],
         "checks": checks, "not_applicable": na,
         "notes": "See DESIGN.md. known_findings.json lists recorded defects (open) and repaired ones (fixed)."}
    json.dump(m, open(os.path.join(V, "MANIFEST.json"), "w"), indent=1)
main()
