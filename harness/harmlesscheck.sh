#!/bin/bash
# usage: harness/harmlesscheck.sh [ids...] — apply each behaviour-preserving refactor of /verif/harmless/<id>/patch.diff to
# /repo, run EVERY check (quick) against it, revert.  Expected: every check exits 0 and prints no VIOLATION line: the
# machinery does not raise an alarm on code where the properties hold.  Needs a clean /repo; do not run other checks meanwhile.
cd /verif
ids="${@:-$(ls harmless)}"
bad=0
for id in $ids; do
  [ -n "$(git -C /repo status --porcelain)" ] && { echo "repo not clean"; exit 2; }
  git -C /repo apply /verif/harmless/$id/patch.diff || { echo "$id: patch does not apply"; bad=1; continue; }
  for p in C01 C02 C03 C04 C05 C06 C07 C08 C09 C10 C11 C12 C13 C14 C15 C16 C17 C18 C19; do
    out=$(./check $p quick 2>&1); rc=$?
    if [ $rc -ne 0 ] || echo "$out" | grep -q '^VIOLATION'; then echo "$id $p: ALARM rc=$rc"; bad=1; fi
  done
  git -C /repo checkout -- . ; git -C /repo clean -fdq
  echo "$id done"
done
exit $bad
