"""C14 (written tapes are well formed) and C06 (cassette round trip; reader on any well-formed stream).
Correspondence: model writer/reader (extracted Coq) vs cocoasm.virtualfiles.cassette on the same inputs.
Oracle on the implementation's output: extracted SpecTape.parse / expected listing."""
import json

import common
from common import Driver, log

BOUNDARY_LENS = [0, 1, 2, 254, 255, 256, 257, 509, 510, 511, 512, 764, 765, 766, 1020, 1275]
NAME_CHARS = "ABCDEFGHIJKLMNOPQRSTUVWXYZabcdefghijklmnopqrstuvwxyz0123456789@_-.!#$%&()+"


def impl():
    common.import_repo()
    from cocoasm.virtualfiles.cassette import CassetteFile
    from cocoasm.virtualfiles.coco_file import CoCoFile
    from cocoasm.values import NumericValue
    from cocoasm.virtualfiles.virtual_file_exceptions import VirtualFileValidationError
    return CassetteFile, CoCoFile, NumericValue, VirtualFileValidationError


# a "file" in the harness: (name:str, type:int, dtype:int, load:int, exec:int, data:bytes)

def gen_data(rng, n):
    mode = rng.randrange(4)
    if mode == 0:
        return bytes(rng.randrange(256) for _ in range(n))
    if mode == 1:
        return bytes(rng.choice([0x55, 0x3C, 0x00, 0x01, 0xFF, 0x0F]) for _ in range(n))
    if mode == 2:  # embedded complete fake blocks / headers
        pat = rng.choice([b"\x55\x3c\x00\x0f", b"\x55\x3c\xff\x00\xff\x55", b"\x55\x3c\x01\x02", b"\x55\x3c"])
        return (pat * (n // len(pat) + 1))[:n]
    return bytes([rng.randrange(256)]) * n


def gen_file(rng, tier, allow_empty=True):
    r = rng.random()
    if r < 0.55:
        n = rng.choice(BOUNDARY_LENS)
    elif r < 0.75:
        n = 255 * rng.randrange(1, 9) + rng.choice([-1, 0, 1])
    elif r < 0.93:
        n = rng.randrange(0, 3000)
    else:
        n = rng.randrange(0, 65536) if tier == "thorough" else rng.randrange(0, 20000)
    if n == 0 and not allow_empty:
        n = 1
    name = "".join(rng.choice(NAME_CHARS) for _ in range(rng.choice([0, 1, 3, 7, 8, 8, 9, 12, rng.randrange(13)])))
    if rng.random() < 0.08:
        # names as other tools leave them on a tape: padded with NULs, or with a NUL inside (the reader returns the raw 8 bytes)
        name = rng.choice([name[:rng.randrange(1, 6)].ljust(8, "\0"), "A\0B", "\0" * 8, name[:3] + "\0" + name[3:7]])
    # addresses include the block markers themselves ($55 $3C ...): the header is data too
    marks = [0x553C, 0x3C55, 0x5555, 0x3C00, 0x5501, 0x55FF, 0x0055, 0x5500, 0x3C3C, 0x013C, 0xFF55]
    addr = lambda: rng.choice([0, 1, 255, 256, 0x0E00, 0x7FFF, 0x8000, 0xFFFF, rng.randrange(65536), rng.choice(marks), rng.choice(marks)])
    return (name, rng.randrange(4), rng.choice([0, 255]), addr(), addr(), gen_data(rng, n))


def gen_list(rng, tier, allow_empty=True):
    k = rng.choice([0, 1, 1, 2, 2, 3, 4, 5])
    return [gen_file(rng, tier, allow_empty) for _ in range(k)]


def enc_files(fs):
    if not fs:
        return "-"
    return ";".join("%s,%d,%d,%d,%d,%s" % (f[0].encode("latin-1").hex() or "-", f[1], f[2], f[3], f[4], f[5].hex() or "-") for f in fs)


def dec_files(s, with_gap=False):
    if s == "-":
        return []
    out = []
    for part in s.split(";"):
        x = part.split(",")
        nm = bytes.fromhex(x[0]) if x[0] != "-" else b""
        dat = bytes.fromhex(x[5]) if x[5] != "-" else b""
        t = (nm.decode("latin-1"), int(x[1]), int(x[2]), int(x[3]), int(x[4]), dat)
        out.append(t + (int(x[6]),) if with_gap else t)
    return out


def norm(f):
    return (f[0][:8].ljust(8, " "), f[1], f[2], f[3], f[4], f[5])


def impl_write(fs):
    CassetteFile, CoCoFile, NumericValue, _ = impl()
    c = CassetteFile()
    c.add_files([CoCoFile(name=f[0], extension="BIN", type=NumericValue(f[1]), data_type=NumericValue(f[2]),
                          load_addr=NumericValue(f[3]), exec_addr=NumericValue(f[4]), data=list(f[5])) for f in fs])
    return bytes(c.get_buffer())


def impl_rewrite(bs):
    """list a stream with the tool's reader and write the CoCoFile objects it returns (with whatever the reader
    recorded in them, e.g. the gap flag) to a new tape, as file_util --to_cas does -> bytes | None"""
    CassetteFile, _, _, VFVE = impl()
    try:
        objs = CassetteFile(buffer=list(bs)).list_files()
        c = CassetteFile()
        c.add_files(objs)
        return bytes(c.get_buffer())
    except Exception:  # noqa
        return None


def impl_list(bs):
    """-> ('OK', [files]) | ('DIAG',) | ('INTERNAL', kind) | ('UNMODELLED',)"""
    CassetteFile, _, _, VFVE = impl()
    try:
        files = CassetteFile(buffer=list(bs)).list_files()
    except VFVE:
        return ("DIAG",)
    except IndexError:
        return ("INTERNAL", 1)
    except UnicodeDecodeError:
        return ("UNMODELLED",)
    except Exception as e:  # noqa
        return ("INTERNAL", type(e).__name__)
    return ("OK", [(f.name, f.type.int, f.data_type.int, f.load_addr.int, f.exec_addr.int, bytes(f.data)) for f in files])


def model_list(drv, bs):
    r = drv.ask("caslist " + (bs.hex() or "-"))
    if r.startswith("OK "):
        return ("OK", dec_files(r[3:]))
    if r.startswith("DIAG"):
        return ("DIAG",)
    if r.startswith("INTERNAL"):
        return ("INTERNAL", int(r.split()[1]))
    return (r.split()[0],)


def same_listing(a, b, casefold=False):
    if a[0] != b[0]:
        return False
    if a[0] != "OK":
        return a == b or a[0] in ("DIAG", "UNMODELLED")
    if len(a[1]) != len(b[1]):
        return False
    for x, y in zip(a[1], b[1]):
        nx, ny = (x[0].upper(), y[0].upper()) if casefold else (x[0], y[0])
        if nx != ny or x[1:] != y[1:]:
            return False
    return True


# ------------------------------------------------------------------------------------------
# general well-formed streams (not produced by the writer)
# ------------------------------------------------------------------------------------------

def block(ty, pl):
    return bytes([0x55, 0x3C, ty, len(pl)]) + pl + bytes([(ty + len(pl) + sum(pl)) & 0xFF, 0x55])


def gap(rng):
    k = rng.choice([0, 0, 1, 2, 3, 128, rng.randrange(300)])
    m = rng.randrange(3)
    if m == 0:
        return bytes([0x55]) * k
    if m == 1:
        return bytes(rng.choice([0, 0x55]) for _ in range(k))
    return bytes([0]) * (k // 2) + bytes([0x55]) * (k - k // 2)


def gen_stream(rng, tier):
    fs = [gen_file(rng, "quick", allow_empty=False) for _ in range(rng.choice([0, 1, 2, 3]))]
    out = b""
    files = []
    for f in fs:
        name = f[0][:8].ljust(8, " ")
        gf = rng.choice([0, 255])
        data = f[5][:rng.choice([1, 2, 300, 700, len(f[5])])] or b"\x01"
        hdr = name.encode("latin-1") + bytes([f[1], f[2], gf, f[3] >> 8, f[3] & 255, f[4] >> 8, f[4] & 255])
        out += gap(rng) + block(0, hdr)
        i = 0
        first = True
        while i < len(data):
            n = rng.choice([1, 2, 254, 255, 255, 255, rng.randrange(1, 256)])
            out += (gap(rng) if (first or gf or rng.random() < 0.3) else b"") + block(1, data[i:i + n])
            i += n
            first = False
        out += (gap(rng) if rng.random() < 0.5 else b"") + block(0xFF, b"")
        files.append((name, f[1], f[2], f[3], f[4], data))
    out += gap(rng)
    return out, files


def mutate_stream(rng, bs):
    if not bs:
        return bytes(rng.randrange(256) for _ in range(rng.randrange(40)))
    m = rng.randrange(4)
    if m == 0:
        return bs[:rng.randrange(len(bs))]
    if m == 1:
        i = rng.randrange(len(bs))
        return bs[:i] + bytes([rng.randrange(256)]) + bs[i + 1:]
    if m == 2:
        i = rng.randrange(len(bs))
        return bs[:i] + bs[i + rng.randrange(1, 30):]
    return bytes(rng.choice([0x55, 0x3C, 0, 1, 0xFF, rng.randrange(256)]) for _ in range(rng.randrange(200)))


# ------------------------------------------------------------------------------------------

KF_EMPTY = "tape_empty_file"


def check_write_case(pid, fs, drv, rep):
    """one file list through writer (+ reader for C06).  Returns False on a (new) violation."""
    key = enc_files(fs)
    try:
        ib = impl_write(fs)
    except Exception as e:  # noqa
        rep.violation("writer raised %s: %s" % (type(e).__name__, e), {"files": key})
        return False
    mb_hex = drv.ask("caswrite " + key)
    mb = bytes.fromhex(mb_hex) if mb_hex != "-" else b""
    rep.cov["traces_validated_against_impl"] += 1
    expected = [norm(f) for f in fs]
    ok = True
    corr_broken = (ib != mb)
    # oracle: spec parser on the IMPLEMENTATION's bytes
    r = drv.ask("casparse " + (ib.hex() or "-"))
    spec_ok = r.startswith("SOME ") and [x[:6] for x in dec_files(r[5:], True)] == expected and \
        all(x[6] == 0 for x in dec_files(r[5:], True))
    if pid == "C14":
        if not spec_ok:
            rep.violation("written tape is not a well-formed stream holding the files written (spec parser: %s)" % r[:120],
                          {"kind": "write", "files": key, "impl_bytes": ib.hex(), "spec": r[:2000]})
            ok = False
        elif corr_broken:
            rep.cov["disagreements_checked"] += 1
            rep.violation("correspondence MCassette.write vs CassetteFile.add_files broken (bytes differ; spec view agrees)",
                          {"kind": "write", "files": key, "impl_bytes": ib.hex(), "model_bytes": mb.hex(),
                           "relation": "MCassette.write = CassetteFile.add_files (byte-for-byte)"}, found_input=False)
            ok = False
    if pid == "C06":
        il = impl_list(ib)
        ml = model_list(drv, ib)
        good = il[0] == "OK" and same_listing(il, ("OK", expected), casefold=True)
        in_class = any(len(f[5]) == 0 for f in fs)
        if not good:
            if in_class and same_listing(il, ml):
                rep.known_finding(KF_EMPTY, "tape file with empty data truncates the listing (cassette.py read_file `if not data`), witness files=%s" % key[:80])
            else:
                rep.violation("write-then-list does not return the files written: got %s" % (str(il)[:200]),
                              {"kind": "roundtrip", "files": key, "impl_listing": str(il)[:4000], "model_listing": str(ml)[:4000]})
                ok = False
        elif not same_listing(il, ml) or corr_broken:
            rep.cov["disagreements_checked"] += 1
            rep.violation("correspondence broken on write/list (model and implementation differ; property oracle passes)",
                          {"kind": "roundtrip", "files": key, "impl_listing": str(il)[:2000], "model_listing": str(ml)[:2000],
                           "bytes_equal": not corr_broken, "relation": "MCassette.list_files/write = CassetteFile.list_files/add_files"},
                          found_input=False)
            ok = False
    return ok


def check_stream_case(bs, files, drv, rep, wellformed):
    il = impl_list(bs)
    ml = model_list(drv, bs)
    rep.cov["traces_validated_against_impl"] += 1
    if wellformed:
        if not (il[0] == "OK" and same_listing(il, ("OK", files), casefold=True)):
            rep.violation("listing a well-formed stream does not return the files it contains: %s" % str(il)[:200],
                          {"kind": "stream", "stream": bs.hex(), "expected": str(files)[:4000], "impl_listing": str(il)[:4000]})
            return False
    if ml[0] == "UNMODELLED":
        rep.cov["unmodelled"] = rep.cov.get("unmodelled", 0) + 1
        return True
    if not same_listing(il, ml):
        rep.cov["disagreements_checked"] += 1
        rep.violation("correspondence MCassette.list_files vs CassetteFile.list_files broken on a %s stream" % ("well-formed" if wellformed else "malformed"),
                      {"kind": "stream", "stream": bs.hex(), "impl_listing": str(il)[:2000], "model_listing": str(ml)[:2000],
                       "relation": "MCassette.list_files = CassetteFile.list_files (outcome class and files)"}, found_input=False)
        return False
    return True


def corpus(pid):
    import os
    p = os.path.join(common.VERIF, "corpus", pid + ".jsonl")
    if not os.path.exists(p):
        return []
    return [json.loads(l) for l in open(p) if l.strip()]


def run(pid, tier, seed, rep, info):
    rng = common.rng_for(seed, pid)
    proof_ok, details = rep.proof(info)
    drv = Driver()
    n_lists = {"quick": 250, "thorough": 4000}[tier]
    n_streams = {"quick": 250, "thorough": 4000}[tier]
    hist = {}
    try:
        # known-finding witnesses first
        for kf in common.findings_for(pid):
            for w in kf.get("witnesses", []):
                if w.get("kind") == "files":
                    fs = [(f[0], f[1], f[2], f[3], f[4], bytes.fromhex(f[5])) for f in w["files"]]
                    check_write_case(pid, fs, drv, rep)
        for c in corpus(pid):
            if c.get("kind") == "files":
                fs = [(f[0], f[1], f[2], f[3], f[4], bytes.fromhex(f[5])) for f in c["files"]]
                check_write_case(pid, fs, drv, rep)
        # every boundary length once, alone
        lens = list(BOUNDARY_LENS) + ([] if tier == "quick" else list(range(0, 1100)))
        for n in lens:
            f = ("L%d" % n, 2, 0, 0x0E00, 0x0E00, gen_data(rng, n))
            rep.count(("len", n), nontrivial=True)
            check_write_case(pid, [f], drv, rep)
            hist["single"] = hist.get("single", 0) + 1
            if rep.full():
                break
        for i in range(n_lists):
            fs = gen_list(rng, tier)
            rep.count(enc_files(fs)[:4000] + str(len(enc_files(fs))), nontrivial=len(fs) > 0)
            hist["files=%d" % len(fs)] = hist.get("files=%d" % len(fs), 0) + 1
            if i < 3:
                rep.sample({"files": [(f[0], f[1], f[2], f[3], f[4], "%d bytes" % len(f[5])) for f in fs]})
            if not check_write_case(pid, fs, drv, rep) and rep.full():
                break
        if pid == "C14":
            # tapes written from files that were READ from another tape (gapped or not): what file_util --to_cas does
            for i in range(n_streams // 2):
                bs, files = gen_stream(rng, tier)
                if not files:
                    continue
                rep.count(("rewrite", bs.hex()[:2000], len(bs)), nontrivial=True)
                hist["rewritten"] = hist.get("rewritten", 0) + 1
                out = impl_rewrite(bs)
                if out is None:
                    continue        # the reader's business (C06)
                r = drv.ask("casparse " + (out.hex() or "-"))
                good = r.startswith("SOME ") and [x[:6] for x in dec_files(r[5:], True)] == [norm(f) for f in files]
                if not good:
                    rep.violation("a tape written from files read from another tape is not a well-formed stream holding them (spec parser: %s)" % r[:120],
                                  {"kind": "rewrite", "source_stream": bs.hex(), "impl_bytes": out.hex(), "spec": r[:2000]})
                if rep.full():
                    break
        if pid == "C06":
            for i in range(n_streams):
                bs, files = gen_stream(rng, tier)
                rep.count(("stream", bs.hex()[:2000], len(bs)), nontrivial=len(files) > 0)
                hist["stream"] = hist.get("stream", 0) + 1
                if i < 2:
                    rep.sample({"stream_len": len(bs), "files": [(f[0], len(f[5])) for f in files]})
                check_stream_case(bs, files, drv, rep, True)
                bad = mutate_stream(rng, bs)
                rep.count(("bad", bad.hex()[:2000], len(bad)), nontrivial=True)
                hist["malformed"] = hist.get("malformed", 0) + 1
                check_stream_case(bad, None, drv, rep, False)
                if rep.full():
                    break
    finally:
        drv.close()
    rep.cov["input_distribution"] = hist
    rep.cov["rule"] = ("file lists of 0..5 files (names 0..12 chars, data lengths biased to 0,1,254..257,509..512,k*255+-1 and random, "
                       "content biased to block markers $55 $3C $00/$01/$FF, all 16-bit addresses, types 0-3, data types 00/FF)"
                       + ("; generated general well-formed streams (any gap/leader lengths, any 1..255 chunking) and malformed mutations of them" if pid == "C06" else "")
                       + "; distinct = distinct encoded input; non-trivial = at least one file")
    rep.assumptions = ["names are 7-bit ASCII", "CoCoFile addresses/types are NumericValue(int) as assembler.py and the readers build them"]
    if not proof_ok and not rep.violations:
        rep.violation("proof obligation no longer checks: " + "; ".join(details), {"theorem_file": "coq/Properties/%s.v" % pid,
                      "details": details, "make_log": info.get("make_log", "")[-3000:]}, found_input=False)


def replay(pid, path):
    r = json.load(open(path))
    info = common.build()
    rep = common.Report(pid, "quick", 0)
    drv = Driver()
    try:
        if r.get("kind") in ("write", "roundtrip"):
            fs = dec_files(r["files"])
            ok = check_write_case(pid, fs, drv, rep)
        elif r.get("kind") == "stream":
            ok = check_stream_case(bytes.fromhex(r["stream"]), None, drv, rep, False)
        elif r.get("kind") == "rewrite":
            out = impl_rewrite(bytes.fromhex(r["source_stream"]))
            src = drv.ask("casparse " + r["source_stream"])
            res = drv.ask("casparse " + (out.hex() or "-")) if out is not None else "NONE"
            ok = res.startswith("SOME ") and src.startswith("SOME ") and \
                [x[:6] for x in dec_files(res[5:], True)] == [x[:6] for x in dec_files(src[5:], True)]
        else:
            print("replay: nothing executable recorded (%s)" % r.get("what", "")[:200])
            return 1
    finally:
        drv.close()
    print("replay:", "passes now" if ok and not rep.violations else "still fails")
    return 0 if ok and not rep.violations else 1
