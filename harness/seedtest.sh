#!/bin/bash
# usage: harness/seedtest.sh <patch.diff> <prop> [tier]   — applies a seeded change to /repo, runs the check, reverts.
set -u
patch="$1"; prop="$2"; tier="${3:-quick}"
cd /repo || exit 2
if [ -n "$(git status --porcelain)" ]; then echo "repo not clean"; exit 2; fi
git apply "$patch" || { echo "patch does not apply"; exit 2; }
cd /verif
./check "$prop" "$tier" 2>/dev/null | grep -E "VIOLATION|KNOWN" | head -5
echo "check rc=${PIPESTATUS[0]}"
git -C /repo checkout -- . ; git -C /repo status --porcelain
