#!/bin/bash
# usage: harness/seedcheck.sh [tier] — re-run every kept seeded change: apply seeded/<id>/patch.diff to /repo, run the check of
# the property it breaks, revert.  Prints one line per seed; exit 1 if some seed is not detected (or does not apply).
tier="${1:-quick}"; cd /verif; bad=0
[ -n "$(git -C /repo status --porcelain)" ] && { echo "repo not clean"; exit 2; }
for d in seeded/*/; do
  id=$(basename $d); prop=$(python3 -c "import json;print(json.load(open('$d/meta.json'))['breaks'])")
  if ! git -C /repo apply --check /verif/$d/patch.diff 2>/dev/null; then echo "$id $prop DOES-NOT-APPLY"; bad=1; continue; fi
  git -C /repo apply /verif/$d/patch.diff
  out=$(./check $prop $tier 2>&1); rc=$?
  git -C /repo checkout -- . ; git -C /repo clean -qfd cocoasm 2>/dev/null
  first=$(echo "$out" | grep -E "^VIOLATION" | head -1 | cut -c1-120)
  echo "$id $prop rc=$rc $first"
  [ $rc -eq 1 ] || bad=1
done
exit $bad
