"""C17 (assembler output depends only on the source text), C18 (relocating / renaming / reformatting a program
changes output only as it must) and C19 (INCLUDE is textual inclusion).

All three are run-time relations between several assemblies of related inputs:
  C17  warm-process histories Q1..Qk,P,P  versus  P first in a fresh process (5 hash seeds)  versus  the model;
       snapshot of the shared module-level objects after every assembly; the list handed to Program.process;
       the real CLI under two hash seeds.
  C18  metamorphic relations on accepted programs: relocation, label renaming, layout (white space / comments /
       mnemonic case), suffix; implementation versus itself, and implementation versus model on every variant.
  C19  a program split into an including file and 1..3 include files (nested to depth 3) versus the spliced
       single file, in-process (asmlib `files=`), through the model, and through the real CLI in a temp dir.
"""
import collections
import concurrent.futures
import hashlib
import json
import os
import re
import shutil
import signal
import subprocess
import sys
import tempfile
import time

import common
import asmlib
import asmgen
from common import log

HERE = os.path.dirname(os.path.abspath(__file__))
HASHSEEDS = ["0", "1", "2", "12345", "random"]
BRANCHES = set(asmgen.SHORT_BR + asmgen.LONG_BR)
REGNAMES = {"A", "B", "D", "X", "Y", "U", "S", "CC", "DP", "PC", "PCR"}
NO_LABEL_OPERAND = {"FCC", "NAM", "INCLUDE"}        # operand text is not an expression
TOKEN = re.compile(r"(?<![$%'\w@])[A-Za-z0-9@_]+")  # identifier-like tokens of an operand (not $hex, %bin, 'c)

# programs known to end in an internal error (not a diagnostic) on the current tree
INTERNAL_PROGRAMS = [
    ["L NOP\n", " LDA L,X\n"],
    [" ORG $0E00\n", "L NOP\n", " LDA L,X\n", " RTS\n"],
    ["T RMB 2\n", " LDX [T,Y]\n"],
]

KF_AT = "label_at_in_expression"
KF_US = "label_underscore_reference"
OPEN_KF = {f["id"] for f in common.known_findings()["findings"] if f.get("status", "open") == "open"}


def _tup(x):
    if isinstance(x, list):
        return tuple(_tup(v) for v in x)
    return x


def _h(x):
    return hashlib.sha256(json.dumps(x, sort_keys=True, default=str).encode()).hexdigest()[:16]


def _cls(o):
    return asmlib.outcome_class(o)


# =================================================================================================
# child process: histories in one interpreter, global-state snapshots
# =================================================================================================

def _deep(o, depth=0):
    from cocoasm.values import Value
    if depth > 6:
        return repr(type(o))
    if isinstance(o, Value):
        return [type(o).__name__, {k: _deep(v, depth + 1) for k, v in sorted(vars(o).items())}]
    if isinstance(o, (list, tuple)):
        return [_deep(v, depth + 1) for v in o]
    if isinstance(o, dict):
        return {str(k): _deep(v, depth + 1) for k, v in o.items()}
    if isinstance(o, (set, frozenset)):
        return sorted(repr(v) for v in o)
    return repr(o)


def _snapshot():
    """Deep picture of everything module-level / class-level / default-argument that an assembly could share
    with the next one.  dict key -> JSON-able value."""
    import cocoasm.instruction as I
    import cocoasm.statement as S
    import cocoasm.values as V
    import cocoasm.operands as O
    import cocoasm.program as P
    from cocoasm.virtualfiles import coco_file as CF
    snap = {}
    d = I.CodePackage.__init__.__defaults__
    snap["instruction.CodePackage.__init__.__defaults__"] = _deep(list(d))
    snap["instruction.CodePackage.__init__.__defaults__ ids"] = [id(x) for x in d]
    for cls in (CF.CoCoFile, I.Mode, I.Instruction):
        fd = getattr(cls, "_field_defaults", None)
        if fd is not None:
            snap["%s._field_defaults" % cls.__name__] = _deep(dict(fd))
    snap["instruction.INSTRUCTIONS"] = hashlib.sha256(repr(I.INSTRUCTIONS).encode()).hexdigest()
    snap["instruction.INSTRUCTIONS len/id"] = [len(I.INSTRUCTIONS), id(I.INSTRUCTIONS)]
    for mod in (S, V, O, I, P, CF):
        mname = mod.__name__.split(".")[-1]
        for name, val in sorted(vars(mod).items()):
            if name.startswith("__") or name == "INSTRUCTIONS":
                continue
            if isinstance(val, re.Pattern):
                snap["%s.%s" % (mname, name)] = [val.pattern, val.flags, id(val)]
            elif isinstance(val, (list, dict, tuple, set, str, int, float)):
                snap["%s.%s" % (mname, name)] = _deep(val)
            elif isinstance(val, type) and val.__module__ == mod.__name__:
                for an, av in sorted(vars(val).items()):
                    if an.startswith("__") and an not in ("__init__",):
                        continue
                    if an.startswith("_abc") or an in ("_member_map_", "_value2member_map_", "_member_names_"):
                        continue
                    fn = av.__func__ if isinstance(av, (staticmethod, classmethod)) else av
                    if callable(fn):
                        dflt = getattr(fn, "__defaults__", None)
                        if dflt:
                            snap["%s.%s.%s.__defaults__" % (mname, name, an)] = _deep(list(dflt))
                        continue
                    if isinstance(av, property) or type(av).__name__ in ("member_descriptor", "getset_descriptor", "_tuplegetter"):
                        continue
                    snap["%s.%s.%s" % (mname, name, an)] = _deep(av)
            elif callable(val) and getattr(val, "__defaults__", None) and getattr(val, "__module__", "") == mod.__name__:
                snap["%s.%s.__defaults__" % (mname, name)] = _deep(list(val.__defaults__))
    return snap


def _snap_diff(a, b):
    out = []
    for k in sorted(set(a) | set(b)):
        if a.get(k) != b.get(k):
            out.append([k, json.dumps(a.get(k), default=str)[:400], json.dumps(b.get(k), default=str)[:400]])
    return out


def _assemble(lines, listing=False):
    """Like asmlib.impl_asm (same observation), but hands `lines` itself to Program.process and reports whether
    the list was left alone; optionally also the listing / symbol table lines the CLI would print."""
    from cocoasm.program import Program
    from cocoasm.exceptions import ParseError, TranslationError
    given = list(lines)
    keep = list(given)
    extra = None

    def on_alarm(*a):
        raise TimeoutError()
    old = signal.signal(signal.SIGALRM, on_alarm)
    signal.alarm(asmlib.TIMEOUT_S)
    try:
        try:
            p = Program()
            p.process(given)
            img = p.get_binary_array()
            st = []
            cat = []
            for s in p.statements:
                b = asmlib._stmt_bytes(s.code_pkg)
                cat += b
                a = s.code_pkg.address
                st.append((a.int if not a.is_none() else 0, s.code_pkg.size, bytes(b).hex().upper()))
            if cat != img:
                obs = ("INTERNAL", "harness: per-statement bytes differ from get_binary_array")
            else:
                syms = tuple((k, v.hex()) for k, v in p.symbol_table.items())
                origin = None if p.origin.is_none() else p.origin.int
                obs = ("OK", bytes(img).hex().upper(), origin, p.name, tuple(st), syms)
                if listing:
                    extra = {"sym": p.get_symbol_table(), "stmts": p.get_statements()}
        except TimeoutError:
            obs = ("TIMEOUT",)
        except ParseError:
            obs = ("DIAG", 1)
        except TranslationError:
            obs = ("DIAG", 2)
        except RecursionError:
            obs = ("INTERNAL", "RecursionError")
        except Exception as e:  # noqa
            obs = ("INTERNAL", type(e).__name__)
    finally:
        signal.alarm(0)
        signal.signal(signal.SIGALRM, old)
    unchanged = (len(given) == len(keep)) and all(x is y or x == y for x, y in zip(given, keep))
    return obs, unchanged, extra


def _run_history(item, snap0):
    """item: list of programs; the last one is P and is assembled twice.  One dict per assembly."""
    steps = []
    seq = list(item) + [item[-1]]
    full = os.environ.get("PYTHONHASHSEED") == HASHSEEDS[0] and len(item) == 1
    for n, lines in enumerate(seq):
        obs, unchanged, extra = _assemble(lines, listing=True)
        steps.append({"obs": obs, "unchanged": unchanged, "snap": _snap_diff(snap0, _snapshot()),
                      "listing": extra if (full and n == 0) else None, "listing_hash": _h(extra) if extra else None})
    return {"steps": steps}


def _in_fork(fn):
    r, w = os.pipe()
    pid = os.fork()
    if pid == 0:
        try:
            os.close(r)
            try:
                data = json.dumps(fn()).encode()
            except BaseException as e:  # noqa
                data = json.dumps({"crash": repr(e)}).encode()
            with os.fdopen(w, "wb") as f:
                f.write(data)
        finally:
            os._exit(0)
    os.close(w)
    with os.fdopen(r, "rb") as f:
        data = f.read()
    os.waitpid(pid, 0)
    return json.loads(data) if data else {"crash": "no output from forked interpreter"}


# include files every C17 interpreter can see (the same text for every program): their statements need symbols that
# the INCLUDING program defines, so a parse or a resolution remembered from an earlier assembly shows up as a
# different image for a later one
C17_LIB = {
    "LIBA.ASM": ["PUTCH STA OUTPORT\n", " LEAX -1,X\n", " BNE PUTCH\n", " LDA #CONST\n", " RTS\n"],
    "LIBB.ASM": ["DELAY LDX #COUNT\n", "DLOOP LEAX -1,X\n", " BNE DLOOP\n", " JMP BACK\n", " FDB BACK\n"],
    "LIBC.ASM": [" LDD TABLE,PCR\n", " STD OUTPORT\n", " LBRA BACK\n"],
}


def _install_c17_lib():
    from cocoasm.virtualfiles.source_file import SourceFile

    def read_assembly_contents(filename):
        if filename not in C17_LIB:
            raise FileNotFoundError(filename)
        return list(C17_LIB[filename])
    SourceFile.read_assembly_contents = staticmethod(read_assembly_contents)


def c17_include_program(rng):
    """a program that INCLUDEs one or two library files and defines the symbols they use, each time differently"""
    org = rng.choice([0x0E00, 0x1000, 0x3000, 0x0020])
    outport = rng.choice([0x20, 0xFF20, 0x0400, 0xFF])
    pre = [" ORG $%04X\n" % org, "OUTPORT EQU $%X\n" % outport, "CONST EQU %d\n" % rng.randrange(256),
           "COUNT EQU %d\n" % rng.choice([1, 255, 256, 1000, 65535])]
    body = [" %s\n" % asmgen.rand_stmt(rng, ["BACK", "TABLE"], allow_pcr=False) for _ in range(rng.randrange(0, 6))]
    libs = rng.sample(sorted(C17_LIB), rng.choice([1, 1, 2, 3]))
    incs = [" INCLUDE %s\n" % f for f in libs]
    tail = [" %s\n" % asmgen.rand_stmt(rng, ["BACK", "TABLE"], allow_pcr=False) for _ in range(rng.randrange(0, 4))]
    lines = pre + ["BACK NOP\n"] + body
    k = rng.randrange(len(incs) + 1)
    lines += incs[:k] + ["TABLE FDB $1234\n"] + tail + incs[k:]
    return lines


def _child_main():
    """stdin: {"items": [[program, ...], ...]}; every item is run in its own fork of this freshly started
    interpreter (cocoasm imported, nothing assembled), so an item's history is exactly what is listed."""
    req = json.load(sys.stdin)
    common.import_repo()
    import cocoasm.program  # noqa
    import cocoasm.virtualfiles.coco_file  # noqa
    _install_c17_lib()
    snap0 = _snapshot()
    out = [_in_fork(lambda it=it: _run_history(it, snap0)) for it in req["items"]]
    sys.stdout.write(json.dumps({"results": out, "hashseed_env": os.environ.get("PYTHONHASHSEED"),
                                 "snapshot_keys": len(snap0)}))
    sys.stdout.flush()


def _child(items, hashseed):
    if not items:
        return []
    env = dict(os.environ)
    env.update({"PYTHONPATH": HERE + os.pathsep + common.REPO, "PYTHONDONTWRITEBYTECODE": "1",
                "PYTHONHASHSEED": str(hashseed)})
    p = subprocess.run([common.PY, "-c", "import asm_meta; asm_meta._child_main()"], input=json.dumps({"items": items}),
                       env=env, cwd="/tmp", stdout=subprocess.PIPE, stderr=subprocess.PIPE, text=True,
                       timeout=120 + 12 * sum(len(i) + 1 for i in items))
    if p.returncode != 0:
        raise RuntimeError("history interpreter failed rc=%s: %s" % (p.returncode, p.stderr[-1500:]))
    res = json.loads(p.stdout)
    _child.snapshot_keys = res["snapshot_keys"]
    return res["results"]


def _children(jobs, nproc=10):
    """jobs: list of (items, hashseed) -> list of result lists (parallel interpreters)"""
    with concurrent.futures.ThreadPoolExecutor(nproc) as ex:
        return list(ex.map(lambda j: _child(j[0], j[1]), jobs))


def _chunks(xs, n):
    n = max(1, n)
    k = (len(xs) + n - 1) // n if xs else 1
    return [xs[i:i + k] for i in range(0, len(xs), k)]


def _step_obs(step):
    return _tup(step["obs"])


# =================================================================================================
# the real CLI
# =================================================================================================

def _cli(cwd, args, hashseed="0"):
    env = dict(os.environ)
    env.update({"PYTHONPATH": common.REPO, "PYTHONDONTWRITEBYTECODE": "1", "PYTHONHASHSEED": str(hashseed)})
    try:
        p = subprocess.run([common.PY, os.path.join(common.REPO, "assembler.py")] + args, cwd=cwd, env=env,
                           stdout=subprocess.PIPE, stderr=subprocess.PIPE, timeout=60)
    except subprocess.TimeoutExpired:
        return None, b"", b"timeout"
    return p.returncode, p.stdout, p.stderr


def _write(path, lines):
    d = os.path.dirname(path)
    if d:
        os.makedirs(d, exist_ok=True)
    with open(path, "w", newline="") as f:
        f.write("".join(lines))


def _expected_stdout(listing):
    out = ["-- Symbol Table --"] + listing["sym"] + ["-- Assembled Statements --"] + listing["stmts"]
    return ("\n".join(out) + "\n").encode()


# =================================================================================================
# the tree must not change under a run
# =================================================================================================

_FP0 = None


def _fingerprint():
    h = hashlib.sha256()
    files = [os.path.join(common.REPO, "assembler.py")]
    for root, _, names in os.walk(os.path.join(common.REPO, "cocoasm")):
        files += [os.path.join(root, n) for n in names if n.endswith(".py")]
    for f in sorted(files):
        try:
            h.update(f.encode() + b"\0" + open(f, "rb").read())
        except OSError:
            h.update(f.encode() + b"\0<unreadable>")
    return h.hexdigest()[:16]


def _replay_problems(r):
    kind = r.get("kind")
    if kind == "correspondence":
        files = r.get("files")
        i = asmlib.impl_batch([(r["program"], files)])[0]
        m = asmlib.model_batch([(r["program"], files)])[0]
        return [] if asmlib.same_obs(i, m) else [("impl %s model %s" % (str(i)[:150], str(m)[:150]), r, False)]
    if kind in ("history", "cli"):
        return c17_replay(r)
    if kind == "relation":
        return c18_replay(r)
    if kind == "include":
        return c19_replay(r)
    return None


def _report(rep, what, payload, found_input=True):
    """rep.violation, except that a finding made while the /repo sources were being changed under the run (the
    fingerprint differs from the one taken at the start) is re-run as a single case first and dropped if it passes."""
    if _FP0 is not None and not rep.full() and _fingerprint() != _FP0:
        rep.cov["repo_changed_during_run"] = True
        try:
            still = _replay_problems(dict(payload))
        except Exception as e:  # noqa
            still = [("re-run failed: %r" % e, payload, found_input)]
        if still is not None and not still:
            rep.cov["dropped_after_repo_change"] = rep.cov.get("dropped_after_repo_change", 0) + 1
            log("  (not reported: found while /repo was changing, passes when re-run alone) " + what[:160])
            return
    rep.violation(what, payload, found_input)


# =================================================================================================
# C17
# =================================================================================================

def equ_chain_programs(rng, k):
    """EQU symbols defined through other EQU symbols, in source order (each definition uses an earlier one): whether they
    resolve must not depend on the order in which any set or dict of their names happens to be walked"""
    out = [["BASE EQU $0400\n", "ROWLEN EQU 32\n", "ROW1 EQU BASE+ROWLEN\n", "ROW2 EQU ROW1+ROWLEN\n", "ROW3 EQU ROW2+ROWLEN\n", " LDX #ROW3\n"],
           [" ORG $1000\n", "MAIN NOP\n", "ENTRY EQU MAIN\n", "VECTOR EQU ENTRY+3\n", " JMP VECTOR\n"]]
    for _ in range(k):
        names = []
        while len(names) < rng.choice([3, 4, 5, 6, 8]):
            nm = rng.choice("ABCDEFGHIJKLMNOPQRSTUVWXYZ") + "".join(rng.choice("ABCDEFGHIJKLMNOPQRSTUVWXYZ0123456789") for _ in range(rng.randrange(1, 6)))
            if nm not in names and nm not in ("A", "B", "D", "X", "Y", "U", "S", "PC", "PCR", "DP", "CC"):
                names.append(nm)
        lines = ["%s EQU %d\n" % (names[0], rng.choice([1, 5, 32, 100, 1000]))]
        for a, b in zip(names, names[1:]):
            lines.append("%s EQU %s\n" % (b, rng.choice([a, a + "+1", a + "+" + names[0], "2+" + a, a + "*2"])))
        lines.append(" LDX #%s\n" % names[-1])
        out.append(lines)
    return out


# pairs (Q, P): Q is rejected LATE (after operands were resolved), P uses the textually identical operand expression on the
# same mnemonic where the symbol means something else (another statement index, an EQU instead of a label, another
# value), or the same list text under the other data directive: whatever Q left behind in the interpreter must not
# reach P
SHARED_TEXT_PAIRS = [
    ([" ORG $0E00\n", " NOP\n", "TABLE FCB 1,2,3\n", " LDA TABLE+1\n", " LDX NOSUCH\n"],
     [" ORG $0E00\n", "TABLE FCB 1,2,3\n", " LDA TABLE+1\n", " RTS\n"]),
    (["TABLE EQU $43\n", " LDA TABLE+1\n", " LDX NOSUCH\n"], ["TABLE EQU $21\n", " LDA TABLE+1\n"]),
    ([" ORG $1000\n", "T2 NOP\n", " JMP T2+2\n", " BRA FAR\n", " RMB 300\n", "FAR NOP\n"],
     [" ORG $2000\n", " NOP\n", " NOP\n", "T2 NOP\n", " JMP T2+2\n"]),
    (["MSG FCC /AB/\n", " LDX #MSG+1\n", " LDA NOSUCH\n"], [" NOP\n", "MSG FCC /AB/\n", " LDX #MSG+1\n"]),
    (["V EQU 5\n", " LDB #V*2\n", " LDU NOSUCH\n"], ["V EQU 9\n", " LDB #V*2\n"]),
    (["V EQU 5\n", " LDB #V*2\n", " LDU NOSUCH\n"], [" ORG $0010\n", "V NOP\n", " LDB #V*2\n"]),
    ([" FCB 1,2,3\n"], [" FDB 1,2,3\n"]),
    ([" FDB $10,$20\n", " LDA NOSUCH\n"], [" FCB $10,$20\n"]),
    (["L1 NOP\n", " LEAX L1-1,PCR\n", " LDA NOSUCH\n"], [" RMB 200\n", "L1 NOP\n", " LEAX L1-1,PCR\n"]),
]


def c17_pool(rng, n, pairs=None):
    progs = [list(p) for p in INTERNAL_PROGRAMS] + equ_chain_programs(rng, 24)
    for q_, p_ in SHARED_TEXT_PAIRS:
        iq = progs.index(list(q_)) if list(q_) in progs else len(progs)
        if iq == len(progs):
            progs.append(list(q_))
        ip = progs.index(list(p_)) if list(p_) in progs else len(progs)
        if ip == len(progs):
            progs.append(list(p_))
        if pairs is not None:
            pairs.append((iq, ip))
    seen = {tuple(p) for p in progs}
    while len(progs) < n:
        p = asmgen.rand_program(rng)
        r = rng.random()
        if r > 0.80:
            p = c17_include_program(rng)
            if r > 0.97:
                p = list(p) + [" LDX NOSUCH\n"]
        if r < 0.30:
            p = list(p)
            k = rng.randrange(len(p))
            p[k] = asmgen.mutate_line(rng, p[k])
        elif r < 0.36:
            p = list(p) + [" LDX NOSUCH\n"]                      # undefined symbol -> TranslationError
        elif r < 0.42:
            p = ["DUP NOP\n"] + list(p) + ["DUP NOP\n"]          # redefined label -> TranslationError
        elif r < 0.46:
            p = list(p) + list(rng.choice(INTERNAL_PROGRAMS))     # internal error after a long prefix
        if tuple(p) in seen:
            continue
        seen.add(tuple(p))
        progs.append(p)
    return progs


def c17_check_fresh(pool, fresh):
    """fresh: {seed: [result per program]} -> problems [(what, payload, found_input)], reference observations"""
    probs = []
    ref = []
    for i, prog in enumerate(pool):
        r0 = fresh[HASHSEEDS[0]][i]
        if "crash" in r0:
            probs.append(("forked interpreter crashed assembling a program: %s" % r0["crash"],
                          {"kind": "history", "history": [], "program": prog, "hashseed": HASHSEEDS[0]}, True))
            ref.append(None)
            continue
        o0 = _step_obs(r0["steps"][0])
        ref.append(o0)
        for seed in HASHSEEDS:
            r = fresh[seed][i]
            if "crash" in r:
                probs.append(("forked interpreter crashed: %s" % r["crash"],
                              {"kind": "history", "history": [], "program": prog, "hashseed": seed}, True))
                continue
            o = _step_obs(r["steps"][0])
            o2 = _step_obs(r["steps"][1])
            pay = {"kind": "history", "history": [], "program": prog, "hashseed": seed}
            if "TIMEOUT" in (o[0], o0[0], o2[0]):
                continue
            if o != o0:
                probs.append(("fresh-process runs under PYTHONHASHSEED=%s and %s differ: %s vs %s" % (HASHSEEDS[0], seed, str(o0)[:150], str(o)[:150]),
                              dict(pay, expected=o0, got=o), True))
            elif o2 != o:
                probs.append(("assembling the same source twice in a row differs: %s vs %s" % (str(o)[:150], str(o2)[:150]),
                              dict(pay, expected=o, got=o2), True))
            elif r["steps"][0]["listing_hash"] != r["steps"][1]["listing_hash"] or r["steps"][0]["listing_hash"] != r0["steps"][0]["listing_hash"]:
                probs.append(("listing / symbol table lines differ between runs of the same source", dict(pay), True))
            for n, st in enumerate(r["steps"]):
                if st["snap"]:
                    probs.append(("module-level state changed by an assembly: %s" % "; ".join("%s: %s -> %s" % tuple(x) for x in st["snap"])[:600],
                                  dict(pay, snapshot_diff=st["snap"], after_step=n), True))
                    break
                if not st["unchanged"]:
                    probs.append(("Program.process modified the list of source lines it was given", dict(pay, after_step=n), True))
                    break
    return probs, ref


def c17_check_history(pool, ref, hist, res, seed, lref=None):
    """hist: list of pool indices (last = P); res: child result.  -> problems"""
    progs = [pool[i] for i in hist]
    pay = {"kind": "history", "history": progs[:-1], "program": progs[-1], "hashseed": seed}
    if "crash" in res:
        return [("forked interpreter crashed running a history: %s" % res["crash"], pay, True)]
    seq = list(hist) + [hist[-1]]
    for n, st in enumerate(res["steps"]):
        o = _step_obs(st)
        exp = ref[seq[n]]
        here = {"kind": "history", "history": [pool[i] for i in seq[:n]], "program": pool[seq[n]], "hashseed": seed}
        if st["snap"]:
            return [("module-level state changed by an assembly (history of %d programs): %s"
                     % (n, "; ".join("%s: %s -> %s" % tuple(x) for x in st["snap"])[:600]), dict(here, snapshot_diff=st["snap"]), True)]
        if not st["unchanged"]:
            return [("Program.process modified the list of source lines it was given", here, True)]
        if exp is None or "TIMEOUT" in (o[0], exp[0]):
            continue
        if o != exp:
            return [("warm-process run after %d other assemblies differs from the fresh-process run: fresh %s, warm %s"
                     % (n, str(exp)[:160], str(o)[:160]), dict(here, expected=exp, got=o), True)]
        if lref is not None and st["listing_hash"] != lref[seq[n]]:
            return [("listing / symbol table lines of a warm-process run (after %d other assemblies) differ from the fresh-process run" % n, here, True)]
    return []


def c17_check_cli(prog, listing, obs):
    """prog through assembler.py twice (two hash seeds) -> problems"""
    d = tempfile.mkdtemp(prefix="c17-", dir="/tmp")
    try:
        _write(os.path.join(d, "p.asm"), prog)
        for name, text in C17_LIB.items():
            _write(os.path.join(d, name), text)
        a = _cli(d, ["p.asm", "--print", "--symbols"], "0")
        b = _cli(d, ["p.asm", "--print", "--symbols"], "random")
        c = _cli(d, ["p.asm", "--symbols", "--print"], "12345")
    finally:
        shutil.rmtree(d, ignore_errors=True)
    pay = {"kind": "cli", "program": prog}
    if a[0] is None or b[0] is None or c[0] is None:
        return []
    if a[:2] != b[:2] or a[:2] != c[:2]:
        return [("assembler.py --print --symbols output differs between two runs (PYTHONHASHSEED 0 / random / 12345)",
                 dict(pay, first=a[1].decode("latin-1")[:3000], second=(b if a[:2] != b[:2] else c)[1].decode("latin-1")[:3000]), True)]
    if obs is not None and obs[0] == "OK" and listing is not None:
        if a[0] != 0 or a[1] != _expected_stdout(listing):
            return [("assembler.py output differs from the in-process listing of the same source (rc=%s)" % a[0],
                     dict(pay, cli=a[1].decode("latin-1")[:3000], inprocess=_expected_stdout(listing).decode("latin-1")[:3000]), True)]
    if obs is not None and obs[0] == "DIAG" and (a[0] == 0 or b"Traceback" in a[2]):
        return [("in-process diagnostic but assembler.py rc=%s / traceback" % a[0], dict(pay, stderr=a[2].decode("latin-1")[-1500:]), True)]
    return []


def run_c17(tier, rng, rep, info, deadline):
    hist = collections.Counter()
    n_pool = {"quick": 600, "thorough": 10000}[tier]
    n_hist = {"quick": 1200, "thorough": 30000}[tier]
    n_cli = {"quick": 60, "thorough": 600}[tier]
    pairs = []
    pool = c17_pool(rng, n_pool, pairs)
    # (a) every program first in a fresh interpreter, 5 hash seeds
    jobs = []
    for seed in HASHSEEDS:
        for ch in _chunks(list(range(len(pool))), 2 if tier == "quick" else 4):
            jobs.append(([[pool[i]] for i in ch], seed, ch))
    results = _children([(j[0], j[1]) for j in jobs])
    fresh = {s: [None] * len(pool) for s in HASHSEEDS}
    for j, res in zip(jobs, results):
        for i, r in zip(j[2], res):
            fresh[j[1]][i] = r
    probs, ref = c17_check_fresh(pool, fresh)
    lref = [None if "crash" in r else r["steps"][0]["listing_hash"] for r in fresh[HASHSEEDS[0]]]
    rep.cov["snapshot_components"] = getattr(_child, "snapshot_keys", 0)
    for i, prog in enumerate(pool):
        rep.count(("fresh", _h(prog)), nontrivial=True)
        hist["fresh:" + (_cls(ref[i]) if ref[i] else "crash")] += 1
    broken = set()
    for what, pay, fi in probs:
        broken.add(_h(pay["program"]))
        _report(rep, what, pay, fi)
    model = asmlib.model_batch([(p, C17_LIB) for p in pool])
    # (c) warm histories
    bad = [i for i, o in enumerate(ref) if o is not None and o[0] in ("DIAG", "INTERNAL")]
    internal = [i for i, o in enumerate(ref) if o is not None and o[0] == "INTERNAL"]
    ok = [i for i, o in enumerate(ref) if o is not None and o[0] == "OK"]
    everything = list(range(len(pool)))
    hists = []
    for n in range(n_hist):
        k = rng.choice([0, 1, 1, 2, 2, 3, 3, 4, 5, 6]) if (tier == "quick" or rng.random() < 0.9) else rng.randrange(7, 26)
        h = []
        for _ in range(k):
            r = rng.random()
            src = internal if (r < 0.2 and internal) else bad if (r < 0.5 and bad) else ok if (r < 0.8 and ok) else everything
            h.append(rng.choice(src))
        if k and rng.random() < 0.15:
            h[-1] = h[0]                                  # P ... P: the same program earlier in the history
        p = rng.choice(ok if (ok and rng.random() < 0.7) else everything)
        if k and rng.random() < 0.1:
            p = h[rng.randrange(k)]
        hists.append(h + [p])
    for iq, ip in pairs:                       # Q then P, and P Q P, for every shared-text pair
        hists.append([iq, ip])
        hists.append([ip, iq, ip])
        hists.append([iq, iq, ip])
    jobs = []
    for c, ch in enumerate(_chunks(list(range(len(hists))), 10 if tier == "quick" else 40)):
        jobs.append(([[pool[i] for i in hists[hn]] for hn in ch], HASHSEEDS[c % len(HASHSEEDS)], ch))
    results = _children([(j[0], j[1]) for j in jobs])
    for j, res in zip(jobs, results):
        for hn, r in zip(j[2], res):
            h = hists[hn]
            rep.count(("hist", tuple(h)), nontrivial=len(h) > 1)
            hist["history_len=%d" % (len(h) - 1)] += 1
            hist["history_P:" + (_cls(ref[h[-1]]) if ref[h[-1]] else "crash")] += 1
            for q in h[:-1]:
                hist["history_Q:" + (_cls(ref[q]) if ref[q] else "crash")] += 1
            if hn < 2:
                rep.sample({"history": [pool[i] for i in h[:-1]], "program": pool[h[-1]], "obs": str(ref[h[-1]])[:200]})
            for what, pay, fi in c17_check_history(pool, ref, h, r, j[1], lref):
                broken.add(_h(pay["program"]))
                _report(rep, what, pay, fi)
        if rep.full():
            break
    # (d) the real CLI under different hash seeds
    as_file = [i for i in everything if all(l.endswith("\n") for l in pool[i][:-1])]   # the list is what readlines() would give
    picks = rng.sample(as_file, min(n_cli, len(as_file)))
    with concurrent.futures.ThreadPoolExecutor(8) as ex:
        outs = list(ex.map(lambda i: c17_check_cli(pool[i], fresh[HASHSEEDS[0]][i]["steps"][0].get("listing") if ref[i] else None, ref[i]), picks))
    for i, ps in zip(picks, outs):
        rep.count(("cli", _h(pool[i])), nontrivial=True)
        hist["cli:" + (_cls(ref[i]) if ref[i] else "crash")] += 1
        for what, pay, fi in ps:
            broken.add(_h(pay["program"]))
            _report(rep, what, pay, fi)
    # (b) model on P alone
    corr_reports = 0
    for i, prog in enumerate(pool):
        if ref[i] is None or ref[i][0] == "TIMEOUT":
            continue
        rep.cov["traces_validated_against_impl"] += 1
        if model[i][0] == "UNMODELLED":
            hist["model:unmodelled"] += 1
            continue
        if not asmlib.same_obs(ref[i], model[i]):
            rep.cov["disagreements_checked"] += 1
            if _h(prog) in broken or corr_reports >= 2:
                continue
            corr_reports += 1
            _report(rep, "correspondence MProgram.assemble vs Program.process broken on a program assembled alone: impl %s, model %s"
                          % (str(ref[i])[:160], str(model[i])[:160]),
                          {"kind": "history", "history": [], "program": prog, "impl": ref[i], "model": model[i],
                           "relation": "asmlib.same_obs(impl, model)"}, found_input=False)
    rep.cov["programs"] = len(pool)
    rep.cov["input_distribution"] = dict(hist)
    rep.cov["rule"] = (
        "pool of programs: asmgen.rand_program (accepted), single-line mutations / undefined symbol / redefined label (rejected), and "
        "programs ending in an internal error; every pool program is assembled FIRST in its own fork of a just-started interpreter "
        "(cocoasm imported, nothing assembled) under PYTHONHASHSEED 0,1,2,12345,random and then once more; histories Q1..Qk,P,P "
        "(k=0..6, thorough up to 25; Qs biased to rejected / internal-error programs; sometimes P itself occurs among the Qs) run in "
        "one forked interpreter, EVERY step compared with that program's fresh observation (whole observation: image, per-statement "
        "address/size/bytes, symbol table in order, origin, name, exception class); after every assembly a deep snapshot of "
        "CodePackage.__init__ defaults (the shared NoneValue objects, by identity and __dict__), CoCoFile/Mode/Instruction "
        "_field_defaults, INSTRUCTIONS (repr hash, identity, length), every compiled regex, module-level constant and class-level data "
        "attribute and every method's default arguments in cocoasm.statement/values/operands/instruction/program/coco_file is compared "
        "with the import-time snapshot; the list given to Program.process is compared with a copy; assembler.py --print --symbols is "
        "run three times per sampled program under different hash seeds, compared byte for byte and with the in-process listing; "
        "model (extracted MProgram) on P alone versus the fresh observation.  non-trivial = a history with k >= 1, or a fresh/CLI run")
    rep.assumptions = [
        "a 'fresh process' is a fork of a newly started /venv/bin/python that has imported cocoasm and assembled nothing (PYTHONPATH=/repo, PYTHONDONTWRITEBYTECODE=1)",
        "assemblies that hit the %d s watchdog are not compared (none expected on the current tree)" % asmlib.TIMEOUT_S,
        "history programs are assembled through Program.process on a list of lines; a fifth of them INCLUDE files of a fixed three-file library served by a hook on SourceFile.read_assembly_contents (no file system)",
        "the snapshot covers the cocoasm modules named in the rule; C-level caches (re module cache, ABC caches) are outside it",
    ]


def c17_replay(r):
    if r.get("kind") == "cli":
        res = _child([[r["program"]]], "0")[0]
        if "crash" in res:
            return [("forked interpreter crashed: %s" % res["crash"], r, True)]
        return c17_check_cli(r["program"], res["steps"][0].get("listing"), _step_obs(res["steps"][0]))
    prog = r["program"]
    history = r.get("history", [])
    seed = r.get("hashseed", "0")
    pool = [prog] + [q for q in history]
    jobs = [([[p] for p in pool], s) for s in HASHSEEDS]
    results = _children(jobs)
    fresh = {s: res for s, res in zip(HASHSEEDS, results)}
    probs, ref = c17_check_fresh(pool, fresh)
    if probs:
        return probs
    h = list(range(1, len(pool))) + [0]
    res = _child([[pool[i] for i in h]], seed)[0]
    lref = [None if "crash" in x else x["steps"][0]["listing_hash"] for x in fresh[HASHSEEDS[0]]]
    probs = c17_check_history(pool, ref, h, res, seed, lref)
    if probs:
        return probs
    if "model" in r and ref[0] is not None:
        m = asmlib.model_batch([(prog, C17_LIB)])[0]
        if not asmlib.same_obs(ref[0], m):
            return [("correspondence still broken: impl %s model %s" % (str(ref[0])[:150], str(m)[:150]), r, False)]
    return []


# =================================================================================================
# source-line fields (generator-made lines) and the C18 variants
# =================================================================================================

def fields(line):
    """(label, mnemonic, operand, tail) of a generator-made statement line; tail = comment text incl. its ';'.
    None for blank / comment-only / unparseable lines."""
    body = line.rstrip("\n")
    m = re.match(r"^([\w@]*)[ \t]+(\w+)(?:[ \t]+(.*))?$", body)
    if not m:
        return None
    label, mn, rest = m.group(1), m.group(2), (m.group(3) or "")
    if mn.upper() == "FCC":
        return label, mn, rest, ""
    rest = rest.strip()
    if rest.startswith(";") or not rest:
        return label, mn, "", rest
    parts = re.split(r"[ \t]+", rest, maxsplit=1)
    return label, mn, parts[0], (parts[1] if len(parts) > 1 else "")


def operand_tokens(line):
    f = fields(line)
    if not f or f[1].upper() in NO_LABEL_OPERAND:
        return []
    return TOKEN.findall(f[2])


def defined_labels(lines):
    out = []
    for l in lines:
        f = fields(l)
        if f and f[0]:
            out.append(f[0])
    return out


def is_relative_ref(line):
    f = fields(line)
    op = f[2].upper()
    return f[1].upper() in BRANCHES or op.endswith(",PCR") or op.endswith(",PCR]")


def org_text(style, v):
    return {"h4": "$%04X", "d": "%d", "h": "$%X"}[style] % v


def add_equ(rng, lines):
    """sprinkle constant definitions (EQU) and uses of them: they must NOT move under relocation"""
    lines = list(lines)
    names = rng.sample(["K1", "K2", "KX", "CNT", "SIZE"], rng.choice([1, 2]))
    defs = ["%s EQU %s\n" % (n, rng.choice(["5", "$12", "$1234", "200", "0", "$00FF", "1000"])) for n in names]
    uses = []
    for _ in range(rng.choice([1, 2, 3])):
        n = rng.choice(names)
        uses.append(" %s\n" % rng.choice(["LDA #%s", "LDB %s,X", "LDX %s", "LDX #%s", "CMPX %s,U", "LDD [%s,Y]", "STA >%s", "LDA <%s"]) % n)
    end = len(lines) - (1 if lines and (fields(lines[-1]) or ("", "", "", ""))[1].upper() == "END" else 0)
    for u in uses:
        lines.insert(rng.randrange(0, end + 1), u)
        end += 1
    at = rng.choice([0, rng.randrange(0, end + 1)])
    return lines[:at] + defs + lines[at:]


TRICKY = ["XLOOP", "SAVEY", "PCRX1", "L@2", "USER", "A1", "B9", "BB", "AX", "XY", "SU", "UPCR", "PCRS", "XPCR", "PC1",
          "DPX", "CCR", "D0", "SS", "UU", "YX", "AT@S", "@", "@X", "X@", "X1", "Y2", "S3", "U4", "PCRPCR", "APCR", "DPCR",
          "loop", "x1", "pcr1", "Xy", "sU", "1A", "2X", "9@", "0PCR", "NOP", "END", "EQU", "LDA", "BRA", "ORG", "RMB",
          "MY_L", "S_", "FCCMSG", "M_FCC", "XFCB", "FDB1", "RMB2", "LDA1", "EQUAL", "ORGAN", "ENDING", "fccx", "NAMX", "TFCC"]


def fresh_names(rng, n, avoid):
    out = []
    used = set(avoid)
    while len(out) < n:
        if rng.random() < 0.6:
            nm = rng.choice(TRICKY)
        else:
            k = rng.choice([1, 2, 2, 3, 4, 5, 6, 8, 10, 12])
            first = rng.choice("XYUSABDPCRLMNTZxyus@" if rng.random() < 0.93 else "0123456789")
            nm = first + "".join(rng.choice("XYUSABDPCR0123456789@LMxyus") for _ in range(k - 1))
            if rng.random() < 0.1:
                nm = nm + "PCR" + rng.choice(["", "1", "X"])
        if nm.upper() in REGNAMES or nm.isdigit() or nm in used or not re.match(r"^[\w@]+$", nm):
            continue
        used.add(nm)
        out.append(nm)
    return out


def rename_lines(lines, mapping):
    out = []
    for l in lines:
        f = fields(l)
        if not f:
            out.append(l)
            continue
        label, mn, op, tail = f
        if mn.upper() not in NO_LABEL_OPERAND:
            op = TOKEN.sub(lambda m: mapping.get(m.group(0), m.group(0)), op)
        out.append("%s %s %s%s\n" % (mapping.get(label, label), mn, op, (" " + tail) if tail else ""))
    return out


COMMENTS = ["; comment", ";", "; X,Y,U,S", ";;; PCR", "; L0+1 ,X", ";no space", "; 'q\" [x]", "load X", "PCR", "* note", "+1", ",X",
            "x ; y", "#5", "[hm]", "\"str\"", ";\t tab", "; END", "- 1", "<<"]


def ws(rng):
    return "".join(rng.choice(" \t") for _ in range(rng.randrange(1, 6))) if rng.random() < 0.8 else rng.choice([" ", "\t"])


def case_variant(rng, mn):
    r = rng.random()
    if r < 0.35:
        return mn
    if r < 0.65:
        return mn.lower()
    if r < 0.8:
        return mn.capitalize()
    return "".join(c.lower() if rng.random() < 0.5 else c.upper() for c in mn)


def layout_lines(rng, lines):
    out = []
    for l in lines:
        f = fields(l)
        if not f:
            out.append(l)
            continue
        label, mn, op, tail = f
        if rng.random() < 0.12:
            out.append(rng.choice(["\n", "   \n", "\t\n", "; full line comment\n", "  ; indented comment X\n", ";\n"]))
        if mn.upper() == "FCC":
            # the string ends at the FIRST closing delimiter: a comment after it may contain that character again
            d = op[:1]
            tail = ""
            if rng.random() < 0.5 and len(op) >= 2 and op.endswith(d):
                tail = ws(rng) + rng.choice(COMMENTS + ["; say %sHI%s" % (d, d), d, "; it%ss" % d, "%s %s" % (d, d), ";%s" % d])
            out.append("%s%s%s%s%s%s\n" % (label, ws(rng), case_variant(rng, mn), ws(rng), op, tail))
            continue
        s = label + ws(rng) + case_variant(rng, mn)
        r = rng.random()
        if op:
            s += ws(rng) + op
            if r < 0.45:
                s += ws(rng) + rng.choice(COMMENTS)
            elif r < 0.6:
                s += ws(rng)
            elif r < 0.7:
                s += rng.choice([";c", ";", "; c"])            # ';' glued to the operand
        else:
            if r < 0.45:
                s += ws(rng) + rng.choice([c for c in COMMENTS if c.startswith(";")])
            elif r < 0.6:
                s += ws(rng)
        out.append(s + "\n")
    if rng.random() < 0.2:
        out.append(rng.choice(["\n", "; trailing comment\n", " \t \n"]))
    return out


def suffix_lines(rng, lines, labels):
    new = fresh_names(rng, 5, set(labels) | set(defined_labels(lines)) | {"MY_L", "_X", "S_", "U_1"})
    new = [n for n in new if "@" not in n and "_" not in n and n.upper() not in ("NOP", "END", "EQU", "LDA", "BRA", "ORG", "RMB")]
    m = rng.randrange(1, 6)
    attach = [(new.pop() if (new and rng.random() < 0.45) else "") for _ in range(m)]
    refs = list(labels) + [a for a in attach if a]
    add = []
    for k in range(m):
        body = asmgen.rand_stmt(rng, refs)
        add.append("%s %s\n" % (attach[k], body))
    has_end = bool(lines) and (fields(lines[-1]) or ("", "", "", ""))[1].upper() == "END"
    if has_end:
        return lines[:-1] + add + lines[-1:], len(lines) - 1
    return list(lines) + add, len(lines)


def refs_in_expression(lines, name):
    pat = re.compile(r"(?<![\w@])" + re.escape(name) + r"[+\-*/]|[+\-*/]" + re.escape(name) + r"(?![\w@])")
    for l in lines:
        f = fields(l)
        if f and f[1].upper() not in NO_LABEL_OPERAND and pat.search(f[2]):
            return True
    return False


def referenced(lines, name):
    return any(name in operand_tokens(l) for l in lines)


def c18_check(case, base, var):
    """-> (status, what): status 'ok' | 'violation' | 'skip:<why>' | 'known:<id>'"""
    rel = case["relation"]
    prm = case["params"]
    lines = case["program"]
    if base[0] != "OK":
        return "skip:base-" + _cls(base), ""
    if var[0] == "TIMEOUT":
        return "skip:timeout", ""
    if rel == "suffix" and var[0] == "DIAG":
        return "skip:suffix-rejected", ""
    if var[0] != "OK":
        if rel == "rename":
            newnames = list(prm["mapping"].values())
            at = [n for n in newnames if "@" in n and refs_in_expression(case["variant"], n)]
            us = [n for n in newnames if "_" in n and referenced(case["variant"], n)]
            # (both classes were repaired by the "fix: a label can be referenced wherever it can be defined" commit:
            #  a recurrence is a violation again; they are suppressed only while listed open in known_findings.json)
            if var[0] == "DIAG" and us and KF_US in OPEN_KF:
                return "known:" + KF_US, "label %s" % us[0]
            if var[0] == "DIAG" and at and KF_AT in OPEN_KF:
                return "known:" + KF_AT, "label %s" % at[0]
        return "violation", "%s variant of an accepted program is not accepted: %s" % (rel, str(var)[:120])
    _, img1, org1, name1, st1, sy1 = base
    _, img2, org2, name2, st2, sy2 = var
    if rel == "layout":
        if var != base:
            return "violation", "layout variant changes the observation: %s" % _first_diff(base, var)
        return "ok", ""
    if rel == "rename":
        mp = prm["mapping"]
        exp = ("OK", img1, org1, name1, st1, tuple((mp.get(n, n), h) for n, h in sy1))
        if var != exp:
            return "violation", "renamed program differs: %s" % _first_diff(exp, var)
        return "ok", ""
    if rel == "suffix":
        n_old = prm["n_old"]
        if st2[:n_old] != st1[:n_old]:
            return "violation", "appending statements changed an existing statement: %s" % _first_diff(("OK", "", 0, "", st1[:n_old], ()), ("OK", "", 0, "", st2[:n_old], ()))
        if not img2.startswith(img1):
            return "violation", "image of the extended program does not start with the old image"
        if sy2[:len(sy1)] != sy1:
            return "violation", "appending statements changed the symbol table prefix: %s vs %s" % (str(sy1)[:120], str(sy2)[:120])
        if org2 != org1 or name2 != name1:
            return "violation", "appending statements changed origin/name"
        return "ok", ""
    if rel == "reloc":
        D = prm["D"]
        equ = set(prm["equ"])
        labels = set(n for n, _ in sy1) - equ
        if len(st1) != len(st2) or len(st1) != len(lines):
            return "violation", "relocated program has a different number of statements"
        if org1 is None or org2 != org1 + D or name1 != name2:
            return "violation", "origin %s -> %s is not a shift by %d (or name changed)" % (org1, org2, D)
        for k, (a, b) in enumerate(zip(st1, st2)):
            src = lines[k].rstrip("\n")
            if b[0] - a[0] != D:
                return "violation", "statement %d (%s): address %04X -> %04X, not shifted by %d" % (k, src, a[0], b[0], D)
            if a[1] != b[1] or len(a[2]) != len(b[2]):
                return "violation", "statement %d (%s): size %d/%s -> %d/%s changes under relocation" % (k, src, a[1], a[2], b[1], b[2])
            f = fields(lines[k])
            absref = bool(set(operand_tokens(lines[k])) & labels) and not is_relative_ref(lines[k]) and f[1].upper() not in ("EQU", "ORG")
            if f[1].upper() == "ORG":
                continue
            if a[2] == b[2]:
                if absref:
                    return "violation", "statement %d (%s): absolute label reference did not move (%s)" % (k, src, a[2])
                continue
            if not absref:
                return "violation", "statement %d (%s): bytes %s -> %s change although it holds no absolute label reference" % (k, src, a[2], b[2])
            ok = False
            for w in (2, 1):
                if len(a[2]) >= 2 * w and a[2][:-2 * w] == b[2][:-2 * w]:
                    va, vb = int(a[2][-2 * w:], 16), int(b[2][-2 * w:], 16)
                    if (w == 2 and (vb - va) % 65536 == D % 65536) or (w == 1 and vb - va == D):
                        ok = True
                        break
            if not ok:
                return "violation", "statement %d (%s): operand %s -> %s is not a shift by %d" % (k, src, a[2], b[2], D)
        if len(sy1) != len(sy2):
            return "violation", "symbol table size changes under relocation"
        for (n1, h1), (n2, h2) in zip(sy1, sy2):
            want = 0 if n1 in equ else D
            if n1 != n2 or len(h1) != len(h2) or int(h2 or "0", 16) - int(h1 or "0", 16) != want:
                return "violation", "symbol %s: %s -> %s %s, expected a shift by %d" % (n1, h1, n2, h2, want)
        return "ok", ""
    return "skip:unknown-relation", ""


def _first_diff(a, b):
    if a[0] != b[0]:
        return "%s vs %s" % (str(a)[:100], str(b)[:100])
    names = ["class", "image", "origin", "name", "statements", "symbols"]
    for k in range(1, 6):
        if a[k] != b[k]:
            if k in (4, 5) and len(a[k]) == len(b[k]):
                for n, (x, y) in enumerate(zip(a[k], b[k])):
                    if x != y:
                        return "%s[%d]: %s vs %s" % (names[k], n, x, y)
            return "%s: %s vs %s" % (names[k], str(a[k])[:150], str(b[k])[:150])
    return "equal"


def c18_reloc_variant(rng, raw, ext, exprs_ok):
    """choose (style, O1, O2) with both placements on one side of $100 and inside 0..65535"""
    style = rng.choice(["h4"] * 7 + ["d"] * 2 + ["h"])
    if ext <= 0xF0 and rng.random() < 0.3:
        lo, hi = 0, 0xFF - ext
    else:
        lo, hi = 0x100, 0xFFFF - ext
    if hi < lo:
        return None

    def pick():
        r = rng.random()
        if r < 0.25:
            return rng.choice([lo, hi, min(hi, lo + 1), max(lo, hi - 1)])
        if r < 0.4 and lo >= 0x100:
            return min(hi, max(lo, rng.choice([0x7FFF, 0x8000, 0x7F80, 0x8000 - ext, 0x0E00, 0x1000, 0xFF00 - ext, 0x0100, 0x0200])))
        return rng.randrange(lo, hi + 1)
    o1 = pick()
    o2 = pick()
    for _ in range(20):
        if o2 != o1:
            break
        o2 = rng.randrange(lo, hi + 1)
    if o1 == o2:
        return None
    return style, o1, o2


def expr_values_in_range(lines, obs, D):
    """every label+n / label-n of the program stays inside 0..65535 at both placements"""
    sym = {n: int(h or "0", 16) for n, h in obs[5]}
    for l in lines:
        f = fields(l)
        if not f or f[1].upper() in NO_LABEL_OPERAND:
            continue
        for m in re.finditer(r"([A-Za-z0-9@]+)([+\-])(\d+)", f[2]):
            if m.group(1) in sym:
                v = sym[m.group(1)] + (int(m.group(3)) if m.group(2) == "+" else -int(m.group(3)))
                if not (0 <= v <= 65535 and 0 <= v + D <= 65535):
                    return False
    return True


def run_c18(tier, rng, rep, info, deadline):
    hist = collections.Counter()
    n_raw = {"quick": 8000, "thorough": 120000}[tier]
    rounds = {"quick": 8, "thorough": 80}[tier]
    programs = 0
    corr_reports = 0
    for rnd in range(rounds):
        if rep.full() or time.time() > deadline:
            rep.cov["stopped_at_deadline"] = rnd
            break
        raws = []
        for _ in range(n_raw // rounds):
            raw = asmgen.rand_program(rng, org=False)
            if rng.random() < 0.3:
                raw = add_equ(rng, raw)
            raws.append(raw)
        # small programs whose label,PCR operand sits a few bytes inside the 8-bit reach: what is appended after them must
        # not change how they were sized
        boundary = set()
        for _ in range(6):
            n = rng.randrange(108, 130)
            mn = rng.choice(["LEAX", "LDA", "LDY", "JSR"])
            shape = rng.randrange(3)
            if shape == 0:
                raw = [" %s DONE,PCR\n" % mn] + asmgen.filler(n) + ["DONE RTS\n"]
            elif shape == 1:
                raw = ["TOP NOP\n"] + asmgen.filler(n) + [" %s TOP,PCR\n" % mn, " RTS\n"]
            else:
                raw = [" %s DONE,PCR\n" % mn, "MID LEAY MID,PCR\n"] + asmgen.filler(n - 8) + [" LDB MID,PCR\n", "DONE RTS\n"]
            boundary.add(len(raws))
            raws.append(raw)
        # every kind of statement carries a label somewhere (renaming must not let the label's text reach the statement)
        for _ in range(4):
            raws.append(["T%d %s\n" % (j, st) for j, st in enumerate(rng.sample(
                ['FCC "OFF WE GO: FIFTY-FIVE"', "FCC /A B/ ; c", "FCB 1,2,3", "FDB $1234", "RMB 3", "NOP", "LDA #1", "LDX #T0", "BRA T1", "LEAX T0,PCR",
                 "FCC 'FCC'", "FCB 'F", "JMP T2"], 6))])
        prelim = asmlib.impl_batch([([" ORG $1000\n"] + r, None) for r in raws])
        cases = []       # dict(relation, program, variant, params, base_index)
        bases = []
        for ri, (raw, po) in enumerate(zip(raws, prelim)):
            hist["generated:" + _cls(po)] += 1
            if po[0] != "OK":
                continue
            ext = max([a + s for a, s, _ in po[4]] + [0x1000]) - 0x1000
            equ = [fields(l)[0] for l in raw if fields(l) and fields(l)[1].upper() == "EQU"]
            rv = c18_reloc_variant(rng, raw, ext, True) if rng.random() < 0.9 else None
            if rv:
                style, o1, o2 = rv
                base = [" ORG %s\n" % org_text(style, o1)] + raw
            else:
                base = list(raw) if rng.random() < 0.5 else [" ORG %s\n" % rng.choice(["$0E00", "$0080", "$00F8", "$FF00", "256"])] + raw
            bi = len(bases)
            bases.append(base)
            labels = [n for n in defined_labels(base)]
            addr_labels = [n for n in labels if n not in equ]
            if rv:
                cases.append({"relation": "reloc", "program": base, "variant": [" ORG %s\n" % org_text(style, o2)] + raw,
                              "params": {"D": o2 - o1, "o1": o1, "o2": o2, "equ": equ, "ext": ext}, "base": bi})
            for _ in range(2):
                if labels:
                    mp = dict(zip(labels, fresh_names(rng, len(labels), set(labels) | set(t for l in base for t in operand_tokens(l)))))
                    cases.append({"relation": "rename", "program": base, "variant": rename_lines(base, mp), "params": {"mapping": mp}, "base": bi})
            for _ in range(2):
                cases.append({"relation": "layout", "program": base, "variant": layout_lines(rng, base), "params": {}, "base": bi})
            var, n_old = suffix_lines(rng, base, addr_labels)
            cases.append({"relation": "suffix", "program": base, "variant": var, "params": {"n_old": n_old}, "base": bi})
            if ri in boundary or rng.random() < 0.05:      # a long tail: the program grows past every short-program limit
                tail = rng.choice([[" RMB 40\n"], [" RMB 300\n", " NOP\n"], asmgen.filler(30)])
                has_end = bool(base) and (fields(base[-1]) or ("", "", "", ""))[1].upper() == "END"
                if not has_end:
                    cases.append({"relation": "suffix", "program": base, "variant": list(base) + tail, "params": {"n_old": len(base)}, "base": bi})
        batch = [(b, None) for b in bases] + [(c["variant"], None) for c in cases]
        impl = asmlib.impl_batch(batch)
        model = asmlib.model_batch(batch)
        programs += len(bases)
        known = []
        implicated = set()
        for k, c in enumerate(cases):
            bo = impl[c["base"]]
            vo = impl[len(bases) + k]
            if c["relation"] == "reloc" and bo[0] == "OK" and not expr_values_in_range(c["program"], bo, c["params"]["D"]):
                hist["reloc:skip:expression-leaves-0..65535"] += 1
                continue
            status, what = c18_check(c, bo, vo)
            hist["%s:%s" % (c["relation"], status)] += 1
            if status.startswith("skip"):
                continue
            nontrivial = True
            if c["relation"] == "reloc":
                nontrivial = any(set(operand_tokens(l)) & set(n for n, _ in bo[5]) for l in c["program"])
                hist["reloc:" + ("low" if c["params"]["o1"] < 0x100 else "high")] += 1
            rep.count((c["relation"], _h(c["variant"]), _h(c["program"])), nontrivial=nontrivial)
            if len(rep.cov["samples"]) < 4 and c["relation"] == ["reloc", "rename", "layout", "suffix"][len(rep.cov["samples"])]:
                rep.sample({"relation": c["relation"], "program": c["program"][:8], "variant": c["variant"][:8], "params": str(c["params"])[:200]})
            if status.startswith("known:"):
                # tight predicate: the rejection must disappear when ONLY the '@' / '_' characters of the new names change
                known.append((c, status.split(":", 1)[1], what, bo))
            elif status == "violation":
                implicated.update((c["base"], len(bases) + k))
                _report(rep, "%s: %s" % (c["relation"], what),
                              {"kind": "relation", "relation": c["relation"], "program": c["program"], "variant": c["variant"],
                               "params": c["params"], "base_obs": bo, "variant_obs": vo})
        for k, (i, m) in enumerate(zip(impl, model)):
            rep.cov["traces_validated_against_impl"] += 1
            if m[0] == "UNMODELLED":
                hist["model:unmodelled"] += 1
            elif i[0] != "TIMEOUT" and not asmlib.same_obs(i, m):
                rep.cov["disagreements_checked"] += 1
                c = cases[k - len(bases)] if k >= len(bases) else None
                if (k in implicated) or corr_reports >= 2:
                    continue
                corr_reports += 1
                _report(rep, "correspondence model vs implementation broken on a %s: impl %s, model %s"
                              % ((c["relation"] + " variant") if c else "base program", str(i)[:150], str(m)[:150]),
                              {"kind": "correspondence", "program": batch[k][0], "files": None, "impl": i, "model": m,
                               "relation": "asmlib.same_obs(impl, model)"}, found_input=False)
        cf = [c18_counterfactual(c) for c, _, _, _ in known]
        cf_obs = asmlib.impl_batch([(x["variant"], None) for x in cf])
        for (c, fid, what, bo), x, xo in zip(known, cf, cf_obs):
            status, what2 = c18_check(x, bo, xo)
            if status == "ok":
                rep.known_finding(fid, KNOWN_TEXT[fid] + "; seen with %s in %s" % (what, json.dumps([l.strip() for l in c["variant"] if what.split()[-1] in l][:3])))
                hist["rename:known-confirmed-by-counterfactual"] += 1
            else:
                _report(rep, "rename: %s (names without '@' / '_')" % what2,
                              {"kind": "relation", "relation": "rename", "program": x["program"], "variant": x["variant"],
                               "params": x["params"], "base_obs": bo, "variant_obs": xo})
    rep.cov["programs"] = programs
    rep.cov["input_distribution"] = dict(hist)
    rep.cov["rule"] = (
        "base = asmgen.rand_program without ORG (labels, short/long branches, label / label+1 / label-2 / [label] / #label / >label / "
        "label,PCR operands, data directives), 30% with EQU constants and uses of them added, kept when accepted; placed at a random "
        "origin (spelled $hhhh, decimal or $h) such that the whole program lies at/above $100 and below $10000, or (small programs) "
        "wholly below $100.  Variants: reloc = same text with the origin moved by D (both placements on one side of $100, every "
        "label+-n inside 0..65535); rename = random bijection of all labels to names that are not register names (case-insensitively) "
        "but contain X/Y/U/S/PCR/digits/@/_ or are lower case, digit-initial or mnemonic-like; layout = 1..5 blanks/tabs between fields, "
        "trailing comments added (with ';', bare text after the operand such as '+1' ',X' 'PCR', ';' glued to the operand), blank and "
        "comment-only lines inserted, mnemonic case changed, FCC operand text untouched; suffix = 1..5 rand_stmt statements (some with "
        "new labels, referring to old and new labels) appended (before a final END).  Expected outcome computed from the two "
        "observations statement by statement (see c18_check).  Every base and variant also goes through the model.  non-trivial = "
        "variant of an accepted program (for reloc: the program refers to at least one of its labels)")
    rep.assumptions = [
        "label references only of the forms label, label+n, label-n (generator); relocation cases whose label+-n leaves 0..65535 at either placement are skipped",
        "relocation keeps every statement address on one side of $100 (labels below $100 are rendered as one byte: known finding of the unchanged tree)",
        "suffix variants that the assembler rejects with a diagnostic (e.g. a new short branch out of range, program past $FFFF) are skipped",
        "bare-text comments are only put after a non-empty operand (after an operand-less mnemonic the first word IS the operand by the grammar)",
        "labels are case-sensitive; only the mnemonic's letter case is varied",
    ]


KNOWN_TEXT = {
    KF_AT: "renaming a label to a name containing '@' turns an accepted program into a rejected one when the label is used in an "
           "expression label+n / label-n (values.py EXPRESSION_REGEX takes \\w+ operands, SYMBOL_REGEX and the line regex allow '@'); "
           "witness ['L NOP', ' LDX L+1'] accepted, ['L@2 NOP', ' LDX L@2+1'] rejected",
    KF_US: "renaming a label to a name containing '_' turns an accepted program into a rejected one when the label is referenced at all "
           "(statement.py line regex accepts [\\w@]* labels, values.py SYMBOL_REGEX only [a-zA-Z\\d@]+); "
           "witness ['L NOP', ' LDX L'] accepted, ['MY_L NOP', ' LDX MY_L'] rejected",
}


def c18_counterfactual(case):
    """the same renaming with every '@' and '_' of the new names replaced by a letter (kept injective)"""
    mp = {}
    used = set(t for l in case["program"] for t in operand_tokens(l)) | set(defined_labels(case["program"]))
    for old, new in case["params"]["mapping"].items():
        n2 = new.replace("@", "Q").replace("_", "Q")
        while n2 in used or n2.upper() in REGNAMES or n2.isdigit():
            n2 += "Q"
        used.add(n2)
        mp[old] = n2
    return {"relation": "rename", "program": case["program"], "variant": rename_lines(case["program"], mp), "params": {"mapping": mp}}


def c18_replay(r):
    case = {"relation": r["relation"], "program": r["program"], "variant": r["variant"], "params": r["params"]}
    bo, vo = asmlib.impl_batch([(r["program"], None), (r["variant"], None)])
    status, what = c18_check(case, bo, vo)
    if status == "violation":
        return [(what, r, True)]
    return []


# =================================================================================================
# C19
# =================================================================================================

INC_NAMES = ["inc1.asm", "sub/inc2.asm", "a.inc", "LIB@1", "defs", "x/y/z.asm", "part-2.asm", "UPPER.ASM", "lib.s", "m.asm",
             "sub/deep/f.a", "data.inc", "n3", "q_1.asm"]


def include_line(rng, name):
    r = rng.random()
    if r < 0.7:
        return " INCLUDE %s\n" % name
    if r < 0.8:
        return "\tinclude\t%s\n" % name
    if r < 0.9:
        return "  Include   %s   ; pull in %s\n" % (name, name)
    return " INCLUDE %s text after\n" % name


def expand(main, files, depth=0):
    out = []
    for l in main:
        f = fields(l)
        if f and f[1].upper() == "INCLUDE":
            if depth > 8:
                raise RecursionError
            out += expand(files[f[2]], files, depth + 1)
        else:
            out.append(l)
    return out


def doc_depths(main, files):
    depth = {}

    def walk(lines, d):
        for l in lines:
            f = fields(l)
            if f and f[1].upper() == "INCLUDE" and f[2] in files:
                depth[f[2]] = max(depth.get(f[2], 0), d + 1)
                walk(files[f[2]], d + 1)
    walk(main, 0)
    return depth


def split_program(rng, lines, nfiles, maxdepth=3):
    """move nfiles contiguous slices (possibly nested, possibly empty) into include files"""
    main = list(lines)
    files = {}
    names = rng.sample(INC_NAMES, nfiles)
    for name in names:
        for _ in range(10):
            docs = [("", main)] + list(files.items())
            dn, doc = rng.choice(docs) if rng.random() < 0.6 else docs[-1]
            i = rng.randrange(0, len(doc) + 1)
            j = rng.randrange(i, len(doc) + 1)
            if rng.random() < 0.5:
                j = min(len(doc), i + rng.choice([0, 1, 1, 2, 3]))
            piece = doc[i:j]
            new_doc = doc[:i] + [include_line(rng, name)] + doc[j:]
            trial = dict(files)
            trial[name] = piece
            if dn:
                trial[dn] = new_doc
            d = doc_depths(new_doc if not dn else main, trial)
            if d and max(d.values()) > maxdepth:
                continue
            files = trial
            if not dn:
                main = new_doc
            break
    return main, files


def crossing_refs(main, files):
    docs = [[l for l in main]] + [v for v in files.values()]
    defs = [set(defined_labels(d)) for d in docs]
    n = 0
    for k, d in enumerate(docs):
        toks = set(t for l in d for t in operand_tokens(l))
        for k2, df in enumerate(defs):
            if k2 != k and toks & df:
                n += 1
    return n


def c19_cli(case, want_class):
    """the real CLI in a temp dir: split files versus spliced file -> problems"""
    d = tempfile.mkdtemp(prefix="c19-", dir="/tmp")
    try:
        _write(os.path.join(d, "main.asm"), case["main"])
        for name, ls in case["files"].items():
            _write(os.path.join(d, name), ls)
        a = _cli(d, ["main.asm", "--print", "--symbols", "--to_bin", "out.bin"])
        bin_a = open(os.path.join(d, "out.bin"), "rb").read() if os.path.exists(os.path.join(d, "out.bin")) else None
        if case["expect"] == "diag":
            if a[0] is None:
                return []
            if a[0] == 0 or not a[1].strip() or b"Traceback" in a[2] or bin_a is not None:
                return [("assembler.py on a %s: rc=%s stdout=%r traceback=%s binary written=%s (expected non-zero status, a diagnostic, no traceback, no binary)"
                         % (case["shape"], a[0], a[1][:80], b"Traceback" in a[2], bin_a is not None),
                         dict(case, cli=True, stderr=a[2].decode("latin-1")[-1500:]), True)]
            return []
        _write(os.path.join(d, "spliced.asm"), case["spliced"])
        b = _cli(d, ["spliced.asm", "--print", "--symbols", "--to_bin", "out2.bin"])
        bin_b = open(os.path.join(d, "out2.bin"), "rb").read() if os.path.exists(os.path.join(d, "out2.bin")) else None
    finally:
        shutil.rmtree(d, ignore_errors=True)
    if a[0] is None or b[0] is None:
        return []
    if a[0] != b[0] or bin_a != bin_b or a[1] != b[1]:
        return [("assembler.py: split files and spliced file differ (rc %s/%s, stdout equal=%s, binaries equal=%s)"
                 % (a[0], b[0], a[1] == b[1], bin_a == bin_b),
                 dict(case, cli=True, split_stdout=a[1].decode("latin-1")[:3000], spliced_stdout=b[1].decode("latin-1")[:3000]), True)]
    if want_class == "ok" and (a[0] != 0 or bin_a is None):
        return [("assembler.py rejects / writes no binary for a program accepted in-process (rc=%s)" % a[0], dict(case, cli=True), True)]
    if want_class in ("ok", "diag") and b"Traceback" in a[2]:
        return [("assembler.py prints a traceback for the split program", dict(case, cli=True, stderr=a[2].decode("latin-1")[-1500:]), True)]
    return []


def c19_check(case, inc, spl):
    """in-process observations of the including program and of the spliced program -> problems"""
    if "TIMEOUT" in (inc[0], (spl or ("",))[0]):
        return []
    if case["expect"] == "diag":
        if inc[0] != "DIAG":
            return [("%s is not reported as a diagnostic: %s" % (case["shape"], str(inc)[:150]), dict(case, got=inc), True)]
        return []
    if inc != spl:
        return [("program with INCLUDE differs from the spliced program (%s): %s" % (case["shape"], _first_diff(spl, inc) if inc[0] == spl[0] == "OK" else "%s vs %s" % (str(spl)[:100], str(inc)[:100])),
                 dict(case, spliced_obs=spl, include_obs=inc), True)]
    return []


def c19_cases(rng, prog, tier, every_boundary):
    """yield case dicts {main, files, spliced, expect, shape}"""
    n = len(prog)
    if every_boundary:
        for b in range(n + 1):
            nm = rng.choice(INC_NAMES)
            yield {"main": prog[:b] + [include_line(rng, nm)], "files": {nm: prog[b:]}, "spliced": prog, "expect": "equal", "shape": "tail@%d" % b}
            yield {"main": [include_line(rng, nm)] + prog[b:], "files": {nm: prog[:b]}, "spliced": prog, "expect": "equal", "shape": "head@%d" % b}
            if b < n:
                yield {"main": prog[:b] + [include_line(rng, nm)] + prog[b + 1:], "files": {nm: [prog[b]]}, "spliced": prog, "expect": "equal", "shape": "one@%d" % b}
    for _ in range(3 if not every_boundary else 6):
        k = rng.choice([1, 2, 2, 3, 3])
        main, files = split_program(rng, prog, k)
        if len(files) != k:
            continue
        yield {"main": main, "files": files, "spliced": prog, "expect": "equal",
               "shape": "split files=%d depth=%d" % (k, max(doc_depths(main, files).values()))}


def c19_error_cases(rng, prog):
    out = []
    k = rng.choice([1, 2, 3])
    main, files = split_program(rng, prog, k)
    if files:
        gone = rng.choice(sorted(files))
        f2 = {a: b for a, b in files.items() if a != gone}
        out.append({"main": main, "files": f2, "spliced": prog, "expect": "diag", "shape": "missing include file (%d of %d present)" % (len(f2), len(files))})
    ln = rng.choice([1, 2, 3])
    names = rng.sample(INC_NAMES, ln)
    cut = sorted(rng.randrange(0, len(prog) + 1) for _ in range(ln))
    files = {}
    for i, nm in enumerate(names):
        body = prog[cut[i]:(cut[i + 1] if i + 1 < ln else len(prog))]
        at = rng.randrange(0, len(body) + 1)
        files[nm] = body[:at] + [include_line(rng, names[(i + 1) % ln])] + body[at:]
    main = prog[:cut[0]] + [include_line(rng, names[0])]
    out.append({"main": main, "files": files, "spliced": prog, "expect": "diag", "shape": "include cycle through %d file(s)" % ln})
    return out


def c19_twice_case(rng, prog):
    """the same label-free file included twice (not a cycle): must equal the text spliced twice"""
    body = [l for l in prog if fields(l) and not fields(l)[0] and fields(l)[1].upper() not in ("ORG", "NAM", "END")][:rng.choice([1, 2, 4])]
    if not body:
        return None
    nm, nm2 = rng.sample(INC_NAMES, 2)
    at = rng.randrange(0, len(prog) + 1)
    main = prog[:at] + [include_line(rng, nm)] + prog[at:] + [include_line(rng, nm2)]
    files = {nm: body, nm2: [include_line(rng, nm)]}
    return {"main": main, "files": files, "spliced": expand(main, files), "expect": "equal", "shape": "same file included twice (directly and nested)"}


def run_c19(tier, rng, rep, info, deadline):
    hist = collections.Counter()
    n_prog = {"quick": 2400, "thorough": 30000}[tier]
    n_every = {"quick": 200, "thorough": 4000}[tier]
    n_cli = {"quick": 160, "thorough": 1200}[tier]
    rounds = {"quick": 4, "thorough": 40}[tier]
    names = ["L%d" % k for k in range(12)] + ["LOOP", "START", "DONE", "TBL", "XX", "PCR1", "S9", "AT@X"]
    all_cases = []
    programs = 0
    corr_reports = 0
    for rnd in range(rounds):
        if rep.full() or time.time() > deadline:
            rep.cov["stopped_at_deadline"] = rnd
            break
        cases = []
        for pn in range(n_prog // rounds):
            prog = asmgen.rand_program(rng, n=rng.choice([2, 3, 5, 8, 12, 20, 30]), names=names if rng.random() < 0.7 else None)
            if rng.random() < 0.2:
                k = rng.randrange(len(prog))
                prog = list(prog)
                prog[k] = asmgen.mutate_line(rng, prog[k])
                if not prog[k].endswith("\n"):
                    prog[k] += "\n"
            if any((fields(l) or ("", "", "", ""))[1].upper() == "INCLUDE" for l in prog):
                continue
            programs += 1
            for c in c19_cases(rng, prog, tier, every_boundary=(pn < n_every // rounds)):
                assert expand(c["main"], c["files"]) == c["spliced"], "harness: split does not expand to the program"
                cases.append(c)
            if rng.random() < 0.35:
                cases += c19_error_cases(rng, prog)
            if rng.random() < 0.1:
                c = c19_twice_case(rng, prog)
                if c:
                    cases.append(c)
        spliced = {}
        for c in cases:
            spliced.setdefault(tuple(c["spliced"]), None)
        keys = list(spliced)
        sp_obs = asmlib.impl_batch([(list(k), None) for k in keys])
        spliced = dict(zip(keys, sp_obs))
        batch = [(c["main"], c["files"]) for c in cases]
        impl = asmlib.impl_batch(batch)
        model = asmlib.model_batch(batch)
        corr = []
        for c, i, m in zip(cases, impl, model):
            spl = spliced[tuple(c["spliced"])]
            c["_spl"] = spl
            c["_inc"] = i
            if c["expect"] == "diag" and spl[0] not in ("OK", "DIAG"):
                hist["skip:error-case-on-internal-error-program"] += 1
                continue
            cross = crossing_refs(c["main"], c["files"])
            rep.count(("inc", _h([c["main"], c["files"]])), nontrivial=(cross > 0 or c["expect"] == "diag"))
            hist["%s:%s" % (c["shape"].split("@")[0].split(" depth")[0] if c["expect"] == "equal" else c["shape"].split(" (")[0], _cls(i))] += 1
            if c["expect"] == "equal":
                hist["depth=%d" % max(doc_depths(c["main"], c["files"]).values() or [0])] += 1
                hist["crossing_refs>0" if cross else "crossing_refs=0"] += 1
            if len(rep.cov["samples"]) < 3 and cross and c["shape"].startswith("split"):
                rep.sample({"main": c["main"][:10], "files": {k: v[:6] for k, v in c["files"].items()}, "obs": str(i)[:200]})
            clean = {k: v for k, v in c.items() if not k.startswith("_")}
            clean["kind"] = "include"
            probs = c19_check(clean, i, spl)
            for what, pay, fi in probs:
                _report(rep, what, pay, fi)
            rep.cov["traces_validated_against_impl"] += 1
            if m[0] == "UNMODELLED":
                hist["model:unmodelled"] += 1
            elif i[0] != "TIMEOUT" and not asmlib.same_obs(i, m):
                rep.cov["disagreements_checked"] += 1
                if not probs:
                    corr.append((c, i, m))
        for c, i, m in corr[:max(0, 2 - corr_reports)]:
            corr_reports += 1
            _report(rep, "correspondence model vs implementation broken on a program with INCLUDE (%s): impl %s, model %s"
                          % (c["shape"], str(i)[:150], str(m)[:150]),
                          {"kind": "correspondence", "program": c["main"], "files": c["files"], "impl": i, "model": m,
                           "relation": "asmlib.same_obs(impl, model)"}, found_input=False)
        all_cases += [c for c in cases if not (c["expect"] == "diag" and c["_spl"][0] not in ("OK", "DIAG"))]
    # the real CLI on a sample (biased to nested splits with crossing references, plus error shapes)
    errs = [c for c in all_cases if c["expect"] == "diag"]
    deep = [c for c in all_cases if c["expect"] == "equal" and c["shape"].startswith("split") and crossing_refs(c["main"], c["files"])]
    rest = [c for c in all_cases if c["expect"] == "equal"]
    picks = (rng.sample(deep, min(len(deep), n_cli // 2)) + rng.sample(rest, min(len(rest), n_cli // 4))
             + rng.sample(errs, min(len(errs), n_cli // 4)))
    picks = [c for c in picks if "main.asm" not in c["files"] and c["_inc"][0] != "TIMEOUT"]

    def one(c):
        clean = {k: v for k, v in c.items() if not k.startswith("_")}
        clean["kind"] = "include"
        return c19_cli(clean, _cls(c["_spl"]))
    with concurrent.futures.ThreadPoolExecutor(8) as ex:
        outs = list(ex.map(one, picks))
    for c, ps in zip(picks, outs):
        rep.count(("cli", _h([c["main"], c["files"]])), nontrivial=True)
        hist["cli:%s:%s" % (c["expect"], _cls(c["_inc"]))] += 1
        for what, pay, fi in ps:
            _report(rep, what, pay, fi)
    rep.cov["programs"] = programs
    rep.cov["input_distribution"] = dict(hist)
    rep.cov["rule"] = (
        "programs from asmgen.rand_program (2..30 statements, small label pool so that branches, label,PCR and absolute references are "
        "dense; 20% with one mutated line -> rejected); for the first programs of each round EVERY statement boundary b is used three "
        "ways (tail lines[b:] included, head lines[:b] included, the single statement b included); every program additionally gets "
        "random splits into 1..3 include files, each a contiguous (possibly empty) slice of the main file or of an earlier include file, "
        "nesting depth <= 3, file names with sub-directories, INCLUDE written in varying case / white space / with a comment; the same "
        "label-free file included twice; error shapes: one include file missing, inclusion cycles through 1, 2, 3 files.  Each case: "
        "whole observation of the including program (asmlib files=) versus the spliced program (outcome class, image, statement "
        "addresses/sizes/bytes, symbols in order, origin, name), model on the same files, and for a sample the real assembler.py in a "
        "temp dir (--print --symbols --to_bin) against the spliced file: status, stdout and binary.  non-trivial = a label defined in "
        "one file is referenced from another (or an error shape)")
    rep.assumptions = [
        "include file names are given relative to the working directory (also from nested include files) and contain only characters of the operand field",
        "INCLUDE statements carry no label; every line ends with a newline (as readlines() gives for complete lines)",
        "the including program is not itself one of the include files (except in cycle shapes, where main only starts the chain)",
        "error shapes are only built from programs whose spliced text is accepted or rejected with a diagnostic",
    ]


def c19_replay(r):
    case = {k: r[k] for k in ("main", "files", "spliced", "expect", "shape") if k in r}
    case["kind"] = "include"
    inc, spl = asmlib.impl_batch([(case["main"], case["files"]), (case["spliced"], None)])
    probs = c19_check(case, inc, spl)
    if not probs and r.get("cli"):
        probs = c19_cli(case, _cls(spl))
    return probs


# =================================================================================================
# entry points
# =================================================================================================

def run(pid, tier, seed, rep, info):
    rng = common.rng_for(seed, pid)
    proof_ok, details = rep.proof(info)
    deadline = time.time() + {"quick": 55, "thorough": 540}[tier]
    global _FP0
    _FP0 = _fingerprint()
    rep.cov["repo_fingerprint"] = _FP0
    try:
        # sanity probe: an implementation that cannot be imported would make every case 'INTERNAL' on both sides
        probe = asmlib.impl_batch([(["L NOP\n", " BRA L\n"], None)])[0]
        if probe[0] != "OK" or probe[1] != "1220FD":
            rep.violation("the implementation does not assemble the probe program ['L NOP', ' BRA L']: %s" % str(probe)[:300],
                          {"kind": "probe", "obs": probe}, found_input=False)
            return
        {"C17": run_c17, "C18": run_c18, "C19": run_c19}[pid](tier, rng, rep, info, deadline)
        if rep.cov["evaluations"] == 0:
            rep.violation("no case was evaluated", {"kind": "probe"}, found_input=False)
        if _fingerprint() != _FP0:
            rep.cov["repo_changed_during_run"] = True
            log("  note: the sources under %s changed while %s was running" % (common.REPO, pid))
    finally:
        asmlib.close_pool()
    if pid in info["props"] and not proof_ok and not rep.violations:
        rep.violation("proof obligation no longer checks: " + "; ".join(details),
                      {"theorem_file": "coq/Properties/%s.v" % pid, "details": details,
                       "make_log": info.get("make_log", "")[-3000:]}, found_input=False)


def replay(pid, path):
    r = json.load(open(path))
    common.build()
    try:
        probs = _replay_problems(r)
    finally:
        asmlib.close_pool()
    if probs is None:
        print("replay: nothing executable recorded (%s)" % r.get("what", "")[:200])
        return 1
    for what, _, _ in probs[:3]:
        log("  -> " + what[:300])
    print("replay:", "still fails" if probs else "passes now")
    return 1 if probs else 0
