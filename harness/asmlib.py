"""Shared machinery for the assembler properties (C01-C05, C12, C13, C17-C19): running the implementation
(in-process under a SIGALRM watchdog, in worker processes) and the extracted Coq model (driver `asm`) on the
same source lines, canonicalising both to the same observation, the Spec6809 decoder oracle, generators."""
import multiprocessing
import os
import signal
import sys

import common

TIMEOUT_S = 4


# ------------------------------------------------------------------------------------------------
# implementation
# ------------------------------------------------------------------------------------------------

def _stmt_bytes(cp):
    out = []
    for v in (cp.op_code, cp.post_byte, cp.additional):
        for index in range(0, v.hex_len(), 2):
            h = v.hex()
            out.append(int(h[index] + h[index + 1], 16))
    return out


_FILES = {}


def _install_include_hook():
    from cocoasm.virtualfiles.source_file import SourceFile

    def read_assembly_contents(filename):
        if filename not in _FILES:
            raise FileNotFoundError(filename)
        return list(_FILES[filename])
    SourceFile.read_assembly_contents = staticmethod(read_assembly_contents)


def impl_asm(lines, files=None):
    """-> canonical observation.
    ('OK', image_hex, origin|None, name|None, ((addr,size,bytes_hex),...), ((sym,hex),...)) | ('DIAG', kind) |
    ('INTERNAL', class) | ('TIMEOUT',)"""
    common.import_repo()
    from cocoasm.program import Program
    from cocoasm.exceptions import ParseError, TranslationError
    global _FILES
    _FILES = files or {}
    if files is not None:
        _install_include_hook()

    def on_alarm(*a):
        raise TimeoutError()
    old = signal.signal(signal.SIGALRM, on_alarm)
    signal.alarm(TIMEOUT_S)
    try:
        given = list(lines)
        p = Program()
        p.process(given)
        img = p.get_binary_array()
        st = []
        cat = []
        for s in p.statements:
            b = _stmt_bytes(s.code_pkg)
            cat += b
            a = s.code_pkg.address
            st.append((a.int if not a.is_none() else 0, s.code_pkg.size, bytes(b).hex().upper()))
        if cat != img:
            return ("INTERNAL", "harness: per-statement bytes differ from get_binary_array")
        syms = tuple((k, v.hex()) for k, v in p.symbol_table.items())
        origin = None if p.origin.is_none() else p.origin.int
        return ("OK", bytes(img).hex().upper(), origin, p.name, tuple(st), syms)
    except TimeoutError:
        return ("TIMEOUT",)
    except ParseError:
        return ("DIAG", 1)
    except TranslationError:
        return ("DIAG", 2)
    except RecursionError:
        return ("INTERNAL", "RecursionError")
    except Exception as e:  # noqa
        return ("INTERNAL", type(e).__name__)
    finally:
        signal.alarm(0)
        signal.signal(signal.SIGALRM, old)


def _impl_worker(arg):
    lines, files = arg
    try:
        return impl_asm(lines, files)
    except Exception as e:  # noqa
        return ("INTERNAL", "harness:" + type(e).__name__)


_POOL = None


def pool():
    global _POOL
    if _POOL is None:
        common.import_repo()
        _POOL = multiprocessing.Pool(int(os.environ.get("VERIF_WORKERS", "12")))
    return _POOL


def close_pool():
    global _POOL
    if _POOL is not None:
        _POOL.terminate()
        _POOL = None


def impl_batch(programs):
    """programs: list of (lines, files|None)"""
    if len(programs) < 40:
        return [_impl_worker(p) for p in programs]
    return pool().map(_impl_worker, programs, chunksize=max(1, len(programs) // 96))


# ------------------------------------------------------------------------------------------------
# model
# ------------------------------------------------------------------------------------------------

def enc_line(l):
    return l.encode("latin-1").hex() or "_"


def enc_lines(lines):
    return ",".join(enc_line(l) for l in lines) if lines else "-"


def enc_files(files):
    if not files:
        return "-"
    return ";".join("%s:%s" % (k.encode("latin-1").hex(), enc_lines(v)) for k, v in files.items())


def model_cmd(lines, files=None):
    return "asm %s %s" % (enc_files(files), enc_lines(lines))


def parse_model(r):
    if r.startswith("OK "):
        img, origin, name, st, sy = r[3:].split(" ")
        stmts = []
        if st != "-":
            for x in st.split(","):
                a, s, b = x.split(":")
                stmts.append((int(a), int(s), "" if b == "-" else b))
        syms = []
        if sy != "-":
            for x in sy.split(","):
                n, h = x.split(":")
                syms.append((bytes.fromhex(n).decode("latin-1") if n != "-" else "", "" if h == "-" else h))
        return ("OK", "" if img == "-" else img, None if origin == "-" else int(origin),
                None if name == "-" else bytes.fromhex(name[1:]).decode("latin-1"), tuple(stmts), tuple(syms))
    if r.startswith("DIAG"):
        return ("DIAG", int(r.split()[1]))
    if r.startswith("INTERNAL"):
        return ("INTERNAL", int(r.split()[1]))
    if r.startswith("FUEL"):
        return ("TIMEOUT",)
    if r.startswith("UNMODELLED"):
        return ("UNMODELLED",)
    return ("ERROR", r[:200])


def model_batch(programs):
    cmds = [model_cmd(l, f) for l, f in programs]
    return [parse_model(r) for r in common.driver_batch(cmds, workers=8)]


def same_obs(i, m):
    """observational equality of implementation and model outcomes (outcome class; everything for OK)"""
    if m[0] == "UNMODELLED":
        return True
    if i[0] != m[0]:
        return False
    if i[0] == "OK":
        return i == m
    return True


def outcome_class(o):
    return {"OK": "ok", "DIAG": "diag", "INTERNAL": "internal", "TIMEOUT": "timeout", "UNMODELLED": "unmodelled"}.get(o[0], "error")


# ------------------------------------------------------------------------------------------------
# decoder oracle (extracted Spec6809.decode)
# ------------------------------------------------------------------------------------------------

def parse_decode(r):
    """'SOME MNEM kind,fields REST' -> (mnem, [fields], rest) | None"""
    if not r.startswith("SOME "):
        return None
    _, mn, op, rest = r.split(" ")
    return (mn, op.split(","), int(rest))


ALIASES = {"LSL": "ASL", "LSLA": "ASLA", "LSLB": "ASLB", "BHS": "BCC", "BLO": "BCS", "LBHS": "LBCC", "LBLO": "LBCS"}


def canon(mn):
    return ALIASES.get(mn, mn)


# ------------------------------------------------------------------------------------------------
# the instruction table of the implementation (live)
# ------------------------------------------------------------------------------------------------

def table():
    common.import_repo()
    from cocoasm.instruction import INSTRUCTIONS
    return INSTRUCTIONS


def real_instructions():
    return [i for i in table() if not i.is_pseudo]
