(* driver.ml — line-oriented driver around the extracted model/spec (Model).
   One command per input line, one result line per command.  Numbers are decimal, byte strings hex. *)
open Model

let rec pos_of_int n = if n = 1 then XH else if n land 1 = 0 then XO (pos_of_int (n lsr 1)) else XI (pos_of_int (n lsr 1))
let n_of_int n = if n = 0 then N0 else Npos (pos_of_int n)
let rec int_of_pos = function XH -> 1 | XO p -> 2 * int_of_pos p | XI p -> 2 * int_of_pos p + 1
let int_of_n = function N0 -> 0 | Npos p -> int_of_pos p
let rec nat_of_int n = if n = 0 then O else S (nat_of_int (n - 1))
let rec int_of_nat = function O -> 0 | S n -> 1 + int_of_nat n

let hexval c = match c with
  | '0'..'9' -> Char.code c - 48 | 'a'..'f' -> Char.code c - 87 | 'A'..'F' -> Char.code c - 55
  | _ -> failwith "bad hex"
let bytes_of_hex s =
  let n = String.length s / 2 in
  let rec go i acc = if i < 0 then acc else go (i - 1) (n_of_int (hexval s.[2*i] * 16 + hexval s.[2*i+1]) :: acc) in
  go (n - 1) []
let hex_of_bytes l =
  let b = Buffer.create 4096 in
  List.iter (fun x -> Buffer.add_string b (Printf.sprintf "%02X" (int_of_n x))) l;
  Buffer.contents b
let hex_or_dash l = match l with [] -> "-" | _ -> hex_of_bytes l
let unhex s = if s = "-" then [] else bytes_of_hex s

let split c s = String.split_on_char c s
let nint s = n_of_int (int_of_string s)

(* ---- cassette ---- *)
let cfile_of_string s = match split ',' s with
  | [n; t; d; l; e; dat] ->
      { c_name = unhex n; c_type = nint t; c_dtype = nint d; c_load = nint l; c_exec = nint e; c_data = unhex dat }
  | _ -> failwith ("bad cfile: " ^ s)
let cfiles_of_string s = if s = "-" then [] else List.map cfile_of_string (List.filter (fun x -> x <> "") (split ';' s))
let string_of_cfile f =
  Printf.sprintf "%s,%d,%d,%d,%d,%s" (hex_or_dash f.c_name) (int_of_n f.c_type) (int_of_n f.c_dtype)
    (int_of_n f.c_load) (int_of_n f.c_exec) (hex_or_dash f.c_data)
let string_of_cfiles fs = match fs with [] -> "-" | _ -> String.concat ";" (List.map string_of_cfile fs)

let string_of_res pr = function
  | Ok a -> "OK " ^ pr a
  | Diag c -> "DIAG " ^ string_of_int (int_of_n c)
  | Internal c -> "INTERNAL " ^ string_of_int (int_of_n c)
  | OutOfFuel -> "FUEL"
  | Unmodelled -> "UNMODELLED"

(* ---- disk ---- *)
let dfile_of_string s = match split ',' s with
  | [n; x; t; a; l; e; dat] ->
      { d_name = unhex n; d_ext = unhex x; d_type = nint t; d_ascii = nint a; d_load = nint l; d_exec = nint e; d_data = unhex dat }
  | _ -> failwith ("bad dfile: " ^ s)
let dfiles_of_string s = if s = "-" then [] else List.map dfile_of_string (List.filter (fun x -> x <> "") (split ';' s))
let string_of_dfile f =
  Printf.sprintf "%s,%s,%d,%d,%d,%d,%s" (hex_or_dash f.d_name) (hex_or_dash f.d_ext) (int_of_n f.d_type) (int_of_n f.d_ascii)
    (int_of_n f.d_load) (int_of_n f.d_exec) (hex_or_dash f.d_data)
let string_of_dfiles fs = match fs with [] -> "-" | _ -> String.concat ";" (List.map string_of_dfile fs)
let order_of_string s = List.map nint (split ',' s)
let string_of_state st =
  String.concat "|" (List.map (fun (_, gs) -> String.concat "," (List.map (fun g -> string_of_int (int_of_n g)) gs)) st)


(* ---- assembler ---- *)
let line_of s = if s = "_" then [] else unhex s
let lines_of s = if s = "-" then [] else List.map line_of (split ',' s)
let files_of s = if s = "-" then [] else
  List.map (fun part -> match split ':' part with
    | [n; ls] -> (unhex n, lines_of ls)
    | _ -> failwith "bad file map") (split ';' s)
let z_to_int = function Z0 -> 0 | Zpos p -> int_of_pos p | Zneg p -> - (int_of_pos p)
let string_of_result r =
  let st = String.concat "," (List.map (fun s ->
    Printf.sprintf "%d:%d:%s" (int_of_n s.r_addr) (int_of_n s.r_size) (hex_or_dash s.r_bytes)) r.r_stmts) in
  let hexdig l = String.concat "" (List.map (fun d -> Printf.sprintf "%X" (int_of_n d)) l) in
  let sy = String.concat "," (List.map (fun (n, h) -> hex_or_dash n ^ ":" ^ (match h with [] -> "-" | _ -> hexdig h)) r.r_syms) in
  Printf.sprintf "%s %s %s %s %s" (hex_or_dash r.r_image)
    (match r.r_origin with None -> "-" | Some v -> string_of_int (int_of_n (Model.x_v_int v)))
    (match r.r_name with None -> "-" | Some n -> "n" ^ hex_of_bytes n)
    (if st = "" then "-" else st) (if sy = "" then "-" else sy)
let string_of_reg = function RX -> "X" | RY -> "Y" | RU -> "U" | RS -> "S"
let string_of_acc = function AccA -> "A" | AccB -> "B" | AccD -> "D"
let bs b = if b then "1" else "0"
let string_of_idx = function
  | IOff5 (r, o) -> Printf.sprintf "off5,%s,%d" (string_of_reg r) (z_to_int o)
  | IZero (r, i) -> Printf.sprintf "zero,%s,%s" (string_of_reg r) (bs i)
  | IOff8 (r, o, i) -> Printf.sprintf "off8,%s,%d,%s" (string_of_reg r) (z_to_int o) (bs i)
  | IOff16 (r, o, i) -> Printf.sprintf "off16,%s,%d,%s" (string_of_reg r) (z_to_int o) (bs i)
  | IAcc (a, r, i) -> Printf.sprintf "acc,%s,%s,%s" (string_of_acc a) (string_of_reg r) (bs i)
  | IInc1 r -> Printf.sprintf "inc1,%s" (string_of_reg r)
  | IInc2 (r, i) -> Printf.sprintf "inc2,%s,%s" (string_of_reg r) (bs i)
  | IDec1 r -> Printf.sprintf "dec1,%s" (string_of_reg r)
  | IDec2 (r, i) -> Printf.sprintf "dec2,%s,%s" (string_of_reg r) (bs i)
  | IPc8 (o, i) -> Printf.sprintf "pc8,%d,%s" (z_to_int o) (bs i)
  | IPc16 (o, i) -> Printf.sprintf "pc16,%d,%s" (z_to_int o) (bs i)
  | IExtInd a -> Printf.sprintf "extind,%d" (int_of_n a)
let string_of_operand = function
  | OInh -> "inh"
  | OImm8 v -> Printf.sprintf "imm8,%d" (int_of_n v)
  | OImm16 v -> Printf.sprintf "imm16,%d" (int_of_n v)
  | ODir a -> Printf.sprintf "dir,%d" (int_of_n a)
  | OExt a -> Printf.sprintf "ext,%d" (int_of_n a)
  | OIdx i -> "idx," ^ string_of_idx i
  | ORel8 d -> Printf.sprintf "rel8,%d" (z_to_int d)
  | ORel16 d -> Printf.sprintf "rel16,%d" (z_to_int d)
  | ORegList m -> Printf.sprintf "reglist,%d" (int_of_n m)
  | ORegPair (a, b) -> Printf.sprintf "regpair,%d,%d,%s" (int_of_n a) (int_of_n b) (bs (Model.x_regpair_legal a b))
let ascii_of l = String.concat "" (List.map (fun c -> String.make 1 (Char.chr (int_of_n c))) l)

let handle line =
  match split ' ' line with
  | ["caswrite"; fs] -> hex_or_dash (Model.x_cas_write (cfiles_of_string fs))
  | ["casparse"; bs] ->
      (match Model.x_cas_parse (unhex bs) with
       | None -> "NONE"
       | Some l -> "SOME " ^ (match l with [] -> "-" | _ ->
           String.concat ";" (List.map (fun (f, g) -> string_of_cfile f ^ "," ^ string_of_int (int_of_n g)) l)))
  | ["caslist"; bs] -> string_of_res string_of_cfiles (Model.x_cas_list (unhex bs))
  | ["dskadd"; order; fs] ->
      string_of_res (fun st -> string_of_state st ^ " " ^ hex_of_bytes (Model.x_dsk_image st))
        (Model.x_dsk_add (order_of_string order) [] (dfiles_of_string fs))
  | ["dskchains"; order; fs] ->
      string_of_res string_of_state (Model.x_dsk_add (order_of_string order) [] (dfiles_of_string fs))
  | ["dskfsck"; bs] -> if Model.x_dsk_fsck (unhex bs) then "TRUE" else "FALSE"
  | ["dskfiles"; bs] -> (match Model.x_dsk_files (unhex bs) with None -> "NONE" | Some l -> "SOME " ^ string_of_dfiles l)
  | ["dsklist"; bs] -> string_of_res string_of_dfiles (Model.x_dsk_list (unhex bs))
  | ["dskfree"; bs] -> string_of_int (int_of_nat (Model.x_dsk_free (unhex bs)))
  | ["dsklayout"] -> if Model.x_dsk_layout_ok then "TRUE" else "FALSE"
  | ["asm"; files; lines] -> string_of_res string_of_result (Model.x_asm (files_of files) (lines_of lines))
  | ["decode"; bs] ->
      (match Model.x_decode (unhex bs) with
       | None -> "NONE"
       | Some (i, rest) -> Printf.sprintf "SOME %s %s %d" (ascii_of (Model.x_canon i.i_mnem)) (string_of_operand i.i_op) (List.length rest))
  | ["dsmodes"] ->
      let name = function AInh -> "inh" | AImm8 -> "imm8" | AImm16 -> "imm16" | ADir -> "dir" | AIdx -> "idx" | AExt -> "ext"
                        | ARel8 -> "rel8" | ARel16 -> "rel16" | ARegList -> "reglist" | ARegPair -> "regpair" in
      String.concat ";" (List.filter_map (fun (pg, op) -> match Model.x_opcode_entry pg op with
        | Some (m, a) -> Some (Printf.sprintf "%s,%s,%d,%d" (ascii_of m) (name a) (int_of_n pg) (int_of_n op))
        | None -> None) Model.x_all_opcodes)
  | _ -> "ERROR unknown command"

let () =
  try
    while true do
      let line = input_line stdin in
      let out = try handle line with e -> "ERROR " ^ Printexc.to_string e in
      print_string out; print_char '\n'; flush stdout
    done
  with End_of_file -> ()
