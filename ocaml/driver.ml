(* driver.ml — line-oriented driver around the extracted model/spec (Model).
   One command per input line, one result line per command.  Numbers are decimal, byte strings hex. *)
open Model

let rec pos_of_int n = if n = 1 then XH else if n land 1 = 0 then XO (pos_of_int (n lsr 1)) else XI (pos_of_int (n lsr 1))
let n_of_int n = if n = 0 then N0 else Npos (pos_of_int n)
let rec int_of_pos = function XH -> 1 | XO p -> 2 * int_of_pos p | XI p -> 2 * int_of_pos p + 1
let int_of_n = function N0 -> 0 | Npos p -> int_of_pos p
let rec nat_of_int n = if n = 0 then O else S (nat_of_int (n - 1))
let rec int_of_nat = function O -> 0 | S n -> 1 + int_of_nat n

let hexval c = match c with
  | '0'..'9' -> Char.code c - 48 | 'a'..'f' -> Char.code c - 87 | 'A'..'F' -> Char.code c - 55
  | _ -> failwith "bad hex"
let bytes_of_hex s =
  let n = String.length s / 2 in
  let rec go i acc = if i < 0 then acc else go (i - 1) (n_of_int (hexval s.[2*i] * 16 + hexval s.[2*i+1]) :: acc) in
  go (n - 1) []
let hex_of_bytes l =
  let b = Buffer.create 4096 in
  List.iter (fun x -> Buffer.add_string b (Printf.sprintf "%02X" (int_of_n x))) l;
  Buffer.contents b
let hex_or_dash l = match l with [] -> "-" | _ -> hex_of_bytes l
let unhex s = if s = "-" then [] else bytes_of_hex s

let split c s = String.split_on_char c s
let nint s = n_of_int (int_of_string s)

(* ---- cassette ---- *)
let cfile_of_string s = match split ',' s with
  | [n; t; d; l; e; dat] ->
      { c_name = unhex n; c_type = nint t; c_dtype = nint d; c_load = nint l; c_exec = nint e; c_data = unhex dat }
  | _ -> failwith ("bad cfile: " ^ s)
let cfiles_of_string s = if s = "-" then [] else List.map cfile_of_string (List.filter (fun x -> x <> "") (split ';' s))
let string_of_cfile f =
  Printf.sprintf "%s,%d,%d,%d,%d,%s" (hex_or_dash f.c_name) (int_of_n f.c_type) (int_of_n f.c_dtype)
    (int_of_n f.c_load) (int_of_n f.c_exec) (hex_or_dash f.c_data)
let string_of_cfiles fs = match fs with [] -> "-" | _ -> String.concat ";" (List.map string_of_cfile fs)

let string_of_res pr = function
  | Ok a -> "OK " ^ pr a
  | Diag c -> "DIAG " ^ string_of_int (int_of_n c)
  | Internal c -> "INTERNAL " ^ string_of_int (int_of_n c)
  | OutOfFuel -> "FUEL"
  | Unmodelled -> "UNMODELLED"

(* ---- disk ---- *)
let dfile_of_string s = match split ',' s with
  | [n; x; t; a; l; e; dat] ->
      { d_name = unhex n; d_ext = unhex x; d_type = nint t; d_ascii = nint a; d_load = nint l; d_exec = nint e; d_data = unhex dat }
  | _ -> failwith ("bad dfile: " ^ s)
let dfiles_of_string s = if s = "-" then [] else List.map dfile_of_string (List.filter (fun x -> x <> "") (split ';' s))
let string_of_dfile f =
  Printf.sprintf "%s,%s,%d,%d,%d,%d,%s" (hex_or_dash f.d_name) (hex_or_dash f.d_ext) (int_of_n f.d_type) (int_of_n f.d_ascii)
    (int_of_n f.d_load) (int_of_n f.d_exec) (hex_or_dash f.d_data)
let string_of_dfiles fs = match fs with [] -> "-" | _ -> String.concat ";" (List.map string_of_dfile fs)
let order_of_string s = List.map nint (split ',' s)
let string_of_state st =
  String.concat "|" (List.map (fun (_, gs) -> String.concat "," (List.map (fun g -> string_of_int (int_of_n g)) gs)) st)


(* ---- assembler ---- *)
let line_of s = if s = "_" then [] else unhex s
let lines_of s = if s = "-" then [] else List.map line_of (split ',' s)
let files_of s = if s = "-" then [] else
  List.map (fun part -> match split ':' part with
    | [n; ls] -> (unhex n, lines_of ls)
    | _ -> failwith "bad file map") (split ';' s)
let z_to_int = function Z0 -> 0 | Zpos p -> int_of_pos p | Zneg p -> - (int_of_pos p)
let string_of_result r =
  let st = String.concat "," (List.map (fun s ->
    Printf.sprintf "%d:%d:%s" (int_of_n s.r_addr) (int_of_n s.r_size) (hex_or_dash s.r_bytes)) r.r_stmts) in
  let hexdig l = String.concat "" (List.map (fun d -> Printf.sprintf "%X" (int_of_n d)) l) in
  let sy = String.concat "," (List.map (fun (n, h) -> hex_or_dash n ^ ":" ^ (match h with [] -> "-" | _ -> hexdig h)) r.r_syms) in
  Printf.sprintf "%s %s %s %s %s" (hex_or_dash r.r_image)
    (match r.r_origin with None -> "-" | Some v -> string_of_int (int_of_n (Model.x_v_int v)))
    (match r.r_name with None -> "-" | Some n -> "n" ^ hex_of_bytes n)
    (if st = "" then "-" else st) (if sy = "" then "-" else sy)
let string_of_reg = function RX -> "X" | RY -> "Y" | RU -> "U" | RS -> "S"
let string_of_acc = function AccA -> "A" | AccB -> "B" | AccD -> "D"
let bs b = if b then "1" else "0"
let string_of_idx = function
  | IOff5 (r, o) -> Printf.sprintf "off5,%s,%d" (string_of_reg r) (z_to_int o)
  | IZero (r, i) -> Printf.sprintf "zero,%s,%s" (string_of_reg r) (bs i)
  | IOff8 (r, o, i) -> Printf.sprintf "off8,%s,%d,%s" (string_of_reg r) (z_to_int o) (bs i)
  | IOff16 (r, o, i) -> Printf.sprintf "off16,%s,%d,%s" (string_of_reg r) (z_to_int o) (bs i)
  | IAcc (a, r, i) -> Printf.sprintf "acc,%s,%s,%s" (string_of_acc a) (string_of_reg r) (bs i)
  | IInc1 r -> Printf.sprintf "inc1,%s" (string_of_reg r)
  | IInc2 (r, i) -> Printf.sprintf "inc2,%s,%s" (string_of_reg r) (bs i)
  | IDec1 r -> Printf.sprintf "dec1,%s" (string_of_reg r)
  | IDec2 (r, i) -> Printf.sprintf "dec2,%s,%s" (string_of_reg r) (bs i)
  | IPc8 (o, i) -> Printf.sprintf "pc8,%d,%s" (z_to_int o) (bs i)
  | IPc16 (o, i) -> Printf.sprintf "pc16,%d,%s" (z_to_int o) (bs i)
  | IExtInd a -> Printf.sprintf "extind,%d" (int_of_n a)
let string_of_operand = function
  | OInh -> "inh"
  | OImm8 v -> Printf.sprintf "imm8,%d" (int_of_n v)
  | OImm16 v -> Printf.sprintf "imm16,%d" (int_of_n v)
  | ODir a -> Printf.sprintf "dir,%d" (int_of_n a)
  | OExt a -> Printf.sprintf "ext,%d" (int_of_n a)
  | OIdx i -> "idx," ^ string_of_idx i
  | ORel8 d -> Printf.sprintf "rel8,%d" (z_to_int d)
  | ORel16 d -> Printf.sprintf "rel16,%d" (z_to_int d)
  | ORegList m -> Printf.sprintf "reglist,%d" (int_of_n m)
  | ORegPair (a, b) -> Printf.sprintf "regpair,%d,%d,%s" (int_of_n a) (int_of_n b) (bs (Model.x_regpair_legal a b))
let ascii_of l = String.concat "" (List.map (fun c -> String.make 1 (Char.chr (int_of_n c))) l)

(* ---- virtual files / CLI flows (MVirtualFile) ---- *)
let cocofile_of_string s = match split ',' s with
  | [n; x; t; d; l; e; dat] ->
      { f_name = unhex n; f_ext = unhex x; f_type = nint t; f_dtype = nint d; f_load = nint l; f_exec = nint e; f_data = unhex dat }
  | _ -> failwith ("bad cocofile: " ^ s)
let cocofiles_of_string s = if s = "-" then [] else List.map cocofile_of_string (List.filter (fun x -> x <> "") (split ';' s))
let string_of_cocofile f =
  Printf.sprintf "%s,%s,%d,%d,%d,%d,%s" (hex_or_dash f.f_name) (hex_or_dash f.f_ext) (int_of_n f.f_type) (int_of_n f.f_dtype)
    (int_of_n f.f_load) (int_of_n f.f_exec) (hex_or_dash f.f_data)
let string_of_cocofiles fs = match fs with [] -> "-" | _ -> String.concat ";" (List.map string_of_cocofile fs)
let vkind_of_string = function "cas" -> KCas | "bin" -> KBin | "dsk" -> KDsk | s -> failwith ("bad kind: " ^ s)
let string_of_vkind = function KCas -> "cas" | KBin -> "bin" | KDsk -> "dsk"
let old_of_string s = if s = "absent" then None else Some (unhex s)
let string_of_written = function None -> "NONE" | Some img -> hex_or_dash img
let string_of_err = function
  | EDiag c -> "D" ^ string_of_int (int_of_n c) | EInternal c -> "I" ^ string_of_int (int_of_n c)
  | EFuel -> "FUEL" | EUnmod -> "UNMOD"
let string_of_event = function
  | EListed f -> "L" ^ string_of_cocofile f
  | EFile (n, nm) -> "F" ^ string_of_int (int_of_nat n) ^ ":" ^ hex_or_dash nm
  | ESaved k -> "S" ^ string_of_vkind k
  | EMoreThanOne -> "M"
  | EError e -> "E" ^ string_of_err e
  | ENoName k -> "N" ^ string_of_vkind k
  | EUnable (k, e) -> "U" ^ string_of_vkind k ^ ":" ^ string_of_err e
let string_of_events l = match l with [] -> "-" | _ -> String.concat "|" (List.map string_of_event l)
(* a host file system: name=hex;name=hex (names are plain tokens); "-" = empty *)
let path_of_string s = List.init (String.length s) (fun i -> n_of_int (Char.code s.[i]))
let fs_of_string s =
  let pairs = if s = "-" then [] else List.map (fun kv -> match split '=' kv with
      | [k; v] -> (k, unhex v) | _ -> failwith ("bad fs entry: " ^ kv)) (List.filter (fun x -> x <> "") (split ';' s)) in
  (List.map fst pairs, fun p -> List.assoc_opt p (List.map (fun (k, v) -> (path_of_string k, v)) pairs))
let opt_path s = if s = "-" then None else Some (path_of_string s)
let dump_fs names fs =
  let names = List.sort_uniq compare names in
  match names with [] -> "-" | _ ->
  String.concat ";" (List.map (fun k -> k ^ "=" ^ (match fs (path_of_string k) with None -> "ABSENT" | Some c -> hex_or_dash c)) names)
let names_of l = List.filter (fun x -> x <> "-") l
let hops_of_string s = if s = "-" then [] else
  List.map (fun x -> if x = "S" then SaveReopen else Add (cocofile_of_string x)) (List.filter (fun x -> x <> "") (split ';' s))

let handle line =
  match split ' ' line with
  | ["caswrite"; fs] -> hex_or_dash (Model.x_cas_write (cfiles_of_string fs))
  | ["casparse"; bs] ->
      (match Model.x_cas_parse (unhex bs) with
       | None -> "NONE"
       | Some l -> "SOME " ^ (match l with [] -> "-" | _ ->
           String.concat ";" (List.map (fun (f, g) -> string_of_cfile f ^ "," ^ string_of_int (int_of_n g)) l)))
  | ["caslist"; bs] -> string_of_res string_of_cfiles (Model.x_cas_list (unhex bs))
  | ["dskadd"; order; fs] ->
      string_of_res (fun st -> string_of_state st ^ " " ^ hex_of_bytes (Model.x_dsk_image st))
        (Model.x_dsk_add (order_of_string order) [] (dfiles_of_string fs))
  | ["dskchains"; order; fs] ->
      string_of_res string_of_state (Model.x_dsk_add (order_of_string order) [] (dfiles_of_string fs))
  | ["dskfsck"; bs] -> if Model.x_dsk_fsck (unhex bs) then "TRUE" else "FALSE"
  | ["dskfiles"; bs] -> (match Model.x_dsk_files (unhex bs) with None -> "NONE" | Some l -> "SOME " ^ string_of_dfiles l)
  | ["dsklist"; bs] -> string_of_res string_of_dfiles (Model.x_dsk_list (unhex bs))
  | ["dskfree"; bs] -> string_of_int (int_of_nat (Model.x_dsk_free (unhex bs)))
  | ["dsklayout"] -> if Model.x_dsk_layout_ok then "TRUE" else "FALSE"
  | ["asm"; files; lines] -> string_of_res string_of_result (Model.x_asm (files_of files) (lines_of lines))
  | ["decode"; bs] ->
      (match Model.x_decode (unhex bs) with
       | None -> "NONE"
       | Some (i, rest) -> Printf.sprintf "SOME %s %s %d" (ascii_of (Model.x_canon i.i_mnem)) (string_of_operand i.i_op) (List.length rest))
  | ["dsmodes"] ->
      let name = function AInh -> "inh" | AImm8 -> "imm8" | AImm16 -> "imm16" | ADir -> "dir" | AIdx -> "idx" | AExt -> "ext"
                        | ARel8 -> "rel8" | ARel16 -> "rel16" | ARegList -> "reglist" | ARegPair -> "regpair" in
      String.concat ";" (List.filter_map (fun (pg, op) -> match Model.x_opcode_entry pg op with
        | Some (m, a) -> Some (Printf.sprintf "%s,%s,%d,%d" (ascii_of m) (name a) (int_of_n pg) (int_of_n op))
        | None -> None) Model.x_all_opcodes)
  | ["vfsniff"; bs] ->
      string_of_res (fun (fl, k) -> string_of_vkind k ^ " " ^ string_of_cocofiles fl) (Model.x_vf_sniff (unhex bs))
  | ["vfstore"; k; app; old; fs] ->
      string_of_res string_of_written (Model.x_vf_store (vkind_of_string k) (app = "1") (old_of_string old) (cocofiles_of_string fs))
  | ["vfconvert"; k; req; app; src; old] ->
      let req = if req = "-" then None else Some (List.map unhex (split ',' req)) in
      string_of_res string_of_written (Model.x_vf_convert (vkind_of_string k) req (app = "1") (unhex src) (old_of_string old))
  | ["vfhist"; k; ops] -> string_of_res hex_or_dash (Model.x_vf_image_after (vkind_of_string k) (hops_of_string ops))
  | ["futil"; fs; host; app; lst; tb; tc; td; files] ->
      let (names, f) = fs_of_string fs in
      let a = { a_host = path_of_string host; a_append = (app = "1"); a_list = (lst = "1");
                a_to_bin = opt_path tb; a_to_cas = opt_path tc; a_to_dsk = opt_path td;
                a_files = (if files = "-" then None else Some (List.map unhex (split ',' files))) } in
      let ((f', ev), x) = Model.x_vf_file_util f a in
      Printf.sprintf "%d %s %s" (int_of_n x) (string_of_events ev) (dump_fs (names @ names_of [host; tb; tc; td]) f')
  | ["asmsave"; fs; tb; tc; td; name; app; pname; origin; image] ->
      let (names, f) = fs_of_string fs in
      let a = { s_to_bin = opt_path tb; s_to_cas = opt_path tc; s_to_dsk = opt_path td; s_name = unhex name; s_append = (app = "1") } in
      let p = { p_name = unhex pname; p_origin = nint origin; p_image = unhex image } in
      let (f', ev) = Model.x_vf_asm_save f a p in
      Printf.sprintf "%s %s" (string_of_events ev) (dump_fs (names @ names_of [tb; tc; td]) f')
  | ["asmmain"; fs; tb; tc; td; name; app; files; lines] ->
      let (names, f) = fs_of_string fs in
      let a = { s_to_bin = opt_path tb; s_to_cas = opt_path tc; s_to_dsk = opt_path td; s_name = unhex name; s_append = (app = "1") } in
      let ((f', ev), x) = Model.x_cli_main f a (files_of files) (lines_of lines) in
      Printf.sprintf "%d %s %s" (int_of_n x) (string_of_events ev) (dump_fs (names @ names_of [tb; tc; td]) f')
  | _ -> "ERROR unknown command"

let () =
  try
    while true do
      let line = input_line stdin in
      let out = try handle line with e -> "ERROR " ^ Printexc.to_string e in
      print_string out; print_char '\n'; flush stdout
    done
  with End_of_file -> ()
