(* driver.ml — line-oriented driver around the extracted model/spec (Model).
   One command per input line, one result line per command.  Numbers are decimal, byte strings hex. *)
open Model

let rec pos_of_int n = if n = 1 then XH else if n land 1 = 0 then XO (pos_of_int (n lsr 1)) else XI (pos_of_int (n lsr 1))
let n_of_int n = if n = 0 then N0 else Npos (pos_of_int n)
let rec int_of_pos = function XH -> 1 | XO p -> 2 * int_of_pos p | XI p -> 2 * int_of_pos p + 1
let int_of_n = function N0 -> 0 | Npos p -> int_of_pos p
let rec nat_of_int n = if n = 0 then O else S (nat_of_int (n - 1))
let rec int_of_nat = function O -> 0 | S n -> 1 + int_of_nat n

let hexval c = match c with
  | '0'..'9' -> Char.code c - 48 | 'a'..'f' -> Char.code c - 87 | 'A'..'F' -> Char.code c - 55
  | _ -> failwith "bad hex"
let bytes_of_hex s =
  let n = String.length s / 2 in
  let rec go i acc = if i < 0 then acc else go (i - 1) (n_of_int (hexval s.[2*i] * 16 + hexval s.[2*i+1]) :: acc) in
  go (n - 1) []
let hex_of_bytes l =
  let b = Buffer.create 4096 in
  List.iter (fun x -> Buffer.add_string b (Printf.sprintf "%02X" (int_of_n x))) l;
  Buffer.contents b
let hex_or_dash l = match l with [] -> "-" | _ -> hex_of_bytes l
let unhex s = if s = "-" then [] else bytes_of_hex s

let split c s = String.split_on_char c s
let nint s = n_of_int (int_of_string s)

(* ---- cassette ---- *)
let cfile_of_string s = match split ',' s with
  | [n; t; d; l; e; dat] ->
      { c_name = unhex n; c_type = nint t; c_dtype = nint d; c_load = nint l; c_exec = nint e; c_data = unhex dat }
  | _ -> failwith ("bad cfile: " ^ s)
let cfiles_of_string s = if s = "-" then [] else List.map cfile_of_string (List.filter (fun x -> x <> "") (split ';' s))
let string_of_cfile f =
  Printf.sprintf "%s,%d,%d,%d,%d,%s" (hex_or_dash f.c_name) (int_of_n f.c_type) (int_of_n f.c_dtype)
    (int_of_n f.c_load) (int_of_n f.c_exec) (hex_or_dash f.c_data)
let string_of_cfiles fs = match fs with [] -> "-" | _ -> String.concat ";" (List.map string_of_cfile fs)

let string_of_res pr = function
  | Ok a -> "OK " ^ pr a
  | Diag c -> "DIAG " ^ string_of_int (int_of_n c)
  | Internal c -> "INTERNAL " ^ string_of_int (int_of_n c)
  | OutOfFuel -> "FUEL"
  | Unmodelled -> "UNMODELLED"

(* ---- disk ---- *)
let dfile_of_string s = match split ',' s with
  | [n; x; t; a; l; e; dat] ->
      { d_name = unhex n; d_ext = unhex x; d_type = nint t; d_ascii = nint a; d_load = nint l; d_exec = nint e; d_data = unhex dat }
  | _ -> failwith ("bad dfile: " ^ s)
let dfiles_of_string s = if s = "-" then [] else List.map dfile_of_string (List.filter (fun x -> x <> "") (split ';' s))
let string_of_dfile f =
  Printf.sprintf "%s,%s,%d,%d,%d,%d,%s" (hex_or_dash f.d_name) (hex_or_dash f.d_ext) (int_of_n f.d_type) (int_of_n f.d_ascii)
    (int_of_n f.d_load) (int_of_n f.d_exec) (hex_or_dash f.d_data)
let string_of_dfiles fs = match fs with [] -> "-" | _ -> String.concat ";" (List.map string_of_dfile fs)
let order_of_string s = List.map nint (split ',' s)
let string_of_state st =
  String.concat "|" (List.map (fun (_, gs) -> String.concat "," (List.map (fun g -> string_of_int (int_of_n g)) gs)) st)

let handle line =
  match split ' ' line with
  | ["caswrite"; fs] -> hex_or_dash (Model.x_cas_write (cfiles_of_string fs))
  | ["casparse"; bs] ->
      (match Model.x_cas_parse (unhex bs) with
       | None -> "NONE"
       | Some l -> "SOME " ^ (match l with [] -> "-" | _ ->
           String.concat ";" (List.map (fun (f, g) -> string_of_cfile f ^ "," ^ string_of_int (int_of_n g)) l)))
  | ["caslist"; bs] -> string_of_res string_of_cfiles (Model.x_cas_list (unhex bs))
  | ["dskadd"; order; fs] ->
      string_of_res (fun st -> string_of_state st ^ " " ^ hex_of_bytes (Model.x_dsk_image st))
        (Model.x_dsk_add (order_of_string order) [] (dfiles_of_string fs))
  | ["dskchains"; order; fs] ->
      string_of_res string_of_state (Model.x_dsk_add (order_of_string order) [] (dfiles_of_string fs))
  | ["dskfsck"; bs] -> if Model.x_dsk_fsck (unhex bs) then "TRUE" else "FALSE"
  | ["dskfiles"; bs] -> (match Model.x_dsk_files (unhex bs) with None -> "NONE" | Some l -> "SOME " ^ string_of_dfiles l)
  | ["dsklist"; bs] -> string_of_res string_of_dfiles (Model.x_dsk_list (unhex bs))
  | ["dskfree"; bs] -> string_of_int (int_of_nat (Model.x_dsk_free (unhex bs)))
  | ["dsklayout"] -> if Model.x_dsk_layout_ok then "TRUE" else "FALSE"
  | _ -> "ERROR unknown command"

let () =
  try
    while true do
      let line = input_line stdin in
      let out = try handle line with e -> "ERROR " ^ Printexc.to_string e in
      print_string out; print_char '\n'; flush stdout
    done
  with End_of_file -> ()
