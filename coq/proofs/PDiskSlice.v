(* PDiskSlice.v — slicing any 161,280-byte buffer yields a structure of the right dimensions. *)
From V Require Import Base.
From V.spec Require Import SpecDisk.
From V.model Require Import MDisk.
From V.proofs Require Import PDiskRead.
Local Open Scope N_scope.

Lemma chunks_dims k : forall n l, (n * k <= length l)%nat ->
  length (chunks k n l) = n /\ Forall (fun c => length c = k) (chunks k n l).
Proof.
  induction n as [|n IH]; intros l H; [split; [reflexivity|constructor]|].
  cbn [chunks length]. destruct (IH (skipn k l)) as [H1 H2]; [rewrite skipn_length; lia|].
  split; [now rewrite H1|]. constructor; [|assumption]. rewrite firstn_length. lia.
Qed.

Lemma In_firstn_s {A} (x : A) n l : In x (firstn n l) -> In x l.
Proof. intros H. rewrite <- (firstn_skipn n l). apply in_or_app. now left. Qed.
Lemma In_skipn_s {A} (x : A) n l : In x (skipn n l) -> In x l.
Proof. intros H. rewrite <- (firstn_skipn n l). apply in_or_app. now right. Qed.

Theorem slice_dims img : N.of_nat (length img) = IMAGE_SIZE -> dims_ok (slice img).
Proof.
  intros H. assert (Hl : (70 * GR <= length img)%nat).
  { assert (E : N.of_nat (70 * GR) = IMAGE_SIZE) by (vm_compute; reflexivity). rewrite <- E in H. apply Nat2N.inj in H. lia. }
  destruct (chunks_dims GR 70 img Hl) as [H1 H2]. rewrite Forall_forall in H2.
  unfold dims_ok, slice. cbn [gran fat]. split; [|split].
  - rewrite app_length, firstn_length, skipn_length, H1. reflexivity.
  - apply Forall_forall. intros g Hg. apply in_app_or in Hg as [Hg|Hg]; apply H2.
    + eapply In_firstn_s; eauto.
    + eapply In_skipn_s; eauto.
  - rewrite firstn_length, skipn_length, app_length.
    rewrite (H2 (nth 34 (chunks GR 70 img) [])) by (apply nth_In; lia).
    rewrite (H2 (nth 35 (chunks GR 70 img) [])) by (apply nth_In; lia). unfold GR. reflexivity.
Qed.
