(* PPcr.v — soundness of the 8/16-bit decision for label,PCR operands (property C03):
   whenever the size loop gives a statement the 8-bit form, the span estimate it was based on still
   holds for the FINAL sizes of the statements in between, because along the loop sizes only grow and
   max_sizes only shrink (the invariant that upstream broke: max_size below size, repair F22). *)
From V Require Import Base.
From V.model Require Import MText MValues MOperands MProgram.
From V.proofs Require Import PLayout PFrames PC02.
From V.gen Require Tables.
Local Open Scope N_scope.

Definition csize (s : stmt) : N := cp_size (s_pkg s).
Definition cmax (s : stmt) : N := cp_max (s_pkg s).

(* per-statement invariant: size <= max_size, and an undecided statement that has post-byte choices
   reserves exactly two more bytes than its present size *)
Definition inv_pkg (p : codepkg) : Prop :=
  cp_size p <= cp_max p /\ (cp_choices p <> [] -> cp_max p = cp_size p + 2).
Definition inv_s (s : stmt) : Prop :=
  csize s <= cmax s /\ (s_fixed s = false -> cp_choices (s_pkg s) <> [] -> cmax s = csize s + 2).

(* a later state of the same statement: sizes grow, max_sizes shrink *)
Definition mono_s (a b : stmt) : Prop :=
  rel_size a b /\ csize a <= csize b /\ cmax b <= cmax a /\ inv_s b.

Lemma mono_refl a : inv_s a -> mono_s a a.
Proof. intros H. unfold mono_s. repeat split; try apply rel_size_refl; try lia; apply H. Qed.
Lemma mono_trans a b c : mono_s a b -> mono_s b c -> mono_s a c.
Proof.
  intros (R1 & S1 & M1 & I1) (R2 & S2 & M2 & I2). split; [eapply rel_size_trans; eauto|]. repeat split; try lia; apply I2.
Qed.

(* ---------- translate establishes the invariant ---------- *)
Lemma simple_pkg_inv opc add sz p : simple_pkg opc add sz = Ok p -> inv_pkg p.
Proof. unfold simple_pkg. intros H. apply bind_ok in H as [ov [_ H]]. inversion H; subst. unfold inv_pkg; cbn. split; [lia | congruence]. Qed.
Lemma mk_idx_pkg_inv opc raw ch add size mx needs p :
  mk_idx_pkg opc raw ch add size mx needs = Ok p -> (ch = [] \/ mx = size + 2) -> inv_pkg p.
Proof.
  unfold mk_idx_pkg. intros H Hc. apply bind_ok in H as [ov [_ H]]. apply bind_ok in H as [pv [_ H]]. inversion H; subst.
  unfold inv_pkg; cbn. split; [lia|]. intros Hn. destruct Hc as [-> | ->]; [congruence | lia].
Qed.
Lemma data_pkg_inv a sz : inv_pkg (data_pkg a sz).
Proof. unfold inv_pkg, data_pkg; cbn. split; [lia | congruence]. Qed.

Ltac inv_tac H :=
  repeat (match type of H with
  | simple_pkg _ _ _ = Ok _ => exact (simple_pkg_inv _ _ _ _ H)
  | mk_idx_pkg _ _ _ _ _ _ _ = Ok _ => apply (mk_idx_pkg_inv _ _ _ _ _ _ _ _ H); first [left; reflexivity | right; reflexivity]
  | Ok _ = Ok _ => inversion H; subst; first [apply data_pkg_inv | (unfold inv_pkg; cbn; split; [lia | congruence])]
  | bind _ _ = Ok _ => let x := fresh "x" in let Hx := fresh "Hx" in apply bind_ok in H as [x [Hx H]]
  | (if ?b then _ else _) = Ok _ => destruct b
  | (match ?v with _ => _ end) = Ok _ => destruct v
  | (let '(_, _) := ?v in _) = Ok _ => destruct v
  | Diag _ = Ok _ => discriminate H
  | OTE = Ok _ => discriminate H
  | Internal _ = Ok _ => discriminate H
  | Unmodelled = Ok _ => discriminate H
  end).

Lemma translate_indexed_inv ind l r i p : translate_indexed ind l r i = Ok p -> inv_pkg p.
Proof. unfold translate_indexed, opt_op. intros H. inv_tac H. Qed.
Lemma translate_special_inv s i p : translate_special s i = Ok p -> inv_pkg p.
Proof. unfold translate_special. intros H. inv_tac H. Qed.
Lemma translate_pseudo_inv v i p : translate_pseudo v i = Ok p -> inv_pkg p.
Proof. unfold translate_pseudo, cp_empty. intros H. inv_tac H. Qed.

Lemma translate_operand_inv o i p : translate_operand o i = Ok p -> inv_pkg p.
Proof.
  intros H. destruct o; cbn [translate_operand] in H; unfold opt_op in H.
  - eapply translate_pseudo_inv; eauto.
  - eapply translate_special_inv; eauto.
  - inv_tac H.
  - inv_tac H.
  - destruct (Tables.ind i); [|discriminate]. destruct v as [| | | |? ? ? ? [|]| | | |]; try discriminate;
      try (destruct r; [eapply translate_indexed_inv; eauto | discriminate]); inv_tac H.
  - eapply translate_indexed_inv; eauto.
  - inv_tac H.
  - inversion H; subst. unfold inv_pkg; cbn. split; [lia | congruence].
  - inv_tac H.
  - inv_tac H.
Qed.

Lemma translate_stmt_inv s s' : translate_stmt s = Ok s' -> inv_s s'.
Proof.
  unfold translate_stmt. intros H. apply bind_ok in H as [p [Hp H]]. inversion H; subst.
  assert (Ht : translate_operand (s_operand s) (s_instr s) = Ok p).
  { unfold as_translation_error in Hp. destruct (translate_operand _ _); try discriminate; assumption. }
  destruct (translate_operand_inv _ _ _ Ht) as [H1 H2]. unfold inv_s, csize, cmax. cbn. split; [exact H1 | intros _; exact H2].
Qed.

(* ---------- one decision is monotone ---------- *)
Lemma pcr_pick_mono s k add hint s' : inv_s s -> s_fixed s = false -> (add = 1 \/ add = 2) ->
  pcr_pick s k add hint = Ok s' -> mono_s s s' /\ s_fixed s' = true /\ s_hint s' = hint.
Proof.
  intros [I1 I2] Hf Hadd H. pose proof (pcr_pick_rel _ _ _ _ _ Hf H) as R.
  unfold pcr_pick in H. destruct (nth_error (cp_choices (s_pkg s)) k) eqn:En; [|discriminate].
  assert (Hne : cp_choices (s_pkg s) <> []) by (intro E; rewrite E in En; destruct k; discriminate).
  specialize (I2 Hf Hne). apply bind_ok in H as [pv [_ H]]. inversion H; subst.
  split; [split; [exact R|]|]; unfold inv_s, csize, cmax, set_pkg in *; cbn in *; repeat split; auto; try lia; try discriminate.
Qed.

Lemma determine_mono ss k force s s' : inv_s s -> s_fixed s = false -> determine ss k force s = Ok s' -> mono_s s s'.
Proof.
  unfold determine. intros Hi Hf H. destruct (pcr_span ss k s) as [[bw mn] mx]. destruct (pcr_offset s force) as [off f'].
  destruct (pcr_fits8 bw mn mx off && negb f').
  { destruct (pcr_pick_mono _ _ _ _ _ Hi Hf (or_introl eq_refl) H) as [M _]. exact M. }
  destruct (f' || negb (off =? 0)%Z || _).
  { destruct (pcr_pick_mono _ _ _ _ _ Hi Hf (or_intror eq_refl) H) as [M _]. exact M. }
  inversion H; subst. now apply mono_refl.
Qed.

(* a statement that determine decides with the 8-bit form passed the 8-bit test on the current state *)
Lemma determine_hint2 ss k force s s' : inv_s s -> s_fixed s = false -> determine ss k force s = Ok s' ->
  s_fixed s' = true -> s_hint s' = 2 ->
  let '(bw, mn, mx) := pcr_span ss k s in pcr_fits8 bw mn mx (fst (pcr_offset s force)) = true.
Proof.
  unfold determine. intros Hi Hf H Hfx Hh. destruct (pcr_span ss k s) as [[bw mn] mx]. destruct (pcr_offset s force) as [off f'].
  cbn [fst]. destruct (pcr_fits8 bw mn mx off); [reflexivity|]. cbn [andb] in H.
  destruct (f' || negb (off =? 0)%Z || _).
  - destruct (pcr_pick_mono _ _ _ _ _ Hi Hf (or_intror eq_refl) H) as (_ & _ & Hh'). rewrite Hh in Hh'. discriminate.
  - inversion H; subst. congruence.
Qed.

(* ---------- sums over monotone states ---------- *)
Lemma Forall2_len {A B} (R : A -> B -> Prop) l l' : Forall2 R l l' -> length l = length l'.
Proof. induction 1; cbn; congruence. Qed.

Lemma sum_range_le (f g : stmt -> N) : forall l l' from cnt,
  Forall2 (fun a b => g b <= f a) l l' -> sum_range g l' from cnt <= sum_range f l from cnt.
Proof.
  intros l l' from cnt H. revert from. induction cnt as [|c IH]; intros from; cbn [sum_range]; [lia|].
  specialize (IH (S from)).
  destruct (nth_error l from) as [a|] eqn:Ea.
  - destruct (Forall2_nth _ _ _ _ _ H Ea) as [b [Eb Hab]]. rewrite Eb. lia.
  - assert (nth_error l' from = None).
    { apply nth_error_None. apply nth_error_None in Ea. rewrite <- (Forall2_len _ _ _ H). exact Ea. }
    rewrite H0. lia.
Qed.

Lemma sum_range_le_same (f g : stmt -> N) : forall l from cnt,
  Forall (fun a => g a <= f a) l -> sum_range g l from cnt <= sum_range f l from cnt.
Proof.
  intros l from cnt H. revert from. induction cnt as [|c IH]; intros from; cbn [sum_range]; [lia|].
  specialize (IH (S from)). destruct (nth_error l from) as [a|] eqn:Ea; [|lia].
  rewrite Forall_forall in H. specialize (H a (nth_error_In _ _ Ea)). lia.
Qed.

Lemma Forall2_right {A B} (R : A -> B -> Prop) (P : B -> Prop) l l' : (forall a b, R a b -> P b) -> Forall2 R l l' -> Forall P l'.
Proof. intros H. induction 1; constructor; eauto. Qed.

Lemma Forall2_impl {A B} (R S : A -> B -> Prop) l l' : (forall a b, R a b -> S a b) -> Forall2 R l l' -> Forall2 S l l'.
Proof. intros H. induction 1; constructor; auto. Qed.

(* the 8-bit test is monotone: it stays true when max shrinks (and min stays below max) *)
Lemma fits8_mono bw mn mx mn' mx' off : pcr_fits8 bw mn mx off = true -> mx' <= mx -> mn' <= mx' ->
  pcr_fits8 bw mn' mx' off = true.
Proof.
  unfold pcr_fits8. intros H H1 H2. destruct bw; repeat (apply andb_true_iff in H as [H ?]);
    repeat (apply andb_true_iff; split); try (apply N.leb_le); try (apply Z.leb_le);
    repeat match goal with Hx : (_ <=? _) = true |- _ => apply N.leb_le in Hx end;
    repeat match goal with Hx : (_ <=? _)%Z = true |- _ => apply Z.leb_le in Hx end; lia.
Qed.

Lemma rel_size_span ss k s s' : rel_size s s' -> pcr_span ss k s' = pcr_span ss k s /\ (forall f, pcr_offset s' f = pcr_offset s f).
Proof.
  intros (_ & _ & Eo & _ & _ & _ & Ea & _). unfold pcr_span, pcr_offset, rel_index_of. rewrite Eo, Ea. auto.
Qed.

(* the 8-bit test evaluated on a LATER state ssF of the whole program still holds *)
Lemma fits8_later ssX ssF k s sF off :
  Forall2 mono_s ssX ssF -> rel_size s sF ->
  (let '(bw, mn, mx) := pcr_span ssX k s in pcr_fits8 bw mn mx off = true) ->
  (let '(bw, mn, mx) := pcr_span ssF k sF in pcr_fits8 bw mn mx off = true).
Proof.
  intros Hm Hr. destruct (rel_size_span ssF k s sF Hr) as [-> _].
  unfold pcr_span. destruct (if rel_index_of s <? k then _ else _) as [from cnt].
  intros H. eapply fits8_mono; [exact H | |].
  - apply N.add_le_mono_r. apply sum_range_le. eapply Forall2_impl; [|exact Hm]. intros a b (_ & _ & M & _). exact M.
  - apply N.add_le_mono_r. apply sum_range_le_same.
    eapply Forall2_right; [|exact Hm]. intros a b (_ & _ & _ & I). apply I.
Qed.

(* ---------- the loop invariant ---------- *)
Definition sound8 (ssF : list stmt) (this : nat) (s : stmt) : Prop :=
  let '(bw, mn, mx) := pcr_span ssF (N.of_nat this) s in pcr_fits8 bw mn mx (fst (pcr_offset s false)) = true.

(* every statement that the loop has already given the 8-bit form passes the 8-bit test on EVERY later state *)
Definition good (ss0 ssX : list stmt) : Prop :=
  forall this s0 sX, nth_error ss0 this = Some s0 -> s_fixed s0 = false ->
    nth_error ssX this = Some sX -> s_fixed sX = true -> s_hint sX = 2 ->
    forall ssF sF, Forall2 mono_s ssX ssF -> nth_error ssF this = Some sF -> sound8 ssF this sF.

Lemma update_nth_same {A} : forall k (a : A) l, (k < length l)%nat -> nth_error (update_nth k a l) k = Some a.
Proof. induction k as [|k IH]; intros a [|x l] H; cbn in *; try lia; [reflexivity | apply IH; lia]. Qed.
Lemma update_nth_other {A} : forall k j (a : A) l, j <> k -> nth_error (update_nth k a l) j = nth_error l j.
Proof.
  induction k as [|k IH]; intros j a [|x l] H; cbn; try reflexivity; destruct j as [|j]; cbn; try reflexivity; try lia.
  apply IH. lia.
Qed.

Lemma mono_update : forall k l s s', Forall inv_s l -> nth_error l k = Some s -> mono_s s s' ->
  Forall2 mono_s l (update_nth k s' l).
Proof.
  induction k as [|k IH]; intros [|x l] s s' Hi Hn Hm; cbn in Hn; try discriminate; cbn [update_nth]; inversion Hi; subst.
  - inversion Hn; subst. constructor; [assumption|]. clear -H2. induction H2; constructor; auto using mono_refl.
  - constructor; [now apply mono_refl | eapply IH; eauto].
Qed.

Lemma mono_list_refl l : Forall inv_s l -> Forall2 mono_s l l.
Proof. induction 1; constructor; auto using mono_refl. Qed.

Lemma mono_list_trans l1 l2 l3 : Forall2 mono_s l1 l2 -> Forall2 mono_s l2 l3 -> Forall2 mono_s l1 l3.
Proof. apply Forall2_trans. apply mono_trans. Qed.

Lemma mono_inv_right l l' : Forall2 mono_s l l' -> Forall inv_s l'.
Proof. apply Forall2_right. intros a b (_ & _ & _ & I). exact I. Qed.

(* one decision step preserves [good] *)
Lemma step_good ss0 ssX k s s' force :
  Forall inv_s ssX -> good ss0 ssX -> nth_error ssX k = Some s -> s_fixed s = false ->
  determine ssX (N.of_nat k) force s = Ok s' ->
  Forall2 mono_s ssX (update_nth k s' ssX) /\ good ss0 (update_nth k s' ssX).
Proof.
  intros Hi Hg Hn Hf Hd. pose proof (determine_mono _ _ _ _ _ (proj1 (Forall_forall _ _) Hi s (nth_error_In _ _ Hn)) Hf Hd) as Hm.
  pose proof (mono_update k ssX s s' Hi Hn Hm) as M1. split; [exact M1|].
  intros this s0 sX' H0 Hf0 HX Hfx Hh ssF sF HF HsF.
  destruct (Nat.eq_dec this k) as [-> | Hne].
  - rewrite update_nth_same in HX by (apply nth_error_Some; congruence). inversion HX; subst sX'.
    assert (Hinv : inv_s s) by (apply (proj1 (Forall_forall _ _) Hi s (nth_error_In _ _ Hn))).
    destruct force.
    + (* forced: never the 8-bit form *)
      exfalso. unfold determine in Hd. destruct (pcr_span ssX (N.of_nat k) s) as [[bw mn] mx].
      pose proof (PSizeLoop.pcr_offset_force s) as Hforce. destruct (pcr_offset s true) as [off f']. cbn [snd] in Hforce. subst f'.
      cbn [negb andb orb] in Hd. rewrite andb_false_r in Hd.
      destruct (pcr_pick_mono _ _ _ _ _ Hinv Hf (or_intror eq_refl) Hd) as (_ & _ & Hh'). rewrite Hh in Hh'. discriminate.
    + pose proof (determine_hint2 _ _ _ _ _ Hinv Hf Hd Hfx Hh) as Hfit.
      assert (MF : Forall2 mono_s ssX ssF) by (eapply mono_list_trans; eauto).
      destruct (Forall2_nth _ _ _ _ _ HF (update_nth_same k s' ssX ltac:(apply nth_error_Some; congruence))) as [sF' [E1 (RF & _)]].
      rewrite HsF in E1. inversion E1; subst sF'.
      assert (Rs : rel_size s sF) by (eapply rel_size_trans; [apply Hm | exact RF]).
      unfold sound8. destruct (rel_size_span ssF (N.of_nat k) s sF Rs) as [_ Eoff]. rewrite Eoff.
      eapply fits8_later; eauto.
  - rewrite update_nth_other in HX by exact Hne.
    eapply Hg; eauto. eapply mono_list_trans; eauto.
Qed.

Lemma sweep_good ss0 : forall n k ssX p ssY p', sweep n k ssX p = Ok (ssY, p') ->
  Forall inv_s ssX -> good ss0 ssX -> Forall2 mono_s ssX ssY /\ good ss0 ssY.
Proof.
  induction n as [|n IH]; intros k ssX p ssY p' H Hi Hg; cbn [sweep] in H.
  - inversion H; subst. split; [now apply mono_list_refl | exact Hg].
  - destruct (nth_error ssX k) as [s|] eqn:En; [|inversion H; subst; split; [now apply mono_list_refl | exact Hg]].
    destruct (s_fixed s) eqn:Ef; [eapply IH; eauto|].
    apply bind_ok in H as [s' [Hd H]].
    destruct (step_good ss0 ssX k s s' false Hi Hg En Ef Hd) as [M1 G1].
    destruct (IH _ _ _ _ _ H (mono_inv_right _ _ M1) G1) as [M2 G2].
    split; [eapply mono_list_trans; eauto | exact G2].
Qed.

Lemma size_loop_good ss0 : forall fuel ssX ss3, size_loop fuel ssX = Ok ss3 ->
  Forall inv_s ssX -> good ss0 ssX -> Forall2 mono_s ssX ss3 /\ good ss0 ss3.
Proof.
  induction fuel as [|f IH]; intros ssX ss3 H Hi Hg; cbn [size_loop] in H.
  - destruct (all_fixed ssX); [|discriminate]. inversion H; subst. split; [now apply mono_list_refl | exact Hg].
  - destruct (all_fixed ssX); [inversion H; subst; split; [now apply mono_list_refl | exact Hg]|].
    apply bind_ok in H as [[ss1 p] [Hs H]].
    destruct (sweep_good ss0 _ _ _ _ _ _ Hs Hi Hg) as [M1 G1].
    destruct p.
    + destruct (IH _ _ H (mono_inv_right _ _ M1) G1) as [M2 G2]. split; [eapply mono_list_trans; eauto | exact G2].
    + destruct (first_unfixed ss1 0) as [[k s]|] eqn:Efu.
      * destruct (first_unfixed_nth _ _ _ _ Efu) as [j [-> [Hn Hf]]]. cbn [Nat.add] in H.
        apply bind_ok in H as [s' [Hd H]].
        destruct (step_good ss0 ss1 j s s' true (mono_inv_right _ _ M1) G1 Hn Hf Hd) as [M2 G2].
        destruct (IH _ _ H (mono_inv_right _ _ M2) G2) as [M3 G3].
        split; [eapply mono_list_trans; [exact M1|]; eapply mono_list_trans; eauto | exact G3].
      * destruct (IH _ _ H (mono_inv_right _ _ M1) G1) as [M2 G2]. split; [eapply mono_list_trans; eauto | exact G2].
Qed.

(* THE width theorem: a statement the size loop leaves with the 8-bit form passes the 8-bit test
   evaluated on the FINAL sizes *)
Theorem pcr_width_sound fuel ss2 ss3 :
  size_loop fuel ss2 = Ok ss3 -> Forall inv_s ss2 ->
  forall this s2 s3, nth_error ss2 this = Some s2 -> s_fixed s2 = false ->
    nth_error ss3 this = Some s3 -> s_hint s3 = 2 -> sound8 ss3 this s3.
Proof.
  intros H Hi this s2 s3 H2 Hf H3 Hh.
  assert (G0 : good ss2 ss2).
  { intros t s0 sX E0 F0 EX FX. rewrite E0 in EX. inversion EX; subst. congruence. }
  destruct (size_loop_good ss2 _ _ _ H Hi G0) as [M G].
  pose proof (size_loop_all_fixed _ _ _ H) as Hall. unfold all_fixed in Hall. rewrite forallb_forall in Hall.
  eapply G; eauto.
  - apply Hall. eapply nth_error_In; eauto.
  - apply mono_list_refl. eapply mono_inv_right; eauto.
Qed.
