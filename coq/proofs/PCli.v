(* PCli.v — lemmas for C11: what assembler.py writes for each output switch (over MVirtualFile.asm_save
   and MCli.assembler_main), and how the origin Value reaches the container headers (MCli.origin_word). *)
From V Require Import Base.
From V.spec Require Import SpecTape SpecDisk.
From V.model Require Import MText MValues MOperands MProgram.
From V.model Require Import MCassette MDisk MVirtualFile MCli.
From V.proofs Require Import PCassetteW PCassetteR PDiskAlloc PDiskWrite PDiskProps PVirtualFile.
Local Open Scope N_scope.

Local Strategy opaque [slice files_disk list_files_disk render image_of].

(* ====================================================================================== *)
(* 1. the origin: high_byte / low_byte of the Value spell its integer                      *)
(* ====================================================================================== *)

Fixpoint all_below (fuel : nat) (a : N) (P : N -> bool) : bool :=
  match fuel with O => true | S f => P a && all_below f (a + 1) P end.

Lemma all_below_spec : forall fuel a P, all_below fuel a P = true ->
  forall k, a <= k -> k < a + N.of_nat fuel -> P k = true.
Proof.
  induction fuel as [|f IH]; intros a P H k H1 H2.
  - cbn in H2. lia.
  - cbn [all_below] in H. apply andb_true_iff in H as [Ha Hr].
    destruct (N.eq_dec k a) as [->|Hne]; [exact Ha|].
    apply (IH (a + 1) P Hr); [lia|]. rewrite Nat2N.inj_succ in H2. lia.
Qed.

(* a non-negative NumericValue with the given integer and size hint *)
Definition ow (i : N) (h : option N) : N :=
  origin_word (Some (VNum {| n_int := i; n_neg := false; n_hint := h; n_mode := MNone |})).

Lemma origin_word_num_ow n : n_neg n = false -> origin_word (Some (VNum n)) = ow (n_int n) (n_hint n).
Proof. destruct n as [i ng h m]. cbn [n_neg n_int n_hint]. intros ->. reflexivity. Qed.

Lemma ow_none : forall i, i < 65536 -> ow i None = i.
Proof.
  intros i Hi. apply N.eqb_eq.
  apply (all_below_spec (N.to_nat 65536) 0 (fun i => ow i None =? i)); [vm_compute; reflexivity|lia|].
  rewrite N2Nat.id. lia.
Qed.

Lemma ow_four : forall i, i < 65536 -> ow i (Some 4) = i.
Proof.
  intros i Hi. apply N.eqb_eq.
  apply (all_below_spec (N.to_nat 65536) 0 (fun i => ow i (Some 4) =? i)); [vm_compute; reflexivity|lia|].
  rewrite N2Nat.id. lia.
Qed.

Lemma ow_two : forall i, i < 256 -> ow i (Some 2) = i.
Proof.
  intros i Hi. apply N.eqb_eq.
  apply (all_below_spec (N.to_nat 256) 0 (fun i => ow i (Some 2) =? i)); [vm_compute; reflexivity|lia|].
  rewrite N2Nat.id. lia.
Qed.

(* every non-negative NumericValue below 65536 whose size hint is absent, 4, or 2 with a value below
   256 — NumericValue(address) as set_address builds it, `ORG $0E00`, `ORG $10`, `ORG 3584`, an
   EXTENDED-mode operand — reaches the header as its integer *)
Theorem origin_word_num n :
  n_neg n = false -> n_int n < 65536 ->
  (n_hint n = None \/ n_hint n = Some 4 \/ (n_hint n = Some 2 /\ n_int n < 256)) ->
  origin_word (Some (VNum n)) = v_int (VNum n).
Proof.
  intros Hn Hi Hh. rewrite (origin_word_num_ow n Hn). cbn [v_int].
  destruct Hh as [->|[->|[-> H2]]]; [now apply ow_none|now apply ow_four|now apply ow_two].
Qed.

(* NumericValue(address): what Statement.set_address stores *)
Theorem origin_word_numv a v : numv a = Ok v -> origin_word (Some v) = a /\ v_int v = a /\ a < 65536.
Proof.
  unfold numv, num_of_int. cbn [negb andb].
  destruct (65535 <? a) eqn:E; [discriminate|]. apply N.ltb_ge in E.
  unfold init_hint, post_init. cbn [is_ext_mode mode_eqb negb andb].
  destruct (a <? 256) eqn:E2; cbn [bind]; intros H; inversion H; subst v; cbn [v_int n_int].
  - apply N.ltb_lt in E2. split; [|split; [reflexivity|lia]].
    rewrite origin_word_num; cbn [n_neg n_int n_hint v_int]; try reflexivity; try lia. right. right. now split.
  - split; [|split; [reflexivity|lia]].
    rewrite origin_word_num; cbn [n_neg n_int n_hint v_int]; try reflexivity; try lia. now left.
Qed.

Lemma origin_word_absent : origin_word None = 0.
Proof. reflexivity. Qed.

(* ====================================================================================== *)
(* 2. a sequence of invocations: paths nobody else touches                                *)
(* ====================================================================================== *)

Lemma invoke_frame fs j q : i_path j <> q -> fst (invoke fs j) q = fs q.
Proof.
  intros Hq. destruct (invoke_ok fs j) as [[E _]|(img & _ & _ & _ & Hfr & _)]; [now rewrite E|now apply Hfr].
Qed.

Lemma invoke_all_cons fs i l : fst (invoke_all fs (i :: l)) = fst (invoke_all (fst (invoke fs i)) l).
Proof. rewrite !invoke_all_last. reflexivity. Qed.

Lemma invoke_all_app : forall l1 l2 fs,
  fst (invoke_all fs (l1 ++ l2)) = fst (invoke_all (fst (invoke_all fs l1)) l2).
Proof. intros. rewrite !invoke_all_last. apply fold_left_app. Qed.

Lemma invoke_all_frame : forall l fs q, Forall (fun j => i_path j <> q) l -> fst (invoke_all fs l) q = fs q.
Proof.
  induction l as [|j r IH]; intros fs q H; [reflexivity|]. inversion H as [|? ? Hj Hr]; subst.
  rewrite invoke_all_cons, (IH _ q Hr). now apply invoke_frame.
Qed.

Lemma invoke_new fs i img :
  fs (i_path i) = None -> store (i_kind i) (i_append i) None (i_new i) = Ok (Some img) ->
  fst (invoke fs i) (i_path i) = Some img.
Proof. intros Hp Hs. unfold invoke. rewrite Hp, Hs. cbn [classify fst]. apply upd_same. Qed.

Lemma invoke_all_target l1 i l2 fs img :
  Forall (fun j => i_path j <> i_path i) l1 -> Forall (fun j => i_path j <> i_path i) l2 ->
  fs (i_path i) = None -> store (i_kind i) (i_append i) None (i_new i) = Ok (Some img) ->
  fst (invoke_all fs (l1 ++ i :: l2)) (i_path i) = Some img.
Proof.
  intros H1 H2 Hp Hs. rewrite invoke_all_app, invoke_all_cons, (invoke_all_frame l2 _ _ H2).
  apply invoke_new; [|exact Hs]. now rewrite (invoke_all_frame l1 fs _ H1).
Qed.

(* ====================================================================================== *)
(* 3. the save part of assembler.py, switch by switch                                      *)
(* ====================================================================================== *)

(* switch k points at q and no other switch does *)
Definition only_switch (a : asm_args) (k : vkind) (q : path) : Prop :=
  asm_switch a k = Some q /\ forall k', asm_switch a k' = Some q -> k' = k.

Definition mk_inv (a : asm_args) (p : program) (k : vkind) (q : path) : invocation :=
  {| i_path := q; i_kind := k; i_append := s_append a; i_new := [asm_file a p] |}.

Definition opt_inv (a : asm_args) (p : program) (k : vkind) : list invocation :=
  match asm_switch a k with Some q => [mk_inv a p k q] | None => [] end.

Lemma asm_invocations_eq a p :
  asm_invocations a p =
  opt_inv a p KBin ++ match f_name (asm_file a p) with [] => [] | _ => opt_inv a p KCas ++ opt_inv a p KDsk end.
Proof. reflexivity. Qed.

Lemma opt_inv_other a p k k' q : (forall k0, asm_switch a k0 = Some q -> k0 = k) -> k' <> k ->
  Forall (fun j => i_path j <> q) (opt_inv a p k').
Proof.
  intros Hu Hk. unfold opt_inv. destruct (asm_switch a k') as [q'|] eqn:E; constructor; [|constructor].
  cbn [mk_inv i_path]. intros ->. apply Hk. now apply Hu.
Qed.

Lemma store_new_binary append f : store KBin append None [f] = Ok (Some (f_data f)).
Proof.
  unfold store. cbn [open_vf bind]. unfold save_vf. rewrite add_all_kind, add_all_files, add_all_exists.
  cbn [v_kind v_files v_exists app build_image bind andb map concat]. now rewrite app_nil_r.
Qed.

(* --to_bin to a new path: exactly the image *)
Theorem asm_save_bin fs a p q :
  only_switch a KBin q -> fs q = None -> fst (asm_save fs a p) q = Some (p_image p).
Proof.
  intros [Hs Hu] Hq. rewrite asm_save_invoke_all, asm_invocations_eq. unfold opt_inv at 1. rewrite Hs.
  change ([mk_inv a p KBin q] ++ ?r) with ([] ++ mk_inv a p KBin q :: r).
  apply (invoke_all_target [] (mk_inv a p KBin q)); [constructor| |exact Hq|apply store_new_binary].
  destruct (f_name (asm_file a p)); [constructor|]. apply Forall_app. split; apply (opt_inv_other a p KBin); auto; discriminate.
Qed.

(* --to_cas to a new path, with a name: the one-file tape *)
Theorem asm_save_cas fs a p q :
  only_switch a KCas q -> fs q = None -> f_name (asm_file a p) <> [] ->
  fst (asm_save fs a p) q = Some (MCassette.write [to_cfile (asm_file a p)]).
Proof.
  intros [Hs Hu] Hq Hn. rewrite asm_save_invoke_all, asm_invocations_eq.
  destruct (f_name (asm_file a p)) as [|c n] eqn:En; [contradiction|]. unfold opt_inv at 2. rewrite Hs.
  change (opt_inv a p KBin ++ [mk_inv a p KCas q] ++ ?r) with (opt_inv a p KBin ++ mk_inv a p KCas q :: r).
  apply (invoke_all_target _ (mk_inv a p KCas q)).
  - apply (opt_inv_other a p KCas); auto; discriminate.
  - apply (opt_inv_other a p KCas); auto; discriminate.
  - exact Hq.
  - apply store_new_cassette.
Qed.

(* --to_dsk to a new path, with a name, when the file fits on a blank disk: the one-file image *)
Theorem asm_save_dsk fs a p q st :
  only_switch a KDsk q -> fs q = None -> f_name (asm_file a p) <> [] ->
  MDisk.add_files default_order [] [to_dfile (asm_file a p)] = Ok st ->
  fst (asm_save fs a p) q = Some (image_of st).
Proof.
  intros [Hs Hu] Hq Hn Hst. rewrite asm_save_invoke_all, asm_invocations_eq.
  destruct (f_name (asm_file a p)) as [|c n] eqn:En; [contradiction|]. unfold opt_inv at 3. rewrite Hs.
  rewrite app_assoc. change ((?l ++ [mk_inv a p KDsk q])) with (l ++ mk_inv a p KDsk q :: []).
  apply (invoke_all_target _ (mk_inv a p KDsk q)).
  - apply Forall_app. split; apply (opt_inv_other a p KDsk); auto; discriminate.
  - constructor.
  - exact Hq.
  - now apply store_new_disk.
Qed.

(* without any name, no cassette and no disk file is written: every path that --to_bin does not point
   at is what it was *)
Theorem asm_save_noname fs a p q :
  f_name (asm_file a p) = [] -> s_to_bin a <> Some q -> fst (asm_save fs a p) q = fs q.
Proof.
  intros Hn Hb. rewrite asm_save_invoke_all, asm_invocations_eq, Hn, app_nil_r.
  apply invoke_all_frame. unfold opt_inv. cbn [asm_switch].
  destruct (s_to_bin a) as [qb|]; constructor; [|constructor]. cbn [mk_inv i_path]. congruence.
Qed.

(* ====================================================================================== *)
(* 4. what the independent readers see in those images                                     *)
(* ====================================================================================== *)

Definition ml_cfile (name : list byte) (origin : N) (image : list byte) : cfile :=
  {| c_name := name8 8 name; c_type := 2; c_dtype := 0; c_load := origin; c_exec := origin; c_data := image |}.
Definition ml_dfile (name : list byte) (origin : N) (image : list byte) : dfile :=
  {| d_name := canon name; d_ext := [66; 73; 78]; d_type := 2; d_ascii := 0; d_load := origin; d_exec := origin;
     d_data := image |}.

Lemma asm_file_fields a p :
  let f := asm_file a p in
  f_type f = 2 /\ f_dtype f = 0 /\ f_load f = p_origin p /\ f_exec f = p_origin p /\ f_data f = p_image p /\ f_ext f = ext_bin.
Proof. cbv zeta. repeat split. Qed.

Theorem tape_holds_program a p :
  p_origin p < 65536 ->
  SpecTape.parse (MCassette.write [to_cfile (asm_file a p)]) =
  Some [(ml_cfile (f_name (asm_file a p)) (p_origin p) (p_image p), 0)].
Proof.
  intros Ho. rewrite written_tape_wellformed; [reflexivity|]. constructor; [|constructor].
  cbn [to_cfile asm_file c_load c_exec f_load f_exec]. now split.
Qed.

Lemma needed_small f : N.of_nat (length (d_data f)) <= 65535 -> (needed f <= 68)%nat.
Proof.
  intros H. unfold needed, slen.
  assert (Hs : (length (stream f) <= length (d_data f) + 10)%nat).
  { unfold stream. destruct (kind_of (d_type f) (d_ascii f)); cbn [app length]; rewrite ?app_length; cbn [length]; lia. }
  assert (length (stream f) / GR < 67)%nat; [|lia].
  unfold GR. apply Nat.div_lt_upper_bound; lia.
Qed.

Theorem disk_holds_program a p :
  ascii_only (f_name (asm_file a p)) = true -> p_origin p < 65536 -> N.of_nat (length (p_image p)) <= 65535 ->
  exists st, MDisk.add_files default_order [] [to_dfile (asm_file a p)] = Ok st /\
             SpecDisk.fsck (image_of st) = true /\
             SpecDisk.files (image_of st) = Some [ml_dfile (f_name (asm_file a p)) (p_origin p) (p_image p)] /\
             MDisk.list_files (image_of st) = Ok [ml_dfile (f_name (asm_file a p)) (p_origin p) (p_image p)].
Proof.
  intros Ha Ho Hl. set (d := to_dfile (asm_file a p)).
  destruct default_order_ok as [Hok Hlen].
  assert (Hd : N.of_nat (length (d_data d)) <= 65535) by exact Hl.
  destruct (add_file_fits default_order [] d Hok Hlen wf_nil Hd) as (gs & E & _).
  { unfold free. cbn [used map concat length]. apply needed_small. exact Hd. }
  assert (Ea : MDisk.add_files default_order [] [d] = Ok ([] ++ [(d, gs)])).
  { cbn [MDisk.add_files]. rewrite E. reflexivity. }
  exists ([] ++ [(d, gs)]). split; [exact Ea|].
  assert (Hv : Forall valid_dfile [d]).
  { constructor; [|constructor]. unfold valid_dfile. cbn [d to_dfile d_name d_ext d_load d_exec asm_file f_ext f_load f_exec].
    repeat split; try assumption. }
  assert (Hn : map MDisk.norm [d] = [ml_dfile (f_name (asm_file a p)) (p_origin p) (p_image p)]).
  { cbn [map]. unfold MDisk.norm, ml_dfile, canon, dir_name, dir_ext, d. reflexivity. }
  destruct (disk_roundtrip default_order [d] _ (proj1 Hok) Hv Ea) as [H1 H2]. rewrite Hn in H1, H2.
  split; [exact (written_image_valid default_order [d] _ (proj1 Hok) Hv Ea)|]. now split.
Qed.

(* ====================================================================================== *)
(* 5. composition with the assembler model                                                 *)
(* ====================================================================================== *)

(* program.name or args.name *)
Definition effective_name (a : asm_args) (r : result) : list byte :=
  match (match r_name r with Some n => n | None => [] end) with [] => s_name a | n => n end.

Lemma effective_name_eq a r : f_name (asm_file a (program_of_result r)) = effective_name a r.
Proof. reflexivity. Qed.

Lemma main_ok fs a fm lines r : assemble fm lines = Ok r ->
  fst (fst (assembler_main fs a fm lines)) = fst (asm_save fs a (program_of_result r)) /\
  snd (assembler_main fs a fm lines) = 0.
Proof.
  intros H. unfold assembler_main. rewrite H. cbn [classify].
  destruct (asm_save fs a (program_of_result r)) as [fs' ev]. now split.
Qed.

Theorem main_bin fs a fm lines r q :
  assemble fm lines = Ok r -> only_switch a KBin q -> fs q = None ->
  fst (fst (assembler_main fs a fm lines)) q = Some (r_image r).
Proof. intros H Hs Hq. rewrite (proj1 (main_ok fs a fm lines r H)). now apply asm_save_bin. Qed.

Theorem main_cas fs a fm lines r q :
  assemble fm lines = Ok r -> only_switch a KCas q -> fs q = None ->
  effective_name a r <> [] -> origin_word (r_origin r) < 65536 ->
  exists img, fst (fst (assembler_main fs a fm lines)) q = Some img /\
    img = MCassette.write [to_cfile (asm_file a (program_of_result r))] /\
    SpecTape.parse img = Some [(ml_cfile (effective_name a r) (origin_word (r_origin r)) (r_image r), 0)].
Proof.
  intros H Hs Hq Hn Ho. eexists. split; [|split; [reflexivity|]].
  - rewrite (proj1 (main_ok fs a fm lines r H)). now apply asm_save_cas.
  - exact (tape_holds_program a (program_of_result r) Ho).
Qed.

Theorem main_dsk fs a fm lines r q :
  assemble fm lines = Ok r -> only_switch a KDsk q -> fs q = None ->
  effective_name a r <> [] -> ascii_only (effective_name a r) = true ->
  origin_word (r_origin r) < 65536 -> N.of_nat (length (r_image r)) <= 65535 ->
  exists st, fst (fst (assembler_main fs a fm lines)) q = Some (image_of st) /\
    MDisk.add_files default_order [] [to_dfile (asm_file a (program_of_result r))] = Ok st /\
    SpecDisk.fsck (image_of st) = true /\
    SpecDisk.files (image_of st) = Some [ml_dfile (effective_name a r) (origin_word (r_origin r)) (r_image r)].
Proof.
  intros H Hs Hq Hn Ha Ho Hl.
  destruct (disk_holds_program a (program_of_result r) Ha Ho Hl) as (st & Ea & Hf & Hfl & _).
  exists st. split; [|split; [exact Ea|split; [exact Hf|exact Hfl]]].
  rewrite (proj1 (main_ok fs a fm lines r H)). now apply asm_save_dsk.
Qed.

Theorem main_noname fs a fm lines r q :
  assemble fm lines = Ok r -> effective_name a r = [] -> s_to_bin a <> Some q ->
  fst (fst (assembler_main fs a fm lines)) q = fs q.
Proof. intros H Hn Hb. rewrite (proj1 (main_ok fs a fm lines r H)). now apply asm_save_noname. Qed.

(* an assembly error saves nothing *)
Theorem main_error fs a fm lines e :
  classify (assemble fm lines) = inr e -> assembler_main fs a fm lines = (fs, [EError e], 1).
Proof. intros H. unfold assembler_main. now rewrite H. Qed.
