(* PFrames.v — what each pass of Program.translate_statements leaves untouched:
   the size loop changes only post-byte / size / max_size / fixed / hint of undecided statements,
   fix_addresses changes only the operand bytes (additional).  Used by C02 and C03. *)
From V Require Import Base.
From V.model Require Import MText MValues MOperands MProgram.
From V.proofs Require Import PLayout.
From V.gen Require Tables.
Local Open Scope N_scope.

(* ---------- Forall2 helpers ---------- *)
Lemma Forall2_nth {A B} (R : A -> B -> Prop) : forall l l' i a, Forall2 R l l' -> nth_error l i = Some a ->
  exists b, nth_error l' i = Some b /\ R a b.
Proof.
  induction l as [|x l IH]; intros l' i a H Hn; [destruct i; discriminate|].
  inversion H; subst. destruct i as [|i]; cbn in Hn.
  - inversion Hn; subst. eexists; split; [reflexivity | assumption].
  - cbn. eapply IH; eauto.
Qed.
Lemma Forall2_nth_r {A B} (R : A -> B -> Prop) : forall l l' i b, Forall2 R l l' -> nth_error l' i = Some b ->
  exists a, nth_error l i = Some a /\ R a b.
Proof.
  induction l as [|x l IH]; intros l' i b H Hn; inversion H; subst; [destruct i; discriminate|].
  destruct i as [|i]; cbn in Hn.
  - inversion Hn; subst. eexists; split; [reflexivity | assumption].
  - cbn. eapply IH; eauto.
Qed.
Lemma Forall2_refl {A} (R : A -> A -> Prop) : (forall a, R a a) -> forall l, Forall2 R l l.
Proof. intros H. induction l; constructor; auto. Qed.
Lemma Forall2_trans {A} (R : A -> A -> Prop) : (forall a b c, R a b -> R b c -> R a c) ->
  forall l1 l2 l3, Forall2 R l1 l2 -> Forall2 R l2 l3 -> Forall2 R l1 l3.
Proof.
  intros Ht. induction l1 as [|a l1 IH]; intros l2 l3 H1 H2; inversion H1; subst; inversion H2; subst; constructor; eauto.
Qed.
Lemma Forall2_update {A} (R : A -> A -> Prop) : (forall a, R a a) -> forall k l a a', nth_error l k = Some a -> R a a' ->
  Forall2 R l (update_nth k a' l).
Proof.
  intros Hr. induction k as [|k IH]; intros [|x l] a a' Hn Ha; cbn in Hn; try discriminate; cbn [update_nth].
  - inversion Hn; subst. constructor; [assumption | now apply Forall2_refl].
  - constructor; [apply Hr | eapply IH; eauto].
Qed.

(* ---------- the size loop ---------- *)
Definition rel_size (s s' : stmt) : Prop :=
  s_label s' = s_label s /\ s_instr s' = s_instr s /\ s_operand s' = s_operand s /\ s_opstr s' = s_opstr s /\
  cp_op (s_pkg s') = cp_op (s_pkg s) /\ cp_addr (s_pkg s') = cp_addr (s_pkg s) /\ cp_add (s_pkg s') = cp_add (s_pkg s) /\
  cp_needs (s_pkg s') = cp_needs (s_pkg s) /\ cp_choices (s_pkg s') = cp_choices (s_pkg s) /\
  (s_fixed s = true -> s' = s).

Lemma rel_size_refl s : rel_size s s. Proof. unfold rel_size. repeat split; auto. Qed.
Lemma rel_size_trans a b c : rel_size a b -> rel_size b c -> rel_size a c.
Proof.
  unfold rel_size. intros (A1&A2&A3&A4&A5&A6&A7&A8&A9&A10) (B1&B2&B3&B4&B5&B6&B7&B8&B9&B10).
  repeat split; try congruence. intros Hf. specialize (A10 Hf). subst b. auto.
Qed.

Lemma pcr_pick_rel s k add hint s' : s_fixed s = false -> pcr_pick s k add hint = Ok s' -> rel_size s s'.
Proof.
  unfold pcr_pick. intros Hf H. destruct (nth_error _ k); [|discriminate]. apply bind_ok in H as [pv [_ H]].
  inversion H; subst. unfold rel_size, set_pkg. cbn. repeat split; auto. rewrite Hf. discriminate.
Qed.

Lemma determine_rel ss k force s s' : s_fixed s = false -> determine ss k force s = Ok s' -> rel_size s s'.
Proof.
  unfold determine. intros Hf H. destruct (pcr_span ss k s) as [[bw mn] mx]. destruct (pcr_offset s force) as [off f'].
  destruct (_ && negb f'); [eapply pcr_pick_rel; eauto|].
  destruct (f' || _ || _); [eapply pcr_pick_rel; eauto|]. inversion H; subst. apply rel_size_refl.
Qed.

Lemma sweep_rel : forall n k ss progress ss' p', sweep n k ss progress = Ok (ss', p') -> Forall2 rel_size ss ss'.
Proof.
  induction n as [|n IH]; intros k ss progress ss' p' H; cbn [sweep] in H.
  - inversion H; subst. apply Forall2_refl, rel_size_refl.
  - destruct (nth_error ss k) as [s|] eqn:En; [|inversion H; subst; apply Forall2_refl, rel_size_refl].
    destruct (s_fixed s) eqn:Ef; [eapply IH; eauto|].
    apply bind_ok in H as [s1 [Hd H]].
    eapply Forall2_trans; [apply rel_size_trans | | eapply IH; eauto].
    eapply Forall2_update; [apply rel_size_refl | exact En | eapply determine_rel; eauto].
Qed.

Lemma first_unfixed_nth : forall ss k0 k s, first_unfixed ss k0 = Some (k, s) ->
  exists j, k = (k0 + j)%nat /\ nth_error ss j = Some s /\ s_fixed s = false.
Proof.
  induction ss as [|x ss IH]; intros k0 k s H; cbn [first_unfixed] in H; [discriminate|].
  destruct (s_fixed x) eqn:Ef.
  - destruct (IH _ _ _ H) as [j [-> [Hn Hs]]]. exists (S j). split; [lia|]. auto.
  - inversion H; subst. exists 0%nat. split; [lia|]. auto.
Qed.

Theorem size_loop_rel : forall fuel ss ss', size_loop fuel ss = Ok ss' -> Forall2 rel_size ss ss'.
Proof.
  induction fuel as [|f IH]; intros ss ss' H; cbn [size_loop] in H.
  - destruct (all_fixed ss); [|discriminate]. inversion H; subst. apply Forall2_refl, rel_size_refl.
  - destruct (all_fixed ss); [inversion H; subst; apply Forall2_refl, rel_size_refl|].
    apply bind_ok in H as [[ss1 p] [Hs H]]. pose proof (sweep_rel _ _ _ _ _ _ Hs) as R1.
    destruct p.
    + eapply Forall2_trans; [apply rel_size_trans | exact R1 | eapply IH; eauto].
    + destruct (first_unfixed ss1 0) as [[k s]|] eqn:Efu.
      * destruct (first_unfixed_nth _ _ _ _ Efu) as [j [-> [Hn Hf]]]. cbn [Nat.add] in H.
        apply bind_ok in H as [s1 [Hd H]].
        eapply Forall2_trans; [apply rel_size_trans | exact R1 |].
        eapply Forall2_trans; [apply rel_size_trans | | eapply IH; eauto].
        eapply Forall2_update; [apply rel_size_refl | exact Hn | eapply determine_rel; eauto].
      * eapply Forall2_trans; [apply rel_size_trans | exact R1 | eapply IH; eauto].
Qed.

(* every statement is decided when the loop ends *)
Theorem size_loop_all_fixed : forall fuel ss ss', size_loop fuel ss = Ok ss' -> all_fixed ss' = true.
Proof.
  induction fuel as [|f IH]; intros ss ss' H; cbn [size_loop] in H.
  - destruct (all_fixed ss) eqn:E; [|discriminate]. now inversion H; subst.
  - destruct (all_fixed ss) eqn:E; [now inversion H; subst|].
    apply bind_ok in H as [[ss1 p] [Hs H]]. destruct p; [eapply IH; eauto|].
    destruct (first_unfixed ss1 0) as [[k s]|]; [|eapply IH; eauto].
    apply bind_ok in H as [s1 [Hd H]]. eapply IH; eauto.
Qed.

(* ---------- fix_addresses ---------- *)
Definition rel_fix (s s' : stmt) : Prop :=
  s_label s' = s_label s /\ s_instr s' = s_instr s /\ s_operand s' = s_operand s /\ s_opstr s' = s_opstr s /\
  s_fixed s' = s_fixed s /\ s_hint s' = s_hint s /\
  cp_op (s_pkg s') = cp_op (s_pkg s) /\ cp_addr (s_pkg s') = cp_addr (s_pkg s) /\ cp_post (s_pkg s') = cp_post (s_pkg s) /\
  cp_size (s_pkg s') = cp_size (s_pkg s) /\ cp_needs (s_pkg s') = cp_needs (s_pkg s) /\
  cp_choices (s_pkg s') = cp_choices (s_pkg s) /\ cp_max (s_pkg s') = cp_max (s_pkg s).

Lemma rel_fix_refl s : rel_fix s s. Proof. unfold rel_fix. repeat split; auto. Qed.
Lemma rel_fix_with_add s a : rel_fix s (with_add s a). Proof. unfold rel_fix, with_add, set_pkg. cbn. repeat split; auto. Qed.
Lemma rel_fix_trans a b c : rel_fix a b -> rel_fix b c -> rel_fix a c.
Proof. unfold rel_fix. intros (A1&A2&A3&A4&A5&A6&A7&A8&A9&A10&A11&A12&A13) (B1&B2&B3&B4&B5&B6&B7&B8&B9&B10&B11&B12&B13). repeat split; congruence. Qed.

Ltac inv_ok H := repeat (match type of H with
  | bind _ _ = Ok _ => let x := fresh "x" in let Hx := fresh "Hx" in apply bind_ok in H as [x [Hx H]]
  | (if ?b then _ else _) = Ok _ => destruct b
  | (match ?v with _ => _ end) = Ok _ => destruct v
  | Diag _ = Ok _ => discriminate H
  | Internal _ = Ok _ => discriminate H
  | OutOfFuel = Ok _ => discriminate H
  | Unmodelled = Ok _ => discriminate H
  end).

Ltac inv_all := repeat match goal with
  | H : bind _ _ = Ok _ |- _ => let x := fresh "x" in let Hx := fresh "Hx" in apply bind_ok in H as [x [Hx H]]
  | H : (if ?b then _ else _) = Ok _ |- _ => destruct b
  | H : (match ?v with _ => _ end) = Ok _ |- _ => destruct v
  | H : Diag _ = Ok _ |- _ => discriminate H
  | H : Internal _ = Ok _ |- _ => discriminate H
  | H : OutOfFuel = Ok _ |- _ => discriminate H
  | H : Unmodelled = Ok _ |- _ => discriminate H
  | H : Ok _ = Ok _ |- _ => inversion H; subst; clear H
  end.

Lemma fix_stmt_rel ss k s s' : fix_stmt ss k s = Ok s' -> rel_fix s s'.
Proof.
  unfold fix_stmt. intros H.
  set (ov := operand_value (s_operand s)) in *. clearbody ov.
  set (sg := match s_operand s with ODirect _ => false | _ => true end) in *. clearbody sg.
  set (dg := match s_operand s with OImmediate _ => _ | _ => _ end) in *. clearbody dg.
  set (ol := operand_left (s_operand s)) in *. clearbody ol.
  destruct (is_relative_op (s_operand s)).
  - destruct (v_int _ <=? k).
    + destruct (_ && _); [discriminate|]. apply bind_ok in H as [nn [_ H]]. inversion H; subst. apply rel_fix_with_add.
    + destruct (_ && _); [discriminate|]. apply bind_ok in H as [nn [_ H]]. inversion H; subst. apply rel_fix_with_add.
  - inv_all;
      repeat first [apply rel_fix_refl | apply rel_fix_with_add | (eapply rel_fix_trans; [|apply rel_fix_with_add])].
Qed.

Lemma fix_all_rel all : forall ss k ss', fix_all all ss k = Ok ss' -> Forall2 rel_fix ss ss'.
Proof.
  induction ss as [|s r IH]; intros k ss' H; cbn [fix_all] in H.
  - inversion H; subst. constructor.
  - apply bind_ok in H as [s1 [H1 H]]. apply bind_ok in H as [rest [Hr H]]. inversion H; subst.
    constructor; [eapply fix_stmt_rel; eauto | eapply IH; eauto].
Qed.
