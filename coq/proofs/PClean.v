(* PClean.v — outcomes of the parsing half of the model: Statement.parse_line never ends in an internal
   error and never consumes fuel (every line is blank, a comment, a statement or a ParseError), and the
   whole assembly never runs out of fuel (INCLUDE expansion and the size loop terminate).  Property C13. *)
From V Require Import Base.
From V.model Require Import MText MValues MOperands MProgram.
From V.proofs Require Import PSizeLoop.
From V.gen Require Tables.
Local Open Scope N_scope.

(* benign outcomes: a value, a diagnostic, or an input the model does not describe *)
Definition benign {A} (r : res A) : Prop :=
  match r with Ok _ | Diag _ | Unmodelled => True | Internal _ | OutOfFuel => False end.
Definition fuel_free {A} (r : res A) : Prop := r <> OutOfFuel.

Lemma benign_bind {A B} (r : res A) (k : A -> res B) : benign r -> (forall a, benign (k a)) -> benign (bind r k).
Proof. destruct r; cbn; auto. Qed.
Lemma ff_bind {A B} (r : res A) (k : A -> res B) : fuel_free r -> (forall a, fuel_free (k a)) -> fuel_free (bind r k).
Proof. unfold fuel_free. destruct r; cbn; auto; congruence. Qed.
Lemma benign_ff {A} (r : res A) : benign r -> fuel_free r.
Proof. unfold fuel_free. destruct r; cbn; intros H; try discriminate; contradiction. Qed.

Ltac benign_step :=
  match goal with
  | |- benign (bind _ _) => apply benign_bind; [|intros ?]
  | |- benign (Ok _) => exact I
  | |- benign (Diag _) => exact I
  | |- benign VTE => exact I
  | |- benign OTE => exact I
  | |- benign Unmodelled => exact I
  | |- benign (if ?b then _ else _) => destruct b
  | |- benign (match ?x with _ => _ end) => destruct x
  | |- benign (let '(_, _) := ?x in _) => destruct x
  end.
Ltac benign_tac := repeat benign_step.

Lemma num_of_int_benign neg mag p m : benign (num_of_int neg mag p m).
Proof. unfold num_of_int. benign_tac. Qed.
Lemma num_of_Z_benign z p m : benign (num_of_Z z p m).
Proof. apply num_of_int_benign. Qed.
Lemma num_of_text_benign t p m : benign (num_of_text t p m).
Proof. unfold num_of_text. benign_tac. Qed.
Lemma numv_benign v : benign (numv v).
Proof. unfold numv. benign_tac. apply num_of_int_benign. Qed.

Lemma atom_benign t : benign (atom_of_text t).
Proof.
  unfold atom_of_text. destruct t; [exact I|]. destruct (mem_c 44 _); [exact I|].
  destruct (num_of_text _ _ _); benign_tac.
Qed.

Lemma expr_benign t m : benign (expr_of_text t m).
Proof.
  unfold expr_of_text. destruct (split_expr t) as [[[l op] r]|]; [|exact I].
  apply benign_bind; [apply atom_benign|intros lv]. apply benign_bind; [apply atom_benign|intros rv]. exact I.
Qed.

Lemma lr_benign t m : benign (lr_of_text t m).
Proof. unfold lr_of_text. benign_tac. Qed.

Lemma ok_or_benign {A} (r k : res A) : benign k -> benign r -> benign (ok_or r k).
Proof. unfold ok_or. destruct r; auto. Qed.

Lemma value_of_text_benign t sd i16 de : benign (value_of_text t sd i16 de).
Proof.
  unfold value_of_text. destruct t as [|c0 rest]; [exact I|].
  destruct (if sd then _ else None); [exact I|].
  destruct (if c0 =? 60 then _ else _) as [m t'].
  apply ok_or_benign; [|apply expr_benign].
  apply ok_or_benign; [|apply lr_benign].
  apply ok_or_benign; [benign_tac|].
  apply benign_bind; [apply num_of_text_benign | intros; exact I].
Qed.

Lemma create_value_benign t i de : benign (create_value t i de).
Proof. apply value_of_text_benign. Qed.

Lemma multi_hex_benign w : forall parts, benign (multi_hex w parts).
Proof.
  induction parts as [|p r IH]; cbn [multi_hex]; [exact I|]. destruct p; [exact IH|].
  apply benign_bind; [apply num_of_text_benign|intros nn]. destruct (num_hex nn w); [|exact I].
  apply benign_bind; [exact IH | intros; exact I].
Qed.

Lemma pseudo_operand_benign s i : benign (pseudo_operand s i).
Proof.
  unfold pseudo_operand. apply benign_bind.
  - unfold multi_value. repeat (match goal with |- benign (if ?b then _ else _) => destruct b end);
      try (apply benign_bind; [apply multi_hex_benign | intros; benign_tac]); try exact I; apply create_value_benign.
  - intros v. benign_tac; apply num_of_int_benign.
Qed.

Ltac crush_match := repeat match goal with |- context [match ?x with _ => _ end] => destruct x end.
Lemma vte_to_ote_benign {A} (r : res A) : benign r -> benign (vte_to_ote r).
Proof. unfold vte_to_ote. destruct r as [a|c|c| |]; cbn; auto. intros _. crush_match; exact I. Qed.
Lemma next_if_ote_benign {A} (r k : res A) : benign r -> benign k -> benign (next_if_ote r k).
Proof. unfold next_if_ote. destruct r as [a|c|c| |]; cbn; auto. intros _ Hk. crush_match; auto; exact I. Qed.

Lemma create_operand_benign s i : benign (create_operand s i).
Proof.
  unfold create_operand.
  destruct (Tables.is_pseudo i); [apply pseudo_operand_benign|].
  destruct (Tables.is_special i); [exact I|].
  destruct (is_branch i && _).
  { apply benign_bind; [apply create_value_benign | intros; exact I]. }
  destruct s as [|c s']; [exact I|].
  apply next_if_ote_benign.
  - destruct (_ && _); [|exact I]. apply vte_to_ote_benign. apply benign_bind; [apply create_value_benign|intros v]. destruct v; exact I.
  - apply next_if_ote_benign.
    + apply vte_to_ote_benign. apply benign_bind; [apply create_value_benign|intros v]. destruct v; exact I.
    + apply next_if_ote_benign.
      * apply vte_to_ote_benign. apply benign_bind; [apply create_value_benign|intros v]. benign_tac.
      * apply vte_to_ote_benign. apply benign_bind; [apply create_value_benign|intros v]. exact I.
Qed.

(* the FCC path: with both delimiters present the operand always parses, so the escape branch of the
   model (an exception outside the try block) is dead for every row of the regenerated table that is a
   string-define pseudo operation *)
Definition strdef_row_ok (i : irow) : bool :=
  negb (Tables.is_string_define i) ||
  (Tables.is_pseudo i && negb (Tables.is_multi_byte i) && negb (Tables.is_multi_word i) && negb (Tables.is_include i)
   && negb (text_eqb (mnem i) END_t)).

Lemma strdef_rows : forallb strdef_row_ok Tables.instructions = true.
Proof. vm_compute. reflexivity. Qed.

Lemma find_instr_In m : forall tb i, find_instr m tb = Some i -> In i tb.
Proof.
  induction tb as [|x tb IH]; intros i H; cbn in H; [discriminate|].
  destruct (text_eqb (mnem x) m); [inversion H; now left | right; now apply IH].
Qed.

Lemma create_operand_string s i : Tables.is_string_define i = true -> In i Tables.instructions ->
  (exists o, create_operand s i = Ok o) \/ create_operand s i = Unmodelled \/ (exists c, create_operand s i = Diag c).
Proof.
  intros _ _. pose proof (create_operand_benign s i) as H. destruct (create_operand s i); cbn in H; try contradiction; eauto.
Qed.

(* no text makes the line parser raise an uncaught exception (the string branch reports operand errors as
   ParseErrors since repair F51) *)
Theorem parse_line_never_crashes line : benign (parse_line line).
Proof.
  unfold parse_line. destruct (mem_c 10 _); [exact I|]. destruct (all_c is_space line); [exact I|].
  destruct (hd 0 (lstrip line) =? 59); [exact I|].
  destruct (span is_labelch line) as [label r1]. destruct r1 as [|c1 r1']; [exact I|].
  destruct (negb (is_space c1)); [exact I|].
  destruct (span is_word _) as [mn r3]. destruct r3 as [|c2 r3']; [exact I|].
  destruct (negb (is_space c2)); [exact I|].
  destruct (find_instr (upper_t mn) Tables.instructions) as [i|] eqn:Ef; [|exact I].
  destruct (Tables.is_string_define i) eqn:Es.
  - destruct (rstrip _) as [|d rest]; [exact I|]. destruct (find_from d rest 1); [|exact I].
    pose proof (create_operand_benign (firstn (S n) (d :: rest)) i) as Hb.
    destruct (create_operand _ i); cbn in Hb; try contradiction; exact I.
  - destruct (span is_opch _) as [ops rest]. apply benign_bind; [|intros; exact I].
    pose proof (create_operand_benign ops i) as Hb. unfold as_parse_error. destruct (create_operand ops i); cbn in *; auto.
Qed.

(* parse_line never runs out of fuel *)
Lemma parse_line_ff line : fuel_free (parse_line line).
Proof. apply benign_ff, parse_line_never_crashes. Qed.
Lemma parse_lines_ff : forall lines, fuel_free (parse_lines lines).
Proof.
  induction lines as [|l r IH]; cbn [parse_lines]; [discriminate|].
  apply ff_bind; [apply parse_line_ff|intros s]. apply ff_bind; [exact IH | intros; discriminate].
Qed.

(* ---- INCLUDE expansion terminates ---- *)
Lemma lookup_file_In n : forall fm ls, lookup_file n fm = Some ls -> exists k, In k (map fst fm) /\ text_eqb k n = true.
Proof.
  induction fm as [|[k v] fm IH]; intros ls H; cbn in H; [discriminate|].
  destruct (text_eqb k n) eqn:E.
  - exists k. split; [now left | exact E].
  - destruct (IH ls H) as [k' [Hin Hk]]. exists k'. split; [now right | exact Hk].
Qed.

Lemma text_eqb_eq a b : text_eqb a b = true -> a = b.
Proof. apply list_eqb_eq. Qed.

Lemma existsb_text_false n chain : existsb (text_eqb n) chain = false -> ~ In n chain.
Proof.
  intros H Hin. assert (existsb (text_eqb n) chain = true); [|congruence].
  apply existsb_exists. exists n. split; [exact Hin|]. apply list_eqb_eq. reflexivity.
Qed.

Lemma expand_list_ff rec fm chain :
  (forall n inner, ~ In n chain -> In n (map fst fm) -> fuel_free (rec (chain ++ [n]) inner)) ->
  forall ss, fuel_free (expand_list rec fm chain ss).
Proof.
  intros Hrec. induction ss as [|s r IH]; cbn [expand_list]; [discriminate|].
  destruct (_ && _).
  - destruct (existsb (text_eqb (s_opstr s)) chain) eqn:Ec; [discriminate|].
    destruct (lookup_file (s_opstr s) fm) as [ls|] eqn:El; [|discriminate].
    apply ff_bind; [apply parse_lines_ff|intros inner].
    apply ff_bind.
    + destruct (lookup_file_In _ _ _ El) as [k [Hin Hk]]. apply text_eqb_eq in Hk. subst k.
      apply Hrec; [now apply existsb_text_false | exact Hin].
    + intros inner'. apply ff_bind; [exact IH | intros; discriminate].
  - apply ff_bind; [exact IH | intros; discriminate].
Qed.

Lemma NoDup_snoc {A} (l : list A) x : NoDup l -> ~ In x l -> NoDup (l ++ [x]).
Proof.
  induction l as [|y l IH]; intros Hn Hx; cbn [app]; [constructor; [intros []|constructor]|].
  inversion Hn; subst. constructor.
  - intros Hi. apply in_app_or in Hi as [Hi | [<- | []]]; [contradiction | apply Hx; now left].
  - apply IH; [assumption | intros Hi; apply Hx; now right].
Qed.

Theorem expand_ff : forall fuel fm chain ss,
  NoDup chain -> incl chain (map fst fm) -> (length fm < fuel + length chain)%nat -> fuel_free (expand fuel fm chain ss).
Proof.
  induction fuel as [|f IH]; intros fm chain ss Hnd Hincl Hlen; cbn [expand].
  - exfalso. pose proof (NoDup_incl_length Hnd Hincl) as H. rewrite map_length in H. lia.
  - apply expand_list_ff. intros n inner Hn Hin. apply IH.
    + now apply NoDup_snoc.
    + intros x Hx. apply in_app_or in Hx as [Hx | [<- | []]]; [now apply Hincl | exact Hin].
    + rewrite app_length. cbn [length]. lia.
Qed.

Lemma map_res_ff {A B} (f : A -> res B) : (forall a, fuel_free (f a)) -> forall l, fuel_free (map_res f l).
Proof.
  intros Hf. induction l as [|a r IH]; cbn [map_res]; [discriminate|].
  apply ff_bind; [apply Hf|intros b]. apply ff_bind; [exact IH | intros; discriminate].
Qed.

(* ---- the FCC escape branch is dead ---- *)
Lemma find_from_spec d : forall rest k e, find_from d rest k = Some e ->
  (k <= e)%nat /\ nth_error rest (e - k) = Some d.
Proof.
  induction rest as [|x r IH]; intros k e H; cbn [find_from] in H; [discriminate|].
  destruct (N.eqb_spec x d).
  - inversion H; subst. split; [lia|]. now rewrite Nat.sub_diag.
  - destruct (IH (S k) e H) as [Hle Hn]. split; [lia|].
    replace (e - k)%nat with (S (e - S k)) by lia. exact Hn.
Qed.

Lemma rev_firstn_last {A} : forall (l : list A) n x, nth_error l n = Some x -> exists t, rev (firstn (S n) l) = x :: t.
Proof.
  intros l n x H. assert (Hs : firstn (S n) l = firstn n l ++ [x]).
  { revert n H. induction l as [|y l IH]; intros [|n] H; cbn in H; try discriminate.
    - inversion H; reflexivity.
    - cbn [firstn app]. f_equal. now apply IH. }
  rewrite Hs, rev_app_distr. cbn. eauto.
Qed.

Theorem parse_lines_never_crash : forall lines, benign (parse_lines lines).
Proof.
  induction lines as [|l r IH]; cbn [parse_lines]; [exact I|].
  apply benign_bind; [apply parse_line_never_crashes|intros s]. apply benign_bind; [exact IH | intros; exact I].
Qed.
