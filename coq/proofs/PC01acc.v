(* PC01acc.v — acceptance: a numeric operand whose addressing mode the table offers for the mnemonic and whose value
   fits the operand field is ACCEPTED by translate (C01: "every valid statement is accepted"), for the operand
   classes reached from literal operand text (PC01text). *)
From V Require Import Base.
From V.spec Require Import Spec6809.
From V.model Require Import MText MValues MOperands MProgram.
From V.proofs Require Import PLayout PRender PC12 PC01text.
From V.gen Require Tables.
From Coq Require Import ZifyNat ZifyN ZifyBool.
Local Open Scope N_scope.
Ltac Zify.zify_post_hook ::= Z.div_mod_to_equations.

Lemma numv_total v : v <= 65535 -> exists x, numv v = Ok x.
Proof.
  intros H. unfold numv, num_of_int. assert (E : 65535 <? v = false) by (apply N.ltb_ge; lia). rewrite E. cbn [negb andb].
  destruct (post_init _ _ _). eexists. reflexivity.
Qed.

(* fit_value succeeds on a non-negative number below 16^digits (and 65536) *)
Lemma fit_value_total n d sg : n_neg n = false -> n_int n <= 65535 -> (Z.of_N (n_int n) < 16 ^ Z.of_N d)%Z ->
  exists a, fit_value (VNum n) d sg = Ok a.
Proof.
  intros Hneg H16 Hlt. unfold fit_value. cbn [v_negative v_int]. rewrite Hneg.
  assert (E1 : (16 ^ Z.of_N d <=? Z.of_N (n_int n))%Z = false) by (apply Z.leb_gt; exact Hlt).
  assert (E2 : (Z.of_N (n_int n) <? (if sg then - (16 ^ Z.of_N d / 2) else 0))%Z = false).
  { apply Z.ltb_ge. destruct sg; [|lia]. assert (0 < 16 ^ Z.of_N d)%Z by (apply Z.pow_pos_nonneg; lia). lia. }
  rewrite E1, E2. cbn [orb]. unfold num_of_Z, num_of_int.
  assert (E3 : (Z.of_N (n_int n) <? 0)%Z = false) by (apply Z.ltb_ge; lia). rewrite E3. cbn [negb andb].
  assert (E4 : 65535 <? Z.to_N (Z.abs (Z.of_N (n_int n))) = false) by (apply N.ltb_ge; lia). rewrite E4.
  destruct (post_init _ _ _). eexists. reflexivity.
Qed.

Lemma opt_ok_some o f opc : opt_ok o f = true -> o = Some opc -> f opc = true.
Proof. intros H ->. exact H. Qed.

Section Accept.
Variables (i : irow) (n : num).
Hypothesis Hok : row_ok i = true.
Hypothesis Hp : Tables.is_pseudo i = false.
Hypothesis Hneg : n_neg n = false.
Hypothesis H16 : n_int n <= 65535.

Lemma simple_pkg_total opc a sz : opc < 65536 -> exists p, simple_pkg opc a sz = Ok p.
Proof. intros H. unfold simple_pkg. destruct (numv_total opc ltac:(lia)) as [x Hx]. rewrite Hx. eexists. reflexivity. Qed.

Theorem immediate_accepted opc : Tables.is_special i = false -> Tables.imm i = Some opc ->
  (Z.of_N (n_int n) < 16 ^ Z.of_N (imm_digits i))%Z ->
  exists p, translate_operand (OImmediate (VNum n)) i = Ok p.
Proof.
  intros Hs Hm Hfit. destruct (row_ok_real i Hok Hp) as (_ & Himm & _). pose proof (opt_ok_some _ _ _ Himm Hm) as He. cbv beta in He.
  rewrite Hs in He. assert (Hlt : opc < 65536).
  { apply orb_true_iff in He as [He | He]; apply andb_true_iff in He as [He _]; exact (proj1 (entry_is_spec _ _ _ He)). }
  cbn [translate_operand]. rewrite Hm. cbn [opt_op v_is_numeric].
  destruct (fit_value_total n (imm_digits i) true Hneg H16 Hfit) as [a Ha]. rewrite Ha. cbn [bind]. now apply simple_pkg_total.
Qed.

Theorem direct_accepted opc : Tables.dir i = Some opc -> n_int n <= 255 ->
  exists p, translate_operand (ODirect (VNum n)) i = Ok p.
Proof.
  intros Hm Hfit. destruct (row_ok_real i Hok Hp) as (_ & _ & Hdir & _). pose proof (opt_ok_some _ _ _ Hdir Hm) as He. cbv beta in He.
  apply andb_true_iff in He as [He _]. pose proof (proj1 (entry_is_spec _ _ _ He)) as Hlt.
  cbn [translate_operand]. rewrite Hm. cbn [opt_op v_is_numeric].
  destruct (fit_value_total n 2 false Hneg H16 ltac:(change (16 ^ Z.of_N 2)%Z with 256%Z; lia)) as [a Ha]. rewrite Ha. cbn [bind].
  now apply simple_pkg_total.
Qed.

Theorem extended_accepted opc : Tables.ext i = Some opc ->
  exists p, translate_operand (OExtended (VNum n)) i = Ok p.
Proof.
  intros Hm. destruct (row_ok_real i Hok Hp) as (_ & _ & _ & _ & Hext). pose proof (opt_ok_some _ _ _ Hext Hm) as He. cbv beta in He.
  apply andb_true_iff in He as [He _]. pose proof (proj1 (entry_is_spec _ _ _ He)) as Hlt.
  cbn [translate_operand]. rewrite Hm. cbn [opt_op v_is_numeric].
  destruct (fit_value_total n 4 true Hneg H16 ltac:(change (16 ^ Z.of_N 4)%Z with 65536%Z; lia)) as [a Ha]. rewrite Ha. cbn [bind].
  now apply simple_pkg_total.
Qed.

Theorem indirect_accepted opc s l r : Tables.ind i = Some opc ->
  exists p, translate_operand (OExtIdx s (VNum n) l r) i = Ok p.
Proof.
  intros Hm. destruct (row_ok_real i Hok Hp) as (_ & _ & _ & Hind & _). pose proof (opt_ok_some _ _ _ Hind Hm) as He. cbv beta in He.
  apply andb_true_iff in He as [He _]. pose proof (proj1 (entry_is_spec _ _ _ He)) as Hlt.
  cbn [translate_operand]. rewrite Hm. cbn [opt_op].
  destruct (fit_value_total n 4 true Hneg H16 ltac:(change (16 ^ Z.of_N 4)%Z with 65536%Z; lia)) as [a Ha]. rewrite Ha. cbn [bind].
  unfold mk_idx_pkg. destruct (numv_total opc ltac:(lia)) as [x Hx]. rewrite Hx. cbn [bind].
  destruct (numv_total 159 ltac:(lia)) as [y Hy]. rewrite Hy. eexists. reflexivity.
Qed.
End Accept.

(* ---------- the value of a literal is a 16-bit quantity ---------- *)
Lemma parse_base16_bound : forall ds acc, forallb is_hexdigit ds = true ->
  parse_base 16 ds acc < (acc + 1) * 16 ^ N.of_nat (length ds).
Proof.
  induction ds as [|d ds IH]; intros acc H; cbn [parse_base length].
  - change (16 ^ N.of_nat 0) with 1. lia.
  - cbn [forallb] in H. apply andb_true_iff in H as [Hd Hds]. pose proof (hexdigit_val d Hd) as Hv.
    specialize (IH (acc * 16 + digit_val d) Hds). rewrite Nat2N.inj_succ, N.pow_succ_r'.
    set (P := 16 ^ N.of_nat (length ds)) in *. eapply N.lt_le_trans; [exact IH|].
    rewrite (N.mul_assoc (acc + 1) 16 P). apply N.mul_le_mono_r. lia.
Qed.

Lemma lit_value_16bit l : lit_ok l -> lit_value l <= 65535.
Proof.
  destruct l as [x|x]; cbn [lit_ok lit_value]; intros (Hne & Hall & Hb); [exact Hb|].
  pose proof (parse_base16_bound x 0 Hall) as H. assert (16 ^ N.of_nat (length x) <= 16 ^ 4) by (apply N.pow_le_mono_r; lia).
  change (16 ^ 4) with 65536 in *. lia.
Qed.
