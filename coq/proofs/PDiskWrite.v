(* PDiskWrite.v — the image rendered from a well-formed history state: its directory, the spec
   view of its files, the consistency check (C08) and the round trip through the model reader (C07). *)
From V Require Import Base.
From V.spec Require Import SpecDisk.
From V.model Require Import MDisk.
From V.proofs Require Import PDiskAlloc PDiskImage PDiskRead.
Local Open Scope N_scope.

(* ---------- chunks of a stream ---------- *)

Lemma chunk_length k s : length (chunk k s) = GR.
Proof.
  unfold chunk. rewrite app_length, repeat_length.
  assert (length (firstn GR (skipn (k * GR) s)) <= GR)%nat by (rewrite firstn_length; lia). lia.
Qed.

Lemma skipn_add {A} : forall a b (l : list A), skipn (a + b) l = skipn b (skipn a l).
Proof. induction a as [|a IH]; intros b l; [reflexivity|]. destruct l; [now rewrite !skipn_nil | cbn [Nat.add skipn]; apply IH]. Qed.

Lemma chunk_S k s : chunk (S k) s = chunk k (skipn GR s).
Proof. unfold chunk. replace (S k * GR)%nat with (GR + k * GR)%nat by lia. now rewrite skipn_add. Qed.

Lemma chunks_concat : forall n s, (length s <= n * GR)%nat ->
  concat (map (fun k => chunk k s) (seq 0 n)) = s ++ repeat 255 (n * GR - length s).
Proof.
  induction n as [|n IH]; intros s H.
  - destruct s; [reflexivity | cbn in H; lia].
  - cbn [seq map concat]. rewrite <- seq_shift, map_map.
    rewrite (map_ext _ (fun k => chunk k (skipn GR s))) by (intros; apply chunk_S).
    unfold chunk at 1. cbn [Nat.mul skipn].
    destruct (Nat.le_gt_cases GR (length s)) as [Hge|Hlt].
    + rewrite IH by (rewrite skipn_length; lia).
      rewrite firstn_length, Nat.min_l by lia. rewrite Nat.sub_diag. cbn [repeat]. rewrite app_nil_r.
      rewrite app_assoc, firstn_skipn, skipn_length. f_equal. f_equal. lia.
    + rewrite (firstn_all2 (n := GR)) by lia.
      rewrite (skipn_all2 (n := GR)) by lia. rewrite IH by (cbn; lia). cbn [app length].
      rewrite <- app_assoc. f_equal. rewrite <- repeat_app. f_equal. lia.
Qed.

(* ---------- validity of the files handed to the writer ---------- *)

Definition valid_dfile (f : dfile) : Prop :=
  ascii_only (d_name f) = true /\ ascii_only (d_ext f) = true /\ d_load f < 65536 /\ d_exec f < 65536.

Lemma padk_length : forall k l, length (padk k l) = k.
Proof. induction k as [|k IH]; intros [|c r]; cbn [padk length]; try reflexivity; now rewrite IH. Qed.

Lemma padk_ascii : forall k l, ascii_only l = true -> ascii_only (padk k l) = true.
Proof.
  unfold ascii_only. induction k as [|k IH]; intros l H; [reflexivity|]. destruct l as [|c r]; cbn [padk forallb].
  - rewrite (IH [] eq_refl). reflexivity.
  - cbn [forallb] in H. apply andb_true_iff in H as [H1 H2]. rewrite H1. now apply IH.
Qed.

Lemma fix_upper_ascii b : b <? 128 = true -> (fix_nul (upper b) <? 128) = true /\ fix_nul (upper b) <> 0 /\ fix_nul (upper b) <> 255.
Proof.
  intros H. apply N.ltb_lt in H. unfold fix_nul, upper.
  destruct ((97 <=? b) && (b <=? 122)) eqn:E.
  - apply andb_true_iff in E as [E1 E2]. apply N.leb_le in E1, E2.
    destruct (N.eqb_spec (b - 32) 0); [lia|]. repeat split; [apply N.ltb_lt|..]; lia.
  - destruct (N.eqb_spec b 0); repeat split; try (apply N.ltb_lt); lia.
Qed.

Lemma map_fix_ascii l : ascii_only l = true -> ascii_only (map (fun b => fix_nul (upper b)) l) = true.
Proof.
  unfold ascii_only. induction l as [|b l IH]; intros H; [reflexivity|]. cbn [map forallb] in *.
  apply andb_true_iff in H as [H1 H2]. destruct (fix_upper_ascii b H1) as [-> _]. now apply IH.
Qed.

Lemma dir_name_length f : length (dir_name f) = 8%nat.
Proof. unfold dir_name. now rewrite map_length, padk_length. Qed.
Lemma dir_ext_length f : length (dir_ext f) = 3%nat.
Proof. unfold dir_ext. now rewrite map_length, padk_length. Qed.

Lemma dir_entry_length f g : length (dir_entry f g) = 32%nat.
Proof. unfold dir_entry. rewrite !app_length, dir_name_length, dir_ext_length. reflexivity. Qed.

Lemma last_rem_lt f : (last_rem f < GR)%nat.
Proof. unfold last_rem. pose proof (needed_minimal f) as [H1 H2]. pose proof (needed_pos f). unfold GR in *. lia. Qed.

Lemma last_bytes_lt f : last_bytes f < 256.
Proof.
  unfold last_bytes. pose proof (Nat.div_mod (last_rem f) 256 ltac:(lia)).
  pose proof (Nat.mod_upper_bound (last_rem f) 256 ltac:(lia)). lia.
Qed.

Lemma list8' (l : list byte) : length l = 8%nat -> exists a b c d e f g h, l = [a;b;c;d;e;f;g;h].
Proof. intros H. do 8 (destruct l as [|? l]; [discriminate|]). destruct l; [|discriminate]. repeat eexists. Qed.
Lemma list3' (l : list byte) : length l = 3%nat -> exists a b c, l = [a;b;c].
Proof. intros H. do 3 (destruct l as [|? l]; [discriminate|]). destruct l; [|discriminate]. repeat eexists. Qed.

Lemma decode_dir_entry f g :
  decode_entry (dir_entry f g) =
  {| e_name := dir_name f; e_ext := dir_ext f; e_type := d_type f; e_ascii := d_ascii f;
     e_first := g; e_lastbytes := last_bytes f |}.
Proof.
  unfold decode_entry, dir_entry.
  destruct (list8' _ (dir_name_length f)) as (a&b&c&d&e&x&y&z&->).
  destruct (list3' _ (dir_ext_length f)) as (p&q&r&->).
  cbn [app firstn skipn nth]. f_equal. apply hi_lo_word. pose proof (last_bytes_lt f). lia.
Qed.

Lemma entry_used_dir_entry f g : ascii_only (d_name f) = true -> entry_used (dir_entry f g) = true.
Proof.
  intros H. unfold dir_entry, dir_name. destruct (padk 8 (d_name f)) as [|b r] eqn:E.
  - pose proof (padk_length 8 (d_name f)) as L. rewrite E in L. discriminate.
  - cbn [map app entry_used].
    assert (Hb : b <? 128 = true).
    { pose proof (padk_ascii 8 _ H) as Ha. rewrite E in Ha. unfold ascii_only in Ha. cbn [forallb] in Ha.
      now apply andb_true_iff in Ha as [Ha _]. }
    destruct (fix_upper_ascii b Hb) as (_ & H0 & H255).
    destruct (N.eqb_spec (fix_nul (upper b)) 0); [contradiction|].
    destruct (N.eqb_spec (fix_nul (upper b)) 255); [contradiction|]. reflexivity.
Qed.

(* ---------- the stream is what the chain holds ---------- *)

Lemma seq_nth_map (gs : list N) : gs = map (fun k => nth k gs 0) (seq 0 (length gs)).
Proof.
  apply (nth_ext _ _ 0 0).
  - now rewrite map_length, seq_length.
  - intros n Hn. rewrite nth_map_seq by assumption. reflexivity.
Qed.

Lemma chain_bytes_state st f gs : NoDup (used st) -> in_range (used st) -> In (f, gs) st ->
  chain_bytes (disk_of_state st) gs = concat (map (fun k => chunk k (stream f)) (seq 0 (length gs))).
Proof.
  intros Hn Hr Hin. unfold chain_bytes. f_equal. rewrite (seq_nth_map gs) at 1. rewrite map_map.
  apply map_ext_in. intros k Hk. apply in_seq in Hk.
  rewrite gran_at_state.
  - apply gran_content_at; [assumption|assumption|lia].
  - unfold in_range in Hr. rewrite Forall_forall in Hr. apply Hr. eapply in_used; [exact Hin|]. apply nth_In. lia.
Qed.

Lemma implied_len_state f : implied_len (needed f) (last_sectors f) (last_bytes f) = N.of_nat (slen f).
Proof.
  unfold implied_len. pose proof (last_sectors_range f) as Hs.
  destruct (N.eqb_spec (last_sectors f) 0); [lia|].
  unfold last_sectors, last_bytes in *. pose proof (needed_minimal f) as [H1 H2]. pose proof (needed_pos f).
  pose proof (Nat.div_mod (last_rem f) 256 ltac:(lia)) as Hd.
  assert (Hr : last_rem f = (slen f - (needed f - 1) * GR)%nat) by reflexivity.
  unfold GR in *. lia.
Qed.

Lemma decode_stream_state f g : valid_dfile f -> N.of_nat (length (d_data f)) <= 65535 ->
  decode_stream (decode_entry (dir_entry f g)) (stream f) = Some (norm f).
Proof.
  intros (Hn & He & Hl & Hx) Hd. rewrite decode_dir_entry. unfold decode_stream, stream, norm.
  cbn [e_type e_ascii e_name e_ext]. unfold dlen.
  destruct (kind_of (d_type f) (d_ascii f)).
  - cbn [app]. rewrite hi_lo_word by lia. rewrite Nat2N.id.
    rewrite skipn_app, Nat.sub_diag, skipn_all. cbn [skipn app].
    rewrite firstn_app, Nat.sub_diag, firstn_all. cbn [firstn]. rewrite app_nil_r.
    cbn [N.eqb Pos.eqb andb]. rewrite Nat.eqb_refl. now rewrite !hi_lo_word by assumption.
  - cbn [app]. rewrite hi_lo_word by lia. rewrite Nat2N.id. cbn [N.eqb Pos.eqb andb]. now rewrite Nat.eqb_refl.
  - reflexivity.
Qed.

Lemma chain_length_le st f gs : NoDup (used st) -> in_range (used st) -> In (f, gs) st -> (length gs <= 68)%nat.
Proof.
  intros Hn Hr Hin. apply range_length.
  - clear Hr. induction st as [|[f' gs'] r IH]; [destruct Hin|].
    unfold used in Hn. cbn [map concat snd] in Hn. fold (used r) in Hn. destruct Hin as [E|Hin].
    + inversion E; subst. now apply NoDup_app_l in Hn.
    + apply IH; [now apply NoDup_app_r in Hn | assumption].
  - unfold in_range in *. rewrite Forall_forall in *. intros g Hg. apply Hr. eapply in_used; eauto.
Qed.

Lemma file_of_entry_state st f gs :
  wf_state st -> In (f, gs) st -> valid_dfile f ->
  file_of_entry (disk_of_state st) (decode_entry (dir_entry f (first_gran gs))) = Some (norm f, gs).
Proof.
  intros (Hn & Hr & Hc) Hin Hv.
  assert (Hck : chain_ok (f, gs)) by (rewrite Forall_forall in Hc; now apply Hc).
  destruct Hck as [Hlen Hd]. cbn [fst snd] in Hlen, Hd.
  pose proof (needed_pos f) as Hp.
  assert (Hk0 : (0 < length gs)%nat) by lia.
  pose proof (chain_length_le st f gs Hn Hr Hin) as Hle.
  remember (decode_entry (dir_entry f (first_gran gs))) as de eqn:Ede.
  assert (Ef : e_first de = first_gran gs) by (rewrite Ede, decode_dir_entry; reflexivity).
  assert (Eb : e_lastbytes de = last_bytes f) by (rewrite Ede, decode_dir_entry; reflexivity).
  unfold file_of_entry. rewrite Ef, Eb.
  assert (Hfg : first_gran gs = nth 0 gs 0) by (destruct gs; reflexivity).
  rewrite Hfg, (walk_chain st f gs Hn Hr Hin 0 68 Hk0) by lia. cbn [skipn].
  pose proof (last_bytes_lt f) as Hb. pose proof (last_sectors_range f) as Hs.
  assert (E1 : (last_bytes f <=? 256) = true) by (apply N.leb_le; lia). rewrite E1.
  assert (E2 : negb (last_sectors f =? 0) = true) by (destruct (N.eqb_spec (last_sectors f) 0); [lia | reflexivity]).
  rewrite E2. cbn [orb andb].
  assert (E3 : (implied_len 1 (last_sectors f) (last_bytes f) <=? 2304) = true).
  { apply N.leb_le. unfold implied_len. cbn [Nat.sub N.of_nat]. destruct (N.eqb_spec (last_sectors f) 0); [lia|].
    unfold last_sectors, last_bytes in *. pose proof (last_rem_lt f). unfold GR in *.
    pose proof (Nat.div_mod (last_rem f) 256 ltac:(lia)). lia. }
  rewrite E3. rewrite Hlen, implied_len_state, Nat2N.id.
  rewrite (chain_bytes_state st f gs Hn Hr Hin), Hlen.
  pose proof (needed_minimal f) as [H1 H2].
  rewrite chunks_concat by (unfold slen in *; lia).
  unfold slen. rewrite firstn_app, Nat.sub_diag, firstn_all. cbn [firstn]. rewrite app_nil_r.
  rewrite Ede. now rewrite decode_stream_state.
Qed.

(* ---------- directory of the rendered state ---------- *)

Lemma entries_state st : Forall (fun fg => valid_dfile (fst fg)) st ->
  entries (disk_of_state st) = map (fun fg => decode_entry (dir_entry (fst fg) (first_gran (snd fg)))) st.
Proof.
  intros Hv. unfold entries, disk_of_state. cbn [dir]. rewrite filter_app.
  assert (E1 : filter entry_used (repeat (repeat 255 32) (72 - length st)) = []).
  { induction (72 - length st)%nat as [|n IH]; [reflexivity|]. cbn [repeat filter]. exact IH. }
  rewrite E1, app_nil_r. clear E1.
  induction Hv as [|[f gs] r (Hn & _) _ IH]; [reflexivity|].
  cbn [map filter fst snd]. rewrite entry_used_dir_entry by assumption. cbn [map]. f_equal. exact IH.
Qed.

Lemma all_some_state st : wf_state st -> Forall (fun fg => valid_dfile (fst fg)) st ->
  all_some (map (file_of_entry (disk_of_state st)) (entries (disk_of_state st)))
  = Some (map (fun fg => (norm (fst fg), snd fg)) st).
Proof.
  intros Hw Hv. rewrite entries_state by assumption. rewrite map_map.
  assert (H : forall l, incl l st ->
    all_some (map (fun fg => file_of_entry (disk_of_state st) (decode_entry (dir_entry (fst fg) (first_gran (snd fg))))) l)
    = Some (map (fun fg => (norm (fst fg), snd fg)) l)).
  { induction l as [|[f gs] l IH]; intros Hi; [reflexivity|]. cbn [map all_some fst snd].
    assert (Hin : In (f, gs) st) by (apply Hi; now left).
    rewrite (file_of_entry_state st f gs Hw Hin).
    - rewrite IH; [reflexivity|]. intros x Hx. apply Hi. now right.
    - rewrite Forall_forall in Hv. apply (Hv (f, gs) Hin). }
  apply H. apply incl_refl.
Qed.

Theorem files_disk_state st : wf_state st -> Forall (fun fg => valid_dfile (fst fg)) st ->
  files_disk (disk_of_state st) = Some (map norm (map fst st)).
Proof.
  intros Hw Hv. unfold files_disk. rewrite all_some_state by assumption. f_equal.
  rewrite !map_map. reflexivity.
Qed.

(* ---------- the consistency check ---------- *)

Lemma nodupb_NoDup l : NoDup l -> nodupb l = true.
Proof.
  induction 1 as [|x l Hx Hn IH]; [reflexivity|]. cbn [nodupb]. rewrite IH, andb_true_r.
  destruct (existsb (N.eqb x) l) eqn:E; [|reflexivity].
  apply existsb_exists in E as [y [Hy E]]. apply N.eqb_eq in E. subst. contradiction.
Qed.

Lemma all_ff_repeat n : all_ff (repeat 255 n) = true.
Proof. induction n as [|n IH]; [reflexivity|]. cbn [repeat all_ff forallb]. exact IH. Qed.

Theorem fsck_disk_state st : wf_state st -> Forall (fun fg => valid_dfile (fst fg)) st ->
  fsck_disk (disk_of_state st) = true.
Proof.
  intros Hw Hv. unfold fsck_disk. rewrite all_some_state by assumption.
  destruct Hw as (Hn & Hr & Hc).
  assert (Eu : concat (map snd (map (fun fg : dfile * list N => (norm (fst fg), snd fg)) st)) = used st).
  { unfold used. rewrite map_map. reflexivity. }
  rewrite Eu. rewrite nodupb_NoDup by assumption. cbn [andb].
  assert (E1 : forallb (fun g => (fat_at (disk_of_state st) g =? 255) || existsb (N.eqb g) (used st)) (map N.of_nat (seq 0 68)) = true).
  { apply forallb_forall. intros g Hg. apply all_granules_spec in Hg.
    destruct (existsb (N.eqb g) (used st)) eqn:E; [apply orb_true_r|].
    rewrite fat_at_state by assumption. rewrite fat_entry_free; [reflexivity|].
    apply in_use_false. exact E. }
  rewrite E1. cbn [andb].
  assert (E2 : forallb (fun g => existsb (N.eqb g) (used st) || all_ff (gran_at (disk_of_state st) g)) (map N.of_nat (seq 0 68)) = true).
  { apply forallb_forall. intros g Hg. apply all_granules_spec in Hg.
    destruct (existsb (N.eqb g) (used st)) eqn:E; [reflexivity|]. cbn [orb].
    rewrite gran_at_state by assumption. rewrite gran_content_free; [apply all_ff_repeat|].
    apply in_use_false. exact E. }
  rewrite E2. cbn [andb disk_of_state t17a t17z]. now rewrite !all_ff_repeat.
Qed.

(* ---------- the round trip through the model reader ---------- *)

Lemma dims_state st : (length st <= 72)%nat -> dims_ok (disk_of_state st).
Proof.
  intros H. unfold dims_ok, disk_of_state. cbn [gran fat]. split; [|split].
  - rewrite map_length, seq_length. reflexivity.
  - apply Forall_forall. intros g Hg. apply in_map_iff in Hg as [k [<- _]].
    generalize (N.of_nat k). intros g. induction st as [|[f gs] r IH]; cbn [gran_content].
    + apply repeat_length.
    + destruct (index_of g gs 0); [apply chunk_length|]. apply IH. cbn [length] in H. lia.
  - rewrite app_length, map_length, seq_length, repeat_length. reflexivity.
Qed.

Theorem list_files_disk_state st : wf_state st -> Forall (fun fg => valid_dfile (fst fg)) st ->
  list_files_disk (disk_of_state st) = Ok (map norm (map fst st)).
Proof.
  intros Hw Hv. apply list_files_disk_spec.
  - apply dims_state. destruct Hw as (Hn & Hr & Hc). pose proof (state_length_le st Hc). pose proof (range_length _ Hn Hr). lia.
  - assert (Ed : dir (disk_of_state st) = map (fun fg => dir_entry (fst fg) (first_gran (snd fg))) st
                                          ++ repeat (repeat 255 32) (72 - length st)) by reflexivity.
    rewrite Ed. apply Forall_app. split.
    + apply Forall_forall. intros e He _. apply in_map_iff in He as [[f gs] [<- Hin]]. cbn [fst snd].
      assert (Hvf : valid_dfile f) by (rewrite Forall_forall in Hv; apply (Hv (f, gs) Hin)).
      split.
      * unfold entry_ascii. rewrite decode_dir_entry. cbn [e_name e_ext]. destruct Hvf as (H1 & H2 & _).
        unfold dir_name, dir_ext. rewrite !map_fix_ascii; [reflexivity| |]; now apply padk_ascii.
      * unfold no_ascii_c0. rewrite decode_dir_entry. cbn [e_type e_ascii e_first].
        destruct (kind_of (d_type f) (d_ascii f)); try exact I.
        intros gs' Hwk. destruct Hw as (Hn & Hr & Hc).
        assert (Hck : chain_ok (f, gs)) by (rewrite Forall_forall in Hc; now apply Hc).
        destruct Hck as [Hlen _]. cbn [fst snd] in Hlen. pose proof (needed_pos f).
        assert (Hfg : first_gran gs = nth 0 gs 0) by (destruct gs; reflexivity).
        rewrite Hfg, (walk_chain st f gs Hn Hr Hin 0 68) in Hwk; [|lia|].
        -- inversion Hwk. pose proof (last_sectors_range f). lia.
        -- pose proof (chain_length_le st f gs Hn Hr Hin). lia.
    + apply Forall_forall. intros e He Hu. apply repeat_spec in He. subst e. discriminate.
  - now apply files_disk_state.
Qed.
