(* PVirtualFile.v — lemmas for C09 (histories), C10 (save decision), C16 (conversions) about the
   virtual-file / CLI model MVirtualFile, built on the container theorems already proved
   (PCassetteW.written_tape_wellformed, PCassetteR.roundtrip, PDiskProps.disk_roundtrip /
   written_image_valid).  Nothing here unfolds MDisk.image_of / SpecDisk.slice. *)
From V Require Import Base.
From V.spec Require Import SpecTape SpecDisk.
From V.model Require Import MCassette MDisk MVirtualFile.
From V.proofs Require Import PCassetteW PCassetteR PDiskAlloc PDiskWrite PDiskProps PDiskSniff.
Local Open Scope N_scope.

Local Strategy opaque [slice files_disk list_files_disk render image_of].

(* ====================================================================================== *)
(* 1. normalisation: what one trip through a container does to a file, and its idempotence *)
(* ====================================================================================== *)

Lemma to_of_cfile c : to_cfile (of_cfile c) = c.
Proof. destruct c; reflexivity. Qed.
Lemma to_of_dfile d : to_dfile (of_dfile d) = d.
Proof. destruct d; reflexivity. Qed.
Lemma of_to_dfile f : of_dfile (to_dfile f) = f.
Proof. destruct f; reflexivity. Qed.

Lemma to_cfile_normc f : to_cfile (normc f) = MCassette.norm (to_cfile f).
Proof. unfold normc. apply to_of_cfile. Qed.
Lemma to_dfile_normd f : to_dfile (normd f) = MDisk.norm (to_dfile f).
Proof. unfold normd. apply to_of_dfile. Qed.

Lemma name8_idem : forall k n, name8 k (name8 k n) = name8 k n.
Proof.
  induction k as [|k IH]; intros n; [reflexivity|].
  destruct n as [|c r]; cbn [name8]; now rewrite IH.
Qed.

Lemma cnorm_idem c : MCassette.norm (MCassette.norm c) = MCassette.norm c.
Proof. unfold MCassette.norm. cbn [c_name c_type c_dtype c_load c_exec c_data]. now rewrite name8_idem. Qed.

Lemma normc_idem f : normc (normc f) = normc f.
Proof. unfold normc at 1. rewrite to_cfile_normc, cnorm_idem. reflexivity. Qed.

(* the writer only looks at the first 8 characters, padded: a normalised file is written identically *)
Lemma add_file_norm c : MCassette.add_file (MCassette.norm c) = MCassette.add_file c.
Proof.
  unfold MCassette.add_file, header_payload, MCassette.norm.
  cbn [c_name c_type c_dtype c_load c_exec c_data]. now rewrite name8_idem.
Qed.

Lemma write_norm cs : MCassette.write (map MCassette.norm cs) = MCassette.write cs.
Proof.
  unfold MCassette.write. rewrite map_map. f_equal. apply map_ext. intros c. apply add_file_norm.
Qed.

Lemma write_app a b : MCassette.write (a ++ b) = MCassette.write a ++ MCassette.write b.
Proof. unfold MCassette.write. now rewrite map_app, concat_app. Qed.

(* ---- disk ---- *)
Definition fu (b : byte) : byte := fix_nul (upper b).

Lemma fu_idem b : fu (fu b) = fu b.
Proof.
  unfold fu, fix_nul, upper.
  destruct ((97 <=? b) && (b <=? 122)) eqn:E.
  - apply andb_true_iff in E as [E1 E2]. apply N.leb_le in E1, E2.
    destruct (N.eqb_spec (b - 32) 0); [lia|].
    destruct ((97 <=? b - 32) && (b - 32 <=? 122)) eqn:E'.
    + apply andb_true_iff in E' as [E3 E4]. apply N.leb_le in E3, E4. lia.
    + destruct (N.eqb_spec (b - 32) 0); [lia|reflexivity].
  - destruct (N.eqb_spec b 0) as [->|Hb].
    + reflexivity.
    + rewrite E. destruct (N.eqb_spec b 0); [contradiction|reflexivity].
Qed.

Lemma fu_space : fu 32 = 32.
Proof. reflexivity. Qed.

Lemma padk_short : forall k l, (length l <= k)%nat -> padk k l = l ++ repeat 32 (k - length l).
Proof.
  induction k as [|k IH]; intros l H.
  - destruct l; [reflexivity|cbn in H; lia].
  - destruct l as [|c r]; cbn [padk length].
    + rewrite (IH [] ltac:(cbn; lia)). cbn [length app]. now rewrite Nat.sub_0_r.
    + cbn [length] in H. rewrite IH by lia. reflexivity.
Qed.

Lemma padk_length' : forall k l, length (padk k l) = k.
Proof. induction k as [|k IH]; intros [|c r]; cbn [padk length]; try reflexivity; now rewrite IH. Qed.

Lemma padk_idem k l : padk k (padk k l) = padk k l.
Proof.
  rewrite (padk_short k (padk k l)) by (rewrite padk_length'; lia).
  rewrite padk_length', Nat.sub_diag. cbn [repeat]. apply app_nil_r.
Qed.

Lemma remove_spaces_app a b : remove_spaces (a ++ b) = remove_spaces a ++ remove_spaces b.
Proof. unfold remove_spaces. apply filter_app. Qed.

Lemma remove_spaces_repeat n : remove_spaces (repeat 32 n) = [].
Proof. induction n as [|n IH]; [reflexivity|]. cbn [repeat]. unfold remove_spaces in *. cbn [filter]. exact IH. Qed.

Lemma remove_spaces_length l : (length (remove_spaces l) <= length l)%nat.
Proof.
  unfold remove_spaces. induction l as [|b r IH]; [cbn; lia|]. cbn [filter].
  destruct (negb (b =? 32)); cbn [length]; lia.
Qed.

Lemma remove_spaces_fixed l : Forall (fun b => b <> 32) l -> remove_spaces l = l.
Proof.
  unfold remove_spaces. induction 1 as [|b r Hb _ IH]; [reflexivity|]. cbn [filter].
  destruct (N.eqb_spec b 32); [contradiction|]. cbn [negb]. now rewrite IH.
Qed.

Lemma remove_spaces_nospace l : Forall (fun b => b <> 32) (remove_spaces l).
Proof.
  unfold remove_spaces. apply Forall_forall. intros b Hb. apply filter_In in Hb as [_ Hb].
  destruct (N.eqb_spec b 32); [discriminate|assumption].
Qed.

Lemma map_fu_repeat n : map fu (repeat 32 n) = repeat 32 n.
Proof. induction n as [|n IH]; [reflexivity|]. cbn [repeat map]. now rewrite IH. Qed.

Lemma map_fu_idem l : map fu (map fu l) = map fu l.
Proof. rewrite map_map. apply map_ext. apply fu_idem. Qed.

Lemma remove_spaces_map_fu_idem l :
  map fu (remove_spaces (map fu l)) = remove_spaces (map fu l).
Proof.
  unfold remove_spaces. induction l as [|b r IH]; [reflexivity|]. cbn [map filter].
  destruct (negb (fu b =? 32)); cbn [map]; rewrite IH; [now rewrite fu_idem|reflexivity].
Qed.

(* the listed name of a stored file is a fixed point of the directory-name treatment *)
Lemma dname_idem n :
  remove_spaces (map fu (padk 8 (remove_spaces (map fu (padk 8 n))))) = remove_spaces (map fu (padk 8 n)).
Proof.
  set (m := remove_spaces (map fu (padk 8 n))).
  assert (Hl : (length m <= 8)%nat).
  { unfold m. eapply Nat.le_trans; [apply remove_spaces_length|]. rewrite map_length, padk_length'. lia. }
  rewrite (padk_short 8 m Hl). rewrite map_app, map_fu_repeat, remove_spaces_app, remove_spaces_repeat, app_nil_r.
  unfold m at 1. rewrite remove_spaces_map_fu_idem. fold m.
  apply remove_spaces_fixed. apply remove_spaces_nospace.
Qed.

Lemma dnorm_idem d : MDisk.norm (MDisk.norm d) = MDisk.norm d.
Proof.
  unfold MDisk.norm. cbn [d_name d_ext d_type d_ascii d_load d_exec d_data].
  unfold dir_name, dir_ext. cbn [d_name d_ext].
  change (fun b => fix_nul (upper b)) with fu.
  rewrite dname_idem. rewrite padk_short with (k := 3%nat) (l := map fu (padk 3 (d_ext d)))
    by (rewrite map_length, padk_length'; lia).
  rewrite map_length, padk_length', Nat.sub_diag. cbn [repeat]. rewrite app_nil_r, map_fu_idem.
  destruct (kind_of (d_type d) (d_ascii d)); reflexivity.
Qed.

Lemma normd_idem f : normd (normd f) = normd f.
Proof. unfold normd at 1. rewrite to_dfile_normd, dnorm_idem. reflexivity. Qed.

(* ---- validity is preserved by normalisation ---- *)
Definition okc (f : cocofile) : Prop := valid_cfile (to_cfile f) /\ f_data f <> [].
Definition okd (f : cocofile) : Prop := valid_dfile (to_dfile f).

Lemma valid_cnorm c : valid_cfile c -> valid_cfile (MCassette.norm c).
Proof.
  intros (Ha & Hl & He). unfold valid_cfile, MCassette.norm. cbn [c_name c_load c_exec].
  repeat split; try assumption. now apply name8_ascii.
Qed.

Lemma okc_normc f : okc f -> okc (normc f).
Proof.
  intros [Hv Hd]. unfold okc. rewrite to_cfile_normc. split; [now apply valid_cnorm|]. exact Hd.
Qed.

Lemma ascii_filter p l : ascii_only l = true -> ascii_only (filter p l) = true.
Proof.
  unfold ascii_only. induction l as [|b r IH]; [reflexivity|]. cbn [forallb filter]. intros H.
  apply andb_true_iff in H as [H1 H2]. destruct (p b); cbn [forallb]; [rewrite H1|]; now apply IH.
Qed.

Lemma ascii_map_fu l : ascii_only l = true -> ascii_only (map fu l) = true.
Proof.
  unfold ascii_only. induction l as [|b r IH]; [reflexivity|]. cbn [forallb map]. intros H.
  apply andb_true_iff in H as [H1 H2]. destruct (fix_upper_ascii b H1) as [Hb _]. unfold fu. rewrite Hb.
  now apply IH.
Qed.

Lemma valid_dnorm d : valid_dfile d -> valid_dfile (MDisk.norm d).
Proof.
  intros (Hn & He & Hl & Hx). unfold valid_dfile, MDisk.norm. cbn [d_name d_ext d_load d_exec].
  unfold dir_name, dir_ext. change (fun b => fix_nul (upper b)) with fu. repeat split.
  - unfold remove_spaces. apply ascii_filter. apply ascii_map_fu. now apply padk_ascii.
  - apply ascii_map_fu. now apply padk_ascii.
  - destruct (kind_of _ _); [assumption|reflexivity|reflexivity].
  - destruct (kind_of _ _); [assumption|reflexivity|reflexivity].
Qed.

Lemma okd_normd f : okd f -> okd (normd f).
Proof. unfold okd. rewrite to_dfile_normd. apply valid_dnorm. Qed.

(* ====================================================================================== *)
(* 2. sniffing: an image written by the tool is recognised as its own kind                 *)
(* ====================================================================================== *)

Definition tape_size_ok (cs : list cfile) : Prop := N.of_nat (length (MCassette.write cs)) < IMAGE_SIZE.

Theorem sniff_cassette cs :
  Forall valid_cfile cs -> Forall (fun c => c_data c <> []) cs -> tape_size_ok cs ->
  sniff (MCassette.write cs) = Ok (map of_cfile (map MCassette.norm cs), KCas).
Proof.
  intros Hv Hne Hs. unfold sniff, MDisk.list_files. unfold tape_size_ok in Hs.
  apply N.ltb_lt in Hs. rewrite Hs. rewrite (roundtrip cs Hv Hne).
  destruct (fat_plausible _); destruct cs as [|c r]; reflexivity.
Qed.

(* a tape of ANY length is recognised as long as the bytes where a disk keeps its allocation table are not
   such a table (repair F48) *)
Theorem sniff_cassette_any_length cs :
  Forall valid_cfile cs -> Forall (fun c => c_data c <> []) cs -> fat_plausible (MCassette.write cs) = false ->
  sniff (MCassette.write cs) = Ok (map of_cfile (map MCassette.norm cs), KCas).
Proof.
  intros Hv Hne Hs. unfold sniff. rewrite Hs. rewrite (roundtrip cs Hv Hne).
  destruct cs as [|c r]; reflexivity.
Qed.

Theorem sniff_disk order ds st :
  in_range order -> Forall valid_dfile ds -> MDisk.add_files order [] ds = Ok st ->
  sniff (image_of st) = Ok (map of_dfile (map MDisk.norm ds), KDsk).
Proof.
  intros Ho Hv H. unfold sniff. destruct (disk_roundtrip order ds st Ho Hv H) as [E _]. rewrite E.
  rewrite fat_plausible_image; [reflexivity|]. eapply add_files_wf; eauto. apply wf_nil.
Qed.

Lemma default_in_range : in_range default_order.
Proof. exact (proj1 (proj1 default_order_ok)). Qed.

(* ====================================================================================== *)
(* 3. C10: the save decision                                                              *)
(* ====================================================================================== *)

Lemma add_all_files : forall fl v, v_files (add_all v fl) = v_files v ++ fl.
Proof.
  induction fl as [|f r IH]; intros v; cbn [add_all fold_left]; [now rewrite app_nil_r|].
  fold (add_all (add_vf v f) r). rewrite IH. cbn [add_vf v_files]. now rewrite <- app_assoc.
Qed.
Lemma add_all_kind : forall fl v, v_kind (add_all v fl) = v_kind v.
Proof. induction fl as [|f r IH]; intros v; [reflexivity|]. cbn [add_all fold_left]. fold (add_all (add_vf v f) r). now rewrite IH. Qed.
Lemma add_all_exists : forall fl v, v_exists (add_all v fl) = v_exists v.
Proof. induction fl as [|f r IH]; intros v; [reflexivity|]. cbn [add_all fold_left]. fold (add_all (add_vf v f) r). now rewrite IH. Qed.

Lemma vkind_eqb_eq a b : vkind_eqb a b = true <-> a = b.
Proof. destruct a, b; cbn; split; intros H; try reflexivity; discriminate. Qed.

(* what open_vf can return when a kind is requested *)
Lemma open_vf_some req old v :
  open_vf (Some req) old = Ok v ->
  (old = None /\ v = {| v_kind := Some req; v_files := []; v_exists := false |}) \/
  (exists o fl, old = Some o /\ sniff o = Ok (fl, req) /\
                v = {| v_kind := Some req; v_files := fl; v_exists := true |}).
Proof.
  unfold open_vf. destruct old as [o|]; [|intros H; inversion H; now left].
  destruct (sniff o) as [[fl k]| | | |] eqn:E; cbn [bind]; try discriminate.
  destruct (vkind_eqb req k) eqn:Ek; [|discriminate]. apply vkind_eqb_eq in Ek. subst k.
  intros H. inversion H. right. now exists o, fl.
Qed.

(* the files already in the target, as the tool reads them ([] when the path does not exist) *)
Definition old_files (old : option (list byte)) : list cocofile :=
  match old with
  | None => []
  | Some o => match sniff o with Ok (fl, _) => fl | _ => [] end
  end.

(* store, unfolded: the direct form of open + add + save *)
Lemma store_written req append old new img :
  store req append old new = Ok (Some img) ->
  build_image req (old_files old ++ new) = Ok img /\
  (old = None \/ (append = true /\ exists o fl, old = Some o /\ sniff o = Ok (fl, req))).
Proof.
  unfold store. destruct (open_vf (Some req) old) as [v| | | |] eqn:Eo; cbn [bind]; try discriminate.
  unfold save_vf. rewrite add_all_kind, add_all_files, add_all_exists.
  destruct (open_vf_some _ _ _ Eo) as [[-> ->]|(o & fl & -> & Es & ->)]; cbn [v_kind v_files v_exists].
  - destruct (build_image req ([] ++ new)) as [i| | | |] eqn:Eb; cbn [bind andb]; try discriminate.
    intros H. inversion H; subst. split; [exact Eb|now left].
  - unfold old_files. rewrite Es.
    destruct (build_image req (fl ++ new)) as [i| | | |] eqn:Eb; cbn [bind]; try discriminate.
    destruct append; cbn [andb negb]; [|discriminate].
    intros H. inversion H; subst. split; [reflexivity|]. right. split; [reflexivity|]. now exists o, fl.
Qed.

Lemma store_never_none req append old new : store req append old new <> Ok None.
Proof.
  unfold store. destruct (open_vf (Some req) old) as [v| | | |] eqn:Eo; cbn [bind]; try discriminate.
  unfold save_vf. rewrite add_all_kind.
  destruct (open_vf_some _ _ _ Eo) as [[-> ->]|(o & fl & -> & Es & ->)]; cbn [v_kind];
    (destruct (build_image _ _); cbn [bind]; try discriminate; destruct (_ && _); discriminate).
Qed.

(* C10 (1): a write happens only to an absent path, or with append onto content that the tool
   itself reads as an image of the requested kind *)
Theorem store_modifies_only_if req append old new img :
  store req append old new = Ok (Some img) ->
  old = None \/ (append = true /\ exists o, old = Some o /\ sniff_kind o = Ok req).
Proof.
  intros H. destruct (store_written _ _ _ _ _ H) as [_ [->|(Ha & o & fl & -> & Es)]]; [now left|].
  right. split; [assumption|]. exists o. split; [reflexivity|]. unfold sniff_kind. rewrite Es. reflexivity.
Qed.

(* without append an existing path is always refused, whatever it holds *)
Theorem store_no_append_refused req o new : exists e, classify (store req false (Some o) new) = inr e.
Proof.
  destruct (store req false (Some o) new) as [[img|]| | | |] eqn:E; cbn [classify]; eauto.
  - apply store_modifies_only_if in E as [E|[E _]]; discriminate.
  - now apply store_never_none in E.
Qed.

(* content the tool reads as another kind is refused even with append *)
Theorem store_other_kind_refused req k append o new :
  sniff_kind o = Ok k -> k <> req -> exists e, classify (store req append (Some o) new) = inr e.
Proof.
  intros Hk Hne. destruct (store req append (Some o) new) as [[img|]| | | |] eqn:E; cbn [classify]; eauto.
  - apply store_modifies_only_if in E as [E|(_ & o' & E1 & E2)]; [discriminate|].
    inversion E1; subst. rewrite Hk in E2. inversion E2. contradiction.
  - now apply store_never_none in E.
Qed.

(* ---- what the tool's reading of the old content amounts to, container by container ---- *)

(* CASSETTE: the content is empty, or the tape reader finds at least one complete file in it
   (a name-file block, at least one data byte, an end-of-file block) *)
Lemma sniff_cas_inv o fl : sniff o = Ok (fl, KCas) ->
  o = [] \/ exists cs, MCassette.list_files o = Ok cs /\ cs <> [] /\ fl = map of_cfile cs.
Proof.
  unfold sniff. destruct (if fat_plausible o then MDisk.list_files o else Diag 4) as [ds|c|c| |]; try discriminate.
  destruct (MCassette.list_files o) as [cs|c'|c'| |] eqn:E; try discriminate.
  destruct cs as [|c0 r].
  - destruct o as [|b o']; [now left|discriminate].
  - intros H. inversion H. right. exists (c0 :: r). split; [reflexivity|]. split; [discriminate|reflexivity].
Qed.

(* DISK: the content has exactly the size of a disk image and the disk reader lists it without error *)
Lemma sniff_dsk_inv (o : list byte) fl : sniff o = Ok (fl, KDsk) ->
  N.of_nat (length o) = IMAGE_SIZE /\ exists ds, MDisk.list_files o = Ok ds /\ fl = map of_dfile ds.
Proof.
  unfold sniff. destruct (if fat_plausible o then MDisk.list_files o else Diag 4) as [ds|c|c| |] eqn:E.
  - intros H. inversion H. destruct (fat_plausible o); [|discriminate]. split; [|now exists ds].
    unfold MDisk.list_files in E.
    destruct (N.of_nat (length o) <? IMAGE_SIZE) eqn:E1; [discriminate|].
    destruct (IMAGE_SIZE <? N.of_nat (length o)) eqn:E2; [discriminate|].
    apply N.ltb_ge in E1, E2. lia.
  - destruct (MCassette.list_files o) as [cs|c'|c'| |]; try discriminate.
    destruct cs as [|c0 r]; [destruct o|]; discriminate.
  - discriminate.
  - discriminate.
  - discriminate.
Qed.

Theorem store_cassette_needs_tape_file append o new img :
  store KCas append (Some o) new = Ok (Some img) ->
  append = true /\ (o = [] \/ exists cs, MCassette.list_files o = Ok cs /\ cs <> []).
Proof.
  intros H. destruct (store_written _ _ _ _ _ H) as [_ [E|(Ha & o' & fl & E & Es)]]; [discriminate|].
  inversion E; subst o'. split; [exact Ha|].
  destruct (sniff_cas_inv o fl Es) as [->|(cs & H1 & H2 & _)]; [now left|right; now exists cs].
Qed.

Theorem store_disk_needs_disk_image append (o : list byte) new img :
  store KDsk append (Some o) new = Ok (Some img) ->
  append = true /\ N.of_nat (length o) = IMAGE_SIZE /\ exists ds, MDisk.list_files o = Ok ds.
Proof.
  intros H. destruct (store_written _ _ _ _ _ H) as [_ [E|(Ha & o' & fl & E & Es)]]; [discriminate|].
  inversion E; subst o'. split; [exact Ha|].
  destruct (sniff_dsk_inv o fl Es) as (Hl & ds & Hd & _). split; [exact Hl|now exists ds].
Qed.

(* the tape reader on content without any name-file header: nothing found, no error *)
Lemma list_files_no_header o : seek [85; 60; 0] o = None -> MCassette.list_files o = Ok [].
Proof.
  intros H. unfold MCassette.list_files. cbn [list_files_fuel]. unfold list_files_step, read_file.
  rewrite H. reflexivity.
Qed.

(* content shorter than a disk image that holds no tape name-file header ($55 $3C $00) anywhere —
   text, machine code, arbitrary bytes — is BINARY: never a cassette, never a disk *)
Lemma sniff_no_header (o : list byte) :
  o <> [] -> N.of_nat (length o) < IMAGE_SIZE -> seek [85; 60; 0] o = None -> sniff o = Ok ([], KBin).
Proof.
  intros Hne Hl Hs. unfold sniff, MDisk.list_files. apply N.ltb_lt in Hl. rewrite Hl.
  rewrite (list_files_no_header o Hs). destruct o; [contradiction|]. destruct (fat_plausible _); reflexivity.
Qed.

(* ... and content of ANY length without such a header and without an allocation table where a disk keeps
   one (repair F48) *)
Lemma sniff_no_header_no_table (o : list byte) :
  o <> [] -> fat_plausible o = false -> seek [85; 60; 0] o = None -> sniff o = Ok ([], KBin).
Proof.
  intros Hne Hf Hs. unfold sniff. rewrite Hf. rewrite (list_files_no_header o Hs). destruct o; [contradiction|reflexivity].
Qed.

(* the repaired defect as a theorem: such content is refused by --to_cas and --to_dsk whatever the
   append flag (it can only be replaced through --to_bin --append) *)
Theorem store_no_header_refused req append (o : list byte) new :
  req <> KBin -> o <> [] -> N.of_nat (length o) < IMAGE_SIZE -> seek [85; 60; 0] o = None ->
  exists e, classify (store req append (Some o) new) = inr e.
Proof.
  intros Hr Hne Hl Hs. apply (store_other_kind_refused req KBin).
  - unfold sniff_kind. rewrite (sniff_no_header o Hne Hl Hs). reflexivity.
  - congruence.
Qed.

(* content shorter than a disk image is never taken for a disk *)
Theorem store_short_never_disk append (o : list byte) new :
  N.of_nat (length o) < IMAGE_SIZE -> exists e, classify (store KDsk append (Some o) new) = inr e.
Proof.
  intros Hl. destruct (store KDsk append (Some o) new) as [[img|]| | | |] eqn:E; cbn [classify]; eauto.
  - apply store_disk_needs_disk_image in E as (_ & E & _). lia.
  - now apply store_never_none in E.
Qed.

(* conversely the tool does recognise every well-formed tape stream (arbitrary leader / gap lengths,
   any 1..255 chunking: PCassetteR.wf_stream) that holds at least one file, none with empty data, and
   is shorter than a disk image: --to_cas --append on it proceeds *)
Theorem sniff_wellformed_stream (o : list byte) cs :
  wf_stream o cs -> cs <> [] -> Forall (fun c => c_data c <> []) cs -> N.of_nat (length o) < IMAGE_SIZE ->
  sniff o = Ok (map of_cfile cs, KCas).
Proof.
  intros Hw Hne Hd Hl. unfold sniff, MDisk.list_files. apply N.ltb_lt in Hl. rewrite Hl.
  rewrite (reads_any_wellformed_stream o cs Hw Hd). destruct cs; [contradiction|]. destruct (fat_plausible _); reflexivity.
Qed.

(* ... of ANY length when the bytes where a disk keeps its allocation table are not such a table (F48) *)
Theorem sniff_wellformed_stream_any_length (o : list byte) cs :
  wf_stream o cs -> cs <> [] -> Forall (fun c => c_data c <> []) cs -> fat_plausible o = false ->
  sniff o = Ok (map of_cfile cs, KCas).
Proof.
  intros Hw Hne Hd Hf. unfold sniff. rewrite Hf.
  rewrite (reads_any_wellformed_stream o cs Hw Hd). destruct cs; [contradiction|reflexivity].
Qed.

(* C10 (3): what is written is a complete image of the requested kind, holding old files then new *)
Definition addr_ok (f : cocofile) : Prop := f_load f < 65536 /\ f_exec f < 65536.

Theorem store_written_cassette append old new img :
  store KCas append old new = Ok (Some img) ->
  img = MCassette.write (map to_cfile (old_files old ++ new)) /\
  (Forall addr_ok (old_files old ++ new) ->
   SpecTape.parse img = Some (map (fun c => (MCassette.norm c, 0)) (map to_cfile (old_files old ++ new)))).
Proof.
  intros H. destruct (store_written _ _ _ _ _ H) as [Hb _]. cbn [build_image] in Hb. inversion Hb. split; [reflexivity|].
  intros Hv. apply written_tape_wellformed. apply Forall_map. eapply Forall_impl; [|exact Hv].
  intros f Hf. exact Hf.
Qed.

Theorem store_written_disk append old new img :
  store KDsk append old new = Ok (Some img) ->
  exists st, MDisk.add_files default_order [] (map to_dfile (old_files old ++ new)) = Ok st /\ img = image_of st /\
    (Forall okd (old_files old ++ new) ->
     SpecDisk.fsck img = true /\ SpecDisk.files img = Some (map MDisk.norm (map to_dfile (old_files old ++ new)))).
Proof.
  intros H. destruct (store_written _ _ _ _ _ H) as [Hb _]. cbn [build_image] in Hb.
  destruct (MDisk.add_files default_order [] (map to_dfile (old_files old ++ new))) as [st| | | |] eqn:E;
    cbn [bind] in Hb; try discriminate.
  inversion Hb. exists st. split; [reflexivity|]. split; [reflexivity|]. intros Hv.
  assert (Hv' : Forall valid_dfile (map to_dfile (old_files old ++ new))).
  { apply Forall_map. eapply Forall_impl; [|exact Hv]. intros f Hf. exact Hf. }
  split.
  - exact (written_image_valid default_order _ st default_in_range Hv' E).
  - exact (proj2 (disk_roundtrip default_order _ st default_in_range Hv' E)).
Qed.

Theorem store_written_binary append old new img :
  store KBin append old new = Ok (Some img) -> img = concat (map f_data (old_files old ++ new)).
Proof. intros H. destruct (store_written _ _ _ _ _ H) as [Hb _]. cbn [build_image] in Hb. now inversion Hb. Qed.

(* a new path always gets a cassette / a binary image (a disk image unless the files do not fit) *)
Theorem store_new_cassette append new :
  store KCas append None new = Ok (Some (MCassette.write (map to_cfile new))).
Proof.
  unfold store. cbn [open_vf bind]. unfold save_vf. rewrite add_all_kind, add_all_files, add_all_exists. reflexivity.
Qed.

(* ---- one CLI save step over the host file system, and sequences of them ---- *)
Record invocation := { i_path : path; i_kind : vkind; i_append : bool; i_new : list cocofile }.

Definition invoke (fs : hostfs) (i : invocation) : hostfs * list event :=
  match classify (store (i_kind i) (i_append i) (fs (i_path i)) (i_new i)) with
  | inl (Some img) => (upd fs (i_path i) img, [])
  | inl None => (fs, [])
  | inr e => (fs, [EUnable (i_kind i) e])
  end.

Fixpoint invoke_all (fs : hostfs) (l : list invocation) : hostfs * list event :=
  match l with
  | [] => (fs, [])
  | i :: r => let '(fs1, e1) := invoke fs i in let '(fs2, e2) := invoke_all fs1 r in (fs2, e1 ++ e2)
  end.

Lemma list_eqb_refl l : list_eqb l l = true.
Proof. now apply list_eqb_eq. Qed.

Lemma upd_same fs p c : upd fs p c p = Some c.
Proof. unfold upd. now rewrite list_eqb_refl. Qed.
Lemma upd_other fs p c q : p <> q -> upd fs p c q = fs q.
Proof.
  intros H. unfold upd. destruct (list_eqb p q) eqn:E; [|reflexivity]. apply list_eqb_eq in E. contradiction.
Qed.

(* when is a step allowed to write *)
Definition may_write (fs : hostfs) (i : invocation) : Prop :=
  fs (i_path i) = None \/
  (i_append i = true /\ exists o, fs (i_path i) = Some o /\ sniff_kind o = Ok (i_kind i)).

(* what the written bytes are *)
Definition complete_image (k : vkind) (fl : list cocofile) (img : list byte) : Prop :=
  match k with
  | KCas => img = MCassette.write (map to_cfile fl) /\
            (Forall addr_ok fl -> SpecTape.parse img = Some (map (fun c => (MCassette.norm c, 0)) (map to_cfile fl)))
  | KDsk => exists st, MDisk.add_files default_order [] (map to_dfile fl) = Ok st /\ img = image_of st /\
            (Forall okd fl -> SpecDisk.fsck img = true /\ SpecDisk.files img = Some (map MDisk.norm (map to_dfile fl)))
  | KBin => img = concat (map f_data fl)
  end.

(* the three C10 clauses for one step: either refused — same file system (the very same function),
   and an "Unable to save" event carrying the diagnostic — or written — allowed, only that path
   changed, and its new content is a complete image of the requested kind *)
Definition step_ok (fs : hostfs) (i : invocation) (fs' : hostfs) (ev : list event) : Prop :=
  (fs' = fs /\ exists e, ev = [EUnable (i_kind i) e]) \/
  (exists img, may_write fs i /\ ev = [] /\ fs' (i_path i) = Some img /\
               (forall q, i_path i <> q -> fs' q = fs q) /\
               complete_image (i_kind i) (old_files (fs (i_path i)) ++ i_new i) img).

Theorem invoke_ok fs i : step_ok fs i (fst (invoke fs i)) (snd (invoke fs i)).
Proof.
  unfold invoke.
  destruct (store (i_kind i) (i_append i) (fs (i_path i)) (i_new i)) as [[img|]| | | |] eqn:E; cbn [classify fst snd].
  - right. exists img. split; [exact (store_modifies_only_if _ _ _ _ _ E)|]. split; [reflexivity|].
    split; [apply upd_same|]. split; [intros q Hq; now apply upd_other|].
    unfold complete_image. destruct (i_kind i).
    + exact (store_written_cassette _ _ _ _ E).
    + exact (store_written_binary _ _ _ _ E).
    + exact (store_written_disk _ _ _ _ E).
  - now apply store_never_none in E.
  - left. split; [reflexivity|]. now eexists.
  - left. split; [reflexivity|]. now eexists.
  - left. split; [reflexivity|]. now eexists.
  - left. split; [reflexivity|]. now eexists.
Qed.

(* the file systems met along a sequence of invocations *)
Fixpoint steps (fs : hostfs) (l : list invocation) : list (hostfs * invocation * hostfs * list event) :=
  match l with
  | [] => []
  | i :: r => (fs, i, fst (invoke fs i), snd (invoke fs i)) :: steps (fst (invoke fs i)) r
  end.

Theorem invoke_all_steps_ok : forall l fs,
  Forall (fun s => let '(a, i, b, ev) := s in step_ok a i b ev) (steps fs l).
Proof. induction l as [|i r IH]; intros fs; cbn [steps]; constructor; [apply invoke_ok|apply IH]. Qed.

Lemma invoke_all_last : forall l fs, fst (invoke_all fs l) = fold_left (fun f i => fst (invoke f i)) l fs.
Proof.
  induction l as [|i r IH]; intros fs; [reflexivity|]. cbn [invoke_all fold_left].
  destruct (invoke fs i) as [fs1 e1] eqn:E1. specialize (IH fs1). destruct (invoke_all fs1 r) as [fs2 e2]. exact IH.
Qed.

(* a corollary over whole sequences: content that no invocation may legitimately touch survives
   ANY sequence of invocations byte for byte *)
Theorem protected_content_survives : forall l fs p c,
  fs p = Some c ->
  Forall (fun i => i_path i = p -> i_append i = false \/ sniff_kind c <> Ok (i_kind i)) l ->
  fst (invoke_all fs l) p = Some c.
Proof.
  induction l as [|i r IH]; intros fs p c Hp Hall; [exact Hp|].
  inversion Hall as [|? ? Hi Hr]; subst. cbn [invoke_all].
  destruct (invoke fs i) as [fs1 e1] eqn:E1. destruct (invoke_all fs1 r) as [fs2 e2] eqn:E2. cbn [fst].
  assert (H1 : fs1 p = Some c).
  { pose proof (invoke_ok fs i) as Hs. rewrite E1 in Hs. cbn [fst snd] in Hs.
    destruct Hs as [[-> _]|(img & Hm & _ & Hw & Hfr & _)]; [exact Hp|].
    destruct (list_eq_dec N.eq_dec (i_path i) p) as [Heq|Hne].
    - exfalso. specialize (Hi Heq). unfold may_write in Hm. rewrite Heq in Hm. destruct Hm as [Hm|(Ha & o & Ho & Hk)].
      + congruence.
      + rewrite Hp in Ho. inversion Ho; subst o. destruct Hi as [Hi|Hi]; [congruence|contradiction].
    - rewrite (Hfr p Hne). exact Hp. }
  specialize (IH fs1 p c H1 Hr). rewrite E2 in IH. exact IH.
Qed.

(* both CLIs save through [invoke]: assembler.py's try/except block is literally one invocation,
   and a file_util conversion block changes the file system exactly as the invocation does *)
Lemma asm_step_invoke k append f p fs :
  asm_step k append f p fs = invoke fs {| i_path := p; i_kind := k; i_append := append; i_new := [f] |}.
Proof. reflexivity. Qed.

Lemma conv_step_invoke k src append req p fs :
  fst (fst (conv_step k src append req p fs)) =
  fst (invoke fs {| i_path := p; i_kind := k; i_append := append; i_new := filter (selected req) (v_files src) |}).
Proof.
  unfold conv_step, invoke, store. cbn [i_path i_kind i_append i_new].
  destruct (open_vf (Some k) (fs p)) as [t| | | |]; cbn [classify bind fst]; try reflexivity.
  destruct (save_vf _ append) as [[img|]| | | |]; reflexivity.
Qed.

(* ====================================================================================== *)
(* 4. C09: histories of add / save-and-reopen                                             *)
(* ====================================================================================== *)

Lemma add_vf_files v f : v_files (add_vf v f) = v_files v ++ [f].
Proof. reflexivity. Qed.

(* ---- cassette ---- *)
Definition tape_fits (fl : list cocofile) : Prop := tape_size_ok (map to_cfile fl).

Lemma tape_fits_prefix a b : tape_fits (a ++ b) -> tape_fits a.
Proof.
  unfold tape_fits, tape_size_ok. rewrite map_app, write_app, app_length. lia.
Qed.

Lemma write_normc fl : MCassette.write (map to_cfile (map normc fl)) = MCassette.write (map to_cfile fl).
Proof.
  rewrite map_map. rewrite (map_ext _ (fun f => MCassette.norm (to_cfile f)) to_cfile_normc).
  rewrite <- (map_map to_cfile MCassette.norm). apply write_norm.
Qed.

Lemma tape_fits_normc a b : tape_fits (a ++ b) -> tape_fits (map normc a ++ b).
Proof.
  unfold tape_fits, tape_size_ok. rewrite !map_app, !write_app, write_normc. tauto.
Qed.

Lemma okc_valid fl : Forall okc fl -> Forall valid_cfile (map to_cfile fl) /\ Forall (fun c => c_data c <> []) (map to_cfile fl).
Proof.
  intros H. split; apply Forall_map; (eapply Forall_impl; [|exact H]); intros f [Hv Hd]; [exact Hv|exact Hd].
Qed.

(* re-opening a cassette image the tool wrote: same kind, every file as normc lists it *)
Lemma reopen_cassette v :
  Forall okc (v_files v) -> tape_fits (v_files v) ->
  reopen KCas v = Ok {| v_kind := Some KCas; v_files := map normc (v_files v); v_exists := true |}.
Proof.
  intros Hok Hfit. destruct (okc_valid _ Hok) as [Hv Hne].
  unfold reopen. cbn [build_image bind open_vf]. rewrite (sniff_cassette _ Hv Hne Hfit). cbn [bind vkind_eqb].
  rewrite !map_map. reflexivity.
Qed.

Lemma run_hist_cassette : forall h v,
  Forall okc (v_files v) -> Forall okc (adds h) -> tape_fits (v_files v ++ adds h) ->
  exists v', run_hist KCas h v = Ok v' /\ Forall okc (v_files v') /\
             map normc (v_files v') = map normc (v_files v ++ adds h) /\
             MCassette.write (map to_cfile (v_files v')) = MCassette.write (map to_cfile (v_files v ++ adds h)).
Proof.
  induction h as [|[f|] r IH]; intros v Hv Ha Hfit; cbn [run_hist adds] in *.
  - exists v. rewrite app_nil_r. repeat split; try reflexivity. exact Hv.
  - inversion Ha as [|? ? Hf Hr]; subst.
    destruct (IH (add_vf v f)) as (v' & Hrun & Hok & Hn & Hw).
    + rewrite add_vf_files. apply Forall_app. split; [exact Hv|]. now constructor.
    + exact Hr.
    + rewrite add_vf_files, <- app_assoc. exact Hfit.
    + exists v'. rewrite add_vf_files, <- app_assoc in Hn, Hw. cbn [app] in Hn, Hw. now repeat split.
  - rewrite (reopen_cassette v Hv (tape_fits_prefix _ _ Hfit)). cbn [bind].
    destruct (IH {| v_kind := Some KCas; v_files := map normc (v_files v); v_exists := true |}) as (v' & Hrun & Hok & Hn & Hw).
    + cbn [v_files]. apply Forall_map. eapply Forall_impl; [|exact Hv]. intros f. apply okc_normc.
    + exact Ha.
    + cbn [v_files]. now apply tape_fits_normc.
    + exists v'. cbn [v_files] in Hn, Hw. repeat split; try assumption.
      * rewrite Hn, !map_app, map_map. f_equal. apply map_ext. apply normc_idem.
      * rewrite Hw, !map_app, !write_app, write_normc. reflexivity.
Qed.

(* C09, cassette: after ANY interleaving of adds and save/re-open, the image written holds exactly
   the files added, in order, each as one trip through a cassette lists it — for the tool's own reader
   (what --append and file_util --list see), for the sniffed kind, and for the spec parser *)
Theorem history_cassette h :
  Forall okc (adds h) -> tape_fits (adds h) ->
  exists img, image_after KCas h = Ok img /\
    img = MCassette.write (map to_cfile (adds h)) /\
    sniff img = Ok (map normc (adds h), KCas) /\
    SpecTape.parse img = Some (map (fun f => (to_cfile (normc f), 0)) (adds h)).
Proof.
  intros Ha Hfit. destruct (run_hist_cassette h (new_vf KCas)) as (v' & Hrun & Hok & Hn & Hw);
    [constructor|exact Ha|exact Hfit|].
  cbn [new_vf v_files app] in Hn, Hw.
  exists (MCassette.write (map to_cfile (adds h))). unfold image_after. rewrite Hrun. cbn [bind build_image].
  rewrite Hw. split; [reflexivity|]. split; [reflexivity|].
  destruct (okc_valid _ Ha) as [Hv Hne]. split.
  - rewrite (sniff_cassette _ Hv Hne Hfit). rewrite !map_map. reflexivity.
  - rewrite written_tape_wellformed.
    + rewrite map_map. reflexivity.
    + eapply Forall_impl; [|exact Hv]. intros c (_ & H1 & H2). now split.
Qed.

(* ---- disk ---- *)
Lemma okd_valid fl : Forall okd fl -> Forall valid_dfile (map to_dfile fl).
Proof. intros H. apply Forall_map. eapply Forall_impl; [|exact H]. intros f Hf. exact Hf. Qed.

Lemma reopen_disk v v' :
  Forall okd (v_files v) -> reopen KDsk v = Ok v' ->
  v' = {| v_kind := Some KDsk; v_files := map normd (v_files v); v_exists := true |}.
Proof.
  intros Hok. unfold reopen. cbn [build_image].
  destruct (MDisk.add_files default_order [] (map to_dfile (v_files v))) as [st| | | |] eqn:E; cbn [bind]; try discriminate.
  cbn [open_vf]. rewrite (sniff_disk default_order _ st default_in_range (okd_valid _ Hok) E). cbn [bind vkind_eqb].
  intros H. inversion H. rewrite !map_map. reflexivity.
Qed.

Lemma run_hist_disk : forall h v v',
  Forall okd (v_files v) -> Forall okd (adds h) -> run_hist KDsk h v = Ok v' ->
  Forall okd (v_files v') /\ map normd (v_files v') = map normd (v_files v ++ adds h).
Proof.
  induction h as [|[f|] r IH]; intros v v' Hv Ha Hrun; cbn [run_hist adds] in *.
  - inversion Hrun; subst. rewrite app_nil_r. now split.
  - inversion Ha as [|? ? Hf Hr]; subst.
    destruct (IH (add_vf v f) v') as (Hok & Hn); try assumption.
    + rewrite add_vf_files. apply Forall_app. split; [exact Hv|]. now constructor.
    + split; [exact Hok|]. rewrite add_vf_files, <- app_assoc in Hn. exact Hn.
  - destruct (reopen KDsk v) as [v1| | | |] eqn:E; cbn [bind] in Hrun; try discriminate.
    apply (reopen_disk v v1 Hv) in E. subst v1.
    assert (Hv1 : Forall okd (map normd (v_files v))).
    { apply Forall_map. eapply Forall_impl; [|exact Hv]. intros f. apply okd_normd. }
    destruct (IH {| v_kind := Some KDsk; v_files := map normd (v_files v); v_exists := true |} v' Hv1 Ha Hrun)
      as (Hok & Hn).
    split; [exact Hok|]. cbn [v_files] in Hn. rewrite Hn, !map_app, map_map. f_equal. apply map_ext. apply normd_idem.
Qed.

(* C09, disk: whenever the history runs through (no save ever reports a full disk), the image
   written holds exactly the files added, in order, each as one trip through a disk lists it *)
Theorem history_disk h img :
  Forall okd (adds h) -> image_after KDsk h = Ok img ->
  sniff img = Ok (map normd (adds h), KDsk) /\
  SpecDisk.files img = Some (map to_dfile (map normd (adds h))) /\
  SpecDisk.fsck img = true.
Proof.
  intros Ha. unfold image_after.
  destruct (run_hist KDsk h (new_vf KDsk)) as [v| | | |] eqn:Hrun; cbn [bind]; try discriminate.
  assert (H0 : Forall okd (v_files (new_vf KDsk))) by constructor.
  destruct (run_hist_disk h (new_vf KDsk) v H0 Ha Hrun) as (Hok & Hn). cbn [new_vf v_files app] in Hn.
  cbn [build_image].
  destruct (MDisk.add_files default_order [] (map to_dfile (v_files v))) as [st| | | |] eqn:E; cbn [bind]; try discriminate.
  intros H. inversion H; subst img. pose proof (okd_valid _ Hok) as Hv.
  assert (Hl : map MDisk.norm (map to_dfile (v_files v)) = map to_dfile (map normd (adds h))).
  { rewrite <- Hn, !map_map. apply map_ext. intros f. now rewrite to_dfile_normd. }
  split; [|split].
  - rewrite (sniff_disk default_order _ st default_in_range Hv E). rewrite Hl, map_map.
    f_equal. f_equal. rewrite <- (map_id (map normd (adds h))) at 2. apply map_ext. intros f. apply of_to_dfile.
  - rewrite (proj2 (disk_roundtrip default_order _ st default_in_range Hv E)). now rewrite Hl.
  - exact (written_image_valid default_order _ st default_in_range Hv E).
Qed.

(* ====================================================================================== *)
(* 5. C16: file_util conversions                                                          *)
(* ====================================================================================== *)

(* The comparison rule across containers.  A name is compared as the 8-character directory form
   without its padding: first 8 characters, upper-cased, NUL -> blank, blanks removed.  Type, data
   type and data must be identical.  Load and entry addresses are compared for machine-language
   files (type 2) only: the disk format stores none for BASIC / ASCII files.  The extension is not
   compared: a tape does not store one (the tape reader invents BIN / BAS from the type). *)
Definition canon (n : list byte) : list byte := remove_spaces (map fu (padk 8 n)).

Definition feq (a b : cocofile) : Prop :=
  canon (f_name a) = canon (f_name b) /\ f_type a = f_type b /\ f_dtype a = f_dtype b /\
  f_data a = f_data b /\ (f_type b = 2 -> f_load a = f_load b /\ f_exec a = f_exec b).

Lemma feq_refl f : feq f f.
Proof. unfold feq. repeat split. Qed.

Lemma feq_trans a b c : feq a b -> feq b c -> feq a c.
Proof.
  intros (N1 & T1 & D1 & X1 & A1) (N2 & T2 & D2 & X2 & A2). unfold feq.
  split; [congruence|]. split; [congruence|]. split; [congruence|]. split; [congruence|].
  intros Hc. destruct (A2 Hc) as [L2 E2].
  assert (Hb : f_type b = 2) by congruence. destruct (A1 Hb) as [L1 E1]. split; congruence.
Qed.

Lemma name8_padk : forall k n, name8 k n = padk k n.
Proof. induction k as [|k IH]; intros [|c r]; cbn [name8 padk]; try reflexivity; now rewrite IH. Qed.

Lemma canon_name8 n : canon (name8 8 n) = canon n.
Proof. unfold canon. rewrite (name8_padk 8 n). rewrite (padk_idem 8 n). reflexivity. Qed.

Lemma canon_idem n : canon (canon n) = canon n.
Proof. unfold canon. apply dname_idem. Qed.

Lemma feq_normc f : feq (normc f) f.
Proof.
  unfold feq, normc, of_cfile, MCassette.norm, to_cfile.
  cbn [f_name f_type f_dtype f_data f_load f_exec c_name c_type c_dtype c_load c_exec c_data].
  rewrite canon_name8. repeat split.
Qed.

Lemma feq_normd f : feq (normd f) f.
Proof.
  unfold feq, normd, of_dfile, MDisk.norm, to_dfile.
  cbn [f_name f_type f_dtype f_data f_load f_exec d_name d_ext d_type d_ascii d_load d_exec d_data].
  unfold dir_name. cbn [d_name]. change (fun b => fix_nul (upper b)) with fu.
  fold (canon (f_name f)). rewrite canon_idem.
  split; [reflexivity|]. split; [reflexivity|]. split; [reflexivity|]. split; [reflexivity|].
  intros H. unfold kind_of. rewrite H. split; reflexivity.
Qed.

Lemma Forall2_map_l {A} (R : A -> A -> Prop) (g : A -> A) l : (forall x, R (g x) x) -> Forall2 R (map g l) l.
Proof. intros H. induction l as [|x r IH]; cbn [map]; constructor; [apply H|exact IH]. Qed.

Lemma filter_true {A} (l : list A) : filter (fun _ => true) l = l.
Proof. induction l as [|x r IH]; [reflexivity|]. cbn [filter]. now rewrite IH. Qed.

Lemma selected_none fl : filter (selected None) fl = fl.
Proof. unfold selected. apply filter_true. Qed.

Lemma Forall_filter {A} (P : A -> Prop) p l : Forall P l -> Forall P (filter p l).
Proof.
  intros H. apply Forall_forall. intros x Hx. apply filter_In in Hx as [Hx _].
  rewrite Forall_forall in H. now apply H.
Qed.

(* files read off a tape are fit for a disk, files read off a disk are fit for a tape *)
Lemma okd_of_cfile c : valid_cfile c -> okd (of_cfile (MCassette.norm c)).
Proof.
  intros (Ha & Hl & He). unfold okd, valid_dfile, to_dfile, of_cfile, MCassette.norm.
  cbn [d_name d_ext d_load d_exec f_name f_ext f_load f_exec c_name c_type c_load c_exec].
  repeat split; try assumption.
  - unfold ascii_only. now apply name8_ascii.
  - destruct (c_type c =? 2); reflexivity.
Qed.

Lemma okc_of_dfile d : valid_dfile d -> d_data d <> [] -> okc (of_dfile (MDisk.norm d)).
Proof.
  intros Hv Hne. destruct (valid_dnorm d Hv) as (Hn & _ & Hl & He). unfold okc, valid_cfile, to_cfile, of_dfile.
  cbn [c_name c_load c_exec f_name f_load f_exec f_data]. repeat split; try assumption.
Qed.

(* the selected files of a source tape / disk, as file_util sees them *)
Definition sel_tape (req : option (list (list byte))) (cs : list cfile) : list cocofile :=
  filter (selected req) (map of_cfile (map MCassette.norm cs)).
Definition sel_disk (req : option (list (list byte))) (ds : list dfile) : list cocofile :=
  filter (selected req) (map of_dfile (map MDisk.norm ds)).

Lemma sel_tape_okd req cs : Forall valid_cfile cs -> Forall okd (sel_tape req cs).
Proof.
  intros H. unfold sel_tape. apply Forall_filter. rewrite map_map. apply Forall_map.
  eapply Forall_impl; [|exact H]. intros c. apply okd_of_cfile.
Qed.

(* cassette -> disk *)
Theorem convert_cas_dsk req cs img :
  Forall valid_cfile cs -> Forall (fun c => c_data c <> []) cs -> tape_size_ok cs ->
  convert KDsk req false (MCassette.write cs) None = Ok (Some img) ->
  SpecDisk.fsck img = true /\
  SpecDisk.files img = Some (map to_dfile (map normd (sel_tape req cs))) /\
  sniff img = Ok (map normd (sel_tape req cs), KDsk) /\
  Forall2 feq (map normd (sel_tape req cs)) (sel_tape req cs).
Proof.
  intros Hv Hne Hs. unfold convert. rewrite (sniff_cassette cs Hv Hne Hs). cbn [bind]. fold (sel_tape req cs).
  intros H. destruct (store_written_disk _ _ _ _ H) as (st & Ea & -> & Hok). cbn [old_files app] in *.
  pose proof (sel_tape_okd req cs Hv) as Hd. destruct (Hok Hd) as [Hf Hl].
  assert (Hm : map MDisk.norm (map to_dfile (sel_tape req cs)) = map to_dfile (map normd (sel_tape req cs))).
  { rewrite !map_map. apply map_ext. intros f. now rewrite to_dfile_normd. }
  split; [exact Hf|]. split; [now rewrite Hl, Hm|]. split.
  - rewrite (sniff_disk default_order _ st default_in_range (okd_valid _ Hd) Ea). rewrite Hm, map_map.
    f_equal. f_equal. rewrite <- (map_id (map normd (sel_tape req cs))) at 2. apply map_ext. intros f. apply of_to_dfile.
  - apply Forall2_map_l. apply feq_normd.
Qed.

(* disk -> cassette (always succeeds: a tape has no capacity limit) *)
Theorem convert_dsk_cas req order ds st :
  in_range order -> Forall valid_dfile ds -> MDisk.add_files order [] ds = Ok st ->
  let sel := sel_disk req ds in
  let img := MCassette.write (map to_cfile sel) in
  convert KCas req false (image_of st) None = Ok (Some img) /\
  SpecTape.parse img = Some (map (fun f => (to_cfile (normc f), 0)) sel) /\
  Forall2 feq (map normc sel) sel.
Proof.
  intros Ho Hv Ea sel img. unfold convert. rewrite (sniff_disk order ds st Ho Hv Ea). cbn [bind]. fold (sel_disk req ds). fold sel.
  split; [apply store_new_cassette|]. split.
  - unfold img. rewrite written_tape_wellformed.
    + rewrite map_map. reflexivity.
    + apply Forall_map. unfold sel, sel_disk. apply Forall_filter. rewrite map_map. apply Forall_map.
      eapply Forall_impl; [|exact Hv]. intros d Hd. destruct (valid_dnorm d Hd) as (_ & _ & Hl & He).
      unfold to_cfile, of_dfile. cbn [c_load c_exec f_load f_exec]. now split.
  - apply Forall2_map_l. apply feq_normc.
Qed.

(* chain cassette -> disk -> cassette: the tape written last holds the selected files of the first *)
Theorem chain_cas_dsk_cas req cs dimg :
  Forall valid_cfile cs -> Forall (fun c => c_data c <> []) cs -> tape_size_ok cs ->
  convert KDsk req false (MCassette.write cs) None = Ok (Some dimg) ->
  let sel := sel_tape req cs in
  let back := map normd sel in
  let cimg := MCassette.write (map to_cfile back) in
  convert KCas None false dimg None = Ok (Some cimg) /\
  SpecTape.parse cimg = Some (map (fun f => (to_cfile (normc f), 0)) back) /\
  Forall2 feq (map normc back) sel.
Proof.
  intros Hv Hne Hs H sel back cimg.
  destruct (convert_cas_dsk req cs dimg Hv Hne Hs H) as (_ & _ & Hsn & _). fold sel in Hsn. fold back in Hsn.
  unfold convert. rewrite Hsn. cbn [bind]. rewrite selected_none. split; [apply store_new_cassette|].
  pose proof (sel_tape_okd req cs Hv) as Hd. fold sel in Hd. split.
  - unfold cimg. rewrite written_tape_wellformed.
    + rewrite map_map. reflexivity.
    + apply Forall_map. unfold back. apply Forall_map. eapply Forall_impl; [|exact Hd]. intros f Hf.
      destruct (okd_normd f Hf) as (_ & _ & Hl & He). unfold to_cfile. cbn [c_load c_exec]. now split.
  - unfold back. rewrite map_map. apply Forall2_map_l. intros f. eapply feq_trans; [apply feq_normc|apply feq_normd].
Qed.

(* chain disk -> cassette -> disk (the tape reader needs non-empty data and a tape below 161,280 bytes) *)
Theorem chain_dsk_cas_dsk req order ds st dimg :
  in_range order -> Forall valid_dfile ds -> Forall (fun d => d_data d <> []) ds ->
  MDisk.add_files order [] ds = Ok st ->
  let sel := sel_disk req ds in
  tape_fits sel ->
  convert KDsk None false (MCassette.write (map to_cfile sel)) None = Ok (Some dimg) ->
  SpecDisk.fsck dimg = true /\
  SpecDisk.files dimg = Some (map to_dfile (map normd (map normc sel))) /\
  Forall2 feq (map normd (map normc sel)) sel.
Proof.
  intros Ho Hv Hne Ea sel Hfit H.
  assert (Hok : Forall okc sel).
  { unfold sel, sel_disk. apply Forall_filter. rewrite map_map. apply Forall_map.
    assert (Hb : Forall (fun d => valid_dfile d /\ d_data d <> []) ds).
    { apply Forall_forall. intros d Hd. rewrite Forall_forall in Hv, Hne. split; [now apply Hv|now apply Hne]. }
    eapply Forall_impl; [|exact Hb]. intros d [H1 H2]. now apply okc_of_dfile. }
  destruct (okc_valid _ Hok) as [Hcv Hcn].
  destruct (convert_cas_dsk None (map to_cfile sel) dimg Hcv Hcn Hfit H) as (Hf & Hl & _ & _).
  assert (Hs : sel_tape None (map to_cfile sel) = map normc sel).
  { unfold sel_tape. rewrite selected_none, !map_map. reflexivity. }
  rewrite Hs in Hl. split; [exact Hf|]. split; [exact Hl|].
  rewrite map_map. apply Forall2_map_l. intros f. eapply feq_trans; [apply feq_normd|apply feq_normc].
Qed.

(* --to_bin: more than one file in the source is refused (exit status 1, nothing written), whatever
   the target; exactly one file and a new target: the target holds that file's data byte for byte *)
Theorem bin_step_refuses_many src append req p fs f g r :
  v_files src = f :: g :: r ->
  exists ev, bin_step src append req p fs = (fs, ev, Some 1) /\ ev <> [].
Proof.
  intros H. unfold bin_step. destruct (classify (open_vf (Some KBin) (fs p))) as [t|e].
  - rewrite H. exists [EMoreThanOne]. split; [reflexivity|discriminate].
  - exists [EError e]. split; [reflexivity|discriminate].
Qed.

Theorem bin_step_single src append p fs f :
  v_files src = [f] -> fs p = None ->
  bin_step src append None p fs = (upd fs p (f_data f), [EFile 1 (clean_name (f_name f)); ESaved KBin], None).
Proof.
  intros H Hp. unfold bin_step. rewrite Hp, H. cbn [open_vf classify]. rewrite selected_none.
  unfold save_vf. rewrite add_all_kind, add_all_files, add_all_exists. cbn [v_kind v_files v_exists app build_image bind andb map concat classify].
  rewrite app_nil_r. reflexivity.
Qed.

(* file_util with one conversion switch writes exactly what [convert] computes *)
Definition conv_args (k : vkind) (host p : path) (req : option (list (list byte))) (append : bool) : fu_args :=
  {| a_host := host; a_append := append; a_list := false; a_to_bin := None;
     a_to_cas := match k with KCas => Some p | _ => None end;
     a_to_dsk := match k with KDsk => Some p | _ => None end; a_files := req |}.

Theorem file_util_converts k host p req append fs src :
  k <> KBin -> fs host = Some src ->
  let '(fs', ev, x) := file_util fs (conv_args k host p req append) in
  match convert k req append src (fs p) with
  | Ok (Some img) => fs' = upd fs p img /\ x = 0
  | Ok None => False
  | _ => fs' = fs /\ x = 1
  end.
Proof.
  intros Hk Hh. unfold file_util, convert. cbn [conv_args a_host a_append a_list a_to_bin a_to_cas a_to_dsk a_files].
  rewrite Hh. cbn [open_vf].
  destruct (sniff src) as [[fl k0]| | | |]; cbn [bind classify]; try (split; reflexivity).
  set (sv := {| v_kind := Some k0; v_files := fl; v_exists := true |}).
  assert (Hc : forall ev0, let '(fs', ev, x) := (let '(a, b, c) := conv_step k sv append req p fs in (a, ev0 ++ b, c)) in
              match store k append (fs p) (filter (selected req) fl) with
              | Ok (Some img) => fs' = upd fs p img /\ x = None
              | Ok None => False
              | _ => fs' = fs /\ x = Some 1
              end).
  { intros ev0. unfold conv_step, store. cbn [v_files sv].
    destruct (open_vf (Some k) (fs p)) as [t| | | |] eqn:Eo; cbn [classify bind]; try (split; reflexivity).
    destruct (save_vf (add_all t (filter (selected req) fl)) append) as [[img|]| | | |] eqn:Es; cbn [classify]; try (split; reflexivity).
    exfalso. apply (store_never_none k append (fs p) (filter (selected req) fl)). unfold store. rewrite Eo. cbn [bind]. exact Es. }
  destruct k; [|contradiction|]; cbn [andthen]; specialize (Hc []);
    destruct (conv_step _ sv append req p fs) as [[fs1 ev1] x1]; cbn [app andthen] in *;
    destruct (store _ append (fs p) (filter (selected req) fl)) as [[img|]| | | |]; try contradiction;
    destruct Hc as [-> ->]; split; reflexivity.
Qed.

(* ---- the premises "the save succeeded" are satisfiable: success follows from the files fitting ---- *)
Lemma store_new_disk append new st :
  MDisk.add_files default_order [] (map to_dfile new) = Ok st ->
  store KDsk append None new = Ok (Some (image_of st)).
Proof.
  intros E. unfold store. cbn [open_vf bind]. unfold save_vf. rewrite add_all_kind, add_all_files, add_all_exists.
  cbn [v_kind v_files v_exists app build_image]. rewrite E. reflexivity.
Qed.

Lemma convert_cas_dsk_runs req cs st :
  Forall valid_cfile cs -> Forall (fun c => c_data c <> []) cs -> tape_size_ok cs ->
  MDisk.add_files default_order [] (map to_dfile (sel_tape req cs)) = Ok st ->
  convert KDsk req false (MCassette.write cs) None = Ok (Some (image_of st)).
Proof.
  intros Hv Hne Hs E. unfold convert. rewrite (sniff_cassette cs Hv Hne Hs). cbn [bind]. now apply store_new_disk.
Qed.

Lemma reopen_disk_ok v st :
  Forall okd (v_files v) -> MDisk.add_files default_order [] (map to_dfile (v_files v)) = Ok st ->
  reopen KDsk v = Ok {| v_kind := Some KDsk; v_files := map normd (v_files v); v_exists := true |}.
Proof.
  intros Hok E. unfold reopen. cbn [build_image]. rewrite E. cbn [bind open_vf].
  rewrite (sniff_disk default_order _ st default_in_range (okd_valid _ Hok) E). cbn [bind vkind_eqb].
  rewrite !map_map. reflexivity.
Qed.

(* ====================================================================================== *)
(* 6. C09, disk: if the files added fit on a blank disk, every intermediate save succeeds   *)
(* ====================================================================================== *)
(* Allocation only looks at the chains already handed out and at the number of granules a file needs,
   and normalisation changes neither: the run on partly normalised files allocates the same chains. *)

Lemma add_files_app order : forall a b st r,
  MDisk.add_files order st (a ++ b) = Ok r ->
  exists st1, MDisk.add_files order st a = Ok st1 /\ MDisk.add_files order st1 b = Ok r.
Proof.
  induction a as [|f a IH]; intros b st r H; cbn [app MDisk.add_files] in *.
  - exists st. now split.
  - destruct (MDisk.add_file order st f) as [s1| | | |]; cbn [bind] in *; try discriminate.
    destruct (IH b s1 r H) as (st1 & H1 & H2). exists st1. now split.
Qed.

Definition shape (f g : dfile) : Prop := length (d_data f) = length (d_data g) /\ needed f = needed g.

Lemma shape_refl f : shape f f.
Proof. now split. Qed.

Lemma shape_norm d : shape d (MDisk.norm d).
Proof.
  split; [reflexivity|]. unfold needed, slen, stream, MDisk.norm, dlen.
  cbn [d_type d_ascii d_data d_load d_exec]. destruct (kind_of (d_type d) (d_ascii d)); reflexivity.
Qed.

Lemma add_file_sim order st st' f g r :
  map snd st = map snd st' -> shape f g -> MDisk.add_file order st f = Ok r ->
  exists r', MDisk.add_file order st' g = Ok r' /\ map snd r = map snd r'.
Proof.
  intros Hs [Hl Hn] H. unfold MDisk.add_file in *. rewrite <- Hl, <- Hn.
  assert (Hu : used st' = used st) by (unfold used; now rewrite Hs).
  assert (Hlen : length st' = length st).
  { rewrite <- (map_length snd st'), <- Hs, map_length. reflexivity. }
  rewrite Hu, Hlen.
  destruct (65535 <? N.of_nat (length (d_data f))); [discriminate|].
  destruct (Nat.ltb (length order) 68); [discriminate|].
  destruct (alloc order (used st) (needed f)) as [gs| | | |]; cbn [bind] in *; try discriminate.
  destruct (Tables.dir_slots_searched <=? N.of_nat (length st)); [discriminate|].
  inversion H. eexists. split; [reflexivity|]. rewrite !map_app, Hs. reflexivity.
Qed.

Lemma add_files_sim order : forall fs gs st st' r,
  Forall2 shape fs gs -> map snd st = map snd st' -> MDisk.add_files order st fs = Ok r ->
  exists r', MDisk.add_files order st' gs = Ok r' /\ map snd r = map snd r'.
Proof.
  intros fs gs st st' r HF. revert st st' r. induction HF as [|f g fs gs Hfg _ IH]; intros st st' r Hs H; cbn [MDisk.add_files] in *.
  - inversion H; subst. exists st'. now split.
  - destruct (MDisk.add_file order st f) as [s1| | | |] eqn:E; cbn [bind] in *; try discriminate.
    destruct (add_file_sim order st st' f g s1 Hs Hfg E) as (s1' & E' & Hs1). rewrite E'. cbn [bind].
    exact (IH s1 s1' r Hs1 H).
Qed.

Lemma Forall2_shape_normd fl : Forall2 shape (map to_dfile fl) (map to_dfile (map normd fl)).
Proof.
  induction fl as [|f r IH]; cbn [map]; constructor; [|exact IH]. rewrite to_dfile_normd. apply shape_norm.
Qed.

Lemma Forall2_shape_refl l : Forall2 shape l l.
Proof. induction l; constructor; [apply shape_refl|assumption]. Qed.

Lemma run_hist_disk_runs : forall h v st,
  Forall okd (v_files v) -> Forall okd (adds h) ->
  MDisk.add_files default_order [] (map to_dfile (v_files v ++ adds h)) = Ok st ->
  exists v' st', run_hist KDsk h v = Ok v' /\ MDisk.add_files default_order [] (map to_dfile (v_files v')) = Ok st'.
Proof.
  induction h as [|[f|] r IH]; intros v st Hv Ha H; cbn [run_hist adds] in *.
  - exists v, st. rewrite app_nil_r in H. now split.
  - inversion Ha as [|? ? Hf Hr]; subst. apply (IH (add_vf v f) st).
    + rewrite add_vf_files. apply Forall_app. split; [exact Hv|]. now constructor.
    + exact Hr.
    + rewrite add_vf_files, <- app_assoc. exact H.
  - rewrite map_app in H. destruct (add_files_app _ _ _ _ _ H) as (st1 & H1 & _).
    rewrite (reopen_disk_ok v st1 Hv H1). cbn [bind].
    rewrite <- map_app in H.
    destruct (add_files_sim default_order (map to_dfile (v_files v ++ adds r)) (map to_dfile (map normd (v_files v) ++ adds r)) [] [] st) as (st2 & H2 & _).
    + rewrite !map_app. apply Forall2_app; [apply Forall2_shape_normd|apply Forall2_shape_refl].
    + reflexivity.
    + exact H.
    + apply (IH {| v_kind := Some KDsk; v_files := map normd (v_files v); v_exists := true |} st2).
      * cbn [v_files]. apply Forall_map. eapply Forall_impl; [|exact Hv]. intros f. apply okd_normd.
      * exact Ha.
      * exact H2.
Qed.

(* C09, disk, unconditional form: files that fit on a blank disk in one go can be added through ANY
   interleaving with save/re-open; no intermediate save fails, and the final image lists them all *)
Theorem history_disk_total h st :
  Forall okd (adds h) -> MDisk.add_files default_order [] (map to_dfile (adds h)) = Ok st ->
  exists img, image_after KDsk h = Ok img /\
    sniff img = Ok (map normd (adds h), KDsk) /\
    SpecDisk.files img = Some (map to_dfile (map normd (adds h))) /\
    SpecDisk.fsck img = true.
Proof.
  intros Ha H.
  destruct (run_hist_disk_runs h (new_vf KDsk) st ltac:(constructor) Ha H) as (v' & st' & Hrun & Hb).
  assert (Hi : image_after KDsk h = Ok (image_of st')).
  { unfold image_after. rewrite Hrun. cbn [bind build_image]. rewrite Hb. reflexivity. }
  exists (image_of st'). split; [exact Hi|]. exact (history_disk h (image_of st') Ha Hi).
Qed.

(* ====================================================================================== *)
(* 7. the save part of assembler.py is a sequence of invocations                          *)
(* ====================================================================================== *)
Definition asm_invocations (a : asm_args) (p : program) : list invocation :=
  let f := asm_file a p in
  let mk k q := {| i_path := q; i_kind := k; i_append := s_append a; i_new := [f] |} in
  match s_to_bin a with Some q => [mk KBin q] | None => [] end ++
  match f_name f with
  | [] => []
  | _ => match s_to_cas a with Some q => [mk KCas q] | None => [] end ++
         match s_to_dsk a with Some q => [mk KDsk q] | None => [] end
  end.

Lemma asm_save_invoke_all fs a p : fst (asm_save fs a p) = fst (invoke_all fs (asm_invocations a p)).
Proof.
  unfold asm_save, asm_invocations, asm_step.
  destruct (s_to_bin a) as [qb|]; destruct (s_to_cas a) as [qc|]; destruct (s_to_dsk a) as [qd|];
    destruct (f_name (asm_file a p)) as [|c n] eqn:En; cbn [app invoke_all]; unfold invoke;
    cbn [i_path i_kind i_append i_new];
    repeat match goal with |- context [classify (store ?k ?ap ?o ?nw)] =>
             destruct (classify (store k ap o nw)) as [[?|]|?] end; reflexivity.
Qed.

Definition asm_switch (a : asm_args) (k : vkind) : option path :=
  match k with KBin => s_to_bin a | KCas => s_to_cas a | KDsk => s_to_dsk a end.

Lemma asm_invocations_spec a p i :
  In i (asm_invocations a p) -> i_append i = s_append a /\ asm_switch a (i_kind i) = Some (i_path i).
Proof.
  unfold asm_invocations. intros Hi.
  destruct (s_to_bin a) as [qb|] eqn:Eb; destruct (f_name (asm_file a p)) as [|c n];
    destruct (s_to_cas a) as [qc|] eqn:Ec; destruct (s_to_dsk a) as [qd|] eqn:Ed; cbn [app In] in Hi;
    repeat (destruct Hi as [<-|Hi]; [cbn [i_append i_kind i_path asm_switch]; split; [reflexivity|assumption]|]);
    contradiction.
Qed.

(* hence: whatever assembler.py is asked to save, an existing file is byte for byte what it was unless
   --append was given AND a switch of the kind the tool reads the file as points at it *)
Theorem asm_save_protects fs a p q c :
  fs q = Some c ->
  (s_append a = false \/ forall k, asm_switch a k = Some q -> sniff_kind c <> Ok k) ->
  fst (asm_save fs a p) q = Some c.
Proof.
  intros Hq Hc. rewrite asm_save_invoke_all. apply protected_content_survives; [exact Hq|].
  apply Forall_forall. intros i Hi Hp. destruct (asm_invocations_spec a p i Hi) as [Ha Hs].
  destruct Hc as [Hc|Hc]; [left; congruence|right]. apply Hc. now rewrite <- Hp.
Qed.
