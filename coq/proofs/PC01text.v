(* PC01text.v — from the operand TEXT to the operand classes of C01, for numeric literals in every spelling the
   assembler reads as a decimal or a $hex number: any number of decimal digits (leading zeros too) up to 65535,
   one to four hex digits in either letter case.  The value written is the positional value of the digits
   (parse_base).  Operand.create_from_str's cascade and resolve_symbols then give, for every instruction row that
   is not a pseudo operation, a register-list instruction or a branch:
       #lit    -> immediate            lit  -> direct or extended (the CPU cannot tell them apart: dp = 0)
       <lit    -> direct               >lit -> extended            [lit] -> extended indirect
   with exactly that value.  Together with parse_line_fields (PC18) this reaches the source line in any layout. *)
From V Require Import Base.
From V.model Require Import MText MValues MOperands MProgram.
From V.proofs Require Import PLayout PRender PC05 PC05list PC18.
From V.gen Require Tables.
From Coq Require Import ZifyNat ZifyN ZifyBool.
Local Open Scope N_scope.

Inductive literal := Dec (ds : text) | Hex (ds : text).
Definition lit_text (l : literal) : text := match l with Dec ds => ds | Hex ds => 36 :: ds end.
Definition lit_value (l : literal) : N := match l with Dec ds => parse_base 10 ds 0 | Hex ds => parse_base 16 ds 0 end.
Definition lit_ok (l : literal) : Prop :=
  match l with
  | Dec ds => ds <> [] /\ forallb is_digit ds = true /\ parse_base 10 ds 0 <= 65535
  | Hex ds => ds <> [] /\ forallb is_hexdigit ds = true /\ (length ds <= 4)%nat
  end.

(* ---------- characters ---------- *)
Lemma digit_props c : is_digit c = true ->
  is_labelch c = true /\ is_hexdigit c = true /\ (c =? 44) = false /\ (c =? 36) = false /\ (c =? 37) = false /\
  (c =? 39) = false /\ (c =? 60) = false /\ (c =? 62) = false /\ (c =? 35) = false /\ (c =? 91) = false /\ (c =? 45) = false.
Proof. unfold is_digit, is_labelch, is_hexdigit, is_word, is_alpha, is_upper, is_lower, is_digit, in_range. lia. Qed.

Lemma hexdigit_props c : is_hexdigit c = true ->
  is_labelch c = true /\ (c =? 44) = false /\ (c =? 36) = false /\ (c =? 37) = false.
Proof. unfold is_hexdigit, is_labelch, is_word, is_alpha, is_upper, is_lower, is_digit, in_range. lia. Qed.

Lemma forallb_impl (p q : N -> bool) t : (forall c, p c = true -> q c = true) -> forallb p t = true -> forallb q t = true.
Proof.
  intros Hpq. induction t as [|c t IH]; [reflexivity|]. cbn [forallb]. intros H. apply andb_true_iff in H as [H1 H2].
  now rewrite (Hpq c H1), (IH H2).
Qed.

Lemma forallb_not_in (p : N -> bool) t x : p x = false -> forallb p t = true -> ~ In x t.
Proof.
  intros Hx. induction t as [|c t IH]; [intros _ []|]. cbn [forallb]. intros H [-> | Hin].
  - apply andb_true_iff in H as [H1 _]. congruence.
  - apply andb_true_iff in H as [_ H2]. exact (IH H2 Hin).
Qed.

Lemma span_all p t : forallb p t = true -> span p t = (t, []).
Proof. intros H. rewrite <- (app_nil_r t) at 1. apply span_app_stop; [assumption | now left]. Qed.

(* the digits of a literal: label characters, no comma, no sigil *)
Lemma lit_digits l : lit_ok l ->
  exists c ds, (match l with Dec x => x | Hex x => x end) = c :: ds /\ forallb is_labelch (c :: ds) = true /\
               ~ In 44 (c :: ds) /\ (c =? 36) = false /\ (c =? 37) = false.
Proof.
  destruct l as [x|x]; cbn [lit_ok]; intros (Hne & Hall & _); destruct x as [|c ds]; try congruence; exists c, ds; split; try reflexivity.
  - pose proof (proj1 (andb_true_iff _ _) Hall) as [Hc _]. destruct (digit_props c Hc) as (_ & _ & _ & E36 & E37 & _).
    repeat split; try assumption.
    + apply (forallb_impl is_digit); [intros x Hx; exact (proj1 (digit_props x Hx)) | exact Hall].
    + apply (forallb_not_in is_digit); [reflexivity | exact Hall].
  - pose proof (proj1 (andb_true_iff _ _) Hall) as [Hc _]. destruct (hexdigit_props c Hc) as (_ & _ & E36 & E37).
    repeat split; try assumption.
    + apply (forallb_impl is_hexdigit); [intros x Hx; exact (proj1 (hexdigit_props x Hx)) | exact Hall].
    + apply (forallb_not_in is_hexdigit); [reflexivity | exact Hall].
Qed.

(* ---------- NumericValue(text) ---------- *)
Lemma num_of_lit l p m : lit_ok l ->
  exists n, num_of_text (lit_text l) p m = Ok n /\ n_int n = lit_value l /\ n_neg n = false.
Proof.
  destruct l as [x|x]; cbn [lit_ok lit_text lit_value].
  - intros (Hne & Hall & Hle). destruct x as [|c0 ds]; [congruence|].
    pose proof (proj1 (andb_true_iff _ _) Hall) as [Hc _].
    destruct (digit_props c0 Hc) as (_ & _ & _ & E36 & E37 & E39 & _).
    unfold num_of_text. rewrite E39, E37, E36. cbn [andb]. unfold all_c. rewrite Hall.
    assert (E : 65535 <? parse_base 10 (c0 :: ds) 0 = false) by (apply N.ltb_ge; exact Hle). rewrite E.
    destruct (post_init _ _ _) as [h m']. eexists. split; [reflexivity|]. split; reflexivity.
  - intros (Hne & Hall & Hlen). destruct x as [|d ds]; [congruence|].
    unfold num_of_text. change (36 =? 39) with false. change (36 =? 37) with false. change (36 =? 36) with true. cbn [andb].
    change (Nat.eqb (length (d :: ds)) 0) with false. cbn [negb andb]. unfold all_c. rewrite Hall.
    assert (E : Nat.ltb 4 (length (d :: ds)) = false) by (apply Nat.ltb_ge; exact Hlen). rewrite E.
    destruct (_ && _ && _); eexists; (split; [reflexivity|]); split; reflexivity.
Qed.

(* ---------- Value.create_from_str on the digits, any mode ---------- *)
Lemma split_expr_lit l : lit_ok l -> split_expr (lit_text l) = None.
Proof.
  intros Hok. destruct (lit_digits l Hok) as (c & ds & Hx & Hlab & _ & E36 & E37).
  assert (Hsig : ((c =? 36) || (c =? 37)) = false) by now rewrite E36, E37.
  unfold split_expr. cbv zeta. destruct l as [x|x]; cbn [lit_text] in *; subst x.
  - cbn [span]. rewrite Hsig. rewrite (span_all _ _ Hlab). reflexivity.
  - cbn [span]. change ((36 =? 36) || (36 =? 37)) with true. cbv iota. rewrite Hsig. rewrite (span_all _ _ Hlab). reflexivity.
Qed.

Lemma lr_of_lit l m : lit_ok l -> lr_of_text (lit_text l) m = Diag 20.
Proof.
  intros Hok. destruct (lit_digits l Hok) as (c & ds & Hx & _ & Hnc & _).
  unfold lr_of_text. rewrite split_on_nosep; [reflexivity|].
  destruct l as [x|x]; cbn [lit_text] in *; subst x; [exact Hnc|]. intros [E | Hin]; [discriminate | exact (Hnc Hin)].
Qed.

Definition value_core (t' : text) (p : option N) (m : mode) : res value :=
  ok_or (expr_of_text t' m)
 (ok_or (lr_of_text t' m)
 (ok_or (do n <- num_of_text t' p m; Ok (VNum n))
        (if all_c is_symch t' && negb (Nat.eqb (length t') 0) then Ok (VSym t' m) else Diag 20))).

Lemma value_core_lit l p m : lit_ok l ->
  exists n, value_core (lit_text l) p m = Ok (VNum n) /\ num_of_text (lit_text l) p m = Ok n /\
            n_int n = lit_value l /\ n_neg n = false.
Proof.
  intros Hok. destruct (num_of_lit l p m Hok) as (n & Hn & Hi & Hneg). exists n. split; [|auto].
  unfold value_core, expr_of_text. rewrite (split_expr_lit l Hok), (lr_of_lit l m Hok), Hn. reflexivity.
Qed.

(* the four prefixes *)
Lemma value_of_text_plain l is16 de : lit_ok l ->
  value_of_text (lit_text l) false is16 de =
  value_core (lit_text l) (if is16 then Some 4 else None) (if de then MExtended else MNone).
Proof.
  intros Hok. destruct (lit_digits l Hok) as (c & ds & Hx & _).
  assert (Hc0 : exists c0 r, lit_text l = c0 :: r /\ (c0 =? 60) = false /\ (c0 =? 62) = false /\ (c0 =? 35) = false).
  { destruct l as [x|x]; cbn [lit_text lit_ok] in *; subst x.
    - destruct Hok as (_ & Hall & _). pose proof (proj1 (andb_true_iff _ _) Hall) as [Hc _].
      destruct (digit_props c Hc) as (_ & _ & _ & _ & _ & _ & E60 & E62 & E35 & _). exists c, ds. auto.
    - exists 36, (c :: ds). auto. }
  destruct Hc0 as (c0 & r & Ht & E60 & E62 & E35). rewrite Ht. unfold value_of_text. rewrite E60, E62, E35. reflexivity.
Qed.

Lemma value_of_text_prefixed pre l is16 de : lit_ok l -> (pre = 35 \/ pre = 60 \/ pre = 62) ->
  value_of_text (pre :: lit_text l) false is16 de =
  value_core (lit_text l) (if is16 then Some 4 else None)
             (if pre =? 60 then MExplDirect else if pre =? 62 then MExplExtended else MImmediate).
Proof. intros _ [-> | [-> | ->]]; reflexivity. Qed.

(* ---------- Operand.create_from_str ---------- *)
Definition plain_row (i : irow) : Prop :=
  Tables.is_pseudo i = false /\ Tables.is_special i = false /\ is_branch i = false /\ Tables.is_string_define i = false.

Lemma post_init_imm v h : snd (post_init v h MImmediate) = MImmediate.
Proof. unfold post_init. destruct h; cbn [mode_eqb negb andb]; [reflexivity|]. rewrite andb_false_r. reflexivity. Qed.

Lemma mode_of_num_text t p n : num_of_text t p MImmediate = Ok n -> n_mode n = MImmediate.
Proof.
  unfold num_of_text. destruct t as [|c0 ds]; [discriminate|]. cbn [mode_eqb negb andb].
  repeat match goal with
  | |- (if ?b then _ else _) = Ok _ -> _ => destruct b eqn:?
  | |- (let '(_, _) := ?y in _) = Ok _ -> _ => destruct y eqn:?
  end; try discriminate; intros E; inversion E; subst; cbn [n_mode]; try reflexivity.
  all: try match goal with H : (_, _) = (_, _) |- _ => inversion H; subst; reflexivity end.
  all: try match goal with H : (if ?b then _ else _) = (_, _) |- _ => destruct b; inversion H; subst; reflexivity end.
  all: match goal with H : post_init ?v ?h MImmediate = (_, ?m') |- _ => pose proof (post_init_imm v h) as Q; rewrite H in Q; exact Q end.
Qed.

(* #lit *)
Theorem immediate_text i l : plain_row i -> lit_ok l ->
  exists n, create_operand (35 :: lit_text l) i = Ok (OImmediate (VNum n)) /\ n_int n = lit_value l /\ n_neg n = false.
Proof.
  intros (Hp & Hs & Hb & Hsd) Hok.
  destruct (value_core_lit l (if Tables.is_16_bit i then Some 4 else None) MImmediate Hok) as (n & Hv & Hn & Hi & Hneg).
  exists n. split; [|auto].
  unfold create_operand. rewrite Hp, Hs, Hb. cbn [andb]. cbn [hd]. change (35 =? 91) with false. cbn [andb].
  unfold create_value. rewrite Hsd. rewrite (value_of_text_prefixed 35 l _ true Hok (or_introl eq_refl)).
  change (35 =? 60) with false. change (35 =? 62) with false. cbv iota. rewrite Hv.
  cbn [bind vte_to_ote next_if_ote]. cbn [v_mode]. rewrite (mode_of_num_text _ _ _ Hn). reflexivity.
Qed.

(* ---------- modes a literal can take ---------- *)
Ltac num_cases :=
  unfold num_of_text; match goal with |- context [match ?t with [] => _ | _ :: _ => _ end] => destruct t as [|?c0 ?ds]; [discriminate|] end;
  cbn [mode_eqb negb andb];
  repeat match goal with
  | |- (if ?b then _ else _) = Ok _ -> _ => destruct b eqn:?
  | |- (let '(_, _) := ?y in _) = Ok _ -> _ => destruct y eqn:?
  end; try discriminate; intros E; inversion E; subst; cbn [n_mode n_int].

Lemma post_init_mode v p m : is_ext_mode m = true \/ m = MExplDirect ->
  snd (post_init v (init_hint p m) m) = m \/ (m = MExplDirect /\ snd (post_init v (init_hint p m) m) = MDirect /\ v < 256).
Proof.
  intros [Hm | ->].
  - left. unfold post_init, init_hint. rewrite Hm. destruct m; try discriminate; reflexivity.
  - unfold post_init, init_hint. cbn [is_ext_mode]. destruct p; cbn [mode_eqb negb andb]; [now left|]. rewrite andb_true_r.
    destruct (N.ltb_spec v 256); [right; auto | now left].
Qed.

(* a literal read in a mode other than immediate is not immediate *)
Lemma num_not_immediate t p m n : num_of_text t p m = Ok n -> is_ext_mode m = true \/ m = MExplDirect ->
  mode_eqb (n_mode n) MImmediate = false.
Proof.
  intros H Hm. assert (Hni : mode_eqb m MImmediate = false) by (destruct Hm as [Hm | ->]; [destruct m; try discriminate|]; reflexivity).
  revert H. unfold num_of_text. destruct t as [|c0 ds]; [discriminate|]. rewrite Hni.
  repeat match goal with
  | |- (if ?b then _ else _) = Ok _ -> _ => destruct b eqn:?
  | |- (let '(_, _) := ?y in _) = Ok _ -> _ => destruct y eqn:?
  end; try discriminate; intros E; inversion E; subst; cbn [n_mode]; try exact Hni; try reflexivity.
  all: try match goal with H : (if ?b then _ else _) = (_, _) |- _ => destruct b; inversion H; subst end.
  all: try exact Hni.
  all: try match goal with H : post_init ?v (init_hint ?pp ?mm) ?mm = (_, ?m') |- _ =>
         destruct (post_init_mode v pp mm Hm) as [Q | (Q1 & Q & _)]; rewrite H in Q; cbn [snd] in Q; subst m' end.
  all: try exact Hni.
  all: try reflexivity.
  all: match goal with Hx : mode_eqb ?mm MImmediate = false |- _ => destruct mm; try discriminate Hx; reflexivity end.
Qed.

(* the mode of a literal read in mode m (extended-like or forced direct) is m, or DIRECT when the value/spelling is short *)
Lemma num_mode_cases t p m n : num_of_text t p m = Ok n -> is_ext_mode m = true \/ m = MExplDirect ->
  n_mode n = m \/ n_mode n = MDirect.
Proof.
  intros H Hm. assert (Hni : mode_eqb m MImmediate = false) by (destruct Hm as [Hm | ->]; [destruct m; try discriminate|]; reflexivity).
  assert (Hnn : mode_eqb m MNone = false) by (destruct Hm as [Hm | ->]; [destruct m; try discriminate|]; reflexivity).
  revert H. unfold num_of_text. destruct t as [|c0 ds]; [discriminate|]. rewrite Hni.
  repeat match goal with
  | |- (if ?b then _ else _) = Ok _ -> _ => destruct b eqn:?
  | |- (let '(_, _) := ?y in _) = Ok _ -> _ => destruct y eqn:?
  end; try discriminate; intros E; inversion E; subst; cbn [n_mode]; try (now left); try (now right).
  all: try match goal with H : (if ?b then _ else _) = (_, _) |- _ => destruct b; inversion H; subst end.
  all: try (rewrite Hnn; now left).
  all: try (cbn [mode_eqb]; now right).
  all: match goal with H : post_init ?v (init_hint ?pp ?mm) ?mm = (_, ?m') |- _ =>
         destruct (post_init_mode v pp mm Hm) as [Q | (Q1 & Q & _)]; rewrite H in Q; cbn [snd] in Q; subst m' end.
  all: try (now left); try (now right).
Qed.

Lemma num_expl_extended t p n : num_of_text t p MExplExtended = Ok n -> n_mode n = MExplExtended.
Proof.
  num_cases; try reflexivity.
  all: try match goal with H : _ && false = true |- _ => rewrite andb_false_r in H; discriminate H end.
  all: try match goal with H : (_, _) = (_, _) |- _ => inversion H; subst; reflexivity end.
  all: try match goal with H : (if ?b then _ else _) = (_, _) |- _ => rewrite andb_false_r in H; inversion H; subst; reflexivity end.
  all: match goal with H : post_init ?v (init_hint ?pp MExplExtended) MExplExtended = (_, ?m') |- _ =>
         destruct (post_init_mode v pp MExplExtended (or_introl eq_refl)) as [Q | (Q1 & _)]; [rewrite H in Q; exact Q | discriminate] end.
Qed.

Lemma hexdigit_val c : is_hexdigit c = true -> digit_val c <= 15.
Proof. unfold is_hexdigit, digit_val, is_digit, in_range. intros H. repeat match goal with |- context [if ?b then _ else _] => destruct b eqn:? end; lia. Qed.

Lemma lit_expl_direct l p n : lit_ok l -> num_of_text (lit_text l) p MExplDirect = Ok n ->
  n_mode n = MExplDirect \/ (n_mode n = MDirect /\ n_int n < 256).
Proof.
  destruct l as [x|x]; cbn [lit_ok lit_text].
  - intros (Hne & Hall & Hle). destruct x as [|c0 ds]; [congruence|].
    pose proof (proj1 (andb_true_iff _ _) Hall) as [Hc _].
    destruct (digit_props c0 Hc) as (_ & _ & _ & E36 & E37 & E39 & _).
    unfold num_of_text. rewrite E39, E37, E36. cbn [andb]. unfold all_c. rewrite Hall.
    destruct (65535 <? _); [discriminate|]. destruct (post_init _ _ _) as [h m'] eqn:Hp. intros E. inversion E; subst. cbn [n_mode n_int].
    destruct (post_init_mode (parse_base 10 (c0 :: ds) 0) p MExplDirect (or_intror eq_refl)) as [Q | (_ & Q & Hlt)];
      rewrite Hp in Q; cbn [snd] in Q; subst m'; [now left | right; auto].
  - intros (Hne & Hall & Hlen). destruct x as [|d ds]; [congruence|].
    unfold num_of_text. change (36 =? 39) with false. change (36 =? 37) with false. change (36 =? 36) with true. cbn [andb].
    change (Nat.eqb (length (d :: ds)) 0) with false. cbn [negb andb mode_eqb]. unfold all_c. rewrite Hall.
    destruct (Nat.ltb 4 _); [discriminate|].
    destruct (Nat.eqb (length (d :: ds)) 2 && _ && true) eqn:Ec; intros E; inversion E; subst; cbn [n_mode n_int mode_eqb]; [|now left].
    right. split; [reflexivity|]. apply andb_true_iff in Ec as [Ec _]. apply andb_true_iff in Ec as [Ec _]. apply Nat.eqb_eq in Ec.
    destruct ds as [|e [|? ?]]; cbn [length] in Ec; try discriminate. cbn [forallb] in Hall.
    apply andb_true_iff in Hall as [Hd Hall]. apply andb_true_iff in Hall as [He _].
    pose proof (hexdigit_val d Hd). pose proof (hexdigit_val e He). cbn [parse_base]. lia.
Qed.

(* ---------- lit, <lit, >lit ---------- *)
Lemma create_unknown i s c0 r n : plain_row i -> s = c0 :: r -> (c0 =? 91) = false ->
  create_value s i true = Ok (VNum n) -> mode_eqb (n_mode n) MImmediate = false ->
  create_operand s i = Ok (OUnknown (VNum n)).
Proof.
  intros (Hp & Hs & Hb & Hsd) -> E91 Hv Hm. unfold create_operand. rewrite Hp, Hs, Hb. cbn [andb hd]. rewrite E91. cbn [andb].
  rewrite Hv. cbn [bind vte_to_ote next_if_ote v_mode]. rewrite Hm. reflexivity.
Qed.

Definition resolves_to_address (i : irow) (tb : symtab) (n : num) : Prop :=
  (resolve_operand (OUnknown (VNum n)) i tb = Ok (ODirect (VNum n)) /\ n_int n < 256) \/
  resolve_operand (OUnknown (VNum n)) i tb = Ok (OExtended (VNum n)).

Theorem address_text i l tb : plain_row i -> lit_ok l ->
  exists n, create_operand (lit_text l) i = Ok (OUnknown (VNum n)) /\ n_int n = lit_value l /\ n_neg n = false /\
            resolves_to_address i tb n.
Proof.
  intros Hrow Hok. pose proof Hrow as (Hp & Hs & Hb & Hsd).
  destruct (value_core_lit l (if Tables.is_16_bit i then Some 4 else None) MExtended Hok) as (n & Hv & Hn & Hi & Hneg).
  exists n. split; [|split; [exact Hi | split; [exact Hneg|]]].
  - destruct (lit_digits l Hok) as (c & ds & Hx & _).
    assert (Hc0 : exists c0 r, lit_text l = c0 :: r /\ (c0 =? 91) = false).
    { destruct l as [x|x]; cbn [lit_text lit_ok] in *; subst x.
      - destruct Hok as (_ & Hall & _). pose proof (proj1 (andb_true_iff _ _) Hall) as [Hc _].
        destruct (digit_props c Hc) as (_ & _ & _ & _ & _ & _ & _ & _ & _ & E91 & _). exists c, ds. auto.
      - exists 36, (c :: ds). auto. }
    destruct Hc0 as (c0 & r & Ht & E91). eapply create_unknown; [exact Hrow | exact Ht | exact E91 | |].
    + unfold create_value. rewrite Hsd, (value_of_text_plain l _ true Hok). exact Hv.
    + apply (num_not_immediate _ _ _ _ Hn). now left.
  - unfold resolves_to_address. cbn [resolve_operand resolve_value bind v_mode v_is_numeric v_int v_negative].
    assert (Hned : mode_eqb (n_mode n) MExplDirect = false).
    { destruct (num_mode_cases _ _ _ _ Hn (or_introl eq_refl)) as [-> | ->]; reflexivity. }
    rewrite Hned. cbn [orb andb]. destruct (_ && _) eqn:Ef; [left | now right]. split; [reflexivity|].
    repeat (apply andb_true_iff in Ef as [Ef ?]). now apply N.ltb_lt.
Qed.

Theorem forced_direct_text i l tb : plain_row i -> lit_ok l ->
  exists n, create_operand (60 :: lit_text l) i = Ok (OUnknown (VNum n)) /\ n_int n = lit_value l /\ n_neg n = false /\
            resolve_operand (OUnknown (VNum n)) i tb = Ok (ODirect (VNum n)).
Proof.
  intros Hrow Hok. pose proof Hrow as (Hp & Hs & Hb & Hsd).
  destruct (value_core_lit l (if Tables.is_16_bit i then Some 4 else None) MExplDirect Hok) as (n & Hv & Hn & Hi & Hneg).
  exists n. split; [|split; [exact Hi | split; [exact Hneg|]]].
  - eapply create_unknown; [exact Hrow | reflexivity | reflexivity | |].
    + unfold create_value. rewrite Hsd, (value_of_text_prefixed 60 l _ true Hok (or_intror (or_introl eq_refl))). exact Hv.
    + apply (num_not_immediate _ _ _ _ Hn). now right.
  - cbn [resolve_operand resolve_value bind v_mode v_is_numeric v_int v_negative]. unfold v_is_direct. cbn [v_mode]. rewrite Hneg.
    destruct (lit_expl_direct l _ n Hok Hn) as [Hm | [Hm Hlt]]; rewrite Hm; cbn [mode_eqb orb andb negb]; [reflexivity|].
    apply N.ltb_lt in Hlt. rewrite Hi in Hlt |- *. rewrite Hlt. reflexivity.
Qed.

Theorem forced_extended_text i l tb : plain_row i -> lit_ok l ->
  exists n, create_operand (62 :: lit_text l) i = Ok (OUnknown (VNum n)) /\ n_int n = lit_value l /\ n_neg n = false /\
            resolve_operand (OUnknown (VNum n)) i tb = Ok (OExtended (VNum n)).
Proof.
  intros Hrow Hok. pose proof Hrow as (Hp & Hs & Hb & Hsd).
  destruct (value_core_lit l (if Tables.is_16_bit i then Some 4 else None) MExplExtended Hok) as (n & Hv & Hn & Hi & Hneg).
  exists n. split; [|split; [exact Hi | split; [exact Hneg|]]].
  - eapply create_unknown; [exact Hrow | reflexivity | reflexivity | |].
    + unfold create_value. rewrite Hsd, (value_of_text_prefixed 62 l _ true Hok (or_intror (or_intror eq_refl))). exact Hv.
    + apply (num_not_immediate _ _ _ _ Hn). now left.
  - cbn [resolve_operand resolve_value bind v_mode v_is_numeric]. rewrite (num_expl_extended _ _ _ Hn).
    cbn [mode_eqb orb andb negb]. rewrite !andb_false_r. reflexivity.
Qed.

(* ---------- [lit] ---------- *)
Theorem indirect_text i l tb : plain_row i -> lit_ok l ->
  let s := 91 :: lit_text l ++ [93] in
  exists n, create_operand s i = Ok (OExtIdx s (VNum n) (LVal VNone) None) /\ n_int n = lit_value l /\ n_neg n = false /\
            resolve_operand (OExtIdx s (VNum n) (LVal VNone) None) i tb = Ok (OExtIdx s (VNum n) (LVal VNone) None).
Proof.
  intros Hrow Hok s. pose proof Hrow as (Hp & Hs & Hb & Hsd).
  destruct (value_core_lit l (if Tables.is_16_bit i then Some 4 else None) MExtended Hok) as (n & Hv & Hn & Hi & Hneg).
  exists n. split; [|split; [exact Hi | split; [exact Hneg | reflexivity]]].
  unfold create_operand. rewrite Hp, Hs, Hb. cbn [andb]. subst s. cbn [hd tl]. change (91 =? 91) with true.
  change (91 :: lit_text l ++ [93]) with ((91 :: lit_text l) ++ [93]) at 1. rewrite last_last. change (93 =? 93) with true. cbn [andb].
  rewrite removelast_last. unfold create_value. rewrite Hsd, (value_of_text_plain l _ true Hok), Hv. reflexivity.
Qed.

(* the immediate operand is left alone by resolve_symbols *)
Lemma resolve_immediate i tb n : resolve_operand (OImmediate (VNum n)) i tb = Ok (OImmediate (VNum n)).
Proof. reflexivity. Qed.

(* ---------- lit,R : a constant offset from an index register ---------- *)
Lemma split_expr_lit_comma l nm : lit_ok l -> split_expr (lit_text l ++ 44 :: nm) = None.
Proof.
  intros Hok. destruct (lit_digits l Hok) as (c & ds & Hx & Hlab & _ & E36 & E37).
  assert (Hsig : ((c =? 36) || (c =? 37)) = false) by now rewrite E36, E37.
  assert (Hstop : 44 :: nm = [] \/ exists c' t', 44 :: nm = c' :: t' /\ is_labelch c' = false) by (right; exists 44, nm; auto).
  unfold split_expr. cbv zeta. destruct l as [x|x]; cbn [lit_text] in *; subst x.
  - change ((c :: ds) ++ 44 :: nm) with (c :: (ds ++ 44 :: nm)). cbn [span]. rewrite Hsig.
    change (c :: ds ++ 44 :: nm) with ((c :: ds) ++ 44 :: nm). rewrite (span_app_stop is_labelch _ _ Hlab Hstop). reflexivity.
  - change ((36 :: c :: ds) ++ 44 :: nm) with (36 :: c :: (ds ++ 44 :: nm)). cbn [span]. change ((36 =? 36) || (36 =? 37)) with true. cbv iota. rewrite Hsig.
    change (c :: ds ++ 44 :: nm) with ((c :: ds) ++ 44 :: nm). rewrite (span_app_stop is_labelch _ _ Hlab Hstop). reflexivity.
Qed.

Lemma lr_of_lit_comma l nm m : lit_ok l -> ~ In 44 nm -> lr_of_text (lit_text l ++ 44 :: nm) m = Ok (VLR (lit_text l) nm m).
Proof.
  intros Hok Hnm. destruct (lit_digits l Hok) as (c & ds & Hx & _ & Hnc & _).
  assert (Hl : ~ In 44 (lit_text l)).
  { destruct l as [x|x]; cbn [lit_text] in *; subst x; [exact Hnc|]. intros [E | Hin]; [discriminate | exact (Hnc Hin)]. }
  unfold lr_of_text. rewrite (split_on_app 44 _ nm Hl), (split_on_nosep 44 nm Hnm). reflexivity.
Qed.

Theorem indexed_text i l nm tb : plain_row i -> lit_ok l -> ~ In 44 nm -> is_abd (lit_text l) = false ->
  let s := lit_text l ++ 44 :: nm in
  exists n, create_operand s i = Ok (OIndexed s (LStr (lit_text l)) nm) /\
            resolve_operand (OIndexed s (LStr (lit_text l)) nm) i tb = Ok (OIndexed s (LVal (VNum n)) nm) /\
            n_int n = lit_value l /\ n_neg n = false.
Proof.
  intros Hrow Hok Hnm Habd s. pose proof Hrow as (Hp & Hs & Hb & Hsd).
  destruct (value_core_lit l (if Tables.is_16_bit i then Some 4 else None) MNone Hok) as (n & Hv & Hn & Hi & Hneg).
  exists n. split; [|split; [|auto]].
  - destruct (lit_digits l Hok) as (c & ds & Hx & _).
    assert (Hc0 : exists c0 r, lit_text l = c0 :: r /\ (c0 =? 60) = false /\ (c0 =? 62) = false /\ (c0 =? 35) = false /\ (c0 =? 91) = false).
    { destruct l as [x|x]; cbn [lit_text lit_ok] in *; subst x.
      - destruct Hok as (_ & Hall & _). pose proof (proj1 (andb_true_iff _ _) Hall) as [Hc _].
        destruct (digit_props c Hc) as (_ & _ & _ & _ & _ & _ & E60 & E62 & E35 & E91 & _). exists c, ds. auto.
      - exists 36, (c :: ds). auto. }
    destruct Hc0 as (c0 & r & Ht & E60 & E62 & E35 & E91).
    assert (Hval : create_value s i true = Ok (VLR (lit_text l) nm MExtended)).
    { unfold create_value. rewrite Hsd. subst s. rewrite Ht. cbn [app]. unfold value_of_text. rewrite E60, E62, E35.
      change (c0 :: r ++ 44 :: nm) with ((c0 :: r) ++ 44 :: nm). rewrite <- Ht.
      unfold expr_of_text. rewrite (split_expr_lit_comma l nm Hok), (lr_of_lit_comma l nm _ Hok Hnm). reflexivity. }
    unfold create_operand. rewrite Hp, Hs, Hb. cbn [andb]. subst s. rewrite Ht in *. cbn [app hd]. rewrite E91. cbn [andb].
    cbn [app] in Hval. rewrite Hval. reflexivity.
  - cbn [resolve_operand resolve_left]. rewrite Habd.
    assert (Hlen : Nat.eqb (length (lit_text l)) 0 = false).
    { destruct (lit_digits l Hok) as (c & ds & Hx & _). destruct l as [x|x]; cbn [lit_text] in *; subst x; reflexivity. }
    rewrite Hlen. cbn [orb]. unfold create_value. rewrite Hsd, (value_of_text_plain l _ false Hok), Hv. reflexivity.
Qed.

Lemma lit_not_abd l : lit_ok l -> is_abd (lit_text l) = false.
Proof.
  intros Hok. destruct (lit_digits l Hok) as (c & ds & Hx & _). unfold is_abd, t_A, t_B, t_D.
  destruct l as [x|x]; cbn [lit_text lit_ok] in *; subst x.
  - destruct Hok as (_ & Hall & _). pose proof (proj1 (andb_true_iff _ _) Hall) as [Hc _].
    unfold text_eqb, list_eqb. unfold is_digit, in_range in Hc.
    assert (E1 : (c =? 65) = false) by lia. assert (E2 : (c =? 66) = false) by lia. assert (E3 : (c =? 68) = false) by lia.
    cbn. rewrite E1, E2, E3. reflexivity.
  - reflexivity.
Qed.
