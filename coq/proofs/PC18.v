(* PC18.v — reformatting a source line changes nothing (property C18, the white space / comment / letter case
   part).  A statement line is  label sp1 mnemonic sp2 operand rest ; the parsed statement is a function of
   (label, upper-cased mnemonic, operand) alone: the amount of white space in sp1 and sp2, the text of rest (a
   comment, trailing blanks, nothing) and the letter case of the mnemonic do not reach it. *)
From V Require Import Base.
From V.model Require Import MText MValues MOperands MProgram.
From V.proofs Require Import PLayout PClean PC05.
From V.gen Require Tables.
Local Open Scope N_scope.

Lemma span_app_stop p : forall a b, forallb p a = true -> (b = [] \/ exists c t, b = c :: t /\ p c = false) ->
  span p (a ++ b) = (a, b).
Proof.
  induction a as [|x a IH]; intros b Ha Hb; cbn [app].
  - destruct Hb as [-> | (c & t & -> & Hc)]; [reflexivity|]. cbn [span]. now rewrite Hc.
  - cbn [forallb] in Ha. apply andb_true_iff in Ha as [Hx Ha]. cbn [span]. rewrite Hx. now rewrite (IH b Ha Hb).
Qed.

Lemma lstrip_app_spaces sp t : forallb is_space sp = true -> (t = [] \/ exists c r, t = c :: r /\ is_space c = false) ->
  lstrip (sp ++ t) = t.
Proof. intros Hs Ht. unfold lstrip. now rewrite (span_app_stop is_space sp t Hs Ht). Qed.

Lemma word_not_space c : is_word c = true -> is_space c = false.
Proof.
  unfold is_word, is_space, is_alpha, is_digit, is_upper, is_lower, in_range. intros H.
  repeat match goal with |- context [?a <=? ?b] => destruct (N.leb_spec a b) end; cbn in *; try reflexivity;
    repeat match type of H with context [?a =? ?b] => destruct (N.eqb_spec a b) end; cbn in H; try discriminate; lia.
Qed.

Lemma space_not_labelch c : is_space c = true -> is_labelch c = false.
Proof.
  intros H. unfold is_labelch. destruct (is_word c) eqn:E; [apply word_not_space in E; congruence|].
  cbn [orb]. destruct (N.eqb_spec c 64) as [->|]; [discriminate H | reflexivity].
Qed.

Lemma space_not_word c : is_space c = true -> is_word c = false.
Proof. intros H. destruct (is_word c) eqn:E; [apply word_not_space in E; congruence | reflexivity]. Qed.

Lemma space_not_opch c : is_space c = true -> is_opch c = false.
Proof.
  intros H. unfold is_opch. rewrite (space_not_word c H). cbn [orb].
  unfold is_space, in_range in H.
  assert (Hc : c <= 32) by (repeat match type of H with context [?a <=? ?b] => destruct (N.leb_spec a b) end; cbn in H; try discriminate; lia).
  cbn [existsb]. repeat match goal with |- context [N.eqb c ?k] => destruct (N.eqb_spec c k); [lia|] end. reflexivity.
Qed.

(* the shape of a statement line *)
Record line_fields := { lf_label : text; lf_sp1 : text; lf_mn : text; lf_sp2 : text; lf_ops : text; lf_rest : text }.

Definition line_of (f : line_fields) : text := lf_label f ++ lf_sp1 f ++ lf_mn f ++ lf_sp2 f ++ lf_ops f ++ lf_rest f.

Definition well_formed_fields (f : line_fields) : Prop :=
  forallb is_labelch (lf_label f) = true /\
  lf_sp1 f <> [] /\ forallb is_space (lf_sp1 f) = true /\
  lf_mn f <> [] /\ forallb is_word (lf_mn f) = true /\
  lf_sp2 f <> [] /\ forallb is_space (lf_sp2 f) = true /\
  forallb is_opch (lf_ops f) = true /\
  (* the operand field ends where rest begins; sp2 is all the white space there is *)
  (lf_rest f = [] \/ exists c t, lf_rest f = c :: t /\ is_opch c = false /\ (lf_ops f = [] -> is_space c = false)) /\
  mem_c 10 (removelast (line_of f)) = false.

Lemma forallb_hd_false (p : N -> bool) c t : forallb p (c :: t) = true -> p c = true.
Proof. cbn [forallb]. intros H. now apply andb_true_iff in H as [H _]. Qed.

Theorem parse_line_fields f i :
  well_formed_fields f -> find_instr (upper_t (lf_mn f)) Tables.instructions = Some i -> Tables.is_string_define i = false ->
  parse_line (line_of f) =
    (do o <- as_parse_error (create_operand (lf_ops f) i); Ok (Some (mk_stmt (lf_label f) i o (lf_ops f)))).
Proof.
  intros (Hlb & Hs1n & Hs1 & Hmnn & Hmn & Hs2n & Hs2 & Hops & Hrest & Hnl) Hfind Hstr.
  destruct f as [label sp1 mn sp2 ops rest]. unfold line_of in *. cbn [lf_label lf_sp1 lf_mn lf_sp2 lf_ops lf_rest] in *.
  destruct sp1 as [|s1 sp1']; [contradiction|]. destruct mn as [|m1 mn']; [contradiction|]. destruct sp2 as [|s2 sp2']; [contradiction|].
  pose proof (forallb_hd_false _ _ _ Hs1) as Hs1h. pose proof (forallb_hd_false _ _ _ Hmn) as Hm1. pose proof (forallb_hd_false _ _ _ Hs2) as Hs2h.
  unfold parse_line. rewrite Hnl.
  (* not blank: the mnemonic's first character is not a space *)
  assert (Hblank : all_c is_space (label ++ (s1 :: sp1') ++ (m1 :: mn') ++ (s2 :: sp2') ++ ops ++ rest) = false).
  { unfold all_c. rewrite !forallb_app. cbn [forallb]. rewrite (word_not_space m1 Hm1). cbn [andb]. now rewrite !andb_false_r. }
  rewrite Hblank.
  (* not a comment line: the first non-space character is a label character or the mnemonic's first one *)
  assert (Hcomment : (hd 0 (lstrip (label ++ (s1 :: sp1') ++ (m1 :: mn') ++ (s2 :: sp2') ++ ops ++ rest)) =? 59) = false).
  { destruct label as [|l1 label'].
    - rewrite app_nil_l. rewrite (lstrip_app_spaces (s1 :: sp1') _ Hs1); [|right; exists m1; eexists; split; [reflexivity | now apply word_not_space]].
      cbn [hd app]. unfold is_word, is_alpha, is_digit, is_upper, is_lower, in_range in Hm1.
      destruct (N.eqb_spec m1 59) as [->|]; [discriminate Hm1 | reflexivity].
    - pose proof (forallb_hd_false _ _ _ Hlb) as Hl1. cbn [app]. unfold lstrip. cbn [span].
      assert (Hsp : is_space l1 = false).
      { destruct (is_space l1) eqn:E; [apply space_not_labelch in E; congruence | reflexivity]. }
      rewrite Hsp. cbn [snd hd]. unfold is_labelch, is_word, is_alpha, is_digit, is_upper, is_lower, in_range in Hl1.
      destruct (N.eqb_spec l1 59) as [->|]; [discriminate Hl1 | reflexivity]. }
  rewrite Hcomment.
  (* the label field *)
  rewrite (span_app_stop is_labelch label _ Hlb); [|right; exists s1; eexists; split; [reflexivity | now apply space_not_labelch]].
  cbn [app]. rewrite Hs1h. cbn [negb].
  change (s1 :: sp1' ++ m1 :: mn' ++ s2 :: sp2' ++ ops ++ rest) with ((s1 :: sp1') ++ (m1 :: mn') ++ (s2 :: sp2') ++ ops ++ rest).
  rewrite (lstrip_app_spaces (s1 :: sp1') _ Hs1); [|right; exists m1; eexists; split; [reflexivity | now apply word_not_space]].
  (* the mnemonic field *)
  rewrite (span_app_stop is_word (m1 :: mn') _ Hmn); [|right; exists s2; eexists; split; [reflexivity | now apply space_not_word]].
  cbn [app]. rewrite Hs2h. cbn [negb].
  change (s2 :: sp2' ++ ops ++ rest) with ((s2 :: sp2') ++ ops ++ rest).
  assert (Hl3 : lstrip ((s2 :: sp2') ++ ops ++ rest) = ops ++ rest).
  { apply lstrip_app_spaces; [exact Hs2|]. destruct ops as [|o1 ops'].
    - cbn [app]. destruct Hrest as [-> | (c & t & -> & Hc & Hsp)]; [now left|]. right. exists c, t. split; [reflexivity | now apply Hsp].
    - right. exists o1. eexists. split; [reflexivity|]. pose proof (forallb_hd_false _ _ _ Hops) as Ho.
      destruct (is_space o1) eqn:E; [apply space_not_opch in E; congruence | reflexivity]. }
  rewrite Hl3, Hfind, Hstr.
  rewrite (span_app_stop is_opch ops rest Hops); [reflexivity|].
  destruct Hrest as [-> | (c & t & -> & Hc & _)]; [now left | right; eauto].
Qed.

(* two lines with the same label, the same mnemonic up to letter case and the same operand parse alike,
   whatever their white space and whatever follows the operand *)
Theorem reformatting_changes_nothing f g i :
  well_formed_fields f -> well_formed_fields g ->
  lf_label f = lf_label g -> upper_t (lf_mn f) = upper_t (lf_mn g) -> lf_ops f = lf_ops g ->
  find_instr (upper_t (lf_mn f)) Tables.instructions = Some i -> Tables.is_string_define i = false ->
  parse_line (line_of f) = parse_line (line_of g).
Proof.
  intros Hf Hg El Em Eo Hi Hs. rewrite (parse_line_fields f i Hf Hi Hs).
  rewrite Em in Hi. rewrite (parse_line_fields g i Hg Hi Hs). now rewrite El, Eo.
Qed.

(* blank lines and comment lines are no statements at all: adding or removing them changes nothing *)
Theorem blank_line_ignored line : mem_c 10 (removelast line) = false -> all_c is_space line = true -> parse_line line = Ok None.
Proof. intros H1 H2. unfold parse_line. now rewrite H1, H2. Qed.

Theorem comment_line_ignored sp txt : forallb is_space sp = true -> mem_c 10 (removelast (sp ++ 59 :: txt)) = false ->
  parse_line (sp ++ 59 :: txt) = Ok None.
Proof.
  intros Hs Hn. unfold parse_line. rewrite Hn. destruct (all_c is_space (sp ++ 59 :: txt)); [reflexivity|].
  rewrite (lstrip_app_spaces sp (59 :: txt) Hs); [reflexivity|]. right. exists 59, txt. split; reflexivity.
Qed.

Theorem parse_lines_skips line rest : parse_line line = Ok None -> parse_lines (line :: rest) = parse_lines rest.
Proof. intros H. cbn [parse_lines]. rewrite H. cbn [bind]. destruct (parse_lines rest); reflexivity. Qed.

(* ---------- relocation: a branch displacement is computed from statement SIZES alone ---------- *)
Lemma sum_range_sizes (ss ss' : list stmt) : map (fun s => cp_size (s_pkg s)) ss = map (fun s => cp_size (s_pkg s)) ss' ->
  forall count from, sum_range (fun x => cp_size (s_pkg x)) ss from count = sum_range (fun x => cp_size (s_pkg x)) ss' from count.
Proof.
  intros E. induction count as [|c IH]; intros from; cbn [sum_range]; [reflexivity|]. rewrite IH. f_equal.
  assert (H : nth_error (map (fun s => cp_size (s_pkg s)) ss) from = nth_error (map (fun s => cp_size (s_pkg s)) ss') from) by now rewrite E.
  rewrite !nth_error_map in H. destruct (nth_error ss from), (nth_error ss' from); cbn in H; congruence.
Qed.

(* moving a program (any change of the statements' ADDRESSES that keeps their sizes) leaves every short and
   long branch exactly as it was: the displacement and the out-of-range rejection do not look at addresses *)
Theorem branch_ignores_addresses ss ss' this s :
  map (fun x => cp_size (s_pkg x)) ss = map (fun x => cp_size (s_pkg x)) ss' ->
  is_relative_op (s_operand s) = true -> fix_stmt ss this s = fix_stmt ss' this s.
Proof.
  intros E Hrel. unfold fix_stmt. rewrite Hrel.
  rewrite (sum_range_sizes ss ss' E). rewrite (sum_range_sizes ss ss' E). reflexivity.
Qed.

(* ... and so does a label,PCR operand: its displacement is the DIFFERENCE of two addresses of the program *)
Theorem pcr_ignores_relocation ss ss' this s s' D :
  (forall k a, addr_of ss k = Ok a -> addr_of ss' k = Ok (a + D)) ->
  is_relative_op (s_operand s) = false ->
  (match operand_value (s_operand s) with VLR _ _ _ => True | _ => False end) ->
  (forall l op r m, operand_left (s_operand s) <> Some (LVal (VExpr l op r m true))) ->
  cp_needs (s_pkg s) = true -> addr_offset (s_pkg s) = false ->
  fix_stmt ss this s = Ok s' -> fix_stmt ss' this s = Ok s'.
Proof.
  intros Hshift Hrel Hov Hleft Hneeds Hao H. unfold fix_stmt in *. rewrite Hrel in *.
  destruct (operand_value (s_operand s)) eqn:Eov; try contradiction. cbn [bind] in *. rewrite Hao, Hneeds in *.
  set (tgt := fun (l : list stmt) => match operand_left (s_operand s) with
                | Some (LVal (VExpr l0 op r0 _ true)) =>
                    do v <- calc_offset l l0 op r0;
                    Ok (if v_negative v then (- Z.of_N (v_int v))%Z else Z.of_N (v_int v))
                | _ => do a <- addr_of l (v_int (cp_add (s_pkg s))); Ok (Z.of_N a)
                end).
  assert (Ht : forall l, tgt l = (do a <- addr_of l (v_int (cp_add (s_pkg s))); Ok (Z.of_N a))).
  { intros l0. unfold tgt. destruct (operand_left (s_operand s)) as [[tx|vx]|] eqn:El; try reflexivity.
    destruct vx; try reflexivity. destruct addr; [|reflexivity]. exfalso. eapply Hleft. reflexivity. }
  change (match operand_left (s_operand s) with
          | Some (LVal (VExpr l0 op r0 _ true)) => do v <- calc_offset ss l0 op r0; Ok (if v_negative v then (- Z.of_N (v_int v))%Z else Z.of_N (v_int v))
          | _ => do a <- addr_of ss (v_int (cp_add (s_pkg s))); Ok (Z.of_N a) end) with (tgt ss) in H.
  change (match operand_left (s_operand s) with
          | Some (LVal (VExpr l0 op r0 _ true)) => do v <- calc_offset ss' l0 op r0; Ok (if v_negative v then (- Z.of_N (v_int v))%Z else Z.of_N (v_int v))
          | _ => do a <- addr_of ss' (v_int (cp_add (s_pkg s))); Ok (Z.of_N a) end) with (tgt ss').
  rewrite Ht in *.
  apply bind_ok in H as [tz [Htz H]]. apply bind_ok in Htz as [ta [Hta Htz]]. inversion Htz; subst tz.
  apply bind_ok in H as [st [Hst H]].
  rewrite (Hshift _ _ Hta). cbn [bind]. rewrite (Hshift _ _ Hst). cbn [bind].
  replace (Z.of_N (ta + D) - Z.of_N (st + D))%Z with (Z.of_N ta - Z.of_N st)%Z by lia. exact H.
Qed.

(* an absolute reference to a label (extended, 16-bit immediate, [extended indirect], FDB) emits the ADDRESS of
   the labelled statement, high byte first: when the program moves by D, these two bytes - and only references
   of this kind - change, by exactly D *)
From V.proofs Require Import PRender.
Theorem absolute_label_reference_emits_address ss this s s' k t a :
  is_relative_op (s_operand s) = false -> operand_value (s_operand s) = VAddr k ->
  cp_needs (s_pkg s) = false ->
  (match s_operand s with OImmediate _ => imm_digits (s_instr s) | OPseudo _ _ => if Tables.is_multi_byte (s_instr s) then 2 else 4
                        | ODirect _ => 2 | _ => 4 end) = 4 ->
  nth_stmt ss k = Some t -> cp_addr (s_pkg t) = VNum a -> n_neg a = false ->
  fix_stmt ss this s = Ok s' ->
  n_int a <= 65535 /\
  emit_value (cp_add (s_pkg s')) = Ok [n_int a / 256; n_int a mod 256].
Proof.
  intros Hrel Hov Hneeds Hdig Ht Ha Hpos H. unfold fix_stmt in H. rewrite Hrel, Hov, Hdig, Ht, Ha in H.
  unfold addr_offset in H. rewrite Hneeds in H. cbn [andb] in H.
  apply bind_ok in H as [s1 [H1 H]]. inversion H; subst s'. clear H.
  apply bind_ok in H1 as [a' [Hf H1]]. inversion H1; subst s1. clear H1. apply as_te_ok in Hf.
  destruct (fit_value_4_emits _ _ Hf) as (Hr & He).
  assert (Hv : value_number (VNum a) = Z.of_N (n_int a)) by (unfold value_number; cbn [v_negative v_int]; now rewrite Hpos).
  rewrite Hv in *. split; [lia|]. unfold with_add, set_pkg. cbn [s_pkg cp_add]. rewrite He. f_equal.
  f_equal; [|f_equal]; lia.
Qed.
