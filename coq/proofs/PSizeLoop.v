(* PSizeLoop.v — the PCR size-resolution loop of Program.translate_statements terminates:
   every round either decides at least one statement or forces the first undecided one to 16 bits,
   so S (number of statements) rounds of fuel are never exhausted (property C13). *)
From V Require Import Base.
From V.model Require Import MText MValues MOperands MProgram.
Local Open Scope N_scope.

Definition unfixedb (s : stmt) : bool := negb (s_fixed s).
Definition unfixed (ss : list stmt) : nat := length (filter unfixedb ss).

Lemma unfixed_le ss : (unfixed ss <= length ss)%nat.
Proof. unfold unfixed. induction ss as [|s ss IH]; cbn [filter length]; [lia|]. destruct (unfixedb s); cbn [length]; lia. Qed.

Lemma all_fixed_unfixed ss : all_fixed ss = true <-> unfixed ss = 0%nat.
Proof.
  unfold all_fixed, unfixed. induction ss as [|s ss IH]; cbn [forallb filter length]; [tauto|].
  unfold unfixedb at 1. destruct (s_fixed s); cbn [negb andb length]; [exact IH | split; [discriminate | lia]].
Qed.

(* ---- determine ---- *)
Lemma numv_res v : (exists x, numv v = Ok x) \/ numv v = Diag 20.
Proof.
  unfold numv, num_of_int. destruct (negb false && (65535 <? v)); cbn [bind]; [now right|].
  destruct (post_init v (init_hint None MNone) MNone). cbn [bind]. left. eauto.
Qed.

Lemma pcr_pick_cases s kk add hint :
  (exists s', pcr_pick s kk add hint = Ok s' /\ s_fixed s' = true) \/ (exists c, pcr_pick s kk add hint = Diag c)
  \/ (exists c, pcr_pick s kk add hint = Internal c).
Proof.
  unfold pcr_pick. destruct (nth_error (cp_choices (s_pkg s)) kk) as [c|]; [|right; right; eauto].
  destruct (numv_res (N.lor (v_int (cp_post (s_pkg s))) c)) as [[x ->] | ->]; cbn [bind].
  - left. eexists. split; reflexivity.
  - right. left. eauto.
Qed.

Lemma pcr_offset_force s : snd (pcr_offset s true) = true.
Proof.
  unfold pcr_offset. destruct (operand_left (s_operand s)) as [[t|v]|]; try reflexivity.
  destruct v; try reflexivity. destruct addr; try reflexivity.
  destruct (const_offset _); reflexivity.
Qed.

Lemma determine_cases ss k force s r :
  determine ss k force s = r ->
  (exists s', r = Ok s' /\ (s' = s \/ s_fixed s' = true) /\ (force = true -> s_fixed s' = true))
  \/ (exists c, r = Diag c) \/ (exists c, r = Internal c).
Proof.
  unfold determine. intros <-. destruct (pcr_span ss k s) as [[backward mn] mx].
  pose proof (pcr_offset_force s) as Hforce.
  destruct (pcr_offset s force) as [off force'] eqn:Eo.
  destruct (_ && negb force').
  - destruct (pcr_pick_cases s 0%nat 1 2) as [[s' [-> Hf]] | [[c ->] | [c ->]]]; [left; exists s'; auto | right; left; eauto | right; right; eauto].
  - destruct (force' || _ || _) eqn:Ef.
    + destruct (pcr_pick_cases s 1%nat 2 4) as [[s' [-> Hf]] | [[c ->] | [c ->]]]; [left; exists s'; auto | right; left; eauto | right; right; eauto].
    + left. exists s. split; [reflexivity|]. split; [now left|]. intros ->.
      rewrite Eo in Hforce. cbn [snd] in Hforce. subst force'. discriminate.
Qed.

(* ---- update_nth ---- *)
Lemma update_nth_length {A} : forall k (a : A) l, length (update_nth k a l) = length l.
Proof. induction k as [|k IH]; intros a [|x l]; cbn [update_nth length]; try reflexivity. now rewrite IH. Qed.

Lemma unfixed_update_same {A} : forall k (ss : list A) s, nth_error ss k = Some s -> update_nth k s ss = ss.
Proof.
  induction k as [|k IH]; intros [|x ss] s H; cbn in *; try discriminate.
  - now inversion H.
  - now rewrite IH.
Qed.

Lemma unfixed_update_fixed : forall k ss s s', nth_error ss k = Some s -> s_fixed s = false -> s_fixed s' = true ->
  S (unfixed (update_nth k s' ss)) = unfixed ss.
Proof.
  unfold unfixed. induction k as [|k IH]; intros [|x ss] s s' H Hs Hs'; cbn [nth_error] in H; try discriminate.
  - inversion H; subst. cbn [update_nth filter].
    assert (E1 : unfixedb s = true) by (unfold unfixedb; now rewrite Hs).
    assert (E2 : unfixedb s' = false) by (unfold unfixedb; now rewrite Hs').
    rewrite E1, E2. reflexivity.
  - cbn [update_nth filter]. destruct (unfixedb x); cbn [length]; now rewrite <- (IH ss s s' H Hs Hs').
Qed.

(* ---- one sweep ---- *)
Lemma sweep_spec : forall n k ss progress r,
  sweep n k ss progress = r ->
  (exists ss' p', r = Ok (ss', p') /\ length ss' = length ss /\ (unfixed ss' <= unfixed ss)%nat /\
                  (p' = true -> progress = true \/ (unfixed ss' < unfixed ss)%nat))
  \/ (exists c, r = Diag c) \/ (exists c, r = Internal c).
Proof.
  induction n as [|n IH]; intros k ss progress r <-; cbn [sweep].
  - left. exists ss, progress. repeat split; auto.
  - destruct (nth_error ss k) as [s|] eqn:En; [|left; exists ss, progress; repeat split; auto].
    destruct (s_fixed s) eqn:Ef.
    + apply (IH (S k) ss progress _ eq_refl).
    + destruct (determine_cases ss (N.of_nat k) false s _ eq_refl) as [[s' [-> [Hs' _]]] | [[c ->] | [c ->]]];
        cbn [bind]; [| right; left; eauto | right; right; eauto].
      destruct (IH (S k) (update_nth k s' ss) (progress || s_fixed s') _ eq_refl)
        as [[ss' [p' [-> [Hl [Hu Hp]]]]] | [[c ->] | [c ->]]]; [| right; left; eauto | right; right; eauto].
      left. exists ss', p'. split; [reflexivity|]. rewrite update_nth_length in Hl. split; [exact Hl|].
      destruct Hs' as [-> | Hfx].
      * rewrite (unfixed_update_same k ss s En) in Hu, Hp. rewrite Ef, orb_false_r in Hp. split; assumption.
      * pose proof (unfixed_update_fixed k ss s s' En Ef Hfx) as Hd. split; [lia|]. intros _. right. lia.
Qed.

Lemma first_unfixed_spec : forall ss k0, match first_unfixed ss k0 with
  | None => unfixed ss = 0%nat
  | Some (k, s) => exists j, k = (k0 + j)%nat /\ nth_error ss j = Some s /\ s_fixed s = false
  end.
Proof.
  induction ss as [|x ss IH]; intros k0; cbn [first_unfixed]; [reflexivity|].
  destruct (s_fixed x) eqn:Ef.
  - specialize (IH (S k0)). destruct (first_unfixed ss (S k0)) as [[k s]|].
    + destruct IH as [j [-> [Hn Hs]]]. exists (S j). split; [lia|]. auto.
    + unfold unfixed in *. cbn [filter]. unfold unfixedb at 1. now rewrite Ef.
  - exists 0%nat. split; [lia|]. auto.
Qed.

(* ---- the loop ---- *)
Theorem size_loop_terminates : forall fuel ss, (unfixed ss < fuel)%nat -> size_loop fuel ss <> OutOfFuel.
Proof.
  induction fuel as [|f IH]; intros ss H; [lia|].
  cbn [size_loop]. destruct (all_fixed ss) eqn:Ea; [discriminate|].
  destruct (sweep_spec (length ss) 0 ss false _ eq_refl) as [[ss1 [p [-> [Hl [Hu Hp]]]]] | [[c ->] | [c ->]]];
    cbn [bind]; try discriminate.
  destruct p.
  - destruct (Hp eq_refl) as [Hd | Hd]; [discriminate|]. apply IH. lia.
  - pose proof (first_unfixed_spec ss1 0) as Hf. destruct (first_unfixed ss1 0) as [[k s]|].
    + destruct Hf as [j [-> [Hn Hs]]]. cbn [Nat.add].
      destruct (determine_cases ss1 (N.of_nat j) true s _ eq_refl) as [[s' [-> [_ Hforce]]] | [[c ->] | [c ->]]];
        cbn [bind]; try discriminate.
      apply IH. pose proof (unfixed_update_fixed j ss1 s s' Hn Hs (Hforce eq_refl)). lia.
    + destruct f as [|f']; cbn [size_loop].
      * apply all_fixed_unfixed in Hf. now rewrite Hf.
      * apply all_fixed_unfixed in Hf. now rewrite Hf.
Qed.

Corollary size_loop_enough_fuel ss : size_loop (S (length ss)) ss <> OutOfFuel.
Proof. apply size_loop_terminates. pose proof (unfixed_le ss). lia. Qed.
