(* PC12.v — every accepted instruction statement emits exactly one well-formed MC6809 instruction of
   its mnemonic, consuming all its bytes, as many as the listing reserves (C12), and that instruction
   has the addressing mode and operand value written in the source (C01).
   The specification side is Spec6809.decode (datasheet opcode map, independent of the tool).
   Table obligations are re-proved by vm_compute against the regenerated Tables.v on every run. *)
From V Require Import Base.
From V.spec Require Import Spec6809.
From V.model Require Import MText MValues MOperands MProgram.
From V.proofs Require Import PLayout PHex PRender.
From V.gen Require Tables.
From Coq Require Import ZifyNat ZifyN ZifyBool.
Local Open Scope N_scope.
Ltac Zify.zify_post_hook ::= Z.div_mod_to_equations.

(* ---------- opcodes ---------- *)
Definition page_op (opc : N) : N * N := if opc <? 256 then (0, opc) else (opc / 256, opc mod 256).
Definition op_len (opc : N) : N := if opc <? 256 then 1 else 2.
Definition op_bytes (opc : N) : list N := if opc <? 256 then [opc] else [opc / 256; opc mod 256].

Definition amode_eqb (a b : amode) : bool :=
  match a, b with
  | AInh, AInh | AImm8, AImm8 | AImm16, AImm16 | ADir, ADir | AIdx, AIdx | AExt, AExt
  | ARel8, ARel8 | ARel16, ARel16 | ARegList, ARegList | ARegPair, ARegPair => true
  | _, _ => false
  end.
Lemma amode_eqb_eq a b : amode_eqb a b = true -> a = b.
Proof. destruct a, b; cbn; congruence. Qed.
Lemma mnem_eqb_eq : forall a b, mnem_eqb a b = true -> a = b.
Proof.
  induction a as [|x a IH]; intros [|y b] H; cbn in H; try discriminate; [reflexivity|].
  apply andb_true_iff in H as [H1 H2]. apply N.eqb_eq in H1. f_equal; auto.
Qed.

(* the datasheet defines opcode opc (one or two bytes) as mnemonic m in addressing mode am *)
Definition entry_is (opc : N) (m : list N) (am : amode) : bool :=
  (opc <? 65536) &&
  match opcode_entry (fst (page_op opc)) (snd (page_op opc)) with
  | Some (m', am') => mnem_eqb m' m && amode_eqb am' am
  | None => false
  end.

Definition opt_ok (o : option N) (f : N -> bool) : bool := match o with Some opc => f opc | None => true end.

(* one row of the tool's table against the datasheet: every opcode it lists decodes to the row's own
   (canonical) mnemonic in that mode, and the declared size is opcode bytes + fixed operand bytes *)
Definition row_ok (i : irow) : bool :=
  Tables.is_pseudo i ||
  (let m := canon (mnem i) in
   opt_ok (Tables.inh i) (fun opc => entry_is opc m AInh && (Tables.inh_sz i =? op_len opc)) &&
   opt_ok (Tables.imm i) (fun opc =>
     if Tables.is_special i
     then (entry_is opc m ARegList || entry_is opc m ARegPair) && (Tables.imm_sz i =? op_len opc + 1)
     else (entry_is opc m AImm8 && (Tables.imm_sz i =? op_len opc + 1)) ||
          (entry_is opc m AImm16 && (Tables.imm_sz i =? op_len opc + 2))) &&
   opt_ok (Tables.dir i) (fun opc => entry_is opc m ADir && (Tables.dir_sz i =? op_len opc + 1)) &&
   opt_ok (Tables.ind i) (fun opc => entry_is opc m AIdx && (Tables.ind_sz i =? op_len opc + 1)) &&
   opt_ok (Tables.ext i) (fun opc => entry_is opc m AExt && (Tables.ext_sz i =? op_len opc + 2)) &&
   opt_ok (Tables.rel i) (fun opc =>
     (Tables.is_short_branch i && entry_is opc m ARel8 && (Tables.rel_sz i =? op_len opc + 1)) ||
     (Tables.is_long_branch i && negb (Tables.is_short_branch i) && entry_is opc m ARel16 && (Tables.rel_sz i =? op_len opc + 2)))).

Theorem rows_ok : forallb row_ok Tables.instructions = true.
Proof. vm_compute. reflexivity. Qed.

(* the table misses no datasheet instruction: every defined (page, opcode) is some row's opcode in the
   datasheet's mode *)
Definition row_has (pg op : N) (m : list N) (am : amode) (i : irow) : bool :=
  mnem_eqb (canon (mnem i)) m &&
  let opc := if pg =? 0 then op else pg * 256 + op in
  let is o := match o with Some x => x =? opc | None => false end in
  match am with
  | AInh => is (Tables.inh i) | AImm8 | AImm16 | ARegList | ARegPair => is (Tables.imm i) | ADir => is (Tables.dir i)
  | AIdx => is (Tables.ind i) | AExt => is (Tables.ext i) | ARel8 | ARel16 => is (Tables.rel i)
  end.
Definition datasheet_covered : bool :=
  forallb (fun po => match opcode_entry (fst po) (snd po) with
                     | Some (m, am) => existsb (row_has (fst po) (snd po) m am) Tables.instructions
                     | None => true end) all_opcodes.
Theorem datasheet_is_covered : datasheet_covered = true.
Proof. vm_compute. reflexivity. Qed.

(* ---------- emitting an opcode ---------- *)
Lemma emit_opcode opc v : numv opc = Ok v -> opc < 65536 -> emit_value v = Ok (op_bytes opc).
Proof.
  unfold numv, num_of_int. cbn [negb andb]. intros H Hlt. destruct (65535 <? opc); [discriminate|].
  unfold post_init, init_hint in H. cbn [is_ext_mode mode_eqb] in H. unfold op_bytes.
  destruct (N.ltb_spec opc 256) as [Hs | Hb].
  - cbn [negb andb mode_eqb bind] in H. inversion H; subst v.
    unfold emit_value, v_hex, v_hex_len.
    destruct (num_hex_hinted {| n_int := opc; n_neg := false; n_hint := Some 2; n_mode := MDirect |} 2 eq_refl ltac:(discriminate)) as [Hl Hh].
    rewrite Hl, Hh. cbn [n_neg andb]. unfold get_negative. cbn [n_neg negb n_int]. change (N.to_nat 2) with 2%nat.
    rewrite fmt_hex_2 by assumption. change ((2 + 1) / 2)%nat with 1%nat. rewrite emit_pairs_2. f_equal. f_equal. lia.
  - cbn [negb andb mode_eqb bind] in H. inversion H; subst v.
    unfold emit_value, v_hex, v_hex_len, num_hex, num_hex_len. cbn [n_hint n_neg andb n_int]. cbn [Nat.eqb].
    assert (Hlen : even_up (length (hexdigits opc)) = 4%nat).
    { destruct (N.lt_ge_cases opc 4096); [rewrite hexdigits_lt4096 by assumption | rewrite hexdigits_lt65536 by assumption]; reflexivity. }
    rewrite Hlen. cbn [even_up Nat.even Nat.eqb]. unfold get_negative. cbn [n_neg negb n_int].
    rewrite fmt_hex_4 by assumption. change ((4 + 1) / 2)%nat with 2%nat. rewrite emit_pairs_4. f_equal. f_equal; [lia|]. f_equal. lia.
Qed.

Lemma op_bytes_length opc : N.of_nat (length (op_bytes opc)) = op_len opc.
Proof. unfold op_bytes, op_len. destruct (opc <? 256); reflexivity. Qed.

(* ---------- decoding an opcode ---------- *)
Lemma entry_is_spec opc m am : entry_is opc m am = true ->
  opc < 65536 /\ opcode_entry (fst (page_op opc)) (snd (page_op opc)) = Some (m, am).
Proof.
  unfold entry_is. intros H. apply andb_true_iff in H as [H1 H2]. apply N.ltb_lt in H1. split; [exact H1|].
  destruct (opcode_entry _ _) as [[m' am']|]; [|discriminate]. apply andb_true_iff in H2 as [H2 H3].
  apply mnem_eqb_eq in H2. apply amode_eqb_eq in H3. now subst.
Qed.

Lemma decode_op_bytes opc m am rest : entry_is opc m am = true ->
  decode (op_bytes opc ++ rest) = decode_at (fst (page_op opc)) (snd (page_op opc)) rest.
Proof.
  intros H. destruct (entry_is_spec _ _ _ H) as [Hlt He]. unfold op_bytes, page_op in *.
  destruct (N.ltb_spec opc 256) as [Hs | Hb]; cbn [fst snd app] in *.
  - unfold decode. destruct ((opc =? 16) || (opc =? 17)) eqn:E; [|reflexivity].
    exfalso. apply orb_true_iff in E as [E | E]; apply N.eqb_eq in E; subst opc; vm_compute in He; discriminate.
  - unfold decode. unfold opcode_entry in He. destruct (256 <=? opc mod 256); [discriminate|].
    assert (Hp : opc / 256 = 16 \/ opc / 256 = 17).
    { assert (1 <= opc / 256) by lia. destruct (opc / 256) as [|p]; [lia|].
      do 5 (destruct p as [p|p|]; try discriminate; try lia; auto). }
    destruct Hp as [-> | ->]; reflexivity.
Qed.

Lemma get1_ok b r : b < 256 -> get1 (b :: r) = Some (b, r).
Proof. intros H. unfold get1. apply N.ltb_lt in H. now rewrite H. Qed.
Lemma get2_ok h l r : h < 256 -> l < 256 -> get2 (h :: l :: r) = Some (h * 256 + l, r).
Proof. intros H1 H2. unfold get2. rewrite get1_ok by assumption. now rewrite get1_ok by assumption. Qed.

(* ---------- the packages translate() builds ---------- *)
Definition final_bytes (p : codepkg) : res (list N) :=
  do a <- emit_value (cp_op p); do b <- emit_value (cp_post p); do c <- emit_value (cp_add p); Ok (a ++ b ++ c).

Lemma row_ok_real i : row_ok i = true -> Tables.is_pseudo i = false ->
  let m := canon (mnem i) in
   opt_ok (Tables.inh i) (fun opc => entry_is opc m AInh && (Tables.inh_sz i =? op_len opc)) = true /\
   opt_ok (Tables.imm i) (fun opc =>
     if Tables.is_special i
     then (entry_is opc m ARegList || entry_is opc m ARegPair) && (Tables.imm_sz i =? op_len opc + 1)
     else (entry_is opc m AImm8 && (Tables.imm_sz i =? op_len opc + 1)) ||
          (entry_is opc m AImm16 && (Tables.imm_sz i =? op_len opc + 2))) = true /\
   opt_ok (Tables.dir i) (fun opc => entry_is opc m ADir && (Tables.dir_sz i =? op_len opc + 1)) = true /\
   opt_ok (Tables.ind i) (fun opc => entry_is opc m AIdx && (Tables.ind_sz i =? op_len opc + 1)) = true /\
   opt_ok (Tables.ext i) (fun opc => entry_is opc m AExt && (Tables.ext_sz i =? op_len opc + 2)) = true.
Proof.
  unfold row_ok. intros H Hp. rewrite Hp in H. cbn [orb] in H. cbv zeta in *.
  repeat (apply andb_true_iff in H as [H ?]). auto.
Qed.

Lemma emit_none : emit_value VNone = Ok [].
Proof. reflexivity. Qed.

(* --- inherent --- *)
Theorem inherent_decodes i p : row_ok i = true -> Tables.is_pseudo i = false ->
  translate_operand OInherent i = Ok p ->
  exists bs, final_bytes p = Ok bs /\ N.of_nat (length bs) = cp_size p /\
             decode bs = Some ({| i_mnem := canon (mnem i); i_op := OInh |}, []).
Proof.
  intros Hr Hp H. destruct (row_ok_real i Hr Hp) as (Hinh & _). cbn [translate_operand] in H. unfold opt_op in H.
  destruct (Tables.inh i) as [opc|]; [|discriminate]. cbn [opt_ok] in Hinh. apply andb_true_iff in Hinh as [He Hs].
  apply N.eqb_eq in Hs. unfold simple_pkg in H. apply bind_ok in H as [ov [Hov H]]. inversion H; subst p.
  destruct (entry_is_spec _ _ _ He) as [Hlt Hent].
  exists (op_bytes opc). unfold final_bytes. cbn [cp_op cp_post cp_add cp_size]. rewrite (emit_opcode _ _ Hov Hlt).
  rewrite !emit_none. cbn [bind app]. rewrite app_nil_r. split; [reflexivity|].
  split; [now rewrite op_bytes_length|].
  rewrite <- (app_nil_r (op_bytes opc)). rewrite (decode_op_bytes _ _ _ [] He). unfold decode_at. rewrite Hent. reflexivity.
Qed.

(* --- direct --- *)
Theorem direct_decodes i p v : row_ok i = true -> Tables.is_pseudo i = false -> v_is_numeric v = true ->
  translate_operand (ODirect v) i = Ok p ->
  (0 <= value_number v <= 255)%Z /\
  exists bs, final_bytes p = Ok bs /\ N.of_nat (length bs) = cp_size p /\
             decode bs = Some ({| i_mnem := canon (mnem i); i_op := ODir (Z.to_N (value_number v)) |}, []).
Proof.
  intros Hr Hp Hnum H. destruct (row_ok_real i Hr Hp) as (_ & _ & Hdir & _).
  destruct v; try discriminate. cbn [translate_operand] in H. unfold opt_op in H.
  destruct (Tables.dir i) as [opc|]; [|discriminate]. cbn [opt_ok] in Hdir. apply andb_true_iff in Hdir as [He Hs].
  apply N.eqb_eq in Hs. cbn [v_is_numeric] in H. apply bind_ok in H as [a [Ha H]].
  unfold simple_pkg in H. apply bind_ok in H as [ov [Hov H]]. inversion H; subst p.
  destruct (entry_is_spec _ _ _ He) as [Hlt Hent]. destruct (fit_value_2_emits _ _ _ Ha) as (R1 & R2 & Em).
  specialize (R2 eq_refl). split; [lia|].
  exists (op_bytes opc ++ [Z.to_N (value_number (VNum n) mod 256)]). unfold final_bytes. cbn [cp_op cp_post cp_add cp_size].
  rewrite (emit_opcode _ _ Hov Hlt), Em, emit_none. cbn [bind app]. split; [reflexivity|].
  split; [rewrite app_length, Nat2N.inj_add, op_bytes_length; cbn [length]; lia|].
  rewrite (decode_op_bytes _ _ _ _ He). unfold decode_at. rewrite Hent. cbn [decode_operand].
  rewrite get1_ok by lia. cbn [omap]. rewrite Z.mod_small by lia. reflexivity.
Qed.

(* --- extended --- *)
Theorem extended_decodes i p v : row_ok i = true -> Tables.is_pseudo i = false -> v_is_numeric v = true ->
  translate_operand (OExtended v) i = Ok p ->
  (-32768 <= value_number v <= 65535)%Z /\
  exists bs, final_bytes p = Ok bs /\ N.of_nat (length bs) = cp_size p /\
             decode bs = Some ({| i_mnem := canon (mnem i); i_op := OExt (Z.to_N (value_number v mod 65536)) |}, []).
Proof.
  intros Hr Hp Hnum H. destruct (row_ok_real i Hr Hp) as (_ & _ & _ & _ & Hext).
  destruct v; try discriminate. cbn [translate_operand] in H. unfold opt_op in H.
  destruct (Tables.ext i) as [opc|]; [|discriminate]. cbn [opt_ok] in Hext. apply andb_true_iff in Hext as [He Hs].
  apply N.eqb_eq in Hs. cbn [v_is_numeric] in H. apply bind_ok in H as [a [Ha H]].
  unfold simple_pkg in H. apply bind_ok in H as [ov [Hov H]]. inversion H; subst p.
  destruct (entry_is_spec _ _ _ He) as [Hlt Hent]. destruct (fit_value_4_emits _ _ Ha) as (R1 & Em).
  split; [lia|]. set (z := value_number (VNum n)) in *.
  exists (op_bytes opc ++ [Z.to_N (z mod 65536 / 256); Z.to_N (z mod 256)]). unfold final_bytes. cbn [cp_op cp_post cp_add cp_size].
  rewrite (emit_opcode _ _ Hov Hlt), Em, emit_none. cbn [bind app]. split; [reflexivity|].
  split; [rewrite app_length, Nat2N.inj_add, op_bytes_length; cbn [length]; lia|].
  rewrite (decode_op_bytes _ _ _ _ He). unfold decode_at. rewrite Hent. cbn [decode_operand].
  rewrite get2_ok by lia. cbn [omap]. do 4 f_equal. lia.
Qed.

(* --- immediate (numeric) --- *)
Theorem immediate_decodes i p v : row_ok i = true -> Tables.is_pseudo i = false -> Tables.is_special i = false ->
  v_is_numeric v = true -> translate_operand (OImmediate v) i = Ok p ->
  exists bs, final_bytes p = Ok bs /\ N.of_nat (length bs) = cp_size p /\
    ((-128 <= value_number v <= 255)%Z /\
     decode bs = Some ({| i_mnem := canon (mnem i); i_op := OImm8 (Z.to_N (value_number v mod 256)) |}, []) \/
     (-32768 <= value_number v <= 65535)%Z /\
     decode bs = Some ({| i_mnem := canon (mnem i); i_op := OImm16 (Z.to_N (value_number v mod 65536)) |}, [])).
Proof.
  intros Hr Hp Hsp Hnum H. destruct (row_ok_real i Hr Hp) as (_ & Himm & _).
  destruct v; try discriminate. cbn [translate_operand] in H. unfold opt_op in H. unfold imm_digits in H.
  destruct (Tables.imm i) as [opc|] eqn:Eimm; [|discriminate]. cbn [opt_ok] in Himm. rewrite Hsp in Himm.
  cbn [v_is_numeric] in H. apply bind_ok in H as [a [Ha H]].
  unfold simple_pkg in H. apply bind_ok in H as [ov [Hov H]]. inversion H; subst p. clear H.
  assert (Hop : (if 255 <? opc then 2 else 1) = op_len opc).
  { unfold op_len. destruct (N.ltb_spec 255 opc), (N.ltb_spec opc 256); try reflexivity; lia. }
  rewrite Hop in Ha. set (z := value_number (VNum n)) in *.
  apply orb_true_iff in Himm as [Himm | Himm]; apply andb_true_iff in Himm as [He Hs]; apply N.eqb_eq in Hs;
    destruct (entry_is_spec _ _ _ He) as [Hlt Hent]; rewrite Hs in Ha.
  - replace (2 * (op_len opc + 1 - op_len opc)) with 2 in Ha by lia.
    destruct (fit_value_2_emits _ _ _ Ha) as (R1 & _ & Em). fold z in R1, Em.
    exists (op_bytes opc ++ [Z.to_N (z mod 256)]). unfold final_bytes. cbn [cp_op cp_post cp_add cp_size].
    rewrite (emit_opcode _ _ Hov Hlt), Em, emit_none. cbn [bind app]. split; [reflexivity|].
    split; [rewrite app_length, Nat2N.inj_add, op_bytes_length; cbn [length]; lia|]. left. split; [lia|].
    rewrite (decode_op_bytes _ _ _ _ He). unfold decode_at. rewrite Hent. cbn [decode_operand]. rewrite get1_ok by lia. reflexivity.
  - replace (2 * (op_len opc + 2 - op_len opc)) with 4 in Ha by lia.
    destruct (fit_value_4_emits _ _ Ha) as (R1 & Em). fold z in R1, Em.
    exists (op_bytes opc ++ [Z.to_N (z mod 65536 / 256); Z.to_N (z mod 256)]). unfold final_bytes. cbn [cp_op cp_post cp_add cp_size].
    rewrite (emit_opcode _ _ Hov Hlt), Em, emit_none. cbn [bind app]. split; [reflexivity|].
    split; [rewrite app_length, Nat2N.inj_add, op_bytes_length; cbn [length]; lia|]. right. split; [lia|].
    rewrite (decode_op_bytes _ _ _ _ He). unfold decode_at. rewrite Hent. cbn [decode_operand]. rewrite get2_ok by lia.
    cbn [omap]. do 4 f_equal. lia.
Qed.

(* --- extended indirect [address] (numeric) --- *)
Theorem extended_indirect_decodes i p s v l r : row_ok i = true -> Tables.is_pseudo i = false -> v_is_numeric v = true ->
  translate_operand (OExtIdx s v l r) i = Ok p ->
  (-32768 <= value_number v <= 65535)%Z /\
  exists bs, final_bytes p = Ok bs /\ N.of_nat (length bs) = cp_size p /\
             decode bs = Some ({| i_mnem := canon (mnem i); i_op := OIdx (IExtInd (Z.to_N (value_number v mod 65536))) |}, []).
Proof.
  intros Hr Hp Hnum H. destruct (row_ok_real i Hr Hp) as (_ & _ & _ & Hind & _).
  destruct v; try discriminate. cbn [translate_operand] in H. unfold opt_op in H.
  destruct (Tables.ind i) as [opc|]; [|discriminate]. cbn [opt_ok] in Hind. apply andb_true_iff in Hind as [He Hs].
  apply N.eqb_eq in Hs. apply bind_ok in H as [a [Ha H]].
  unfold mk_idx_pkg in H. apply bind_ok in H as [ov [Hov H]]. apply bind_ok in H as [pv [Hpv H]]. inversion H; subst p. clear H.
  destruct (entry_is_spec _ _ _ He) as [Hlt Hent]. destruct (fit_value_4_emits _ _ Ha) as (R1 & Em).
  split; [lia|]. set (z := value_number (VNum n)) in *.
  assert (Epv : emit_value pv = Ok [159]) by (apply (emit_opcode 159 pv Hpv); lia).
  exists (op_bytes opc ++ [159] ++ [Z.to_N (z mod 65536 / 256); Z.to_N (z mod 256)]). unfold final_bytes. cbn [cp_op cp_post cp_add cp_size].
  rewrite (emit_opcode _ _ Hov Hlt), Em, Epv. cbn [bind app]. split; [reflexivity|].
  split; [rewrite app_length, Nat2N.inj_add, op_bytes_length; cbn [length]; lia|].
  rewrite (decode_op_bytes _ _ _ _ He). unfold decode_at. rewrite Hent. cbn [decode_operand].
  unfold decode_idx. rewrite get1_ok by lia. change (159 <? 128) with false. change (159 mod 16) with 15. change (159 =? 159) with true.
  cbv iota. rewrite get2_ok by lia. cbn [omap]. do 5 f_equal. lia.
Qed.

(* ---------- finite sweeps: forms whose post-byte does not depend on a value ---------- *)
Definition reg_eqb (a b : reg) : bool := match a, b with RX, RX | RY, RY | RU, RU | RS, RS => true | _, _ => false end.
Definition acc_eqb (a b : acc) : bool := match a, b with AccA, AccA | AccB, AccB | AccD, AccD => true | _, _ => false end.
Definition idx_eqb (a b : idx) : bool :=
  match a, b with
  | IOff5 r o, IOff5 r' o' => reg_eqb r r' && (o =? o')%Z
  | IZero r i, IZero r' i' => reg_eqb r r' && eqb i i'
  | IOff8 r o i, IOff8 r' o' i' => reg_eqb r r' && (o =? o')%Z && eqb i i'
  | IOff16 r o i, IOff16 r' o' i' => reg_eqb r r' && (o =? o')%Z && eqb i i'
  | IAcc a r i, IAcc a' r' i' => acc_eqb a a' && reg_eqb r r' && eqb i i'
  | IInc1 r, IInc1 r' => reg_eqb r r'
  | IInc2 r i, IInc2 r' i' => reg_eqb r r' && eqb i i'
  | IDec1 r, IDec1 r' => reg_eqb r r'
  | IDec2 r i, IDec2 r' i' => reg_eqb r r' && eqb i i'
  | IPc8 o i, IPc8 o' i' => (o =? o')%Z && eqb i i'
  | IPc16 o i, IPc16 o' i' => (o =? o')%Z && eqb i i'
  | IExtInd a, IExtInd a' => a =? a'
  | _, _ => false
  end.
Lemma idx_eqb_eq a b : idx_eqb a b = true -> a = b.
Proof.
  destruct a, b; cbn; intros H; try discriminate; repeat (apply andb_true_iff in H as [H ?]);
    repeat match goal with
           | H : reg_eqb ?x ?y = true |- _ => destruct x, y; try discriminate; clear H
           | H : acc_eqb ?x ?y = true |- _ => destruct x, y; try discriminate; clear H
           | H : eqb ?x ?y = true |- _ => apply eqb_prop in H; subst
           | H : (_ =? _)%Z = true |- _ => apply Z.eqb_eq in H; subst
           | H : (_ =? _) = true |- _ => apply N.eqb_eq in H; subst
           end; reflexivity.
Qed.

(* bytes decode as exactly one instruction (mnemonic m, indexed form x), consuming everything, and
   their count is the reserved size *)
Definition idx_pkg_ok (m : list N) (x : idx) (r : res codepkg) : bool :=
  match r with
  | Ok p => match final_bytes p with
            | Ok bs => (N.of_nat (length bs) =? cp_size p) &&
                       match decode bs with
                       | Some (ins, []) => mnem_eqb (i_mnem ins) m && match i_op ins with OIdx y => idx_eqb y x | _ => false end
                       | _ => false
                       end
            | _ => false
            end
  | _ => false
  end.

Lemma idx_pkg_ok_spec m x r : idx_pkg_ok m x r = true ->
  exists p bs, r = Ok p /\ final_bytes p = Ok bs /\ N.of_nat (length bs) = cp_size p /\
               decode bs = Some ({| i_mnem := m; i_op := OIdx x |}, []).
Proof.
  unfold idx_pkg_ok. destruct r as [p| | | |]; try discriminate. destruct (final_bytes p) as [bs| | | |] eqn:Ef; try discriminate.
  intros H. apply andb_true_iff in H as [H1 H2]. apply N.eqb_eq in H1.
  destruct (decode bs) as [[ins rest]|] eqn:Ed; [|discriminate]. destruct rest; [|discriminate].
  apply andb_true_iff in H2 as [H2 H3]. apply mnem_eqb_eq in H2. destruct ins as [im io]. cbn [i_mnem i_op] in *.
  destruct io; try discriminate. apply idx_eqb_eq in H3. subst.
  exists p, bs. repeat split; auto.
Qed.

Definition reg_names : list (text * reg) := [(t_X, RX); (t_Y, RY); (t_U, RU); (t_S, RS)].

(* every static form of the README grammar: (left, right text, indirect?, expected indexed form) *)
Definition static_forms : list (side * text * bool * idx) :=
  flat_map (fun nr : text * reg => let '(n, r) := nr in
    [ (LStr [], n, false, IZero r false); (LStr [], n, true, IZero r true);
      (LStr t_A, n, false, IAcc AccA r false); (LStr t_B, n, false, IAcc AccB r false); (LStr t_D, n, false, IAcc AccD r false);
      (LStr t_A, n, true, IAcc AccA r true); (LStr t_B, n, true, IAcc AccB r true); (LStr t_D, n, true, IAcc AccD r true);
      (LStr [], n ++ [43], false, IInc1 r); (LStr [], n ++ [43; 43], false, IInc2 r false); (LStr [], n ++ [43; 43], true, IInc2 r true);
      (LStr [], 45 :: n, false, IDec1 r); (LStr [], [45; 45] ++ n, false, IDec2 r false); (LStr [], [45; 45] ++ n, true, IDec2 r true) ]) reg_names.

Definition static_row_ok (i : irow) : bool :=
  match Tables.ind i with
  | None => true
  | Some _ => forallb (fun f : side * text * bool * idx => let '(l, r, ind, x) := f in
                         idx_pkg_ok (canon (mnem i)) x (translate_indexed ind l r i)) static_forms
  end.

Theorem static_forms_ok : forallb (fun i => Tables.is_pseudo i || static_row_ok i) Tables.instructions = true.
Proof. vm_compute. reflexivity. Qed.

(* 5-bit constant offsets -16..15 (never indirect): every value, every register, every row *)
Definition off5_values : list (bool * N) := map (fun k => (false, N.of_nat k)) (seq 0 16) ++ map (fun k => (true, N.of_nat k)) (seq 1 16).
Definition off5_row_ok (h : option N) (md : mode) (i : irow) : bool :=
  match Tables.ind i with
  | None => true
  | Some _ =>
      forallb (fun nr : text * reg => let '(n, r) := nr in
        forallb (fun bk : bool * N => let '(b, k) := bk in
          let v := VNum {| n_int := k; n_neg := b; n_hint := h; n_mode := md |} in
          let z := if b then (- Z.of_N k)%Z else Z.of_N k in
          idx_pkg_ok (canon (mnem i)) (if (k =? 0) then IZero r false else IOff5 r z) (translate_indexed false (LVal v) n i))
        off5_values) reg_names
  end.
Theorem off5_ok : forall h md, forallb (fun i => Tables.is_pseudo i || off5_row_ok h md i) Tables.instructions = true.
Proof. intros h md. vm_compute. reflexivity. Qed.

(* ---------- indexed forms with a value: 8- and 16-bit constant offsets, numeric n,PCR ---------- *)
Lemma mk_idx_final opc pb add size mx needs p m tail :
  mk_idx_pkg opc pb [] add size mx needs = Ok p -> entry_is opc m AIdx = true -> pb < 256 -> emit_value add = Ok tail ->
  final_bytes p = Ok (op_bytes opc ++ pb :: tail) /\ cp_size p = size /\
  decode (op_bytes opc ++ pb :: tail) =
    match decode_idx (pb :: tail) with Some (o, r) => Some ({| i_mnem := m; i_op := OIdx o |}, r) | None => None end.
Proof.
  intros H He Hpb Ht. unfold mk_idx_pkg in H. apply bind_ok in H as [ov [Hov H]]. apply bind_ok in H as [pv [Hpv H]].
  inversion H; subst p. clear H. destruct (entry_is_spec _ _ _ He) as [Hlt Hent].
  assert (Epv : emit_value pv = Ok [pb]).
  { rewrite (emit_opcode pb pv Hpv) by lia. unfold op_bytes. apply N.ltb_lt in Hpb. now rewrite Hpb. }
  unfold final_bytes. cbn [cp_op cp_post cp_add cp_size]. rewrite (emit_opcode _ _ Hov Hlt), Epv, Ht. cbn [bind app].
  split; [reflexivity|]. split; [reflexivity|].
  rewrite (decode_op_bytes _ _ _ _ He). unfold decode_at. rewrite Hent. cbn [decode_operand omap].
  destruct (decode_idx (pb :: tail)) as [[o r]|]; reflexivity.
Qed.

Definition reg_code (r : reg) : N := match r with RX => 0 | RY => 1 | RU => 2 | RS => 3 end.
Definition ind_bit (ind : bool) : N := if ind then 16 else 0.

Lemma emit_numv_h2 v a : numv_h v 2 = Ok a -> v < 256 -> emit_value a = Ok [v].
Proof.
  unfold numv_h, num_of_int. cbn [negb andb]. intros H Hlt. destruct (65535 <? v); [discriminate|].
  unfold post_init, init_hint in H. cbn [is_ext_mode mode_eqb bind] in H. inversion H; subst a.
  unfold emit_value, v_hex, v_hex_len.
  destruct (num_hex_hinted {| n_int := v; n_neg := false; n_hint := Some 2; n_mode := MExtended |} 2 eq_refl ltac:(discriminate)) as [Hl Hh].
  rewrite Hl, Hh. cbn [n_neg andb]. unfold get_negative. cbn [n_neg negb n_int]. change (N.to_nat 2) with 2%nat.
  rewrite fmt_hex_2 by assumption. change ((2 + 1) / 2)%nat with 1%nat. rewrite emit_pairs_2. f_equal. f_equal. lia.
Qed.

Lemma emit_numv_h4 v a : numv_h v 4 = Ok a -> v < 65536 -> emit_value a = Ok [v / 256; v mod 256].
Proof.
  unfold numv_h, num_of_int. cbn [negb andb]. intros H Hlt. destruct (65535 <? v); [discriminate|].
  unfold post_init, init_hint in H. cbn [is_ext_mode mode_eqb bind] in H. inversion H; subst a.
  unfold emit_value, v_hex, v_hex_len.
  destruct (num_hex_hinted {| n_int := v; n_neg := false; n_hint := Some 4; n_mode := MExtended |} 4 eq_refl ltac:(discriminate)) as [Hl Hh].
  rewrite Hl, Hh. cbn [n_neg andb]. unfold get_negative. cbn [n_neg negb n_int]. change (N.to_nat 4) with 4%nat.
  rewrite fmt_hex_4 by assumption. change ((4 + 1) / 2)%nat with 2%nat. rewrite emit_pairs_4. f_equal. f_equal; [lia|]. f_equal. lia.
Qed.

Lemma sext8_pos v : v < 128 -> sext 8 v = Z.of_N v.
Proof. intros H. unfold sext. replace (2 ^ (8 - 1)) with 128 by reflexivity. destruct (N.ltb_spec v 128); lia. Qed.
Lemma sext8_neg v : 128 <= v -> v < 256 -> sext 8 v = (Z.of_N v - 256)%Z.
Proof. intros H1 H2. unfold sext. replace (2 ^ (8 - 1)) with 128 by reflexivity. replace (2 ^ 8) with 256 by reflexivity. destruct (N.ltb_spec v 128); lia. Qed.
Lemma sext16_pos v : v < 32768 -> sext 16 v = Z.of_N v.
Proof. intros H. unfold sext. replace (2 ^ (16 - 1)) with 32768 by reflexivity. destruct (N.ltb_spec v 32768); lia. Qed.
Lemma sext16_neg v : 32768 <= v -> v < 65536 -> sext 16 v = (Z.of_N v - 65536)%Z.
Proof. intros H1 H2. unfold sext. replace (2 ^ (16 - 1)) with 32768 by reflexivity. replace (2 ^ 16) with 65536 by reflexivity. destruct (N.ltb_spec v 32768); lia. Qed.

(* decoding the post-bytes of the 8/16-bit offset and PCR forms, for every register and both indirect settings *)
Ltac norm_pb := match goal with |- decode_idx (?pb :: _) = _ => let x := eval vm_compute in pb in change pb with x end.
Lemma decode_idx_off8 rg ind v rest : v < 256 ->
  decode_idx (128 + 32 * reg_code rg + ind_bit ind + 8 :: v :: rest) = Some (IOff8 rg (sext 8 v) ind, rest).
Proof.
  intros H. destruct rg, ind; norm_pb; unfold decode_idx; rewrite get1_ok by lia; cbv -[sext get1 get2];
    rewrite get1_ok by assumption; reflexivity.
Qed.
Lemma decode_idx_off16 rg ind h l rest : h < 256 -> l < 256 ->
  decode_idx (128 + 32 * reg_code rg + ind_bit ind + 9 :: h :: l :: rest) = Some (IOff16 rg (sext 16 (h * 256 + l)) ind, rest).
Proof.
  intros H1 H2. destruct rg, ind; norm_pb; unfold decode_idx; rewrite get1_ok by lia; cbv -[sext get1 get2 N.mul N.add];
    rewrite get2_ok by assumption; reflexivity.
Qed.
Lemma decode_idx_pc8 ind v rest : v < 256 ->
  decode_idx (128 + ind_bit ind + 12 :: v :: rest) = Some (IPc8 (sext 8 v) ind, rest).
Proof.
  intros H. destruct ind; norm_pb; unfold decode_idx; rewrite get1_ok by lia; cbv -[sext get1 get2];
    rewrite get1_ok by assumption; reflexivity.
Qed.
Lemma decode_idx_pc16 ind h l rest : h < 256 -> l < 256 ->
  decode_idx (128 + ind_bit ind + 13 :: h :: l :: rest) = Some (IPc16 (sext 16 (h * 256 + l)) ind, rest).
Proof.
  intros H1 H2. destruct ind; norm_pb; unfold decode_idx; rewrite get1_ok by lia; cbv -[sext get1 get2 N.mul N.add];
    rewrite get2_ok by assumption; reflexivity.
Qed.

(* facts about an exact register name on the right-hand side *)
Lemma reg_name_facts nm rg : In (nm, rg) reg_names ->
  mem_c 43 nm = false /\ mem_c 45 nm = false /\ contains t_PCR nm = false /\ contains [80; 67; 82] nm = false /\
  reg_bits nm = 32 * reg_code rg /\ valid_index_reg nm = true.
Proof.
  intros [E|[E|[E|[E|[]]]]]; inversion E; subst; repeat split; reflexivity.
Qed.

Definition num_value (n : num) : Z := if n_neg n then (- Z.of_N (n_int n))%Z else Z.of_N (n_int n).

Lemma idx_post_byte rg (ind : bool) c : c = 136 \/ c = 137 \/ c = 140 \/ c = 141 ->
  N.lor (N.lor (if ind then 128 else 0) (32 * reg_code rg)) (N.lor c (if ind then 16 else 0)) = 32 * reg_code rg + ind_bit ind + c.
Proof. intros [->|[->|[->| ->]]]; destruct rg, ind; reflexivity. Qed.

(* --- n,R and [n,R] with an 8-bit or 16-bit constant offset (any register, both indirect settings) --- *)
Theorem offset_decodes i p n nm rg ind : row_ok i = true -> Tables.is_pseudo i = false -> In (nm, rg) reg_names ->
  n_int n <> 0 -> (ind = false -> negb (is_4_bit n) = true) -> n_int n <= 32768 ->
  translate_indexed ind (LVal (VNum n)) nm i = Ok p ->
  exists bs, final_bytes p = Ok bs /\ N.of_nat (length bs) = cp_size p /\
    (decode bs = Some ({| i_mnem := canon (mnem i); i_op := OIdx (IOff8 rg (num_value n) ind) |}, []) /\ (-128 <= num_value n <= 127)%Z \/
     exists z, decode bs = Some ({| i_mnem := canon (mnem i); i_op := OIdx (IOff16 rg z ind) |}, []) /\
               (z mod 65536 = num_value n mod 65536)%Z).
Proof.
  intros Hr Hp Hin Hnz H4 Hmax H. destruct (row_ok_real i Hr Hp) as (_ & _ & _ & Hind & _).
  destruct (reg_name_facts nm rg Hin) as (F1 & F2 & F3 & F4 & F5 & F6).
  unfold translate_indexed, opt_op in H. destruct (Tables.ind i) as [opc|]; [|discriminate]. rewrite F6 in H. cbn [negb] in H.
  cbn [opt_ok] in Hind. apply andb_true_iff in Hind as [He Hs]. apply N.eqb_eq in Hs.
  unfold left_is_empty_or_zero in H. cbn [v_is_numeric v_int] in H.
  assert (Ez : (n_int n =? 0) = false) by (now apply N.eqb_neq). rewrite Ez in H. cbn [andb] in H.
  cbn [left_abd] in H. rewrite F1, F2 in H. cbn [orb] in H. cbn [v_is_address bind v_is_expr v_is_addr_expr orb] in H.
  rewrite F3, F5 in H.
  assert (Hnot4 : negb ind && is_4_bit n = false).
  { destruct ind; [reflexivity|]. cbn [negb andb]. specialize (H4 eq_refl). now apply negb_true_iff in H4. }
  destruct (n_neg n) eqn:Eneg.
  - (* negative *)
    rewrite Hnot4 in H. destruct (is_8_bit n) eqn:E8.
    + unfold is_8_bit in E8. rewrite Eneg in E8. apply N.leb_le in E8.
      apply bind_ok in H as [a [Ha H]].
      assert (Ea : emit_value a = Ok [256 - n_int n]).
      { rewrite (emit_opcode _ _ Ha) by lia. unfold op_bytes. assert (256 - n_int n <? 256 = true) by (apply N.ltb_lt; lia). now rewrite H0. }
      rewrite (idx_post_byte rg ind 136) in H by auto. replace (32 * reg_code rg + ind_bit ind + 136) with (128 + 32 * reg_code rg + ind_bit ind + 8) in H by lia.
      destruct (mk_idx_final _ _ _ _ _ _ _ _ _ H He ltac:(destruct rg, ind; cbn; lia) Ea) as (Fb & Fs & Fd).
      eexists. split; [exact Fb|]. split; [rewrite Fs, app_length, Nat2N.inj_add, op_bytes_length; cbn [length]; lia|].
      left. rewrite Fd, decode_idx_off8 by lia. unfold num_value. rewrite Eneg. rewrite sext8_neg by lia. split; [do 5 f_equal; lia | lia].
    + unfold is_8_bit in E8. rewrite Eneg in E8. apply N.leb_gt in E8.
      apply bind_ok in H as [a [Ha H]].
      assert (Ea : emit_value a = Ok [(65536 - n_int n) / 256; (65536 - n_int n) mod 256]).
      { rewrite (emit_opcode _ _ Ha) by lia. unfold op_bytes. assert (65536 - n_int n <? 256 = false) by (apply N.ltb_ge; lia). now rewrite H0. }
      rewrite (idx_post_byte rg ind 137) in H by auto. replace (32 * reg_code rg + ind_bit ind + 137) with (128 + 32 * reg_code rg + ind_bit ind + 9) in H by lia.
      destruct (mk_idx_final _ _ _ _ _ _ _ _ _ H He ltac:(destruct rg, ind; cbn; lia) Ea) as (Fb & Fs & Fd).
      eexists. split; [exact Fb|]. split; [rewrite Fs, app_length, Nat2N.inj_add, op_bytes_length; cbn [length]; lia|].
      right. eexists. rewrite Fd, decode_idx_off16 by lia. split; [reflexivity|].
      unfold num_value. rewrite Eneg. replace ((65536 - n_int n) / 256 * 256 + (65536 - n_int n) mod 256) with (65536 - n_int n) by lia.
      rewrite sext16_neg by lia. lia.
  - (* non-negative *)
    rewrite Hnot4 in H. destruct (is_8_bit n) eqn:E8.
    + unfold is_8_bit in E8. rewrite Eneg in E8. apply N.leb_le in E8.
      apply bind_ok in H as [a [Ha H]]. pose proof (emit_numv_h2 _ _ Ha ltac:(lia)) as Ea.
      rewrite (idx_post_byte rg ind 136) in H by auto. replace (32 * reg_code rg + ind_bit ind + 136) with (128 + 32 * reg_code rg + ind_bit ind + 8) in H by lia.
      destruct (mk_idx_final _ _ _ _ _ _ _ _ _ H He ltac:(destruct rg, ind; cbn; lia) Ea) as (Fb & Fs & Fd).
      eexists. split; [exact Fb|]. split; [rewrite Fs, app_length, Nat2N.inj_add, op_bytes_length; cbn [length]; lia|].
      left. rewrite Fd, decode_idx_off8 by lia. unfold num_value. rewrite Eneg. rewrite sext8_pos by lia. split; [reflexivity | lia].
    + unfold is_8_bit in E8. rewrite Eneg in E8. apply N.leb_gt in E8.
      assert (E4 : negb (is_4_bit n) = true).
      { unfold is_4_bit. rewrite Eneg. apply negb_true_iff. apply N.leb_gt. lia. }
      rewrite E4 in H. apply bind_ok in H as [a [Ha H]]. pose proof (emit_numv_h4 _ _ Ha ltac:(lia)) as Ea.
      rewrite (idx_post_byte rg ind 137) in H by auto. replace (32 * reg_code rg + ind_bit ind + 137) with (128 + 32 * reg_code rg + ind_bit ind + 9) in H by lia.
      destruct (mk_idx_final _ _ _ _ _ _ _ _ _ H He ltac:(destruct rg, ind; cbn; lia) Ea) as (Fb & Fs & Fd).
      eexists. split; [exact Fb|]. split; [rewrite Fs, app_length, Nat2N.inj_add, op_bytes_length; cbn [length]; lia|].
      right. eexists. rewrite Fd, decode_idx_off16 by lia. split; [reflexivity|].
      unfold num_value. rewrite Eneg. replace (n_int n / 256 * 256 + n_int n mod 256) with (n_int n) by lia.
      destruct (N.lt_ge_cases (n_int n) 32768); [rewrite sext16_pos by lia; reflexivity | rewrite sext16_neg by lia; lia].
Qed.

(* --- bare numeric n,PCR and [n,PCR]: the displacement is n --- *)
Lemma pcr_post_byte (ind : bool) c : c = 140 \/ c = 141 ->
  N.lor (N.lor (if ind then 128 else 0) (reg_bits t_PCR)) (N.lor c (if ind then 16 else 0)) = 128 + ind_bit ind + (c - 128).
Proof. intros [-> | ->]; destruct ind; reflexivity. Qed.

Theorem numeric_pcr_decodes i p n ind : row_ok i = true -> Tables.is_pseudo i = false ->
  translate_indexed ind (LVal (VNum n)) t_PCR i = Ok p ->
  exists bs, final_bytes p = Ok bs /\ N.of_nat (length bs) = cp_size p /\
    (decode bs = Some ({| i_mnem := canon (mnem i); i_op := OIdx (IPc8 (num_value n) ind) |}, []) /\ (-128 <= num_value n <= 127)%Z \/
     exists z, decode bs = Some ({| i_mnem := canon (mnem i); i_op := OIdx (IPc16 z ind) |}, []) /\
               (z mod 65536 = num_value n mod 65536)%Z).
Proof.
  intros Hr Hp H. destruct (row_ok_real i Hr Hp) as (_ & _ & _ & Hind & _).
  unfold translate_indexed, opt_op in H. destruct (Tables.ind i) as [opc|]; [|discriminate].
  change (valid_index_reg t_PCR) with true in H. cbn [negb] in H.
  cbn [opt_ok] in Hind. apply andb_true_iff in Hind as [He Hs]. apply N.eqb_eq in Hs.
  unfold left_is_empty_or_zero in H. change (contains [80; 67; 82] t_PCR) with true in H. cbn [negb] in H. rewrite andb_false_r in H.
  cbn [left_abd] in H. change (mem_c 43 t_PCR) with false in H. change (mem_c 45 t_PCR) with false in H. cbn [orb] in H.
  cbn [v_is_address bind v_is_expr v_is_addr_expr orb] in H. change (contains t_PCR t_PCR) with true in H. cbv iota in H.
  assert (Hv : value_number (VNum n) = num_value n) by reflexivity.
  destruct (negb (v_is_8_bit (VNum n) && negb (v_is_extended (VNum n)))) eqn:Ew.
  - apply bind_ok in H as [a [Ha H]]. destruct (fit_value_4_emits _ _ Ha) as (R1 & Ea). rewrite Hv in *.
    rewrite (pcr_post_byte ind 141) in H by auto. change (141 - 128) with 13 in H.
    destruct (mk_idx_final _ _ _ _ _ _ _ _ _ H He ltac:(destruct ind; cbn; lia) Ea) as (Fb & Fs & Fd).
    eexists. split; [exact Fb|]. split; [rewrite Fs, app_length, Nat2N.inj_add, op_bytes_length; cbn [length]; lia|].
    right. eexists. rewrite Fd, decode_idx_pc16 by lia. split; [reflexivity|].
    set (z := num_value n) in *.
    replace (Z.to_N (z mod 65536 / 256) * 256 + Z.to_N (z mod 256)) with (Z.to_N (z mod 65536)) by lia.
    destruct (N.lt_ge_cases (Z.to_N (z mod 65536)) 32768); [rewrite sext16_pos by lia | rewrite sext16_neg by lia]; lia.
  - apply negb_false_iff in Ew. apply andb_true_iff in Ew as [E8 _]. cbn [v_is_8_bit] in E8.
    apply bind_ok in H as [a [Ha H]]. destruct (fit_value_2_emits _ _ _ Ha) as (R1 & _ & Ea). rewrite Hv in *.
    rewrite (pcr_post_byte ind 140) in H by auto. change (140 - 128) with 12 in H.
    destruct (mk_idx_final _ _ _ _ _ _ _ _ _ H He ltac:(destruct ind; cbn; lia) Ea) as (Fb & Fs & Fd).
    eexists. split; [exact Fb|]. split; [rewrite Fs, app_length, Nat2N.inj_add, op_bytes_length; cbn [length]; lia|].
    left. rewrite Fd, decode_idx_pc8 by lia.
    assert (Hrange : (-128 <= num_value n <= 127)%Z).
    { unfold is_8_bit in E8. unfold num_value. destruct (n_neg n); apply N.leb_le in E8; lia. }
    split; [|exact Hrange]. set (z := num_value n) in *.
    destruct (Z.lt_ge_cases z 0).
    + rewrite sext8_neg by lia. do 5 f_equal. lia.
    + rewrite sext8_pos by lia. do 5 f_equal. lia.
Qed.

(* --- PSHS/PSHU/PULS/PULU and TFR/EXG: the probed tables only contain legal post-bytes --- *)
Definition special_tables_ok : bool :=
  forallb (fun e : String.string * String.string * option N => match snd e with Some b => b <? 256 | None => true end) Tables.pshpul_table &&
  forallb (fun e : String.string * String.string * String.string * option N =>
             match snd e with Some b => (b <? 256) && regpair_legal (b / 16) (b mod 16) | None => true end) Tables.tfrexg_table.
Theorem special_tables_are_ok : special_tables_ok = true.
Proof. vm_compute. reflexivity. Qed.

(* a TFR/EXG pair the tool accepts is a legal pair of the datasheet (same register size), and every legal
   pair of register names is accepted: the probed table agrees with the datasheet's register codes *)
Definition reg_code_of_name (s : String.string) : option N :=
  let t := text_of_string s in
  if text_eqb t [68] then Some 0 else if text_eqb t [88] then Some 1 else if text_eqb t [89] then Some 2
  else if text_eqb t [85] then Some 3 else if text_eqb t [83] then Some 4 else if text_eqb t [80; 67] then Some 5
  else if text_eqb t [65] then Some 8 else if text_eqb t [66] then Some 9 else if text_eqb t [67; 67] then Some 10
  else if text_eqb t [68; 80] then Some 11 else None.
Definition tfrexg_agrees : bool :=
  forallb (fun e : String.string * String.string * String.string * option N =>
    let '(m, r1, r2, pb) := e in
    match reg_code_of_name r1, reg_code_of_name r2 with
    | Some a, Some b => match pb with
                        | Some v => (v =? a * 16 + b) && regpair_legal a b
                        | None => negb (regpair_legal a b)
                        end
    | _, _ => match pb with None => true | Some _ => false end
    end) Tables.tfrexg_table.
Theorem tfrexg_table_agrees_with_datasheet : tfrexg_agrees = true.
Proof. vm_compute. reflexivity. Qed.

(* PSH/PUL single-register masks agree with the datasheet's bit assignment; a stack cannot push itself *)
Definition pshpul_mask_of (m r : String.string) : option N :=
  let t := text_of_string r in
  let own := if (text_eqb (text_of_string m) [80;83;72;83] || text_eqb (text_of_string m) [80;85;76;83]) then [83] else [85] in
  if text_eqb t own then None
  else if text_eqb t [67; 67] then Some 1 else if text_eqb t [65] then Some 2 else if text_eqb t [66] then Some 4
  else if text_eqb t [68] then Some 6 else if text_eqb t [68; 80] then Some 8 else if text_eqb t [88] then Some 16
  else if text_eqb t [89] then Some 32 else if text_eqb t [85] then Some 64 else if text_eqb t [83] then Some 64
  else if text_eqb t [80; 67] then Some 128 else None.
Definition pshpul_agrees : bool :=
  forallb (fun e : String.string * String.string * option N => let '(m, r, pb) := e in
             match pshpul_mask_of m r, pb with Some a, Some b => a =? b | None, None => true | _, _ => false end) Tables.pshpul_table.
Theorem pshpul_table_agrees_with_datasheet : pshpul_agrees = true.
Proof. vm_compute. reflexivity. Qed.

(* ---------- what is rejected ---------- *)
Lemma fit_out_of_range v d (signed : bool) :
  let limit := (16 ^ Z.of_N d)%Z in
  (limit <= value_number v \/ value_number v < (if signed then - (limit / 2) else 0))%Z -> fit_value v d signed = Diag 21.
Proof.
  intros limit H. unfold fit_value. fold (value_number v). fold limit.
  assert (E : ((limit <=? value_number v) || (value_number v <? (if signed then - (limit / 2) else 0)))%Z = true).
  { apply orb_true_iff. destruct H; [left; now apply Z.leb_le | right; now apply Z.ltb_lt]. }
  now rewrite E.
Qed.

Theorem mode_not_available_rejected i :
  (Tables.inh i = None -> translate_operand OInherent i = Diag 21) /\
  (forall n, Tables.imm i = None -> translate_operand (OImmediate (VNum n)) i = Diag 21) /\
  (forall n, Tables.dir i = None -> translate_operand (ODirect (VNum n)) i = Diag 21) /\
  (forall n, Tables.ext i = None -> translate_operand (OExtended (VNum n)) i = Diag 21) /\
  (forall s l r, Tables.ind i = None -> translate_operand (OIndexed s l r) i = Diag 21) /\
  (forall s v l r, Tables.ind i = None -> translate_operand (OExtIdx s v l r) i = Diag 21).
Proof.
  repeat split; intros; cbn [translate_operand]; unfold translate_indexed, opt_op;
    repeat match goal with H : _ = None |- _ => rewrite H end; reflexivity.
Qed.

Theorem direct_out_of_range_rejected i n opc : Tables.dir i = Some opc ->
  (256 <= value_number (VNum n) \/ value_number (VNum n) < 0)%Z -> translate_operand (ODirect (VNum n)) i = Diag 21.
Proof.
  intros Hd Hr. cbn [translate_operand]. unfold opt_op. rewrite Hd. cbn [v_is_numeric].
  rewrite (fit_out_of_range (VNum n) 2 false); [reflexivity|]. change (16 ^ Z.of_N 2)%Z with 256%Z. exact Hr.
Qed.

Theorem immediate8_out_of_range_rejected i n opc : Tables.imm i = Some opc -> imm_digits i = 2 ->
  (256 <= value_number (VNum n) \/ value_number (VNum n) < -128)%Z -> translate_operand (OImmediate (VNum n)) i = Diag 21.
Proof.
  intros Hd Hdig Hr. cbn [translate_operand]. unfold opt_op. rewrite Hd. cbn [v_is_numeric]. rewrite Hdig.
  rewrite (fit_out_of_range (VNum n) 2 true); [reflexivity|]. change (16 ^ Z.of_N 2)%Z with 256%Z. change (- (256 / 2))%Z with (-128)%Z. exact Hr.
Qed.

Theorem unknown_register_rejected m r rest acc : lookup_pshpul m r Tables.pshpul_table = None -> pshpul_mask m (r :: rest) acc = Diag 21.
Proof. intros H. cbn [pshpul_mask]. now rewrite H. Qed.

Theorem illegal_register_pair_rejected s i r1 r2 : is_pshpul (mnem i) = false -> is_tfrexg (mnem i) = true ->
  split_on 44 s = [r1; r2] -> lookup_tfrexg (mnem i) r1 r2 Tables.tfrexg_table = None -> translate_special s i = Diag 21.
Proof. intros H1 H2 H3 H4. unfold translate_special. rewrite H1, H2, H3, H4. reflexivity. Qed.
