(* PSize.v — the space the listing reserves for a statement is exactly the number of bytes it emits
   (properties C02 and C12, for EVERY accepted program and EVERY statement, label operands and PC-relative
   operands included).  The number of bytes a value emits is fixed by its hex length alone; the invariant
   zok predicts, from the moment translate() has run, how wide the operand field will be after the size loop and
   fix_addresses have done their work, and the size bookkeeping is shown to agree with that prediction. *)
From V Require Import Base.
From V.model Require Import MText MValues MOperands MProgram.
From V.proofs Require Import PLayout PFrames PClean PHex PRender PContig PC02 PC12 PNoCrash.
From V.spec Require Spec6809.
From V.gen Require Tables.
From Coq Require Import ZifyNat ZifyN ZifyBool.
Local Open Scope N_scope.
Ltac Zify.zify_post_hook ::= Z.div_mod_to_equations.

(* ====================================================================================================== *)
(* 1. how many bytes a value emits                                                                          *)
(* ====================================================================================================== *)
Definition bytes_of (v : value) : nat := ((v_hex_len v + 1) / 2)%nat.

Lemma emit_pairs_len : forall k h b, emit_pairs k h = Ok b -> length b = k.
Proof.
  induction k as [|k IH]; intros h b H; cbn [emit_pairs] in H; [inversion H; reflexivity|].
  destruct h as [|x [|y r]]; try discriminate. apply bind_ok in H as [rest [Hr H]]. inversion H; subst. cbn. f_equal. eauto.
Qed.

Lemma emit_len v b : emit_value v = Ok b -> length b = bytes_of v.
Proof.
  unfold emit_value, bytes_of. destruct v; try discriminate; destruct (v_hex _); try discriminate; apply emit_pairs_len.
Qed.

Lemma bytes_of_none : bytes_of VNone = 0%nat. Proof. reflexivity. Qed.

Lemma bytes_of_hinted x h : n_hint x = Some h -> bytes_of (VNum x) = ((N.to_nat h + 1) / 2)%nat.
Proof. intros H. unfold bytes_of. cbn [v_hex_len]. unfold num_hex_len. now rewrite H. Qed.

Lemma num_of_int_hinted neg mag h m x : num_of_int neg mag (Some h) m = Ok x -> is_ext_mode m = false -> n_hint x = Some h.
Proof.
  unfold num_of_int, post_init, init_hint. intros H Hm. rewrite Hm in H. destruct (negb neg && _); [discriminate|].
  inversion H; subst. reflexivity.
Qed.

Lemma fit_value_bytes v d sg a : fit_value v d sg = Ok a -> bytes_of a = ((N.to_nat d + 1) / 2)%nat.
Proof.
  unfold fit_value. destruct (_ || _); [discriminate|]. intros H. apply bind_ok in H as [x [Hx H]]. inversion H; subst.
  apply bytes_of_hinted. unfold num_of_Z in Hx. eapply num_of_int_hinted; eauto.
Qed.

Lemma numv_h_bytes v h a : numv_h v h = Ok a -> bytes_of a = ((N.to_nat h + 1) / 2)%nat.
Proof.
  unfold numv_h. intros H. apply bind_ok in H as [x [Hx H]]. inversion H; subst. apply bytes_of_hinted.
  eapply num_of_int_hinted; eauto.
Qed.

Lemma num_of_Z_bytes z h x : num_of_Z z (Some h) MNone = Ok x -> bytes_of (VNum x) = ((N.to_nat h + 1) / 2)%nat.
Proof. intros H. apply bytes_of_hinted. unfold num_of_Z in H. eapply num_of_int_hinted; eauto. Qed.

(* an opcode: one byte, or two with a page prefix *)
Lemma numv_bytes opc v : numv opc = Ok v -> opc < 65536 -> bytes_of v = N.to_nat (op_len opc).
Proof.
  intros H Hlt. pose proof (emit_opcode opc v H Hlt) as E. rewrite <- (emit_len _ _ E).
  pose proof (op_bytes_length opc). lia.
Qed.

Lemma numv_byte x v : numv x = Ok v -> x < 256 -> bytes_of v = 1%nat.
Proof. intros H Hx. rewrite (numv_bytes _ _ H) by lia. unfold op_len. destruct (N.ltb_spec x 256); [reflexivity | lia]. Qed.

(* strings and value lists fill exactly the bytes counted for them *)
Lemma even_bytes k : Nat.even k = true -> ((k + 1) / 2 = k / 2)%nat.
Proof. intros H. apply Nat.even_spec in H as [j ->]. replace (2 * j + 1)%nat with (1 + j * 2)%nat by lia. rewrite Nat.div_add by lia.
  replace (2 * j)%nat with (j * 2)%nat by lia. rewrite Nat.div_mul by lia. reflexivity. Qed.

Lemma data_value_bytes n v : vok n v -> (match v with VStr _ | VMulti _ | VNone => True | _ => False end) ->
  N.to_nat (v_byte_len v) = bytes_of v.
Proof.
  intros Hv Hs. unfold v_byte_len, bytes_of. rewrite Nat2N.id. destruct v; try contradiction; cbn [v_hex_len vok] in *.
  - reflexivity.
  - rewrite (fmt2_concat_length _ Hv). symmetry. rewrite even_bytes; [reflexivity|]. apply Nat.even_spec. exists (length s). reflexivity.
  - symmetry. now apply even_bytes.
Qed.

Lemma lor_lt_256 a b : a < 256 -> b < 256 -> N.lor a b < 256.
Proof.
  intros Ha Hb. destruct (N.eq_dec a 0) as [->|Ha0]; [now rewrite N.lor_0_l|].
  destruct (N.eq_dec b 0) as [->|Hb0]; [now rewrite N.lor_0_r|].
  change 256 with (2 ^ 8) in *.
  assert (La : N.log2 a < 8) by (apply (proj1 (N.log2_lt_pow2 a 8 ltac:(lia))); exact Ha).
  assert (Lb : N.log2 b < 8) by (apply (proj1 (N.log2_lt_pow2 b 8 ltac:(lia))); exact Hb).
  assert (Hpos : 0 < N.lor a b).
  { destruct (N.eq_dec (N.lor a b) 0) as [E|E]; [|lia]. apply N.lor_eq_0_iff in E as [E _]. contradiction. }
  apply (proj2 (N.log2_lt_pow2 _ 8 Hpos)). rewrite N.log2_lor. apply N.max_lub_lt; assumption.
Qed.

(* ====================================================================================================== *)
(* 2. what the regenerated tables say                                                                       *)
(* ====================================================================================================== *)
Definition opt_lt256 (o : option N) : bool := match o with Some b => b <? 256 | None => true end.
Definition special_tables_small : bool :=
  forallb (fun e => opt_lt256 (snd e)) Tables.pshpul_table && forallb (fun e => opt_lt256 (snd e)) Tables.tfrexg_table.
Lemma special_tables_are_small : special_tables_small = true.
Proof. vm_compute. reflexivity. Qed.

Definition data_flag_ok (i : irow) : bool :=
  implb (text_eqb (mnem i) FCB_t) (Tables.is_multi_byte i) && implb (text_eqb (mnem i) FDB_t) (negb (Tables.is_multi_byte i)).
Lemma data_flags : forallb data_flag_ok Tables.instructions = true.
Proof. vm_compute. reflexivity. Qed.

Lemma row_of i : In i Tables.instructions -> row_ok i = true /\ data_flag_ok i = true.
Proof.
  intros H. pose proof rows_ok as R. pose proof data_flags as D. rewrite forallb_forall in R, D. split; auto.
Qed.

Lemma lookup_pshpul_small m r : forall tb b, forallb (fun e => opt_lt256 (snd e)) tb = true -> lookup_pshpul m r tb = Some b -> b < 256.
Proof.
  induction tb as [|[[x y] v] tb IH]; intros b Hs H; cbn [lookup_pshpul] in H; [discriminate|].
  cbn [forallb snd] in Hs. apply andb_true_iff in Hs as [H1 H2]. destruct (_ && _); [|eauto].
  subst v. cbn in H1. now apply N.ltb_lt in H1.
Qed.

Lemma lookup_tfrexg_small m r1 r2 : forall tb b, forallb (fun e => opt_lt256 (snd e)) tb = true -> lookup_tfrexg m r1 r2 tb = Some b -> b < 256.
Proof.
  induction tb as [|e tb IH]; intros b Hs H; cbn [lookup_tfrexg] in H; [discriminate|].
  cbn [forallb] in Hs. apply andb_true_iff in Hs as [H1 H2]. destruct e as [[[x y] z] v]. destruct (_ && _); [|eauto].
  subst v. cbn in H1. now apply N.ltb_lt in H1.
Qed.

(* ====================================================================================================== *)
(* 3. magnitudes: a negative number that reaches translate() is at least -32768                            *)
(* ====================================================================================================== *)
Definition mok (v : value) : Prop := match v with VNum x => n_neg x = true -> n_int x <= 32768 | _ => True end.

Lemma num_of_int_mok neg mag p m x : (neg = true -> mag <= 32768) -> num_of_int neg mag p m = Ok x -> mok (VNum x).
Proof.
  unfold num_of_int. intros Hb. destruct (negb neg && _); [discriminate|]. destruct (post_init _ _ _). intros H. inversion H; subst.
  cbn. intros Hn. apply andb_true_iff in Hn as [Hn _]. auto.
Qed.

Lemma num_of_result_mok z m x : num_of_result z m = Ok x -> mok (VNum x).
Proof.
  unfold num_of_result. destruct (z <? 0)%Z.
  - destruct (32768 <? Z.to_N (- z)) eqn:E; [discriminate|]. intros H. inversion H; subst. cbn. intros _. now apply N.ltb_ge in E.
  - destruct (65535 <? _); [discriminate|]. destruct (post_init _ _ _). intros H. inversion H; subst. cbn. discriminate.
Qed.

Lemma num_of_text_mok t p m x : num_of_text t p m = Ok x -> mok (VNum x).
Proof.
  unfold num_of_text. destruct t as [|c0 ds]; [discriminate|].
  repeat match goal with
  | |- (if ?b then _ else _) = Ok _ -> _ => destruct b eqn:?
  | |- (let '(_, _) := ?y in _) = Ok _ -> _ => destruct y eqn:?
  end; try discriminate; intros E; inversion E; subst; cbn; try discriminate.
  intros _. match goal with Hq : (32768 <? _) = false |- _ => now apply N.ltb_ge in Hq end.
Qed.

Lemma value_of_text_mok t sd i16 de v : value_of_text t sd i16 de = Ok v -> mok v.
Proof.
  unfold value_of_text. destruct t as [|c0 rest]; [discriminate|].
  destruct (if sd then _ else None) as [sv|] eqn:Es.
  - intros H. inversion H; subst. destruct sd; [|discriminate]. destruct (rev rest); [inversion Es; subst; exact I|].
    destruct (_ && _); inversion Es; subst; exact I.
  - destruct (if c0 =? 60 then _ else _) as [m t'].
    unfold ok_or. destruct (expr_of_text t' m) eqn:E1;
      try (intros H; inversion H; subst; unfold expr_of_text in E1; destruct (split_expr t') as [[[? ?] ?]|]; [|discriminate];
           apply bind_ok in E1 as [? [_ E1]]; apply bind_ok in E1 as [? [_ E1]]; inversion E1; subst; exact I).
    all: destruct (lr_of_text t' m) eqn:E2;
      try (intros H; inversion H; subst; unfold lr_of_text in E2; destruct (split_on 44 t') as [|? [|? [|? ?]]]; inversion E2; subst; exact I; fail).
    all: destruct (num_of_text t' _ m) eqn:E3; cbn [bind];
      try (intros H; inversion H; subst; eapply num_of_text_mok; eauto).
    all: destruct (_ && _); intros H; inversion H; subst; exact I.
Qed.

Definition tb_mok (tb : symtab) : Prop := Forall (fun kv => mok (snd kv)) tb.

Lemma lookup_mok s tb v : tb_mok tb -> lookup s tb = Some v -> mok v.
Proof.
  intros H. induction tb as [|[k x] tb IH]; cbn; [discriminate|]. pose proof (Forall_inv H) as Hx. pose proof (Forall_inv_tail H) as Ht.
  destruct (text_eqb k s); [intros E; inversion E; subst; exact Hx | auto].
Qed.

Lemma resolve_value_mok v tb v' : tb_mok tb -> mok v -> resolve_value v tb = Ok v' -> mok v'.
Proof.
  intros Ht Hv H. destruct v; cbn [resolve_value] in H; try (inversion H; subst; exact Hv).
  - unfold resolve_symbol, get_symbol in H. destruct (lookup name tb) as [sv|] eqn:E; [|discriminate]. cbn [bind] in H.
    pose proof (lookup_mok _ _ _ Ht E) as Hs. destruct sv; try (inversion H; subst; exact I).
    + apply bind_ok in H as [x [Hx H]]. inversion H; subst. eapply num_of_int_mok; [|exact Hx]. exact Hs.
    + destruct addr; inversion H; subst; exact I.
  - unfold resolve_expr in H. apply bind_ok in H as [l' [_ H]]. apply bind_ok in H as [r' [_ H]].
    destruct l'; try discriminate; destruct r'; try discriminate; cbn [v_is_numeric v_is_address andb orb] in H;
      try discriminate; try (inversion H; subst; exact I);
      try (apply bind_ok in H as [z [_ H]]; apply bind_ok in H as [nn [Hnn H]]; inversion H; subst; eapply num_of_result_mok; eauto).
Qed.

Definition omok (o : operand) : Prop := match o with OPseudo _ v => mok v | _ => True end.
Definition smok (l : side) : Prop := match l with LVal v => mok v | LStr _ => True end.
Definition lmok (o : operand) : Prop :=
  match o with OExtIdx _ _ l _ | OIndexed _ l _ => smok l | _ => True end.

Lemma pseudo_operand_mok s i o : pseudo_operand s i = Ok o -> omok o.
Proof.
  unfold pseudo_operand. intros H. apply bind_ok in H as [v [Hv H]].
  assert (Hm : mok v).
  { destruct (_ && _) in Hv; [unfold multi_value in Hv; apply bind_ok in Hv as [? [_ Hv]]; destruct (multi_fits _ _); inversion Hv; subst; exact I|].
    destruct (_ && _) in Hv; [unfold multi_value in Hv; apply bind_ok in Hv as [? [_ Hv]]; destruct (multi_fits _ _); inversion Hv; subst; exact I|].
    destruct (_ && _) in Hv; [inversion Hv; subst; exact I|]. eapply value_of_text_mok; exact Hv. }
  destruct (_ && _) in H; [|inversion H; subst; exact Hm].
  destruct (_ && _) in H.
  - apply bind_ok in H as [x [Hx H]]. inversion H; subst. cbn. eapply num_of_int_mok; [|exact Hx]. discriminate.
  - destruct (Nat.eqb _ 2).
    + apply bind_ok in H as [x [Hx H]]. inversion H; subst. cbn. eapply num_of_int_mok; [|exact Hx]. discriminate.
    + inversion H; subst. exact Hm.
Qed.

Lemma create_operand_mok s i o : create_operand s i = Ok o -> omok o /\ lmok o.
Proof.
  unfold create_operand. destruct (Tables.is_pseudo i).
  { intros H. pose proof (pseudo_operand_mok _ _ _ H) as Hm. unfold pseudo_operand in H. apply bind_ok in H as [v [_ H]].
    split; [exact Hm|]. repeat match type of H with (if ?b then _ else _) = Ok _ => destruct b
      | bind _ _ = Ok _ => let x := fresh in let Hx := fresh in apply bind_ok in H as [x [Hx H]] end; inversion H; subst; exact I. }
  destruct (Tables.is_special i); [intros H; inversion H; subst; split; exact I|].
  destruct (_ && _). { intros H. apply bind_ok in H as [v [_ H]]. inversion H; subst. split; exact I. }
  destruct s as [|c s']; [intros H; inversion H; subst; split; exact I|].
  intros H. apply next_if_ote_ok in H as [H | H].
  - destruct (_ && _) in H; [|discriminate]. apply vte_to_ote_ok in H. apply bind_ok in H as [v [_ H]].
    destruct v; inversion H; subst; split; exact I.
  - apply next_if_ote_ok in H as [H | H].
    + apply vte_to_ote_ok in H. apply bind_ok in H as [v [_ H]]. destruct v; try discriminate. inversion H; subst. split; exact I.
    + apply next_if_ote_ok in H as [H | H]; apply vte_to_ote_ok in H; apply bind_ok in H as [v [_ H]].
      * destruct (mode_eqb _ _); inversion H; subst. split; exact I.
      * inversion H; subst. split; exact I.
Qed.

Lemma save_symbols_mok : forall ss idx tb tb', Forall (fun s => omok (s_operand s)) ss -> tb_mok tb ->
  save_symbols ss idx tb = Ok tb' -> tb_mok tb'.
Proof.
  induction ss as [|s r IH]; intros idx tb tb' Ho Ht H; cbn [save_symbols] in H; [inversion H; subst; exact Ht|].
  pose proof (Forall_inv Ho) as Hs. pose proof (Forall_inv_tail Ho) as Hr.
  destruct (s_label s); [eapply IH; eauto|]. destruct (lookup _ tb); [discriminate|].
  eapply IH; [exact Hr | | exact H]. apply Forall_app. split; [exact Ht|]. constructor; [|constructor]. cbn [snd].
  destruct (Tables.is_pseudo_define _); [|exact I]. cbv beta in Hs. destruct (s_operand s); try exact I. exact Hs.
Qed.

Lemma tb_set_mok k v tb : tb_mok tb -> mok v -> tb_mok (tb_set k v tb).
Proof.
  intros Ht Hv. induction tb as [|[k' x] tb IH]; cbn [tb_set]; [constructor|].
  pose proof (Forall_inv Ht) as Hx. pose proof (Forall_inv_tail Ht) as Htb. cbn [snd] in Hx.
  destruct (text_eqb k k').
  - constructor; [exact Hv | exact Htb].
  - constructor; [exact Hx | exact (IH Htb)].
Qed.

Lemma resolve_defined_mok : forall ss tb tb', tb_mok tb -> resolve_defined ss tb = Ok tb' -> tb_mok tb'.
Proof.
  induction ss as [|s r IH]; intros tb tb' Ht H; cbn [resolve_defined] in H; [inversion H; subst; exact Ht|].
  destruct (s_label s); [eauto|]. destruct (Tables.is_pseudo_define _); [|eauto].
  destruct (lookup _ tb) as [v|] eqn:E; [|discriminate]. destruct (_ || _); [|eauto].
  apply bind_ok in H as [v' [Hr H]]. apply defined_error_ok in Hr. destruct (_ || _); [|discriminate].
  eapply IH; [|exact H]. apply tb_set_mok; [exact Ht|]. eapply resolve_value_mok; [exact Ht | eapply lookup_mok; eauto | exact Hr].
Qed.

Lemma resolve_left_mok l i tb l' : tb_mok tb -> smok l -> resolve_left l i tb = Ok l' -> smok l'.
Proof.
  intros Ht Hl. unfold resolve_left. destruct l as [t|v]; [|intros H; inversion H; subst; exact Hl].
  destruct (_ || _); [intros H; inversion H; subst; exact I|]. intros H.
  apply bind_ok in H as [v [Hv H]]. apply bind_ok in H as [v1 [Hv1 H]].
  pose proof (value_of_text_mok _ _ _ _ _ Hv) as Hm.
  assert (H1 : mok v1) by (destruct (v_is_symbol v); [eapply resolve_value_mok; eauto | inversion Hv1; subst; exact Hm]).
  destruct v1; try discriminate; apply bind_ok in H as [v2 [E2 H]]; inversion H; subst; cbn [smok];
    (destruct (_ || _) in E2; [eapply resolve_value_mok; [exact Ht | exact H1 | exact E2] | inversion E2; subst; exact H1]).
Qed.

Lemma resolve_operand_lmok o i tb o' : tb_mok tb -> lmok o -> resolve_operand o i tb = Ok o' -> lmok o'.
Proof.
  intros Ht Ho H. destruct o; cbn [resolve_operand] in H; try (inversion H; subst; exact I).
  - apply bind_ok in H as [v' [_ H]]. destruct (_ || _) in H; [destruct v'; try discriminate; destruct (_ || _) in H; inversion H; subst; exact I | inversion H; subst; exact I].
  - apply bind_ok in H as [v' [_ H]]. inversion H; subst. exact I.
  - cbn [lmok] in Ho. destruct (_ && _).
    + apply bind_ok in H as [v' [_ H]]. inversion H; subst. exact Ho.
    + apply bind_ok in H as [l' [Hl H]]. inversion H; subst. cbn. eapply resolve_left_mok; eauto.
  - cbn [lmok] in Ho. apply bind_ok in H as [l' [Hl H]]. inversion H; subst. cbn. eapply resolve_left_mok; eauto.
  - apply bind_ok in H as [v' [_ H]]. inversion H; subst. exact I.
  - apply bind_ok in H as [v' [_ H]]. destruct v'; try discriminate; destruct (_ || _) in H; inversion H; subst; exact I.
Qed.

(* ====================================================================================================== *)
(* 4. operand classes go with instruction classes                                                           *)
(* ====================================================================================================== *)
Definition cls (i : irow) (o : operand) : Prop :=
  match o with
  | OPseudo _ _ => Tables.is_pseudo i = true
  | OSpecial _ => Tables.is_pseudo i = false /\ Tables.is_special i = true
  | _ => Tables.is_pseudo i = false
  end.

Lemma create_operand_cls s i o : create_operand s i = Ok o -> cls i o.
Proof.
  unfold create_operand. destruct (Tables.is_pseudo i) eqn:Ep.
  { unfold pseudo_operand. intros H. apply bind_ok in H as [v [_ H]].
    repeat match type of H with (if ?b then _ else _) = Ok _ => destruct b
      | bind _ _ = Ok _ => let x := fresh in let Hx := fresh in apply bind_ok in H as [x [Hx H]] end; inversion H; subst; exact Ep. }
  destruct (Tables.is_special i) eqn:Es; [intros H; inversion H; subst; cbn; auto|].
  destruct (_ && _). { intros H. apply bind_ok in H as [v [_ H]]. inversion H; subst. exact Ep. }
  destruct s as [|c s']; [intros H; inversion H; subst; exact Ep|].
  intros H. apply next_if_ote_ok in H as [H | H].
  - destruct (_ && _) in H; [|discriminate]. apply vte_to_ote_ok in H. apply bind_ok in H as [v [_ H]].
    destruct v; inversion H; subst; exact Ep.
  - apply next_if_ote_ok in H as [H | H].
    + apply vte_to_ote_ok in H. apply bind_ok in H as [v [_ H]]. destruct v; try discriminate. inversion H; subst. exact Ep.
    + apply next_if_ote_ok in H as [H | H]; apply vte_to_ote_ok in H; apply bind_ok in H as [v [_ H]].
      * destruct (mode_eqb _ _); inversion H; subst. exact Ep.
      * inversion H; subst. exact Ep.
Qed.

Lemma resolve_operand_cls o i tb o' : cls i o -> resolve_operand o i tb = Ok o' -> cls i o'.
Proof.
  intros Hc H. destruct o; cbn [resolve_operand] in H; try (inversion H; subst; exact Hc).
  - apply bind_ok in H as [v' [_ H]]. destruct (_ || _) in H; [destruct v'; try discriminate; destruct (_ || _) in H; inversion H; subst; exact Hc | inversion H; subst; exact Hc].
  - apply bind_ok in H as [v' [_ H]]. inversion H; subst. exact Hc.
  - destruct (_ && _); apply bind_ok in H as [x [_ H]]; inversion H; subst; exact Hc.
  - apply bind_ok in H as [l' [_ H]]. inversion H; subst. exact Hc.
  - apply bind_ok in H as [v' [_ H]]. inversion H; subst. exact Hc.
  - apply bind_ok in H as [v' [_ H]]. destruct v'; try discriminate; destruct (_ || _) in H; inversion H; subst; exact Hc.
Qed.

(* ====================================================================================================== *)
(* 5. the size invariant                                                                                    *)
(* ====================================================================================================== *)
Definition B (p : codepkg) : nat := (bytes_of (cp_op p) + bytes_of (cp_post p))%nat.
Definition is_label_value (v : value) : bool := match v with VAddr _ | VExpr _ _ _ _ true => true | _ => false end.
Definition digits_of (s : stmt) : N :=
  match s_operand s with
  | OImmediate _ => imm_digits (s_instr s)
  | OPseudo _ _ => if Tables.is_multi_byte (s_instr s) then 2 else 4
  | ODirect _ => 2
  | _ => 4 end.

Definition zok (s : stmt) : Prop :=
  let p := s_pkg s in
  let o := s_operand s in
  if s_fixed s then
    if is_relative_op o then N.to_nat (cp_size p) = (B p + (if Tables.is_short_branch (s_instr s) then 1 else 2))%nat
    else if is_label_value (operand_value o) then
      N.to_nat (cp_size p) = (B p + N.to_nat (digits_of s) / 2)%nat /\ N.even (digits_of s) = true /\ addr_offset p = false /\ cp_needs p = false
    else if addr_offset p then N.to_nat (cp_size p) = (B p + 2)%nat
    else if cp_needs p then N.to_nat (cp_size p) = (B p + N.to_nat (s_hint s) / 2)%nat /\ (s_hint s = 2 \/ s_hint s = 4)
    else N.to_nat (cp_size p) = (B p + bytes_of (cp_add p))%nat
  else
    N.to_nat (cp_size p) = B p /\ cp_needs p = true /\ is_relative_op o = false /\ is_label_value (operand_value o) = false /\
    addr_offset p = false /\ bytes_of (cp_post p) = 1%nat /\ v_int (cp_post p) < 256 /\ Forall (fun c => c < 256) (cp_choices p).

(* packages *)
Lemma simple_pkg_fields opc add sz p : simple_pkg opc add sz = Ok p -> opc < 65536 ->
  B p = N.to_nat (op_len opc) /\ cp_size p = sz /\ cp_add p = add /\ cp_needs p = false /\ cp_choices p = [].
Proof.
  unfold simple_pkg. intros H Hlt. apply bind_ok in H as [ov [Ho H]]. inversion H; subst. unfold B; cbn [cp_op cp_post cp_size cp_add cp_needs cp_choices].
  rewrite (numv_bytes _ _ Ho Hlt), bytes_of_none. repeat split; lia.
Qed.

Lemma mk_idx_pkg_fields opc raw ch add size mx needs p : mk_idx_pkg opc raw ch add size mx needs = Ok p -> opc < 65536 -> raw < 256 ->
  B p = (N.to_nat (op_len opc) + 1)%nat /\ cp_size p = size /\ cp_add p = add /\ cp_needs p = needs /\ cp_choices p = ch /\
  bytes_of (cp_post p) = 1%nat /\ v_int (cp_post p) = raw.
Proof.
  unfold mk_idx_pkg. intros H Hlt Hr. apply bind_ok in H as [ov [Ho H]]. apply bind_ok in H as [pv [Hp H]]. inversion H; subst.
  unfold B; cbn [cp_op cp_post cp_size cp_add cp_needs cp_choices]. rewrite (numv_bytes _ _ Ho Hlt), (numv_byte _ _ Hp Hr), (numv_int _ _ Hp). repeat split; lia.
Qed.

Lemma reg_bits_small r : reg_bits r < 128.
Proof. unfold reg_bits. destruct (contains t_Y r), (contains t_U r), (contains t_S r); vm_compute; reflexivity. Qed.

Lemma byte_len_bytes n v : vok n v -> (forall k, v <> VAddr k) -> N.to_nat (v_byte_len v) = bytes_of v.
Proof.
  intros Hv Hna. unfold v_byte_len, bytes_of. rewrite Nat2N.id. symmetry. apply even_bytes.
  destruct v; try contradiction; cbn [v_hex_len vok] in *; try reflexivity.
  - unfold num_hex_len. destruct (n_hint n0) as [h|]; [now apply N_even_nat | apply even_up_spec].
  - exfalso. eapply Hna. reflexivity.
  - rewrite (fmt2_concat_length _ Hv). apply Nat.even_spec. exists (length s). reflexivity.
  - exact Hv.
Qed.

(* ====================================================================================================== *)
(* 6. what an FCB / FDB operand can be                                                                      *)
(* ====================================================================================================== *)
Definition data_row2_ok (i : irow) : bool :=
  implb (text_eqb (mnem i) FCB_t) (Tables.is_multi_byte i && negb (Tables.is_string_define i) && negb (Tables.is_pseudo_define i)) &&
  implb (text_eqb (mnem i) FDB_t) (Tables.is_multi_word i && negb (Tables.is_multi_byte i) && negb (Tables.is_string_define i)
                                   && negb (Tables.is_pseudo_define i)).
Lemma data_rows2 : forallb data_row2_ok Tables.instructions = true.
Proof. vm_compute. reflexivity. Qed.

Lemma split_on_nosep sep : forall t, mem_c sep t = false -> split_on sep t = [t].
Proof.
  induction t as [|c r IH]; intros H; [reflexivity|]. unfold mem_c in *. cbn [existsb] in H. apply orb_false_iff in H as [H1 H2].
  cbn [split_on]. first [rewrite H1 | (rewrite N.eqb_sym in H1; rewrite H1)]. rewrite (IH H2). reflexivity.
Qed.

(* a single data element as parsed: a number, a symbol or a two-term expression *)
Definition elem_parsed (v : value) : Prop :=
  match v with VNum _ | VSym _ _ | VExpr _ _ _ _ false => True | _ => False end.
(* ... as resolved: a number, a label, label arithmetic (or None, which translate() rejects) *)
Definition elem_resolved (v : value) : Prop :=
  match v with VNum _ | VAddr _ | VExpr _ _ _ _ true | VPyNone => True | _ => False end.

Lemma value_of_text_elem t i16 de v : mem_c 44 t = false -> value_of_text t false i16 de = Ok v -> elem_parsed v.
Proof.
  unfold value_of_text. intros Hc. destruct t as [|c0 rest]; [discriminate|]. cbv iota.
  destruct (if c0 =? 60 then _ else _) as [m t'] eqn:Em.
  assert (Hc' : mem_c 44 t' = false).
  { unfold mem_c in *. cbn [existsb] in Hc. apply orb_false_iff in Hc as [H1 Hr].
    destruct (c0 =? 60); [inversion Em; subst; exact Hr|]. destruct (c0 =? 62); [inversion Em; subst; exact Hr|].
    destruct (c0 =? 35); inversion Em; subst; [exact Hr|]. cbn [existsb]. apply orb_false_iff. split; [exact H1 | exact Hr]. }
  unfold ok_or. destruct (expr_of_text t' m) eqn:E1;
    try (intros H; inversion H; subst; unfold expr_of_text in E1; destruct (split_expr t') as [[[? ?] ?]|]; [|discriminate];
         apply bind_ok in E1 as [? [_ E1]]; apply bind_ok in E1 as [? [_ E1]]; inversion E1; subst; exact I).
  all: unfold lr_of_text; rewrite (split_on_nosep 44 t' Hc').
  all: destruct (num_of_text t' _ m) eqn:E3; cbn [bind]; try (intros H; inversion H; subst; exact I).
  all: destruct (_ && _); intros H; inversion H; subst; exact I.
Qed.

Definition dsh (i : irow) (o : operand) : Prop :=
  is_data_name i = true -> match o with OPseudo _ v => v_is_multi v = true \/ elem_parsed v | _ => True end.
Definition dshr (i : irow) (o : operand) : Prop :=
  is_data_name i = true -> match o with OPseudo _ v => v_is_multi v = true \/ elem_resolved v | _ => True end.

Lemma row2_of i : In i Tables.instructions -> data_row2_ok i = true.
Proof. intros H. pose proof data_rows2 as D. rewrite forallb_forall in D. auto. Qed.

Lemma data_name_flags i : In i Tables.instructions -> is_data_name i = true ->
  Tables.is_string_define i = false /\ Tables.is_pseudo_define i = false /\
  ((Tables.is_multi_byte i = true) \/ (Tables.is_multi_byte i = false /\ Tables.is_multi_word i = true)) /\
  text_eqb (mnem i) RMB_t = false /\ text_eqb (mnem i) ORG_t = false.
Proof.
  intros Hin Hd. pose proof (row2_of i Hin) as R. unfold data_row2_ok in R. unfold is_data_name in Hd.
  apply andb_true_iff in R as [R1 R2]. apply orb_true_iff in Hd as [Hd | Hd]; rewrite Hd in *; cbn [implb] in *.
  - repeat (apply andb_true_iff in R1 as [R1 ?]). repeat match goal with Hx : negb _ = true |- _ => apply negb_true_iff in Hx end.
    assert (E : mnem i = FCB_t) by (apply list_eqb_eq; exact Hd). rewrite E. repeat split; auto.
  - repeat (apply andb_true_iff in R2 as [R2 ?]). repeat match goal with Hx : negb _ = true |- _ => apply negb_true_iff in Hx end.
    assert (E : mnem i = FDB_t) by (apply list_eqb_eq; exact Hd). rewrite E. repeat split; auto.
Qed.

Lemma pseudo_operand_dsh s i o : In i Tables.instructions -> pseudo_operand s i = Ok o -> dsh i o.
Proof.
  intros Hin H Hd. destruct (data_name_flags i Hin Hd) as (Hsd & Hpd & Hmb & _).
  unfold pseudo_operand in H. rewrite Hpd in H. cbn [andb] in H. apply bind_ok in H as [v [Hv H]]. inversion H; subst. clear H.
  destruct Hmb as [Hmb | [Hmb Hmw]]; rewrite Hmb in Hv; cbn [andb negb] in Hv.
  - destruct (mem_c 44 s) eqn:Ec.
    + unfold multi_value in Hv. apply bind_ok in Hv as [h [_ Hv]]. destruct (multi_fits _ _); inversion Hv; subst. now left.
    + rewrite andb_false_r in Hv. cbn [andb] in Hv. right. unfold create_value in Hv. rewrite Hsd in Hv. eapply value_of_text_elem; eauto.
  - rewrite Hmw in Hv. cbn [andb negb] in Hv. destruct (mem_c 44 s) eqn:Ec.
    + unfold multi_value in Hv. apply bind_ok in Hv as [h [_ Hv]]. destruct (multi_fits _ _); inversion Hv; subst. now left.
    + right. unfold create_value in Hv. rewrite Hsd in Hv. eapply value_of_text_elem; eauto.
Qed.

Lemma create_operand_dsh s i o : In i Tables.instructions -> create_operand s i = Ok o -> dsh i o.
Proof.
  intros Hin H. pose proof (create_operand_cls _ _ _ H) as Hc. unfold create_operand in H.
  destruct (Tables.is_pseudo i) eqn:Ep; [eapply pseudo_operand_dsh; eauto|].
  intros _. destruct o; try exact I. cbn in Hc. congruence.
Qed.

Lemma resolve_value_elem v tb v' : elem_parsed v -> resolve_value v tb = Ok v' -> elem_resolved v'.
Proof.
  intros He H. destruct v; try contradiction; cbn [resolve_value] in H.
  - inversion H; subst. exact I.
  - unfold resolve_symbol in H. apply bind_ok in H as [sv [_ H]]. destruct sv; try (inversion H; subst; exact I).
    + apply bind_ok in H as [x [_ H]]. inversion H; subst. exact I.
    + destruct addr; inversion H; subst; exact I.
  - unfold resolve_expr in H. apply bind_ok in H as [l' [_ H]]. apply bind_ok in H as [r' [_ H]].
    destruct l'; try discriminate; destruct r'; try discriminate; cbn [v_is_numeric v_is_address andb orb] in H;
      try discriminate; try (inversion H; subst; exact I);
      try (apply bind_ok in H as [z [_ H]]; apply bind_ok in H as [nn [_ H]]; inversion H; subst; exact I).
Qed.

Lemma resolve_operand_dshr o i tb o' : In i Tables.instructions -> dsh i o -> resolve_operand o i tb = Ok o' -> dshr i o'.
Proof.
  intros Hin Hd H Hn. specialize (Hd Hn). destruct (data_name_flags i Hin Hn) as (_ & _ & Hmb & Hr & Ho).
  destruct o; cbn [resolve_operand] in H; try (inversion H; subst; exact I);
    try (apply bind_ok in H as [x [_ H]]; inversion H; subst; exact I).
  - rewrite Hr, Ho in H. cbn [orb] in H. rewrite orb_false_r in H.
    assert (Hdata : Tables.is_multi_byte i || Tables.is_multi_word i = true) by (destruct Hmb as [-> | [_ ->]]; [reflexivity | apply orb_true_r]).
    rewrite Hdata in H. cbn [andb] in H. apply bind_ok in H as [v' [Hv H]]. inversion H; subst.
    destruct Hd as [Hm | He].
    + destruct v; try discriminate. cbn in Hv. inversion Hv; subst. now left.
    + right. destruct (v_is_symbol v || v_is_expr v) eqn:Eb.
      * eapply resolve_value_elem; eauto.
      * inversion Hv; subst. destruct v' as [| | | |? ? ? ? [|]| | | |]; try contradiction; try exact I; cbn in Eb; discriminate Eb.
  - destruct (_ && _); apply bind_ok in H as [x [_ H]]; inversion H; subst; exact I.
  - apply bind_ok in H as [v' [_ H]]. destruct v'; try discriminate; destruct (_ || _) in H; inversion H; subst; exact I.
Qed.

(* ====================================================================================================== *)
(* 7. translate() establishes the size invariant                                                            *)
(* ====================================================================================================== *)
Lemma entry_lt opc m am : entry_is opc m am = true -> opc < 65536.
Proof. unfold entry_is. intros H. apply andb_true_iff in H as [H _]. now apply N.ltb_lt. Qed.

Lemma row_sizes i : row_ok i = true -> Tables.is_pseudo i = false ->
  (forall opc, Tables.inh i = Some opc -> opc < 65536 /\ Tables.inh_sz i = op_len opc) /\
  (forall opc, Tables.imm i = Some opc -> opc < 65536 /\
       (Tables.imm_sz i = op_len opc + 1 \/ (Tables.is_special i = false /\ Tables.imm_sz i = op_len opc + 2))) /\
  (forall opc, Tables.dir i = Some opc -> opc < 65536 /\ Tables.dir_sz i = op_len opc + 1) /\
  (forall opc, Tables.ind i = Some opc -> opc < 65536 /\ Tables.ind_sz i = op_len opc + 1) /\
  (forall opc, Tables.ext i = Some opc -> opc < 65536 /\ Tables.ext_sz i = op_len opc + 2) /\
  (forall opc, Tables.rel i = Some opc -> opc < 65536 /\ Tables.rel_sz i = op_len opc + (if Tables.is_short_branch i then 1 else 2)).
Proof.
  unfold row_ok. intros H Hp. rewrite Hp in H. cbn [orb] in H. cbv zeta in H.
  repeat (apply andb_true_iff in H as [H ?]).
  repeat match goal with |- _ /\ _ => split end; intros opc E;
    match goal with Hx : opt_ok ?o _ = true |- _ => match type of E with o = _ => rewrite E in Hx; cbn [opt_ok] in Hx; rename Hx into X end end.
  - apply andb_true_iff in X as [X1 X2]. split; [eapply entry_lt; eauto | now apply N.eqb_eq in X2].
  - destruct (Tables.is_special i).
    + apply andb_true_iff in X as [X1 X2]. split; [apply orb_true_iff in X1 as [X1 | X1]; eapply entry_lt; eauto|].
      left. now apply N.eqb_eq in X2.
    + apply orb_true_iff in X as [X | X]; apply andb_true_iff in X as [X1 X2]; apply N.eqb_eq in X2;
        (split; [eapply entry_lt; eauto|]); [left | right]; auto.
  - apply andb_true_iff in X as [X1 X2]. split; [eapply entry_lt; eauto | now apply N.eqb_eq in X2].
  - apply andb_true_iff in X as [X1 X2]. split; [eapply entry_lt; eauto | now apply N.eqb_eq in X2].
  - apply andb_true_iff in X as [X1 X2]. split; [eapply entry_lt; eauto | now apply N.eqb_eq in X2].
  - apply orb_true_iff in X as [X | X]; repeat (apply andb_true_iff in X as [X ?]).
    + split; [eapply entry_lt; eauto|]. rewrite X. match goal with Hq : (_ =? _) = true |- _ => now apply N.eqb_eq in Hq end.
    + split; [eapply entry_lt; eauto|].
      match goal with Hq : negb (Tables.is_short_branch i) = true |- _ => apply negb_true_iff in Hq; rewrite Hq end.
      match goal with Hq : (_ =? _) = true |- _ => now apply N.eqb_eq in Hq end.
Qed.

Lemma imm_digits_half i opc : Tables.imm i = Some opc -> op_len opc <= Tables.imm_sz i ->
  (N.to_nat (imm_digits i) / 2 = N.to_nat (Tables.imm_sz i) - N.to_nat (op_len opc))%nat.
Proof.
  intros E Hle. unfold imm_digits, op_len in *. rewrite E.
  destruct (N.ltb_spec opc 256), (N.ltb_spec 255 opc); try lia;
    (replace (N.to_nat (2 * _)) with ((N.to_nat (Tables.imm_sz i) - _) * 2)%nat by lia; rewrite Nat.div_mul by lia; lia).
Qed.

Definition mkst (i : irow) (o : operand) (h : N) (p : codepkg) : stmt :=
  {| s_label := []; s_instr := i; s_operand := o; s_opstr := []; s_pkg := p;
     s_fixed := negb ((cp_needs p && negb (addr_offset p)) || negb (Nat.eqb (length (cp_choices p)) 0)); s_hint := h |}.
Definition zres (i : irow) (o : operand) (h : N) (p : codepkg) : Prop := zok (mkst i o h p).

Lemma zres_plain i o h p : cp_needs p = false -> cp_choices p = [] -> is_relative_op o = false ->
  is_label_value (operand_value o) = false -> N.to_nat (cp_size p) = (B p + bytes_of (cp_add p))%nat -> zres i o h p.
Proof.
  intros Hn Hc Hr Hl Hs. unfold zres, zok, mkst, addr_offset. cbn [s_pkg s_operand s_fixed s_instr s_hint].
  rewrite Hn, Hc. cbn [andb orb negb length Nat.eqb]. rewrite Hr, Hl. exact Hs.
Qed.

Definition digits_for (i : irow) (o : operand) : N :=
  match o with OImmediate _ => imm_digits i | OPseudo _ _ => if Tables.is_multi_byte i then 2 else 4 | ODirect _ => 2 | _ => 4 end.

Lemma zres_label i o h p : cp_needs p = false -> cp_choices p = [] -> is_relative_op o = false ->
  is_label_value (operand_value o) = true ->
  N.to_nat (cp_size p) = (B p + N.to_nat (digits_for i o) / 2)%nat -> N.even (digits_for i o) = true -> zres i o h p.
Proof.
  intros Hn Hc Hr Hl Hs He. unfold zres, zok, mkst, addr_offset. cbn [s_pkg s_operand s_fixed s_instr s_hint].
  rewrite Hn, Hc. cbn [andb negb orb length Nat.eqb]. rewrite Hr, Hl.
  change (digits_of _) with (digits_for i o). repeat split; auto.
Qed.

Lemma zres_rel i o h p : cp_needs p = false -> cp_choices p = [] -> is_relative_op o = true ->
  N.to_nat (cp_size p) = (B p + (if Tables.is_short_branch i then 1 else 2))%nat -> zres i o h p.
Proof.
  intros Hn Hc Hr Hs. unfold zres, zok, mkst, addr_offset. cbn [s_pkg s_operand s_fixed s_instr s_hint].
  rewrite Hn, Hc. cbn [andb orb negb length Nat.eqb]. rewrite Hr. exact Hs.
Qed.


(* ====================================================================================================== *)
(* 8. what the value of an instruction operand can be                                                       *)
(* ====================================================================================================== *)
Definition strdef_row2_ok (i : irow) : bool := implb (Tables.is_string_define i) (Tables.is_pseudo i).
Lemma strdef_rows2 : forallb strdef_row2_ok Tables.instructions = true.
Proof. vm_compute. reflexivity. Qed.

Lemma value_of_text_class t i16 de v : value_of_text t false i16 de = Ok v -> elem_parsed v \/ v_is_lr v = true.
Proof.
  unfold value_of_text. destruct t as [|c0 rest]; [discriminate|]. cbv iota.
  destruct (if c0 =? 60 then _ else _) as [m t'].
  unfold ok_or. destruct (expr_of_text t' m) eqn:E1;
    try (intros H; inversion H; subst; unfold expr_of_text in E1; destruct (split_expr t') as [[[? ?] ?]|]; [|discriminate];
         apply bind_ok in E1 as [? [_ E1]]; apply bind_ok in E1 as [? [_ E1]]; inversion E1; subst; left; exact I).
  all: destruct (lr_of_text t' m) eqn:E2;
    try (intros H; inversion H; subst; unfold lr_of_text in E2; destruct (split_on 44 t') as [|? [|? [|? ?]]]; inversion E2; subst; right; reflexivity).
  all: destruct (num_of_text t' _ m) eqn:E3; cbn [bind]; try (intros H; inversion H; subst; left; exact I).
  all: destruct (_ && _); intros H; inversion H; subst; left; exact I.
Qed.

Definition pshape (o : operand) : Prop :=
  match o with
  | OImmediate v | OUnknown v => elem_parsed v
  | OExtIdx _ v _ _ => elem_parsed v \/ v_is_lr v = true
  | ODirect _ | OExtended _ => False        (* made by resolve_symbols only *)
  | _ => True
  end.
Definition rshape (o : operand) : Prop :=
  match o with
  | OImmediate v | ODirect v | OExtended v => elem_resolved v
  | OExtIdx _ v _ _ => elem_resolved v \/ v_is_lr v = true
  | _ => True
  end.

Lemma next_if_ote_ok2 {A} (r k : res A) a : next_if_ote r k = Ok a -> r = Ok a \/ (r = Diag 21 /\ k = Ok a).
Proof.
  unfold next_if_ote. intros H. destruct r as [x|c|c| |]; try discriminate; auto.
  destruct c as [|p]; [discriminate|].
  do 5 (try (destruct p as [p|p|]; try discriminate; try (right; split; [reflexivity | exact H]))).
Qed.

Lemma create_operand_pshape s i o : In i Tables.instructions -> create_operand s i = Ok o -> pshape o.
Proof.
  intros Hin. unfold create_operand. destruct (Tables.is_pseudo i) eqn:Ep.
  { intros H. pose proof (create_operand_cls s i o) as Hc. unfold create_operand in Hc. rewrite Ep in Hc. specialize (Hc H).
    destruct o; try exact I; cbn in Hc; congruence. }
  assert (Hsd : Tables.is_string_define i = false).
  { pose proof strdef_rows2 as R. rewrite forallb_forall in R. specialize (R i Hin). unfold strdef_row2_ok in R.
    destruct (Tables.is_string_define i); [rewrite Ep in R; discriminate | reflexivity]. }
  destruct (Tables.is_special i); [intros H; inversion H; subst; exact I|].
  destruct (_ && _). { intros H. apply bind_ok in H as [v [_ H]]. inversion H; subst. exact I. }
  destruct s as [|c s']; [intros H; inversion H; subst; exact I|].
  unfold create_value. rewrite Hsd.
  intros H. apply next_if_ote_ok in H as [H | H].
  - destruct (_ && _) in H; [|discriminate]. apply vte_to_ote_ok in H. apply bind_ok in H as [v [Hv H]].
    destruct (value_of_text_class _ _ _ _ Hv) as [Hc | Hc]; destruct v; inversion H; subst; cbn; auto; try discriminate; try contradiction.
  - apply next_if_ote_ok2 in H as [H | [Hidx H]].
    + apply vte_to_ote_ok in H. apply bind_ok in H as [v [_ H]]. destruct v; try discriminate. inversion H; subst. exact I.
    + (* the indexed alternative failed: the value is no left,right pair *)
      assert (Hnolr : forall v, value_of_text (c :: s') false (Tables.is_16_bit i) true = Ok v -> elem_parsed v).
      { intros v Hv. destruct (value_of_text_class _ _ _ _ Hv) as [Hc | Hc]; [exact Hc|].
        rewrite Hv in Hidx. cbn [bind] in Hidx. destruct v; try discriminate. }
      apply next_if_ote_ok in H as [H | H]; apply vte_to_ote_ok in H; apply bind_ok in H as [v [Hv H]].
      * destruct (mode_eqb _ _); inversion H; subst. cbn. now apply Hnolr.
      * inversion H; subst. cbn. now apply Hnolr.
Qed.

Lemma resolve_operand_rshape o i tb o' : pshape o -> resolve_operand o i tb = Ok o' -> rshape o'.
Proof.
  intros Hp H. destruct o; cbn [resolve_operand pshape] in *; try contradiction; try (inversion H; subst; exact I).
  - apply bind_ok in H as [v' [_ H]]. destruct (_ || _) in H; [destruct v'; try discriminate; destruct (_ || _) in H; inversion H; subst; exact I | inversion H; subst; exact I].
  - apply bind_ok in H as [v' [_ H]]. inversion H; subst. exact I.
  - destruct (negb (v_is_none v) && negb (v_is_lr v)) eqn:Eb.
    + apply bind_ok in H as [v' [Hv H]]. inversion H; subst. cbn. left.
      destruct Hp as [Hp | Hp]; [eapply resolve_value_elem; eauto|]. apply andb_true_iff in Eb as [_ Eb]. rewrite Hp in Eb. discriminate.
    + apply bind_ok in H as [l' [_ H]]. inversion H; subst. cbn. destruct Hp as [Hp | Hp]; [|now right].
      destruct v; try contradiction; cbn in Eb; discriminate.
  - apply bind_ok in H as [l' [_ H]]. inversion H; subst. exact I.
  - apply bind_ok in H as [v' [Hv H]]. inversion H; subst. cbn. eapply resolve_value_elem; eauto.
  - apply bind_ok in H as [v' [Hv H]]. pose proof (resolve_value_elem _ _ _ Hp Hv) as He.
    destruct v'; try discriminate; destruct (_ || _) in H; inversion H; subst; exact He.
Qed.

(* the operand of the other pseudo operations: RMB / ORG carry a number after resolve_symbols, the rest keep
   what the parser built, which is never a label *)
Definition nolabel (v : value) : Prop := is_label_value v = false.

Lemma value_of_text_nolabel t sd i16 de v : value_of_text t sd i16 de = Ok v -> nolabel v.
Proof.
  intros H. pose proof (value_of_text_pure _ _ _ _ _ H) as Hp. unfold nolabel. destruct v; try reflexivity; try contradiction.
  destruct addr; [|reflexivity]. exfalso.
  unfold value_of_text in H. destruct t as [|c0 rest]; [discriminate|].
  destruct (if sd then _ else None) as [sv|] eqn:Es.
  - inversion H; subst. destruct sd; [|discriminate]. destruct (rev rest); [discriminate|]. destruct (_ && _); discriminate.
  - destruct (if c0 =? 60 then _ else _) as [m0 t']. unfold ok_or in H.
    destruct (expr_of_text t' m0) eqn:E1.
    { inversion H; subst. unfold expr_of_text in E1. destruct (split_expr t') as [[[? ?] ?]|]; [|discriminate].
      apply bind_ok in E1 as [? [_ E1]]. apply bind_ok in E1 as [? [_ E1]]. discriminate. }
    all: destruct (lr_of_text t' m0) eqn:E2;
      try (inversion H; subst; unfold lr_of_text in E2; destruct (split_on 44 t') as [|? [|? [|? ?]]]; discriminate).
    all: destruct (num_of_text t' _ m0); cbn [bind] in H; try discriminate.
    all: destruct (_ && _); discriminate.
Qed.

Definition psh (i : irow) (o : operand) : Prop :=
  match o with
  | OPseudo _ v =>
      if text_eqb (mnem i) RMB_t || text_eqb (mnem i) ORG_t then v_is_numeric v = true
      else if is_data_name i then True else nolabel v
  | _ => True
  end.

Lemma pseudo_operand_nolabel s i t v : pseudo_operand s i = Ok (OPseudo t v) -> nolabel v.
Proof.
  unfold pseudo_operand. intros H. apply bind_ok in H as [v0 [Hv H]].
  assert (Hn : nolabel v0).
  { destruct (_ && _) in Hv; [unfold multi_value in Hv; apply bind_ok in Hv as [? [_ Hv]]; destruct (multi_fits _ _); inversion Hv; subst; reflexivity|].
    destruct (_ && _) in Hv; [unfold multi_value in Hv; apply bind_ok in Hv as [? [_ Hv]]; destruct (multi_fits _ _); inversion Hv; subst; reflexivity|].
    destruct (_ && _) in Hv; [inversion Hv; subst; reflexivity|]. eapply value_of_text_nolabel; exact Hv. }
  destruct (_ && _) in H; [|inversion H; subst; exact Hn].
  destruct (_ && _) in H; [apply bind_ok in H as [x [_ H]]; inversion H; subst; reflexivity|].
  destruct (Nat.eqb _ 2); [apply bind_ok in H as [x [_ H]]; inversion H; subst; reflexivity | inversion H; subst; exact Hn].
Qed.

Definition pnl (o : operand) : Prop := match o with OPseudo _ v => nolabel v | _ => True end.

Lemma create_operand_pnl s i o : create_operand s i = Ok o -> pnl o.
Proof.
  intros H. destruct o; try exact I. cbn. pose proof (create_operand_cls _ _ _ H) as Hc. cbn in Hc.
  unfold create_operand in H. rewrite Hc in H. eapply pseudo_operand_nolabel; eauto.
Qed.

Lemma resolve_operand_psh o i tb o' : In i Tables.instructions -> pnl o -> resolve_operand o i tb = Ok o' -> psh i o'.
Proof.
  intros Hin Hp H. destruct o; cbn [resolve_operand] in H; try (inversion H; subst; exact I);
    try (apply bind_ok in H as [x [_ H]]; inversion H; subst; exact I).
  - apply bind_ok in H as [v' [Hv H]].
    destruct (text_eqb (mnem i) RMB_t || text_eqb (mnem i) ORG_t) eqn:El.
    + destruct v'; try discriminate; cbn [v_is_numeric negb orb] in H; try discriminate.
      destruct (v_negative _); [discriminate|]. inversion H; subst. cbn [psh]. rewrite El. reflexivity.
    + inversion H; subst. cbn [psh]. rewrite El. destruct (is_data_name i) eqn:Ed; [exact I|].
      (* neither a data directive nor RMB/ORG: the table's data flags are off, the operand is untouched *)
      pose proof data_rows as R. rewrite forallb_forall in R. specialize (R i Hin). unfold data_row_ok in R. rewrite Ed in R.
      destruct (Tables.is_multi_byte i || Tables.is_multi_word i); [discriminate|]. cbn [orb andb] in Hv. inversion Hv; subst. exact Hp.
  - destruct (_ && _); apply bind_ok in H as [x [_ H]]; inversion H; subst; exact I.
  - apply bind_ok in H as [v' [_ H]]. destruct v'; try discriminate; destruct (_ || _) in H; inversion H; subst; exact I.
Qed.

(* ====================================================================================================== *)
(* 9. every operand class                                                                                   *)
(* ====================================================================================================== *)
Lemma B_data a sz : B (data_pkg a sz) = 0%nat. Proof. reflexivity. Qed.

Lemma half2 : ((2 + 1) / 2 = 1)%nat. Proof. reflexivity. Qed.
Lemma half4 : ((4 + 1) / 2 = 2)%nat. Proof. reflexivity. Qed.

Lemma translate_pseudo_zres n i t v h p : In i Tables.instructions ->
  (if is_data_name i then vokw n v else vok n v) -> dshr i (OPseudo t v) -> psh i (OPseudo t v) ->
  translate_pseudo v i = Ok p -> zres i (OPseudo t v) h p.
Proof.
  intros Hin Hv Hd Hp H. unfold translate_pseudo in H. unfold dshr, psh, is_data_name in *.
  destruct (row_of i Hin) as [_ Hflag]. unfold data_flag_ok in Hflag. apply andb_true_iff in Hflag as [Hf1 Hf2].
  destruct (text_eqb (mnem i) FCB_t) eqn:E1; cbn [orb implb] in *.
  { assert (Em : mnem i = FCB_t) by (apply list_eqb_eq; exact E1).
    destruct (v_is_multi v) eqn:Em2.
    - inversion H; subst. apply zres_plain; try reflexivity; [destruct v; try discriminate; reflexivity|].
      cbn [data_pkg cp_size cp_add]. rewrite B_data. apply (byte_len_bytes n); [apply vokw_vok; [exact Hv | intros ->; discriminate] | intros k ->; discriminate].
    - destruct (Hd eq_refl) as [X | He]; [congruence|].
      destruct v; try contradiction; try discriminate.
      + apply bind_ok in H as [a [Ha H]]. inversion H; subst. apply zres_plain; try reflexivity.
        cbn [data_pkg cp_size cp_add]. rewrite B_data. cbn [v_is_numeric] in Ha. rewrite (fit_value_bytes _ _ _ _ Ha). reflexivity.
      + apply bind_ok in H as [a [Ha H]]. inversion H; subst. inversion Ha; subst. apply zres_label; try reflexivity.
        * cbn [data_pkg cp_size]. rewrite B_data. unfold digits_for. rewrite Hf1. reflexivity.
        * unfold digits_for. rewrite Hf1. reflexivity.
      + destruct addr; [|contradiction]. apply bind_ok in H as [a [Ha H]]. inversion H; subst. inversion Ha; subst. apply zres_label; try reflexivity.
        * cbn [data_pkg cp_size]. rewrite B_data. unfold digits_for. rewrite Hf1. reflexivity.
        * unfold digits_for. rewrite Hf1. reflexivity. }
  destruct (text_eqb (mnem i) FDB_t) eqn:E2; cbn [orb implb] in *.
  { apply negb_true_iff in Hf2.
    destruct (v_is_multi v) eqn:Em2.
    - inversion H; subst. apply zres_plain; try reflexivity; [destruct v; try discriminate; reflexivity|].
      cbn [data_pkg cp_size cp_add]. rewrite B_data. apply (byte_len_bytes n); [apply vokw_vok; [exact Hv | intros ->; discriminate] | intros k ->; discriminate].
    - destruct (Hd eq_refl) as [X | He]; [congruence|].
      destruct v; try contradiction; try discriminate.
      + apply bind_ok in H as [a [Ha H]]. inversion H; subst. apply zres_plain; try reflexivity.
        cbn [data_pkg cp_size cp_add]. rewrite B_data. cbn [v_is_numeric] in Ha. rewrite (fit_value_bytes _ _ _ _ Ha). reflexivity.
      + apply bind_ok in H as [a [Ha H]]. inversion H; subst. inversion Ha; subst. apply zres_label; try reflexivity.
        * cbn [data_pkg cp_size]. rewrite B_data. unfold digits_for. rewrite Hf2. reflexivity.
        * unfold digits_for. rewrite Hf2. reflexivity.
      + destruct addr; [|contradiction]. apply bind_ok in H as [a [Ha H]]. inversion H; subst. inversion Ha; subst. apply zres_label; try reflexivity.
        * cbn [data_pkg cp_size]. rewrite B_data. unfold digits_for. rewrite Hf2. reflexivity.
        * unfold digits_for. rewrite Hf2. reflexivity. }
  destruct (text_eqb (mnem i) RMB_t) eqn:E3; cbn [orb] in *.
  { apply bind_ok in H as [a [Ha H]]. inversion H; subst. apply zres_plain; try reflexivity.
    - cbn [operand_value]. destruct v; try discriminate; reflexivity.
    - cbn [data_pkg cp_size cp_add]. rewrite B_data. rewrite (numv_h_bytes _ _ _ Ha).
      replace (N.to_nat (v_int v * 2)) with (N.to_nat (v_int v) * 2)%nat by lia.
      replace (N.to_nat (v_int v) * 2 + 1)%nat with (1 + N.to_nat (v_int v) * 2)%nat by lia. rewrite Nat.div_add by lia. reflexivity. }
  destruct (text_eqb (mnem i) ORG_t) eqn:E4; cbn [orb] in *.
  { inversion H; subst. apply zres_plain; try reflexivity. cbn [operand_value]. destruct v; try discriminate; reflexivity. }
  destruct (text_eqb (mnem i) FCC_t).
  { inversion H; subst. apply zres_plain; try reflexivity; [exact Hp|].
    cbn [data_pkg cp_size cp_add]. rewrite B_data. apply (byte_len_bytes n); [exact Hv|]. intros k ->. discriminate Hp. }
  inversion H; subst. apply zres_plain; try reflexivity. exact Hp.
Qed.

Lemma pshpul_mask_small m : forall rs acc b, acc < 256 -> pshpul_mask m rs acc = Ok b -> b < 256.
Proof.
  pose proof special_tables_are_small as Hs. unfold special_tables_small in Hs. apply andb_true_iff in Hs as [Hs _].
  induction rs as [|r rs IH]; intros acc b Ha H; cbn [pshpul_mask] in H; [inversion H; subst; exact Ha|].
  destruct (lookup_pshpul m r Tables.pshpul_table) as [x|] eqn:E; [|discriminate].
  eapply IH; [|exact H]. apply lor_lt_256; [exact Ha | eapply lookup_pshpul_small; eauto].
Qed.

Lemma translate_special_zres i t h p : In i Tables.instructions -> Tables.is_pseudo i = false -> Tables.is_special i = true ->
  translate_special t i = Ok p -> zres i (OSpecial t) h p.
Proof.
  intros Hin Hp Hs H. destruct (row_of i Hin) as [Hrow _]. destruct (row_sizes i Hrow Hp) as (_ & Rimm & _).
  unfold translate_special in H. apply bind_ok in H as [pb [Hpb H]].
  assert (Hb : pb < 256).
  { pose proof special_tables_are_small as Hsm. unfold special_tables_small in Hsm. apply andb_true_iff in Hsm as [_ Hsm].
    destruct (is_pshpul (mnem i)).
    - destruct (Nat.eqb _ 0); [discriminate|]. eapply pshpul_mask_small; [|exact Hpb]. lia.
    - destruct (is_tfrexg (mnem i)); [|inversion Hpb; lia].
      destruct (split_on 44 t) as [|r1 [|r2 [|? ?]]]; try discriminate.
      destruct (lookup_tfrexg _ r1 r2 _) as [x|] eqn:E; [|discriminate]. inversion Hpb; subst. eapply lookup_tfrexg_small; eauto. }
  destruct (Tables.imm i) as [opc|] eqn:Ei; [|discriminate]. destruct (Rimm opc eq_refl) as [Hlt Hsz].
  apply bind_ok in H as [ov [Ho H]]. apply bind_ok in H as [pv [Hv H]]. inversion H; subst. clear H.
  apply zres_plain; try reflexivity. unfold B. cbn [cp_op cp_post cp_add cp_size].
  rewrite (numv_bytes _ _ Ho Hlt), (numv_byte _ _ Hv Hb), bytes_of_none.
  destruct Hsz as [-> | [X _]]; [lia | congruence].
Qed.

(* the operand of an instruction that is neither indexed nor special *)
Lemma simple_zres_plain i o h opc a sz p : opc < 65536 -> simple_pkg opc a sz = Ok p -> is_relative_op o = false ->
  is_label_value (operand_value o) = false -> N.to_nat sz = (N.to_nat (op_len opc) + bytes_of a)%nat -> zres i o h p.
Proof.
  intros Hlt Hp Hr Hl Hs. destruct (simple_pkg_fields _ _ _ _ Hp Hlt) as (HB & Hsz & Ha & Hn & Hc).
  apply zres_plain; auto. rewrite HB, Hsz, Ha. exact Hs.
Qed.

Lemma simple_zres_label i o h opc a sz p : opc < 65536 -> simple_pkg opc a sz = Ok p -> is_relative_op o = false ->
  is_label_value (operand_value o) = true -> N.even (digits_for i o) = true ->
  N.to_nat sz = (N.to_nat (op_len opc) + N.to_nat (digits_for i o) / 2)%nat -> zres i o h p.
Proof.
  intros Hlt Hp Hr Hl He Hs. destruct (simple_pkg_fields _ _ _ _ Hp Hlt) as (HB & Hsz & Ha & Hn & Hc).
  apply zres_label; auto. rewrite HB, Hsz. exact Hs.
Qed.

Lemma even_half_bytes d : N.even d = true -> ((N.to_nat d + 1) / 2 = N.to_nat d / 2)%nat.
Proof. intros H. apply even_bytes. now apply N_even_nat. Qed.

Lemma zres_open i o h p c1 c2 : cp_needs p = true -> cp_choices p = [c1; c2] -> c1 < 256 -> c2 < 256 ->
  is_relative_op o = false -> is_label_value (operand_value o) = false ->
  N.to_nat (cp_size p) = B p -> bytes_of (cp_post p) = 1%nat -> v_int (cp_post p) < 256 -> zres i o h p.
Proof.
  intros Hn Hc H1 H2 Hr Hl Hs Hb Hv. unfold zres, zok, mkst, addr_offset. cbn [s_pkg s_operand s_fixed s_instr s_hint].
  rewrite Hn, Hc. cbn [andb negb orb length Nat.eqb]. repeat split; auto.
Qed.

Lemma zres_ao i o h p : cp_needs p = true -> cp_choices p = [] ->
  is_relative_op o = false -> is_label_value (operand_value o) = false ->
  N.to_nat (cp_size p) = (B p + 2)%nat -> zres i o h p.
Proof.
  intros Hn Hc Hr Hl Hs. unfold zres, zok, mkst, addr_offset. cbn [s_pkg s_operand s_fixed s_instr s_hint].
  rewrite Hn, Hc. cbn [andb negb orb length Nat.eqb]. rewrite Hr, Hl. exact Hs.
Qed.

Ltac small :=
  repeat first
    [ apply lor_lt_256
    | match goal with |- (if ?b then _ else _) < _ => destruct b end
    | match goal with |- reg_bits ?r < _ => pose proof (reg_bits_small r); lia end
    | lia ].

Ltac leb_facts :=
  repeat match goal with
  | H : (_ <=? _) = true |- _ => apply N.leb_le in H
  | H : (_ <=? _) = false |- _ => apply N.leb_gt in H
  end.

Lemma translate_indexed_zres n i o ind l r h p : In i Tables.instructions -> Tables.is_pseudo i = false ->
  is_relative_op o = false -> is_label_value (operand_value o) = false -> sok n l -> smok l ->
  translate_indexed ind l r i = Ok p -> zres i o h p.
Proof.
  intros Hin Hps Hrel Hlab Hl Hm H. destruct (row_of i Hin) as [Hrow _]. destruct (row_sizes i Hrow Hps) as (_ & _ & _ & Rind & _).
  unfold translate_indexed, opt_op in H. destruct (Tables.ind i) as [opc|] eqn:Ei; [|discriminate].
  destruct (Rind opc eq_refl) as [Hlt Hsz].
  destruct (negb (valid_index_reg r)); [discriminate|].
  destruct (_ && text_eqb r t_PCR); [discriminate|]. destruct (_ && negb _); [discriminate|].
  assert (Hplain : forall raw add size mx, raw < 256 -> mk_idx_pkg opc raw [] add size mx false = Ok p ->
            N.to_nat size = (N.to_nat (Tables.ind_sz i) + bytes_of add)%nat -> zres i o h p).
  { intros raw add size mx Hr Hp Hs. destruct (mk_idx_pkg_fields _ _ _ _ _ _ _ _ Hp Hlt Hr) as (HB & Hz & Ha & Hn & Hc & _).
    apply zres_plain; auto. rewrite HB, Hz, Ha, Hs, Hsz. lia. }
  destruct (left_is_empty_or_zero l r) eqn:Elz.
  { pk_walk H; (eapply Hplain; [|exact H|rewrite bytes_of_none; lia]); small. }
  destruct (left_abd l).
  { eapply Hplain; [|exact H|rewrite bytes_of_none; lia]. small. }
  destruct (mem_c 43 r || mem_c 45 r); [discriminate|].
  destruct l as [t|lv0]; [discriminate|]. cbn [sok smok] in Hl, Hm.
  destruct lv0 eqn:Elv0; try contradiction; rewrite <- Elv0 in *.
  all: apply bind_ok in H as [lv [Hlv H]].
  all: destruct (contains t_PCR r) eqn:Epcr.
  all: try (destruct (v_is_address lv0 || v_is_expr lv0 || v_is_addr_expr lv0) eqn:Eneeds).
  (* label,PCR: undecided *)
  all: try (match type of H with mk_idx_pkg _ _ [_; _] _ _ _ true = Ok _ =>
        let F := fresh in pose proof (mk_idx_pkg_fields _ _ _ _ _ _ _ _ H Hlt ltac:(small)) as F;
        destruct F as (HB & Hz & Ha & Hn & Hc & Hb1 & Hv1);
        eapply zres_open; [exact Hn | exact Hc | small | small | exact Hrel | exact Hlab | rewrite HB, Hz, Hsz; lia | exact Hb1 | rewrite Hv1; small] end).
  (* label as a constant offset: 16 bits *)
  all: try (match type of H with mk_idx_pkg _ _ [] _ _ _ true = Ok _ =>
        let F := fresh in pose proof (mk_idx_pkg_fields _ _ _ _ _ _ _ _ H Hlt ltac:(small)) as F;
        destruct F as (HB & Hz & Ha & Hn & Hc & _);
        eapply zres_ao; [exact Hn | exact Hc | exact Hrel | exact Hlab | rewrite HB, Hz, Hsz; lia] end).
  (* numeric n,PCR *)
  all: try (match type of H with bind (fit_value _ _ _) _ = Ok _ =>
        apply bind_ok in H as [a [Ha H]];
        eapply Hplain; [|exact H|rewrite (fit_value_bytes _ _ _ _ Ha)]; [small|];
        match goal with |- context [if ?w then 4 else 2] => destruct w end;
        [change ((N.to_nat 4 + 1) / 2)%nat with 2%nat | change ((N.to_nat 2 + 1) / 2)%nat with 1%nat]; lia end).
  (* a constant offset *)
  all: assert (Elv : lv = lv0) by (destruct (v_is_address lv0) eqn:Ea; [cbn [orb] in Eneeds; discriminate Eneeds | now inversion Hlv]).
  all: subst lv; rewrite Elv0 in *.
  all: try (cbn in Eneeds; discriminate Eneeds).
  all: try (destruct ind; [|discriminate];
            eapply Hplain; [|exact H|]; [small|]; rewrite <- (byte_len_bytes n _ Hl) by (intros k E; discriminate E); lia).
  (* a number *)
  assert (Hnz : n_int n0 <> 0).
  { unfold left_is_empty_or_zero in Elz. cbn [v_is_numeric v_int andb negb] in Elz.
    change (contains [80; 67; 82] r) with (contains t_PCR r) in Elz. rewrite Epcr in Elz. cbn [negb] in Elz.
    rewrite andb_true_r in Elz. now apply N.eqb_neq in Elz. }
  cbn [mok] in Hm. unfold is_4_bit, is_8_bit in H.
  destruct (n_neg n0) eqn:Eneg.
  - specialize (Hm eq_refl). pk_walk H; leb_facts;
      try (eapply Hplain; [|exact H|rewrite bytes_of_none; lia]; small).
    + (* 8 bits *) eapply Hplain; [|exact H|]; [small|]. rewrite (numv_byte _ _ Hx) by lia. lia.
    + (* 16 bits *) eapply Hplain; [|exact H|]; [small|]. rewrite (numv_bytes _ _ Hx) by lia.
      unfold op_len. destruct (N.ltb_spec (65536 - n_int n0) 256); [lia|]. lia.
  - pk_walk H; leb_facts;
      try (eapply Hplain; [|exact H|rewrite bytes_of_none; lia]; small);
      try (eapply Hplain; [|exact H|]; [small|]; rewrite (numv_h_bytes _ _ _ Hx);
           first [change ((N.to_nat 2 + 1) / 2)%nat with 1%nat | change ((N.to_nat 4 + 1) / 2)%nat with 2%nat]; lia);
      try lia.
Qed.

Theorem translate_operand_zres n i o h p : In i Tables.instructions -> cls i o -> rok n i o -> lmok o ->
  dshr i o -> psh i o -> rshape o -> translate_operand o i = Ok p -> zres i o h p.
Proof.
  intros Hin Hc Ho Hm Hd Hp Hr H. destruct (row_of i Hin) as [Hrow _].
  destruct o; cbn [translate_operand rok cls lmok rshape] in *; try contradiction.
  - eapply translate_pseudo_zres; eauto.
  - destruct Hc as [Hc1 Hc2]. eapply translate_special_zres; eauto.
  - (* a branch *)
    destruct (row_sizes i Hrow Hc) as (_ & _ & _ & _ & _ & Rrel).
    destruct v; try discriminate; destruct (Tables.rel i) as [opc|] eqn:E; try discriminate. cbn [v_is_address] in H.
    destruct (Rrel opc eq_refl) as [Hlt Hsz]. destruct (simple_pkg_fields _ _ _ _ H Hlt) as (HB & Hz & _ & Hn & Hcc).
    apply zres_rel; auto. rewrite HB, Hz, Hsz. destruct (Tables.is_short_branch i); lia.
  - (* inherent *)
    destruct (row_sizes i Hrow Hc) as (Rinh & _). unfold opt_op in H. destruct (Tables.inh i) as [opc|] eqn:E; [|discriminate].
    destruct (Rinh opc eq_refl) as [Hlt Hsz]. eapply simple_zres_plain; eauto. rewrite Hsz, bytes_of_none. lia.
  - (* [ ... ] *)
    destruct (row_sizes i Hrow Hc) as (_ & _ & _ & Rind & _). unfold opt_op in H. destruct (Tables.ind i) as [opc|] eqn:E; [|discriminate].
    destruct (Rind opc eq_refl) as [Hlt Hsz]. destruct Ho as [Hv Hl].
    assert (Hidx : forall rt, translate_indexed true l rt i = Ok p -> is_label_value v = false -> zres i (OExtIdx s v l r) h p).
    { intros rt Hi Hlv. eapply translate_indexed_zres; eauto. }
    destruct v eqn:Ev; try discriminate;
      try (destruct r as [rt|]; [apply (Hidx rt H); reflexivity | discriminate]).
    + apply bind_ok in H as [a [Ha H]]. destruct (mk_idx_pkg_fields _ _ _ _ _ _ _ _ H Hlt ltac:(lia)) as (HB & Hz & Hadd & Hn & Hcc & _).
      apply zres_plain; auto. rewrite HB, Hz, Hadd, Hsz, (fit_value_bytes _ _ _ _ Ha). change ((N.to_nat 4 + 1) / 2)%nat with 2%nat. lia.
    + destruct (mk_idx_pkg_fields _ _ _ _ _ _ _ _ H Hlt ltac:(lia)) as (HB & Hz & Hadd & Hn & Hcc & _).
      apply zres_label; auto. rewrite HB, Hz, Hsz. cbn [digits_for]. change (N.to_nat 4 / 2)%nat with 2%nat. lia.
    + destruct addr.
      * destruct (mk_idx_pkg_fields _ _ _ _ _ _ _ _ H Hlt ltac:(lia)) as (HB & Hz & Hadd & Hn & Hcc & _).
        apply zres_label; auto. rewrite HB, Hz, Hsz. cbn [digits_for]. change (N.to_nat 4 / 2)%nat with 2%nat. lia.
      * destruct r as [rt|]; [apply (Hidx rt H); reflexivity | discriminate].
  - eapply translate_indexed_zres; eauto.
  - (* immediate *)
    destruct (row_sizes i Hrow Hc) as (_ & Rimm & _). destruct v; try contradiction; try discriminate;
      unfold opt_op in H; destruct (Tables.imm i) as [opc|] eqn:E; try discriminate;
      destruct (Rimm opc eq_refl) as [Hlt Hsz]; apply bind_ok in H as [a [Ha H]];
      assert (Hle : op_len opc <= Tables.imm_sz i) by (destruct Hsz as [-> | [_ ->]]; lia);
      pose proof (imm_digits_half i opc E Hle) as Hhalf; pose proof (imm_digits_even i) as Hev.
    + cbn [v_is_numeric] in Ha. eapply simple_zres_plain; eauto.
      rewrite (fit_value_bytes _ _ _ _ Ha), (even_half_bytes _ Hev), Hhalf. lia.
    + inversion Ha; subst. eapply simple_zres_label; eauto. cbn [digits_for]. rewrite Hhalf. lia.
    + destruct addr; [|contradiction]. inversion Ha; subst. eapply simple_zres_label; eauto. cbn [digits_for]. rewrite Hhalf. lia.
  - (* direct *)
    destruct (row_sizes i Hrow Hc) as (_ & _ & Rdir & _). destruct v; try contradiction; try discriminate;
      unfold opt_op in H; destruct (Tables.dir i) as [opc|] eqn:E; try discriminate;
      destruct (Rdir opc eq_refl) as [Hlt Hsz]; apply bind_ok in H as [a [Ha H]].
    + cbn [v_is_numeric] in Ha. eapply simple_zres_plain; eauto. rewrite (fit_value_bytes _ _ _ _ Ha), Hsz. change ((N.to_nat 2 + 1) / 2)%nat with 1%nat. lia.
    + inversion Ha; subst. eapply simple_zres_label; eauto. cbn [digits_for]. rewrite Hsz. change (N.to_nat 2 / 2)%nat with 1%nat. lia.
    + destruct addr; [|contradiction]. inversion Ha; subst. eapply simple_zres_label; eauto. cbn [digits_for]. rewrite Hsz. change (N.to_nat 2 / 2)%nat with 1%nat. lia.
  - (* extended *)
    destruct (row_sizes i Hrow Hc) as (_ & _ & _ & _ & Rext & _). destruct v; try contradiction; try discriminate;
      unfold opt_op in H; destruct (Tables.ext i) as [opc|] eqn:E; try discriminate;
      destruct (Rext opc eq_refl) as [Hlt Hsz]; apply bind_ok in H as [a [Ha H]].
    + cbn [v_is_numeric] in Ha. eapply simple_zres_plain; eauto. rewrite (fit_value_bytes _ _ _ _ Ha), Hsz. change ((N.to_nat 4 + 1) / 2)%nat with 2%nat. lia.
    + inversion Ha; subst. eapply simple_zres_label; eauto. cbn [digits_for]. rewrite Hsz. change (N.to_nat 4 / 2)%nat with 2%nat. lia.
    + destruct addr; [|contradiction]. inversion Ha; subst. eapply simple_zres_label; eauto. cbn [digits_for]. rewrite Hsz. change (N.to_nat 4 / 2)%nat with 2%nat. lia.
Qed.

(* ====================================================================================================== *)
(* 10. the passes keep the size invariant                                                                   *)
(* ====================================================================================================== *)
Lemma translate_stmt_zok n s s' : In (s_instr s) Tables.instructions -> cls (s_instr s) (s_operand s) ->
  rok n (s_instr s) (s_operand s) -> lmok (s_operand s) -> dshr (s_instr s) (s_operand s) -> psh (s_instr s) (s_operand s) ->
  rshape (s_operand s) -> translate_stmt s = Ok s' -> zok s'.
Proof.
  intros Hin Hc Ho Hm Hd Hp Hr H. unfold translate_stmt in H. apply bind_ok in H as [p [Hp' H]]. apply as_te_ok in Hp'.
  inversion H; subst. exact (translate_operand_zres n _ _ (s_hint s) p Hin Hc Ho Hm Hd Hp Hr Hp').
Qed.

Lemma pcr_pick_zok s k add hint s' : zok s -> s_fixed s = false ->
  ((k = 0%nat /\ add = 1 /\ hint = 2) \/ (k = 1%nat /\ add = 2 /\ hint = 4)) -> pcr_pick s k add hint = Ok s' -> zok s'.
Proof.
  unfold zok. intros Hz Hf Hk H. rewrite Hf in Hz. destruct Hz as (Hs & Hn & Hr & Hl & Hao & Hb & Hv & Hc).
  unfold pcr_pick in H. destruct (nth_error (cp_choices (s_pkg s)) k) as [c|] eqn:Ec; [|discriminate].
  assert (Hclt : c < 256) by (rewrite Forall_forall in Hc; apply Hc; eapply nth_error_In; eauto).
  assert (Hne : cp_choices (s_pkg s) <> []) by (intros E; rewrite E in Ec; destruct k; discriminate).
  apply bind_ok in H as [pv [Hpv H]]. inversion H; subst. clear H. unfold set_pkg, addr_offset, B in *.
  cbn [s_pkg s_operand s_fixed s_instr s_hint cp_op cp_post cp_add cp_size cp_needs cp_choices].
  rewrite Hr, Hl, Hn. destruct (cp_choices (s_pkg s)) as [|c0 cs]; [contradiction|]. cbn [length Nat.eqb andb].
  rewrite (numv_byte _ _ Hpv (lor_lt_256 _ _ Hv Hclt)). rewrite Hb in Hs.
  destruct Hk as [(-> & -> & ->) | (-> & -> & ->)]; (split; [|auto]); [change (N.to_nat 2 / 2)%nat with 1%nat | change (N.to_nat 4 / 2)%nat with 2%nat]; lia.
Qed.

Lemma determine_zok ss this force s s' : zok s -> s_fixed s = false -> determine ss this force s = Ok s' -> zok s'.
Proof.
  intros Hz Hf. unfold determine. destruct (pcr_span ss this s) as [[bw mn] mx]. destruct (pcr_offset s force) as [off f'].
  destruct (_ && negb f'); [intros H; eapply pcr_pick_zok; [exact Hz | exact Hf | left; auto | exact H]|].
  destruct (_ || _); [intros H; eapply pcr_pick_zok; [exact Hz | exact Hf | right; auto | exact H]|]. intros H; inversion H; subst; exact Hz.
Qed.

(* any property of single statements that a decision keeps is kept by the whole loop *)
Section Pres.
  Variable Q : stmt -> Prop.
  Hypothesis Hdet : forall ss this force s s', Q s -> s_fixed s = false -> determine ss this force s = Ok s' -> Q s'.

  Lemma sweep_pres : forall m k ss pr ss' pr', Forall Q ss -> sweep m k ss pr = Ok (ss', pr') -> Forall Q ss'.
  Proof.
    induction m as [|m IH]; intros k ss pr ss' pr' Hs H; cbn [sweep] in H; [inversion H; subst; exact Hs|].
    destruct (nth_error ss k) as [s|] eqn:Es; [|inversion H; subst; exact Hs].
    destruct (s_fixed s) eqn:Ef; [eapply IH; eauto|].
    apply bind_ok in H as [s' [Hd H]]. eapply IH; [|exact H]. apply update_nth_Forall; [exact Hs|].
    eapply Hdet; [eapply nth_error_Forall; eauto | exact Ef | exact Hd].
  Qed.

  Lemma size_loop_pres : forall fuel ss ss', Forall Q ss -> size_loop fuel ss = Ok ss' -> Forall Q ss'.
  Proof.
    induction fuel as [|f IH]; intros ss ss' Hs H; cbn [size_loop] in H.
    - destruct (all_fixed ss); [inversion H; subst; exact Hs | discriminate].
    - destruct (all_fixed ss); [inversion H; subst; exact Hs|].
      apply bind_ok in H as [[ss1 pr] [Hr H]]. pose proof (sweep_pres _ _ _ _ _ _ Hs Hr) as H1.
      destruct pr; [eapply IH; eauto|]. destruct (first_unfixed ss1 0) as [[k s]|] eqn:Ef; [|eapply IH; eauto].
      destruct (first_unfixed_spec _ _ _ _ Ef) as [Hin Hfx]. apply bind_ok in H as [s' [Hd H]].
      eapply IH; [|exact H]. apply update_nth_Forall; [exact H1|]. eapply Hdet; [|exact Hfx|exact Hd].
      rewrite Forall_forall in H1. now apply H1.
  Qed.
End Pres.

Lemma assign_zok : forall ss a0 em ss', Forall zok ss -> assign_addresses ss a0 em = Ok ss' -> Forall zok ss'.
Proof.
  induction ss as [|s r IH]; intros a0 em ss' Hs H; cbn [assign_addresses] in H; [inversion H; constructor|].
  pose proof (Forall_inv Hs) as Hz. pose proof (Forall_inv_tail Hs) as Hr.
  apply bind_ok in H as [[av a] [_ H]]. destruct (em && _); [discriminate|]. apply bind_ok in H as [rest [Hrest H]]. inversion H; subst.
  constructor; [|eapply IH; eauto]. exact Hz.
Qed.

(* after fix_addresses: size = bytes of the three fields *)
Definition zfinal (s : stmt) : Prop :=
  N.to_nat (cp_size (s_pkg s)) = (B (s_pkg s) + bytes_of (cp_add (s_pkg s)))%nat.

Lemma fix_stmt_zfinal all this s s' : zok s -> s_fixed s = true -> fix_stmt all this s = Ok s' -> zfinal s'.
Proof.
  intros Hz Hf H. pose proof (fix_stmt_rel _ _ _ _ H) as R.
  destruct R as (_&_&_&_&_&_&Ro&_&Rp&Rs&_). unfold zfinal, B. rewrite Ro, Rp, Rs. fold (B (s_pkg s)).
  unfold zok in Hz. rewrite Hf in Hz. unfold fix_stmt in H.
  destruct (is_relative_op (s_operand s)) eqn:Erel.
  - (* a branch *)
    assert (Hb : forall z nn, as_translation_error (num_of_Z z (Some (if Tables.is_short_branch (s_instr s) then 2 else 4)) MNone) = Ok nn ->
                 bytes_of (VNum nn) = (if Tables.is_short_branch (s_instr s) then 1 else 2)%nat).
    { intros z nn E. apply as_te_ok in E. rewrite (num_of_Z_bytes _ _ _ E). destruct (Tables.is_short_branch _); reflexivity. }
    destruct (v_int _ <=? this).
    + destruct (_ && _); [discriminate|]. apply bind_ok in H as [nn [Hn H]]. inversion H; subst. cbn [with_add set_pkg s_pkg cp_add].
      rewrite (Hb _ _ Hn). rewrite Hz. destruct (Tables.is_short_branch _); reflexivity.
    + destruct (_ && _); [discriminate|]. apply bind_ok in H as [nn [Hn H]]. inversion H; subst. cbn [with_add set_pkg s_pkg cp_add].
      rewrite (Hb _ _ Hn). rewrite Hz. destruct (Tables.is_short_branch _); reflexivity.
  - change (match s_operand s with OImmediate _ => imm_digits (s_instr s) | OPseudo _ _ => if Tables.is_multi_byte (s_instr s) then 2 else 4
                               | ODirect _ => 2 | _ => 4 end) with (digits_of s) in H.
    destruct (operand_value (s_operand s)) as [|nu|nm mm|idx|l op r mm ad|l r mm|st|hx|] eqn:Eov; try discriminate;
      cbn [is_label_value] in Hz.
    all: try (destruct ad).
    (* the operand's own value is a label or label arithmetic *)
    all: try (match type of Hz with _ /\ _ /\ _ /\ _ =>
        destruct Hz as (Hs & He & Hao & Hn); rewrite Hao, Hn in H;
        apply bind_ok in H as [s1 [H1 H]]; inversion H; subst s';
        repeat match type of H1 with
        | match ?x with _ => _ end = Ok _ => destruct x; try discriminate
        | bind _ _ = Ok _ => let y := fresh "y" in let Hy := fresh "Hy" in apply bind_ok in H1 as [y [Hy H1]]
        end;
        inversion H1; subst s1; cbn [with_add set_pkg s_pkg cp_add];
        match goal with Hy : as_translation_error (fit_value _ _ _) = Ok _ |- _ => apply as_te_ok in Hy; rewrite (fit_value_bytes _ _ _ _ Hy) end;
        rewrite (even_half_bytes _ He); exact Hs end).
    (* otherwise the operand field is what the invariant says *)
    all: cbn [bind] in H.
    all: destruct (addr_offset (s_pkg s)) eqn:Eao.
    all: try (apply bind_ok in H as [tv [_ H]]; apply bind_ok in H as [a' [Ha H]]; inversion H; subst s';
              cbn [with_add set_pkg s_pkg cp_add]; apply as_te_ok in Ha; rewrite (fit_value_bytes _ _ _ _ Ha);
              change ((N.to_nat 4 + 1) / 2)%nat with 2%nat; exact Hz).
    all: destruct (cp_needs (s_pkg s)) eqn:End.
    all: try (destruct Hz as [Hs [Hh | Hh]]; apply bind_ok in H as [tg [_ H]]; apply bind_ok in H as [st0 [_ H]];
              apply bind_ok in H as [nn [Hnn H]]; inversion H; subst s'; cbn [with_add set_pkg s_pkg cp_add];
              apply as_te_ok in Hnn; rewrite (num_of_Z_bytes _ _ _ Hnn), Hh in *;
              [change ((N.to_nat 2 + 1) / 2)%nat with 1%nat; change (N.to_nat 2 / 2)%nat with 1%nat in Hs
              | change ((N.to_nat 4 + 1) / 2)%nat with 2%nat; change (N.to_nat 4 / 2)%nat with 2%nat in Hs]; exact Hs).
    all: inversion H; subst s'; exact Hz.
Qed.

(* ====================================================================================================== *)
(* 11. the whole assembler                                                                                  *)
(* ====================================================================================================== *)
Definition parsed2 (s : stmt) : Prop :=
  parsed_ok s /\ cls (s_instr s) (s_operand s) /\ omok (s_operand s) /\ lmok (s_operand s) /\
  dsh (s_instr s) (s_operand s) /\ pnl (s_operand s) /\ pshape (s_operand s).

Lemma parse_line_parsed2 line st : parse_line line = Ok (Some st) -> parsed2 st.
Proof.
  intros H. pose proof (parse_line_parsed _ _ H) as Hp. destruct Hp as (Hin & Ho & Hh).
  unfold parsed2, parsed_ok. split; [auto|].
  unfold parse_line in H.
  destruct (mem_c 10 _); [discriminate|]. destruct (all_c is_space line); [discriminate|].
  destruct (hd 0 (lstrip line) =? 59); [discriminate|].
  destruct (span is_labelch line) as [label r1]. destruct r1 as [|c1 r1']; [discriminate|].
  destruct (negb (is_space c1)); [discriminate|].
  destruct (span is_word _) as [mn r3]. destruct r3 as [|c2 r3']; [discriminate|].
  destruct (negb (is_space c2)); [discriminate|].
  destruct (find_instr (upper_t mn) Tables.instructions) as [j|] eqn:Ef; [|discriminate].
  assert (Hc : exists ops, create_operand ops j = Ok (s_operand st) /\ s_instr st = j).
  { destruct (Tables.is_string_define j).
    - destruct (rstrip _) as [|d rest]; [discriminate|]. destruct (find_from d rest 1) as [e|]; [|discriminate].
      destruct (create_operand _ j) eqn:Ec; try discriminate. inversion H; subst. cbn. eauto.
    - destruct (span is_opch _) as [ops rest]. apply bind_ok in H as [o [Hoo H]]. inversion H; subst. cbn.
      unfold as_parse_error in Hoo. destruct (create_operand ops j) eqn:Ec; try discriminate. inversion Hoo; subst. eauto. }
  destruct Hc as (ops & Hc & Ei). rewrite Ei in *.
  destruct (create_operand_mok _ _ _ Hc) as [M1 M2].
  repeat split; [eapply create_operand_cls; eauto | exact M1 | exact M2 | eapply create_operand_dsh; eauto
                | eapply create_operand_pnl; eauto | eapply create_operand_pshape; eauto].
Qed.

Lemma parse_lines_parsed2 : forall lines ss, parse_lines lines = Ok ss -> Forall parsed2 ss.
Proof.
  induction lines as [|l r IH]; intros ss H; cbn [parse_lines] in H; [inversion H; constructor|].
  apply bind_ok in H as [s [Hs H]]. apply bind_ok in H as [rest [Hr H]]. inversion H; subst.
  destruct s as [st|]; [constructor; [eapply parse_line_parsed2; eauto | now apply IH] | now apply IH].
Qed.

Lemma expand_list_parsed2 rec fm chain :
  (forall c inner r, Forall parsed2 inner -> rec c inner = Ok r -> Forall parsed2 r) ->
  forall ss r, Forall parsed2 ss -> expand_list rec fm chain ss = Ok r -> Forall parsed2 r.
Proof.
  intros Hrec. induction ss as [|s ss IH]; intros r Hin H; cbn [expand_list] in H; [inversion H; constructor|].
  pose proof (Forall_inv Hin) as Hs. pose proof (Forall_inv_tail Hin) as Hss. destruct (_ && _).
  - destruct (existsb (text_eqb (s_opstr s)) chain); [discriminate|]. destruct (lookup_file (s_opstr s) fm) as [ls|]; [|discriminate].
    apply bind_ok in H as [inner [Hp H]]. apply bind_ok in H as [inner' [Hr H]]. apply bind_ok in H as [rest [Hrest H]].
    inversion H; subst. apply Forall_app. split; [eapply Hrec; [|exact Hr]; eapply parse_lines_parsed2; eauto | now apply IH].
  - apply bind_ok in H as [rest [Hrest H]]. inversion H; subst. constructor; [exact Hs | now apply IH].
Qed.

Lemma expand_parsed2 fm : forall fuel chain ss r, Forall parsed2 ss -> expand fuel fm chain ss = Ok r -> Forall parsed2 r.
Proof.
  induction fuel as [|f IH]; intros chain ss r Hin H; cbn [expand] in H.
  - eapply expand_list_parsed2; [|exact Hin|exact H]. intros; discriminate.
  - eapply expand_list_parsed2; [|exact Hin|exact H]. intros c inner r0 Hi Hr. eapply IH; eauto.
Qed.

Theorem translate_program_sizes fm parsed ss tb : Forall parsed2 parsed -> translate_program fm parsed = Ok (ss, tb) ->
  Forall zfinal ss.
Proof.
  intros Hp H. unfold translate_program in H.
  apply bind_ok in H as [ss0 [H0 H]]. pose proof (expand_parsed2 _ _ _ _ _ Hp H0) as Q0.
  apply bind_ok in H as [tb0 [E0 H]]. apply bind_ok in H as [tb1 [E1 H]].
  apply bind_ok in H as [ss1 [E2 H]]. apply bind_ok in H as [ss2 [E3 H]].
  apply bind_ok in H as [ss3 [E4 H]]. apply bind_ok in H as [ss4 [E5 H]].
  apply bind_ok in H as [ss5 [E6 H]]. apply bind_ok in H as [tb' [_ H]]. inversion H; subst ss tb. clear H.
  set (n := N.of_nat (length ss0)).
  (* the symbol table *)
  assert (Hook : Forall (fun s => ook n (s_operand s)) ss0).
  { eapply Forall_impl; [|exact Q0]. intros s ((_ & Ho & _) & _). apply Ho. }
  destruct (save_symbols_ok n ss0 0 [] tb0 ltac:(unfold n; lia) Hook ltac:(constructor) E0) as (T0 & _ & K0).
  destruct (resolve_defined_inv n ss0 tb0 T0 K0) as [_ P1]. pose proof (P1 _ E1) as T1.
  assert (M0 : tb_mok tb0).
  { eapply save_symbols_mok; [|constructor|exact E0]. eapply Forall_impl; [|exact Q0]. intros s (_ & _ & Hm & _). exact Hm. }
  pose proof (resolve_defined_mok _ _ _ M0 E1) as M1.
  (* resolve, translate *)
  assert (F1 : Forall (fun s => In (s_instr s) Tables.instructions /\ cls (s_instr s) (s_operand s) /\ rok n (s_instr s) (s_operand s) /\
                              lmok (s_operand s) /\ dshr (s_instr s) (s_operand s) /\ psh (s_instr s) (s_operand s) /\ rshape (s_operand s)) ss1).
  { eapply (map_res_Forall (resolve_stmt tb1) parsed2); [|exact Q0|exact E2].
    intros a b ((Hin & Ho & Hh) & Hc & _ & Hl & Hd & Hn & Hs) Hab. unfold resolve_stmt in Hab. apply bind_ok in Hab as [o [Hres Hab]].
    inversion Hab; subst. cbn [s_instr s_operand]. apply as_te_ok in Hres.
    repeat split; [exact Hin | eapply resolve_operand_cls; eauto | eapply resolve_operand_rok; eauto | eapply resolve_operand_lmok; eauto
                  | eapply resolve_operand_dshr; eauto | eapply resolve_operand_psh; eauto | eapply resolve_operand_rshape; eauto]. }
  assert (F2 : Forall zok ss2).
  { eapply (map_res_Forall translate_stmt); [|exact F1|exact E3].
    intros a b (Hin & Hc & Ho & Hl & Hd & Hp' & Hs) Hab. eapply translate_stmt_zok; eauto. }
  pose proof (size_loop_pres zok determine_zok _ _ _ F2 E4) as F3.
  pose proof (size_loop_all_fixed _ _ _ E4) as Fx3.
  pose proof (assign_zok _ _ _ _ F3 E5) as F4.
  assert (Fx4 : Forall (fun s => s_fixed s = true) ss4).
  { pose proof (assign_placed _ _ _ _ E5) as P. clear -P Fx3. revert ss4 P. generalize 0 as a0.
    induction ss3 as [|x r IH]; intros a0 [|x' r'] P; cbn in P; try contradiction; [constructor|].
    destruct P as ((_&_&_&_&Ef&_) & _ & _ & P). cbn [all_fixed forallb] in Fx3. apply andb_true_iff in Fx3 as [F1' F2'].
    constructor; [congruence | eapply IH; eauto]. }
  (* fix_addresses *)
  clear -F4 Fx4 E6. revert ss5 E6. generalize 0 as k. generalize ss4 at 1 as all.
  induction ss4 as [|s r IH]; intros all k ss5 H; cbn [fix_all] in H; [inversion H; constructor|].
  apply bind_ok in H as [s' [Hf H]]. apply bind_ok in H as [rest [Hr H]]. inversion H; subst.
  constructor; [eapply fix_stmt_zfinal; [exact (Forall_inv F4) | exact (Forall_inv Fx4) | exact Hf]|].
  eapply IH; [exact (Forall_inv_tail F4) | exact (Forall_inv_tail Fx4) | exact Hr].
Qed.

(* THE theorem: in every accepted program the space the listing reserves for a statement is exactly the number of
   bytes the statement emits *)
Theorem statement_size_is_bytes fm lines r : assemble fm lines = Ok r ->
  Forall (fun s => r_size s = N.of_nat (length (r_bytes s))) (r_stmts r).
Proof.
  unfold assemble. intros H. apply bind_ok in H as [parsed [Hp H]]. apply bind_ok in H as [[ss tb] [Ht H]].
  apply bind_ok in H as [rs [Hrs H]]. apply bind_ok in H as [syms [_ H]]. inversion H; subst r. cbn [r_stmts]. clear H.
  pose proof (translate_program_sizes _ _ _ _ (parse_lines_parsed2 _ _ Hp) Ht) as Hz.
  clear -Hz Hrs. revert rs Hrs. induction ss as [|s ss IH]; intros rs H; cbn [map_res] in H; [inversion H; constructor|].
  apply bind_ok in H as [sr [Hs H]]. apply bind_ok in H as [rest [Hr H]]. inversion H; subst.
  constructor; [|eapply IH; [exact (Forall_inv_tail Hz) | exact Hr]].
  pose proof (Forall_inv Hz) as Hf. unfold zfinal, B in Hf.
  unfold stmt_result in Hs. apply bind_ok in Hs as [b [Hb Hs]]. inversion Hs; subst. cbn [r_size r_bytes].
  unfold stmt_bytes in Hb. apply bind_ok in Hb as [x [Hx Hb]]. apply bind_ok in Hb as [y [Hy Hb]]. apply bind_ok in Hb as [z [Hzz Hb]].
  inversion Hb; subst. rewrite !app_length, (emit_len _ _ Hx), (emit_len _ _ Hy), (emit_len _ _ Hzz). lia.
Qed.
