(* PDiskProps.v — the property-level statements for C07/C08/C15, assembled from the lemmas. *)
From V Require Import Base.
From V.spec Require Import SpecDisk.
From V.model Require Import MDisk.
From V.proofs Require Import PDiskAlloc PDiskImage PDiskRead PDiskWrite PDiskFlat PDiskSlice.
Local Open Scope N_scope.

Lemma valid_state order fs st : add_files order [] fs = Ok st -> Forall valid_dfile fs ->
  Forall (fun fg => valid_dfile (fst fg)) st.
Proof.
  intros H Hv. pose proof (add_files_files order fs [] st H) as E. cbn [map app] in E.
  rewrite <- E in Hv. rewrite Forall_map in Hv. exact Hv.
Qed.

Theorem written_image_valid order fs st :
  in_range order -> Forall valid_dfile fs -> add_files order [] fs = Ok st -> fsck (image_of st) = true.
Proof.
  intros Ho Hv H. apply fsck_image.
  - eapply add_files_wf; eauto. apply wf_nil.
  - eapply valid_state; eauto.
Qed.

Theorem disk_roundtrip order fs st :
  in_range order -> Forall valid_dfile fs -> add_files order [] fs = Ok st ->
  list_files (image_of st) = Ok (map norm fs) /\ files (image_of st) = Some (map norm fs).
Proof.
  intros Ho Hv H. pose proof (add_files_files order fs [] st H) as E. cbn [map app] in E.
  assert (Hw : wf_state st) by (eapply add_files_wf; eauto; apply wf_nil).
  assert (Hvs := valid_state order fs st H Hv). split.
  - rewrite <- E. now apply list_files_image.
  - rewrite <- E. now apply files_image.
Qed.

Definition reader_domain (img : list byte) : Prop :=
  Forall (fun e => entry_used e = true -> entry_ascii e /\ no_ascii_c0 (slice img) e) (dir (slice img)).

Lemma list_files_sized img : N.of_nat (length img) = IMAGE_SIZE -> list_files img = list_files_disk (slice img).
Proof.
  intros H. unfold list_files. rewrite H.
  replace (IMAGE_SIZE <? IMAGE_SIZE) with false by (symmetry; apply N.ltb_irrefl). reflexivity.
Qed.

(* the conversion test must unfold [files], never [files_disk]/[slice] (which would normalise 70 chunks) *)
Local Strategy opaque [files_disk slice list_files_disk].
Lemma files_unfold img : files img = files_disk (slice img).
Proof. reflexivity. Qed.

Theorem reads_any_valid_image img fs :
  N.of_nat (length img) = IMAGE_SIZE -> files img = Some fs -> reader_domain img -> list_files img = Ok fs.
Proof.
  intros Hl Hf Hd. rewrite (list_files_sized img Hl). rewrite files_unfold in Hf.
  apply list_files_disk_spec.
  - exact (slice_dims img Hl).
  - exact Hd.
  - exact Hf.
Qed.
