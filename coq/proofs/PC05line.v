(* C05: the FCC source line, end to end (parse + translate + emit), on the regenerated table row. *)
From V Require Import Base.
From V.model Require Import MText MValues MOperands MProgram.
From V.proofs Require Import PRender PC05 PC18 PC01src PC05list.
From V.gen Require Tables.
Local Open Scope N_scope.

Lemma fcc_row_is_fcc i : find_instr FCC_t Tables.instructions = Some i ->
  text_eqb (mnem i) FCC_t = true /\ text_eqb (mnem i) FCB_t = false /\ text_eqb (mnem i) FDB_t = false /\
  text_eqb (mnem i) RMB_t = false /\ text_eqb (mnem i) ORG_t = false.
Proof.
  intros H. vm_compute in H. injection H as <-. vm_compute. repeat split; reflexivity.
Qed.

Theorem fcc_line_emits_its_characters d str tail :
  is_space d = false -> ~ In d str -> Forall (fun c => c < 256) str -> mem_c 10 (removelast (fcc_line d str tail)) = false ->
  exists st p, parse_line (fcc_line d str tail) = Ok (Some st) /\ s_label st = [] /\
    translate_operand (s_operand st) (s_instr st) = Ok p /\
    emit_value (cp_op p) = Ok [] /\ emit_value (cp_post p) = Ok [] /\ emit_value (cp_add p) = Ok str /\
    cp_size p = N.of_nat (length str).
Proof.
  intros Hd Hn Hb Hnl.
  destruct (fcc_parses_to_its_characters d str tail Hd Hn Hb Hnl) as (st & Hp & Ho & Hi & Hl).
  destruct (fcc_row_is_fcc _ Hi) as (H1 & H2 & H3 & H4 & H5).
  destruct (fcc_emits_its_characters (s_instr st) str (d :: str ++ [d]) H1 H2 H3 H4 H5 Hb) as (p & Ht & Ha & Hb' & Hc & Hs).
  exists st, p. rewrite Ho. repeat split; assumption.
Qed.

(* FCB / FDB value lists, from the SOURCE LINE: a statement line in any layout (label or none, any white space, any
   letter case of the mnemonic, any trailing text) whose mnemonic is FCB / FDB and whose operand field is the list
   p1,...,pk of literal spellings parses to a statement that emits one byte / two bytes per listed value, in order. *)

Theorem fcb_list_line_emits_its_values f parts ns :
  well_formed_fields f -> upper_t (lf_mn f) = FCB_t -> lf_ops f = join 44 parts ->
  (2 <= length parts)%nat -> Forall2 elem_ok parts ns -> Forall (fun n => (-128 <= num_number n <= 255)%Z) ns ->
  exists st p, parse_line (line_of f) = Ok (Some st) /\ s_label st = lf_label f /\
    translate_operand (s_operand st) (s_instr st) = Ok p /\
    cp_size p = N.of_nat (length ns) /\ emit_value (cp_op p) = Ok [] /\ emit_value (cp_post p) = Ok [] /\
    emit_value (cp_add p) = Ok (map (fun n => Z.to_N (num_number n mod 256)) ns).
Proof.
  intros Hf Hm Ho Hl He Hfit.
  destruct (find_instr FCB_t Tables.instructions) as [i|] eqn:Hi; [|vm_compute in Hi; discriminate].
  destruct (fcb_list_emits_its_values i parts ns Hi Hl He Hfit) as (v & p & Hc & Ht & Hrest).
  assert (Hsd : Tables.is_string_define i = false) by (vm_compute in Hi; injection Hi as <-; reflexivity).
  rewrite <- Hm in Hi.
  exists (stmt_of f i (OPseudo (join 44 parts) v)), p.
  split; [apply (parse_ok f i _ Hf Hi Hsd); rewrite Ho; exact Hc|]. split; [reflexivity|]. split; [exact Ht | exact Hrest].
Qed.

Theorem fdb_list_line_emits_its_values f parts ns :
  well_formed_fields f -> upper_t (lf_mn f) = FDB_t -> lf_ops f = join 44 parts ->
  (2 <= length parts)%nat -> Forall2 elem_ok parts ns -> Forall (fun n => (-32768 <= num_number n <= 65535)%Z) ns ->
  exists st p, parse_line (line_of f) = Ok (Some st) /\ s_label st = lf_label f /\
    translate_operand (s_operand st) (s_instr st) = Ok p /\
    cp_size p = N.of_nat (2 * length ns) /\ emit_value (cp_op p) = Ok [] /\ emit_value (cp_post p) = Ok [] /\
    emit_value (cp_add p) =
      Ok (flat_map (fun n => [Z.to_N ((num_number n mod 65536) / 256); Z.to_N (num_number n mod 256)]) ns).
Proof.
  intros Hf Hm Ho Hl He Hfit.
  destruct (find_instr FDB_t Tables.instructions) as [i|] eqn:Hi; [|vm_compute in Hi; discriminate].
  destruct (fdb_list_emits_its_values i parts ns Hi Hl He Hfit) as (v & p & Hc & Ht & Hrest).
  assert (Hsd : Tables.is_string_define i = false) by (vm_compute in Hi; injection Hi as <-; reflexivity).
  rewrite <- Hm in Hi.
  exists (stmt_of f i (OPseudo (join 44 parts) v)), p.
  split; [apply (parse_ok f i _ Hf Hi Hsd); rewrite Ho; exact Hc|]. split; [reflexivity|]. split; [exact Ht | exact Hrest].
Qed.
