(* C05: the FCC source line, end to end (parse + translate + emit), on the regenerated table row. *)
From V Require Import Base.
From V.model Require Import MText MValues MOperands MProgram.
From V.proofs Require Import PRender PC05 PC18 PC01text PC01acc PC01src PC05list.
From V.gen Require Tables.
Local Open Scope N_scope.

Lemma fcc_row_is_fcc i : find_instr FCC_t Tables.instructions = Some i ->
  text_eqb (mnem i) FCC_t = true /\ text_eqb (mnem i) FCB_t = false /\ text_eqb (mnem i) FDB_t = false /\
  text_eqb (mnem i) RMB_t = false /\ text_eqb (mnem i) ORG_t = false.
Proof.
  intros H. vm_compute in H. injection H as <-. vm_compute. repeat split; reflexivity.
Qed.

Lemma resolve_pseudo_str s str i tb : text_eqb (mnem i) RMB_t = false -> text_eqb (mnem i) ORG_t = false ->
  resolve_operand (OPseudo s (VStr str)) i tb = Ok (OPseudo s (VStr str)).
Proof.
  intros H1 H2. cbn [resolve_operand]. cbn [v_is_symbol v_is_expr orb]. rewrite andb_false_r. cbn [bind].
  rewrite H1, H2. reflexivity.
Qed.

Theorem fcc_line_emits_its_characters d str tail :
  is_space d = false -> ~ In d str -> Forall (fun c => c < 256) str -> mem_c 10 (removelast (fcc_line d str tail)) = false ->
  exists st p, parse_line (fcc_line d str tail) = Ok (Some st) /\ s_label st = [] /\
    (forall tb, resolve_operand (s_operand st) (s_instr st) tb = Ok (s_operand st)) /\
    translate_operand (s_operand st) (s_instr st) = Ok p /\
    emit_value (cp_op p) = Ok [] /\ emit_value (cp_post p) = Ok [] /\ emit_value (cp_add p) = Ok str /\
    cp_size p = N.of_nat (length str).
Proof.
  intros Hd Hn Hb Hnl.
  destruct (fcc_parses_to_its_characters d str tail Hd Hn Hb Hnl) as (st & Hp & Ho & Hi & Hl).
  destruct (fcc_row_is_fcc _ Hi) as (H1 & H2 & H3 & H4 & H5).
  destruct (fcc_emits_its_characters (s_instr st) str (d :: str ++ [d]) H1 H2 H3 H4 H5 Hb) as (p & Ht & Ha & Hb' & Hc & Hs).
  exists st, p. rewrite Ho. split; [assumption|]. split; [assumption|]. split; [intros tb; now apply resolve_pseudo_str|].
  repeat split; assumption.
Qed.

(* FCB / FDB value lists, from the SOURCE LINE: a statement line in any layout (label or none, any white space, any
   letter case of the mnemonic, any trailing text) whose mnemonic is FCB / FDB and whose operand field is the list
   p1,...,pk of literal spellings parses to a statement that emits one byte / two bytes per listed value, in order. *)

Theorem fcb_list_line_emits_its_values f parts ns :
  well_formed_fields f -> upper_t (lf_mn f) = FCB_t -> lf_ops f = join 44 parts ->
  (2 <= length parts)%nat -> Forall2 elem_ok parts ns -> Forall (fun n => (-128 <= num_number n <= 255)%Z) ns ->
  exists st p, parse_line (line_of f) = Ok (Some st) /\ s_label st = lf_label f /\
    translate_operand (s_operand st) (s_instr st) = Ok p /\
    cp_size p = N.of_nat (length ns) /\ emit_value (cp_op p) = Ok [] /\ emit_value (cp_post p) = Ok [] /\
    emit_value (cp_add p) = Ok (map (fun n => Z.to_N (num_number n mod 256)) ns).
Proof.
  intros Hf Hm Ho Hl He Hfit.
  destruct (find_instr FCB_t Tables.instructions) as [i|] eqn:Hi; [|vm_compute in Hi; discriminate].
  destruct (fcb_list_emits_its_values i parts ns Hi Hl He Hfit) as (v & p & Hc & Ht & Hrest).
  assert (Hsd : Tables.is_string_define i = false) by (vm_compute in Hi; injection Hi as <-; reflexivity).
  rewrite <- Hm in Hi.
  exists (stmt_of f i (OPseudo (join 44 parts) v)), p.
  split; [apply (parse_ok f i _ Hf Hi Hsd); rewrite Ho; exact Hc|]. split; [reflexivity|]. split; [exact Ht | exact Hrest].
Qed.

Theorem fdb_list_line_emits_its_values f parts ns :
  well_formed_fields f -> upper_t (lf_mn f) = FDB_t -> lf_ops f = join 44 parts ->
  (2 <= length parts)%nat -> Forall2 elem_ok parts ns -> Forall (fun n => (-32768 <= num_number n <= 65535)%Z) ns ->
  exists st p, parse_line (line_of f) = Ok (Some st) /\ s_label st = lf_label f /\
    translate_operand (s_operand st) (s_instr st) = Ok p /\
    cp_size p = N.of_nat (2 * length ns) /\ emit_value (cp_op p) = Ok [] /\ emit_value (cp_post p) = Ok [] /\
    emit_value (cp_add p) =
      Ok (flat_map (fun n => [Z.to_N ((num_number n mod 65536) / 256); Z.to_N (num_number n mod 256)]) ns).
Proof.
  intros Hf Hm Ho Hl He Hfit.
  destruct (find_instr FDB_t Tables.instructions) as [i|] eqn:Hi; [|vm_compute in Hi; discriminate].
  destruct (fdb_list_emits_its_values i parts ns Hi Hl He Hfit) as (v & p & Hc & Ht & Hrest).
  assert (Hsd : Tables.is_string_define i = false) by (vm_compute in Hi; injection Hi as <-; reflexivity).
  rewrite <- Hm in Hi.
  exists (stmt_of f i (OPseudo (join 44 parts) v)), p.
  split; [apply (parse_ok f i _ Hf Hi Hsd); rewrite Ho; exact Hc|]. split; [reflexivity|]. split; [exact Ht | exact Hrest].
Qed.

(* a single FCB literal, from the SOURCE LINE: any layout, a decimal or $hex literal in any spelling that fits one byte *)

Lemma mem_c_notin c t : ~ In c t -> mem_c c t = false.
Proof.
  induction t as [|x t IH]; intros H; [reflexivity|]. cbn in *.
  destruct (N.eqb_spec x c) as [E|E]; [exfalso; apply H; now left|]. cbn. apply IH. intros Hin. apply H. now right.
Qed.

(* between parsing and translation the statement's operand is resolved against the symbol table: a data directive's
   non-negative numeric literal is left exactly as parsed, whatever the table holds *)
Lemma resolve_pseudo_num s n i tb : n_neg n = false ->
  resolve_operand (OPseudo s (VNum n)) i tb = Ok (OPseudo s (VNum n)).
Proof.
  intros Hneg. cbn [resolve_operand]. cbn [v_is_symbol v_is_expr orb]. rewrite andb_false_r. cbn [bind].
  destruct (text_eqb (mnem i) RMB_t || text_eqb (mnem i) ORG_t); [|reflexivity].
  cbn [v_is_numeric v_negative negb orb]. rewrite Hneg. reflexivity.
Qed.

Lemma lit_no_comma l : lit_ok l -> mem_c 44 (lit_text l) = false.
Proof.
  intros Hl. apply mem_c_notin. destruct (lit_digits l Hl) as (c & ds & Hx & _ & Hn & _).
  destruct l as [x|x]; cbn [lit_text] in *; subst x; [exact Hn|]. intros [E|Hin]; [discriminate | exact (Hn Hin)].
Qed.

Theorem fcb_literal_line_emits_its_value f l :
  well_formed_fields f -> upper_t (lf_mn f) = FCB_t -> lf_ops f = lit_text l -> lit_ok l -> lit_value l <= 255 ->
  exists st p, parse_line (line_of f) = Ok (Some st) /\ s_label st = lf_label f /\
    (forall tb, resolve_operand (s_operand st) (s_instr st) tb = Ok (s_operand st)) /\
    translate_operand (s_operand st) (s_instr st) = Ok p /\
    cp_size p = 1 /\ emit_value (cp_op p) = Ok [] /\ emit_value (cp_post p) = Ok [] /\
    emit_value (cp_add p) = Ok [lit_value l].
Proof.
  intros Hf Hm Ho Hl Hle.
  destruct (find_instr FCB_t Tables.instructions) as [i|] eqn:Hi; [|vm_compute in Hi; discriminate].
  assert (Hrow : Tables.is_string_define i = false /\ Tables.is_pseudo i = true /\ Tables.is_multi_byte i = true /\
                 Tables.is_pseudo_define i = false /\ Tables.is_16_bit i = false /\ text_eqb (mnem i) FCB_t = true)
    by (vm_compute in Hi; injection Hi as <-; repeat split; reflexivity).
  destruct Hrow as (Hsd & Hps & Hmb & Hpd & H16 & Hfcb).
  destruct (value_core_lit l None MExtended Hl) as (n & Hv & _ & Hint & Hneg).
  pose proof (lit_no_comma l Hl) as Hnc.
  assert (Hc : create_operand (lf_ops f) i = Ok (OPseudo (lit_text l) (VNum n))).
  { rewrite Ho. unfold create_operand. rewrite Hps. unfold pseudo_operand. rewrite Hmb, Hnc, Hpd. cbn [andb negb].
    unfold create_value. rewrite Hsd, H16, (value_of_text_plain l false true Hl). rewrite Hv. rewrite !andb_false_r. reflexivity. }
  assert (Hfit : exists a, fit_value (VNum n) 2 true = Ok a).
  { apply fit_value_total; [exact Hneg | rewrite Hint; lia | rewrite Hint; change (16 ^ Z.of_N 2)%Z with 256%Z; lia]. }
  destruct Hfit as (a & Ha).
  assert (Ht : translate_operand (OPseudo (lit_text l) (VNum n)) i = Ok (data_pkg a 1)).
  { rewrite translate_fcb by (assumption || reflexivity). rewrite Ha. reflexivity. }
  destruct (fcb_single_value i (lit_text l) (VNum n) _ Hfcb eq_refl Ht) as (_ & Hs & H1 & H2 & H3).
  rewrite <- Hm in Hi.
  exists (stmt_of f i (OPseudo (lit_text l) (VNum n))), (data_pkg a 1).
  split; [exact (parse_ok f i _ Hf Hi Hsd Hc)|]. split; [reflexivity|]. split; [intros tb; exact (resolve_pseudo_num _ n i tb Hneg)|]. split; [exact Ht|].
  repeat split; try assumption.
  rewrite H3. unfold value_number. cbn [v_negative v_int]. rewrite Hneg, Hint.
  rewrite Z.mod_small by lia. now rewrite N2Z.id.
Qed.

Theorem fdb_literal_line_emits_its_value f l :
  well_formed_fields f -> upper_t (lf_mn f) = FDB_t -> lf_ops f = lit_text l -> lit_ok l ->
  exists st p, parse_line (line_of f) = Ok (Some st) /\ s_label st = lf_label f /\
    (forall tb, resolve_operand (s_operand st) (s_instr st) tb = Ok (s_operand st)) /\
    translate_operand (s_operand st) (s_instr st) = Ok p /\
    cp_size p = 2 /\ emit_value (cp_op p) = Ok [] /\ emit_value (cp_post p) = Ok [] /\
    emit_value (cp_add p) = Ok [lit_value l / 256; lit_value l mod 256].
Proof.
  intros Hf Hm Ho Hl. pose proof (lit_value_16bit l Hl) as Hle.
  destruct (find_instr FDB_t Tables.instructions) as [i|] eqn:Hi; [|vm_compute in Hi; discriminate].
  assert (Hrow : Tables.is_string_define i = false /\ Tables.is_pseudo i = true /\ Tables.is_multi_byte i = false /\
                 Tables.is_multi_word i = true /\
                 Tables.is_pseudo_define i = false /\ Tables.is_16_bit i = false /\ text_eqb (mnem i) FCB_t = false /\
                 text_eqb (mnem i) FDB_t = true)
    by (vm_compute in Hi; injection Hi as <-; repeat split; reflexivity).
  destruct Hrow as (Hsd & Hps & Hmb & Hmw & Hpd & H16 & Hfcb & Hfdb).
  destruct (value_core_lit l None MExtended Hl) as (n & Hv & _ & Hint & Hneg).
  pose proof (lit_no_comma l Hl) as Hnc.
  assert (Hc : create_operand (lf_ops f) i = Ok (OPseudo (lit_text l) (VNum n))).
  { rewrite Ho. unfold create_operand. rewrite Hps. unfold pseudo_operand. rewrite Hmb, Hmw, Hnc, Hpd. cbn [andb negb].
    unfold create_value. rewrite Hsd, H16, (value_of_text_plain l false true Hl). rewrite Hv. reflexivity. }
  assert (Hfit : exists a, fit_value (VNum n) 4 true = Ok a).
  { apply fit_value_total; [exact Hneg | rewrite Hint; lia | rewrite Hint; change (16 ^ Z.of_N 4)%Z with 65536%Z; lia]. }
  destruct Hfit as (a & Ha).
  assert (Ht : translate_operand (OPseudo (lit_text l) (VNum n)) i = Ok (data_pkg a 2)).
  { rewrite translate_fdb by (assumption || reflexivity). rewrite Ha. reflexivity. }
  destruct (fdb_single_value i (lit_text l) (VNum n) _ Hfcb Hfdb eq_refl Ht) as (_ & Hs & H1 & H2 & H3).
  rewrite <- Hm in Hi.
  exists (stmt_of f i (OPseudo (lit_text l) (VNum n))), (data_pkg a 2).
  split; [exact (parse_ok f i _ Hf Hi Hsd Hc)|]. split; [reflexivity|]. split; [intros tb; exact (resolve_pseudo_num _ n i tb Hneg)|]. split; [exact Ht|].
  repeat split; try assumption.
  rewrite H3. unfold value_number. cbn [v_negative v_int]. rewrite Hneg, Hint.
  rewrite Z.mod_small by lia.
  change 256%Z with (Z.of_N 256). rewrite <- N2Z.inj_div, <- N2Z.inj_mod, !N2Z.id. reflexivity.
Qed.

(* RMB n from the SOURCE LINE: any layout, a decimal or $hex literal in any spelling (every n the assembler reads, 0..65535): n zero bytes *)
Theorem rmb_literal_line_reserves_zeros f l :
  well_formed_fields f -> upper_t (lf_mn f) = RMB_t -> lf_ops f = lit_text l -> lit_ok l ->
  exists st p, parse_line (line_of f) = Ok (Some st) /\ s_label st = lf_label f /\
    (forall tb, resolve_operand (s_operand st) (s_instr st) tb = Ok (s_operand st)) /\
    translate_operand (s_operand st) (s_instr st) = Ok p /\
    cp_size p = lit_value l /\ emit_value (cp_op p) = Ok [] /\ emit_value (cp_post p) = Ok [] /\
    emit_value (cp_add p) = Ok (repeat 0 (N.to_nat (lit_value l))).
Proof.
  intros Hf Hm Ho Hl.
  destruct (find_instr RMB_t Tables.instructions) as [i|] eqn:Hi; [|vm_compute in Hi; discriminate].
  assert (Hrow : Tables.is_string_define i = false /\ Tables.is_pseudo i = true /\ Tables.is_multi_byte i = false /\
                 Tables.is_multi_word i = false /\ Tables.is_include i = false /\ text_eqb (mnem i) END_t = false /\
                 Tables.is_pseudo_define i = false /\ Tables.is_16_bit i = false /\ text_eqb (mnem i) FCB_t = false /\
                 text_eqb (mnem i) FDB_t = false /\ text_eqb (mnem i) RMB_t = true)
    by (vm_compute in Hi; injection Hi as <-; repeat split; reflexivity).
  destruct Hrow as (Hsd & Hps & Hmb & Hmw & Hinc & Hend & Hpd & H16 & Hfcb & Hfdb & Hrmb).
  destruct (value_core_lit l None MExtended Hl) as (n & Hv & _ & Hint & Hneg).
  assert (Hc : create_operand (lf_ops f) i = Ok (OPseudo (lit_text l) (VNum n))).
  { rewrite Ho. unfold create_operand. rewrite Hps. unfold pseudo_operand. rewrite Hmb, Hmw, Hinc, Hend, Hpd. cbn [andb negb orb].
    unfold create_value. rewrite Hsd, H16, (value_of_text_plain l false true Hl). rewrite Hv. reflexivity. }
  destruct (rmb_emits_zeros i (lit_text l) (VNum n) Hrmb Hfcb Hfdb) as (p & Ht & Hs & H1 & H2 & H3).
  cbn [v_int] in Hs, H3. rewrite Hint in Hs, H3.
  rewrite <- Hm in Hi.
  exists (stmt_of f i (OPseudo (lit_text l) (VNum n))), p.
  split; [exact (parse_ok f i _ Hf Hi Hsd Hc)|]. split; [reflexivity|]. split; [intros tb; exact (resolve_pseudo_num _ n i tb Hneg)|]. split; [exact Ht|].
  repeat split; assumption.
Qed.

(* ... and a single FCB literal that does not fit one byte is rejected at translation (OperandTypeError) *)
Theorem fcb_literal_line_out_of_range_rejected f l :
  well_formed_fields f -> upper_t (lf_mn f) = FCB_t -> lf_ops f = lit_text l -> lit_ok l -> 256 <= lit_value l ->
  exists st, parse_line (line_of f) = Ok (Some st) /\
    (forall tb, resolve_operand (s_operand st) (s_instr st) tb = Ok (s_operand st)) /\
    translate_operand (s_operand st) (s_instr st) = Diag 21.
Proof.
  intros Hf Hm Ho Hl Hle.
  destruct (find_instr FCB_t Tables.instructions) as [i|] eqn:Hi; [|vm_compute in Hi; discriminate].
  assert (Hrow : Tables.is_string_define i = false /\ Tables.is_pseudo i = true /\ Tables.is_multi_byte i = true /\
                 Tables.is_pseudo_define i = false /\ Tables.is_16_bit i = false /\ text_eqb (mnem i) FCB_t = true)
    by (vm_compute in Hi; injection Hi as <-; repeat split; reflexivity).
  destruct Hrow as (Hsd & Hps & Hmb & Hpd & H16 & Hfcb).
  destruct (value_core_lit l None MExtended Hl) as (n & Hv & _ & Hint & Hneg).
  pose proof (lit_no_comma l Hl) as Hnc.
  assert (Hc : create_operand (lf_ops f) i = Ok (OPseudo (lit_text l) (VNum n))).
  { rewrite Ho. unfold create_operand. rewrite Hps. unfold pseudo_operand. rewrite Hmb, Hnc, Hpd. cbn [andb negb].
    unfold create_value. rewrite Hsd, H16, (value_of_text_plain l false true Hl). rewrite Hv. rewrite !andb_false_r. reflexivity. }
  rewrite <- Hm in Hi.
  exists (stmt_of f i (OPseudo (lit_text l) (VNum n))).
  split; [exact (parse_ok f i _ Hf Hi Hsd Hc)|]. split; [intros tb; exact (resolve_pseudo_num _ n i tb Hneg)|].
  apply (fcb_out_of_range_rejected i (lit_text l) (VNum n) Hfcb eq_refl).
  left. unfold value_number. cbn [v_negative v_int]. rewrite Hneg, Hint. lia.
Qed.
