(* PDiskFlat.v — slicing the rendered 161,280-byte image gives back the structure it was rendered
   from; lifts the structured theorems of PDiskWrite to flat images (C08, C07, C15). *)
From V Require Import Base.
From V.spec Require Import SpecDisk.
From V.model Require Import MDisk.
From V.proofs Require Import PDiskAlloc PDiskImage PDiskRead PDiskWrite.
Local Open Scope N_scope.

Definition dims_full (d : disk) : Prop :=
  length (gran d) = 68%nat /\ Forall (fun g => length g = GR) (gran d) /\
  length (fat d) = 256%nat /\ length (dir d) = 72%nat /\ Forall (fun e => length e = 32%nat) (dir d) /\
  length (t17a d) = 256%nat /\ length (t17z d) = 1792%nat.

Lemma chunks_concat_app k : forall cs rest, Forall (fun c => length c = k) cs ->
  chunks k (length cs) (concat cs ++ rest) = cs.
Proof.
  induction cs as [|c cs IH]; intros rest H; [reflexivity|]. inversion H as [|? ? Hc Hcs]; subst.
  cbn [length chunks concat]. rewrite <- app_assoc.
  rewrite firstn_app, Nat.sub_diag, firstn_all. cbn [firstn]. rewrite app_nil_r.
  rewrite skipn_app, Nat.sub_diag, skipn_all. cbn [skipn app]. now rewrite IH.
Qed.

Lemma concat_length k (cs : list (list byte)) : Forall (fun c => length c = k) cs -> length (concat cs) = (length cs * k)%nat.
Proof. induction 1 as [|c cs Hc _ IH]; [reflexivity|]. cbn [concat length]. rewrite app_length, IH, Hc. lia. Qed.

Definition t17 (d : disk) : list byte := t17a d ++ fat d ++ concat (dir d) ++ t17z d.

Lemma t17_length d : dims_full d -> length (t17 d) = (2 * GR)%nat.
Proof.
  intros (_ & _ & Hf & Hd & Hde & Ha & Hz). unfold t17. rewrite !app_length, Ha, Hf, Hz.
  rewrite (concat_length 32 _ Hde), Hd. unfold GR. reflexivity.
Qed.

Definition blocks (d : disk) : list (list byte) :=
  firstn 34 (gran d) ++ [firstn GR (t17 d); skipn GR (t17 d)] ++ skipn 34 (gran d).

Lemma render_blocks d : render d = concat (blocks d).
Proof.
  unfold render, blocks. fold (t17 d). rewrite !concat_app. cbn [concat]. rewrite app_nil_r.
  rewrite firstn_skipn. reflexivity.
Qed.

Lemma In_firstn_ {A} (x : A) n l : In x (firstn n l) -> In x l.
Proof. intros H. rewrite <- (firstn_skipn n l). apply in_or_app. now left. Qed.
Lemma In_skipn_ {A} (x : A) n l : In x (skipn n l) -> In x l.
Proof. intros H. rewrite <- (firstn_skipn n l). apply in_or_app. now right. Qed.

Lemma blocks_ok d : dims_full d -> length (blocks d) = 70%nat /\ Forall (fun c => length c = GR) (blocks d).
Proof.
  intros Hd. pose proof (t17_length d Hd) as Ht. destruct Hd as (Hg & Hgs & _).
  unfold blocks. split.
  - rewrite !app_length, firstn_length, skipn_length, Hg. reflexivity.
  - apply Forall_app. split; [|apply Forall_app; split].
    + apply Forall_forall. intros c Hc. rewrite Forall_forall in Hgs. apply Hgs. eapply In_firstn_; eauto.
    + repeat constructor.
      * rewrite firstn_length, Ht. lia.
      * rewrite skipn_length, Ht. lia.
    + apply Forall_forall. intros c Hc. rewrite Forall_forall in Hgs. apply Hgs. eapply In_skipn_; eauto.
Qed.

Theorem slice_render d : dims_full d -> slice (render d) = d.
Proof.
  intros Hd. pose proof (blocks_ok d Hd) as [Hbl Hbs]. pose proof (t17_length d Hd) as Ht.
  unfold slice. rewrite render_blocks.
  assert (Hc : chunks GR 70 (concat (blocks d)) = blocks d).
  { rewrite <- Hbl. rewrite <- (app_nil_r (concat (blocks d))). now apply chunks_concat_app. }
  rewrite Hc. destruct Hd as (Hg & Hgs & Hf & Hdl & Hde & Ha & Hz).
  assert (L34 : length (firstn 34 (gran d)) = 34%nat) by (rewrite firstn_length, Hg; reflexivity).
  assert (N34 : nth 34 (blocks d) [] = firstn GR (t17 d)).
  { unfold blocks. rewrite app_nth2 by lia. rewrite L34. replace (34 - 34)%nat with 0%nat by lia. reflexivity. }
  assert (N35 : nth 35 (blocks d) [] = skipn GR (t17 d)).
  { unfold blocks. rewrite app_nth2 by lia. rewrite L34. replace (35 - 34)%nat with 1%nat by lia. reflexivity. }
  rewrite N34, N35, firstn_skipn.
  assert (F34 : firstn 34 (blocks d) = firstn 34 (gran d)).
  { unfold blocks. rewrite firstn_app, L34. replace (34 - 34)%nat with 0%nat by lia. rewrite firstn_O, app_nil_r. apply firstn_all2. lia. }
  assert (S36 : skipn 36 (blocks d) = skipn 34 (gran d)).
  { unfold blocks. rewrite skipn_app, L34. rewrite (skipn_all2 (n := 36)) by lia. replace (36 - 34)%nat with 2%nat by lia. reflexivity. }
  rewrite F34, S36, firstn_skipn.
  unfold t17.
  assert (E1 : firstn 256 (t17a d ++ fat d ++ concat (dir d) ++ t17z d) = t17a d).
  { rewrite firstn_app, Ha, Nat.sub_diag. rewrite firstn_O, app_nil_r. apply firstn_all2. lia. }
  assert (E2 : skipn 256 (t17a d ++ fat d ++ concat (dir d) ++ t17z d) = fat d ++ concat (dir d) ++ t17z d).
  { rewrite skipn_app, Ha, Nat.sub_diag. rewrite (skipn_all2 (n := 256)) by lia. reflexivity. }
  assert (E3 : skipn 512 (t17a d ++ fat d ++ concat (dir d) ++ t17z d) = concat (dir d) ++ t17z d).
  { replace 512%nat with (256 + 256)%nat by reflexivity. rewrite skipn_add, E2.
    rewrite skipn_app, Hf, Nat.sub_diag. rewrite (skipn_all2 (n := 256)) by lia. reflexivity. }
  assert (Lc : length (concat (dir d)) = 2304%nat) by (rewrite (concat_length 32 _ Hde), Hdl; reflexivity).
  assert (E4 : skipn 2816 (t17a d ++ fat d ++ concat (dir d) ++ t17z d) = t17z d).
  { replace 2816%nat with (512 + 2304)%nat by reflexivity. rewrite skipn_add, E3.
    rewrite skipn_app, Lc, Nat.sub_diag. rewrite (skipn_all2 (n := 2304)) by lia. reflexivity. }
  rewrite E1, E2, E3, E4.
  assert (E5 : firstn 256 (fat d ++ concat (dir d) ++ t17z d) = fat d).
  { rewrite firstn_app, Hf, Nat.sub_diag. rewrite firstn_O, app_nil_r. apply firstn_all2. lia. }
  rewrite E5. rewrite <- Hdl at 1. rewrite chunks_concat_app by assumption.
  destruct d; reflexivity.
Qed.

Lemma render_length d : dims_full d -> N.of_nat (length (render d)) = IMAGE_SIZE.
Proof.
  intros Hd. rewrite render_blocks. destruct (blocks_ok d Hd) as [Hbl Hbs].
  rewrite (concat_length GR _ Hbs), Hbl. vm_compute. reflexivity.
Qed.

Lemma dims_full_state st : (length st <= 72)%nat -> dims_full (disk_of_state st).
Proof.
  intros H. destruct (dims_state st H) as (H1 & H2 & H3). unfold dims_full. repeat split; try assumption.
  - unfold disk_of_state. cbn [dir]. rewrite app_length, map_length, repeat_length. lia.
  - unfold disk_of_state. cbn [dir]. apply Forall_app. split.
    + apply Forall_forall. intros e He. apply in_map_iff in He as [[f gs] [<- _]]. apply dir_entry_length.
    + apply Forall_forall. intros e He. apply repeat_spec in He. subst. reflexivity.
Qed.

Lemma wf_state_short st : wf_state st -> (length st <= 72)%nat.
Proof. intros (Hn & Hr & Hc). pose proof (state_length_le st Hc). pose proof (range_length _ Hn Hr). lia. Qed.

(* ---------- flat-image theorems ---------- *)

Theorem fsck_image st : wf_state st -> Forall (fun fg => valid_dfile (fst fg)) st -> fsck (image_of st) = true.
Proof.
  intros Hw Hv. unfold fsck, image_of.
  pose proof (dims_full_state st (wf_state_short st Hw)) as Hd.
  rewrite render_length, slice_render by assumption. rewrite N.eqb_refl. cbn [andb].
  now apply fsck_disk_state.
Qed.

Theorem files_image st : wf_state st -> Forall (fun fg => valid_dfile (fst fg)) st ->
  files (image_of st) = Some (map norm (map fst st)).
Proof.
  intros Hw Hv. unfold files, image_of.
  rewrite slice_render by (apply dims_full_state; now apply wf_state_short). now apply files_disk_state.
Qed.

Theorem list_files_image st : wf_state st -> Forall (fun fg => valid_dfile (fst fg)) st ->
  list_files (image_of st) = Ok (map norm (map fst st)).
Proof.
  intros Hw Hv. unfold list_files, image_of.
  pose proof (dims_full_state st (wf_state_short st Hw)) as Hd.
  rewrite render_length by assumption. rewrite N.ltb_irrefl.
  rewrite slice_render by assumption. now apply list_files_disk_state.
Qed.

(* the number of free granules read off the image = 68 - granules held by the stored files *)
Theorem free_granules_image st : wf_state st -> free_granules (slice (image_of st)) = free st.
Proof.
  intros Hw. unfold image_of. rewrite slice_render by (apply dims_full_state; now apply wf_state_short).
  destruct Hw as (Hn & Hr & Hc). unfold free_granules, free. fold all_granules.
  assert (H : forall l, NoDup l -> incl l all_granules ->
            (length (filter (fun g => (fat_at (disk_of_state st) g =? 255)%N) l) + length (filter (in_use (used st)) l) = length l)%nat).
  { induction l as [|g l IH]; intros Hl Hi; [reflexivity|]. inversion Hl; subst. cbn [filter length].
    assert (Hg : g < 68) by (apply all_granules_spec; apply Hi; now left).
    assert (IH' := IH ltac:(assumption) ltac:(intros x Hx; apply Hi; now right)).
    rewrite fat_at_state by assumption.
    destruct (in_use (used st) g) eqn:E.
    - apply in_use_In in E. destruct (nth_in_used _ _ E) as (f & gs & k & Hin & Hk & <-).
      rewrite (fat_entry_at st f gs k Hn Hin Hk). unfold link. pose proof (last_sectors_range f).
      destruct (Nat.ltb (S k) (length gs)) eqn:El.
      + apply Nat.ltb_lt in El.
        assert (nth (S k) gs 0 < 68).
        { unfold in_range in Hr. rewrite Forall_forall in Hr. apply Hr. eapply in_used; [exact Hin|]. now apply nth_In. }
        destruct (N.eqb_spec (nth (S k) gs 0) 255); [lia|]. cbn [length]. lia.
      + destruct (N.eqb_spec (192 + last_sectors f) 255); [lia|]. cbn [length]. lia.
    - apply in_use_false in E. rewrite fat_entry_free by assumption. cbn [N.eqb Pos.eqb length]. lia. }
  specialize (H all_granules all_granules_NoDup (incl_refl _)). rewrite all_granules_length in H.
  assert (Hu : length (filter (in_use (used st)) all_granules) = length (used st)).
  { apply Nat.le_antisymm.
    - apply NoDup_incl_length; [apply NoDup_filter; apply all_granules_NoDup|].
      intros g Hg. apply filter_In in Hg as [_ Hg]. now apply in_use_In.
    - apply NoDup_incl_length; [assumption|]. intros g Hg. apply filter_In. split.
      + apply all_granules_spec. unfold in_range in Hr. rewrite Forall_forall in Hr. now apply Hr.
      + now apply in_use_In. }
  lia.
Qed.
