(* PC02sym.v — the symbol table of an accepted program (second sentence of C02): every label names the listing address
   of the statement it labels, and an EQU symbol defined by a number names that number.
   save_symbol gives a label the INDEX of its statement (an EQU symbol its operand value), resolve_defined_symbol
   touches only EQU symbols defined by a symbol or an expression, the back-patch after layout replaces an index by the
   address of that statement - and no pass reorders, drops or relabels a statement. *)
From V Require Import Base.
From V.model Require Import MText MValues MOperands MProgram.
From V.proofs Require Import PLayout PFrames PContig PC02.
From V.gen Require Tables.
Local Open Scope N_scope.

Lemma lookup_app k : forall a b, lookup k (a ++ b) = match lookup k a with Some v => Some v | None => lookup k b end.
Proof. induction a as [|[k' v'] a IH]; intros b; cbn [app lookup]; [reflexivity|]. destruct (text_eqb k' k); [reflexivity | apply IH]. Qed.

Lemma text_eqb_refl t : text_eqb t t = true.
Proof. apply list_eqb_eq. reflexivity. Qed.

(* ---------- save_symbol ---------- *)
Lemma save_symbols_prefix : forall ss idx tb tb', save_symbols ss idx tb = Ok tb' -> exists ext, tb' = tb ++ ext.
Proof.
  induction ss as [|s r IH]; intros idx tb tb' H; cbn [save_symbols] in H.
  - inversion H; subst. exists []. now rewrite app_nil_r.
  - destruct (s_label s) as [|c lb]; [eapply IH; eauto|]. destruct (lookup (c :: lb) tb); [discriminate|].
    destruct (IH _ _ _ H) as [ext ->]. eexists. rewrite <- app_assoc. reflexivity.
Qed.

Definition saved_value (s : stmt) (i : N) : value :=
  if Tables.is_pseudo_define (s_instr s) then match s_operand s with OPseudo _ v => v | _ => VNone end else VAddr i.

Lemma save_symbols_lookup : forall ss idx tb tb', save_symbols ss idx tb = Ok tb' ->
  forall k s, nth_error ss k = Some s -> s_label s <> [] -> lookup (s_label s) tb' = Some (saved_value s (idx + N.of_nat k)).
Proof.
  induction ss as [|s0 r IH]; intros idx tb tb' H k s Hk Hl; [destruct k; discriminate|].
  cbn [save_symbols] in H. destruct k as [|k]; cbn [nth_error] in Hk.
  - inversion Hk; subst s0. destruct (s_label s) as [|c lb] eqn:El; [congruence|].
    destruct (lookup (c :: lb) tb) eqn:Elk; [discriminate|].
    destruct (save_symbols_prefix _ _ _ _ H) as [ext ->]. rewrite !lookup_app, Elk. cbn [lookup]. rewrite text_eqb_refl.
    unfold saved_value. rewrite N.add_0_r. reflexivity.
  - replace (idx + N.of_nat (S k)) with ((idx + 1) + N.of_nat k) by lia.
    destruct (s_label s0) as [|c lb]; [eapply IH; eauto|]. destruct (lookup (c :: lb) tb); [discriminate|]. eapply IH; eauto.
Qed.

(* ---------- resolve_defined_symbol ---------- *)
Lemma lookup_tb_set_other k lb v : text_eqb k lb = false -> forall tb, lookup lb (tb_set k v tb) = lookup lb tb.
Proof.
  intros Hne. induction tb as [|[k' v'] tb IH]; cbn [tb_set lookup]; [reflexivity|].
  destruct (text_eqb k k') eqn:E; cbn [lookup].
  - apply list_eqb_eq in E. subst k'. now rewrite Hne.
  - destruct (text_eqb k' lb); [reflexivity | exact IH].
Qed.

Definition settled (v : value) : Prop := (v_is_symbol v || v_is_expr v) = false.

Lemma resolve_defined_keeps : forall ss tb tb', resolve_defined ss tb = Ok tb' ->
  forall lb v, lookup lb tb = Some v -> settled v -> lookup lb tb' = Some v.
Proof.
  induction ss as [|s r IH]; intros tb tb' H lb v Hlk Hs; cbn [resolve_defined] in H; [inversion H; subst; exact Hlk|].
  destruct (s_label s) as [|c l2] eqn:El; [eapply IH; eauto|].
  destruct (Tables.is_pseudo_define (s_instr s)); [|eapply IH; eauto].
  destruct (lookup (c :: l2) tb) as [v2|] eqn:E2; [|discriminate].
  destruct (v_is_symbol v2 || v_is_expr v2) eqn:Ek; [|eapply IH; eauto].
  apply bind_ok in H as [v' [_ H]]. destruct (_ || _ || _); [|discriminate].
  eapply IH; [exact H | | exact Hs]. rewrite lookup_tb_set_other; [exact Hlk|].
  destruct (text_eqb (c :: l2) lb) eqn:E; [|reflexivity]. apply list_eqb_eq in E. subst lb. rewrite E2 in Hlk. inversion Hlk; subst v2.
  unfold settled in Hs. congruence.
Qed.

(* ---------- the back-patch ---------- *)
Lemma backpatch_lookup ss : forall tb tb', backpatch ss tb = Ok tb' -> forall lb v, lookup lb tb = Some v ->
  match v with
  | VAddr k => exists t, nth_stmt ss k = Some t /\ lookup lb tb' = Some (cp_addr (s_pkg t))
  | VExpr _ _ _ _ true => True
  | _ => lookup lb tb' = Some v
  end.
Proof.
  unfold backpatch. induction tb as [|[k0 v0] tb IH]; intros tb' H lb v Hlk; cbn [map_res] in H; [discriminate|].
  apply bind_ok in H as [kv [Hkv H]]. apply bind_ok in H as [rest [Hrest H]]. inversion H; subst tb'. clear H.
  cbn [lookup fst snd] in *. destruct (text_eqb k0 lb) eqn:E.
  - inversion Hlk; subst v0. clear Hlk.
    destruct v as [ | vn | nm vm | idx | l op r m [] | xl xr xm | str | hx | ]; try exact I;
      try (inversion Hkv; subst kv; cbn [lookup fst]; now rewrite E).
    destruct (nth_stmt ss idx) as [t|] eqn:En; [|discriminate]. inversion Hkv; subst kv. exists t. split; [reflexivity|].
    cbn [lookup fst]. now rewrite E.
  - assert (Ek : fst kv = k0).
    { destruct v0 as [ | vn | nm vm | idx | l op r m [] | xl xr xm | str | hx | ]; try (inversion Hkv; subst; reflexivity).
      - destruct (nth_stmt ss idx); inversion Hkv; subst; reflexivity.
      - apply bind_ok in Hkv as [x [_ Hkv]]. apply bind_ok in Hkv as [y [_ Hkv]]. inversion Hkv; subst; reflexivity. }
    specialize (IH rest Hrest lb v Hlk). destruct kv as [k1 v1]. cbn [fst] in Ek. subst k1.
    destruct v as [ | vn | nm vm | idx | l op r m [] | xl xr xm | str | hx | ]; try exact I; cbn [lookup]; rewrite E; exact IH.
Qed.

(* ---------- no pass reorders, drops or relabels a statement ---------- *)
Lemma Forall2_map_eq' {A B} (R : A -> A -> Prop) (f : A -> B) : (forall a b, R a b -> f b = f a) ->
  forall l l', Forall2 R l l' -> map f l' = map f l.
Proof. intros Hf. induction 1; cbn; [reflexivity|]. f_equal; auto. Qed.

Lemma placed_map {B} (f : stmt -> B) : (forall s s', same_but_addr s s' -> f s' = f s) ->
  forall ss ss' a0, placed ss ss' a0 -> map f ss' = map f ss.
Proof.
  intros Hf. induction ss as [|s r IH]; intros [|s' r'] a0 H; cbn in H; try contradiction; [reflexivity|].
  destruct H as (Hs & _ & _ & H). cbn. f_equal; [now apply Hf | eapply IH; eauto].
Qed.

Lemma nth_map_eq {A B} (f : A -> B) : forall l l' k a', map f l' = map f l -> nth_error l' k = Some a' ->
  exists a, nth_error l k = Some a /\ f a = f a'.
Proof.
  induction l as [|x l IH]; intros [|y l'] k a' E Hk; cbn in E; try discriminate; [destruct k; discriminate|].
  inversion E. destruct k as [|k]; cbn [nth_error] in *; [inversion Hk; subst; eauto | eapply IH; eauto].
Qed.

(* what the table says about EQU (checked on the regenerated table): its operand is left as it is by resolve_symbols *)
Definition define_row_ok (i : irow) : bool :=
  negb (Tables.is_pseudo_define i) ||
  (negb (Tables.is_multi_byte i) && negb (Tables.is_multi_word i) && negb (text_eqb (mnem i) RMB_t) && negb (text_eqb (mnem i) ORG_t) &&
   Tables.is_pseudo i && negb (Tables.is_string_define i)).
Lemma define_rows : forallb define_row_ok Tables.instructions = true.
Proof. vm_compute. reflexivity. Qed.

Lemma resolve_stmt_define tb0 s s' : In (s_instr s) Tables.instructions -> Tables.is_pseudo_define (s_instr s) = true ->
  (exists str v, s_operand s = OPseudo str v) -> resolve_stmt tb0 s = Ok s' -> s_operand s' = s_operand s.
Proof.
  intros Hin Hd (str & v & Eo) H. pose proof define_rows as Hall. rewrite forallb_forall in Hall. specialize (Hall _ Hin).
  unfold define_row_ok in Hall. rewrite Hd in Hall. cbn [negb orb] in Hall.
  repeat (apply andb_true_iff in Hall as [Hall ?]). repeat match goal with Hx : negb _ = true |- _ => apply negb_true_iff in Hx end.
  unfold resolve_stmt in H. apply bind_ok in H as [o [Ho H]]. inversion H; subst s'. cbn [s_operand]. rewrite Eo in *.
  cbn [resolve_operand] in Ho.
  repeat match goal with Hx : _ = false |- _ => rewrite Hx in Ho end. cbn [orb andb bind] in Ho.
  cbn [as_translation_error] in Ho. congruence.
Qed.

Lemma translate_stmt_operand s s' : translate_stmt s = Ok s' -> s_operand s' = s_operand s.
Proof. unfold translate_stmt. intros H. apply bind_ok in H as [p [_ H]]. inversion H; subst. reflexivity. Qed.

(* a parsed statement: its mnemonic is a table row, and the operand of an EQU is a pseudo operand *)
Definition define_shape (s : stmt) : Prop :=
  in_table s /\ (Tables.is_pseudo_define (s_instr s) = true -> exists str v, s_operand s = OPseudo str v).

Lemma pseudo_operand_shape ops i o : pseudo_operand ops i = Ok o -> exists str v, o = OPseudo str v.
Proof.
  unfold pseudo_operand. intros H. apply bind_ok in H as [v [_ H]].
  repeat match type of H with
  | (if ?b then _ else _) = Ok _ => destruct b
  | bind _ _ = Ok _ => let x := fresh "x" in let Hx := fresh "Hx" in apply bind_ok in H as [x [Hx H]]
  end; inversion H; subst; eauto.
Qed.

Lemma parse_line_shape line st : parse_line line = Ok (Some st) -> define_shape st.
Proof.
  intros H. split; [exact (parse_line_instr _ _ H)|]. pose proof (parse_line_instr _ _ H) as Hin. unfold in_table in Hin.
  pose proof define_rows as Hall. rewrite forallb_forall in Hall. specialize (Hall _ Hin). unfold define_row_ok in Hall.
  intros Hd. rewrite Hd in Hall. cbn [negb orb] in Hall. repeat (apply andb_true_iff in Hall as [Hall ?]).
  repeat match goal with Hx : negb _ = true |- _ => apply negb_true_iff in Hx end.
  revert H. unfold parse_line.
  destruct (mem_c 10 _); [discriminate|]. destruct (all_c is_space line); [discriminate|].
  destruct (hd 0 (lstrip line) =? 59); [discriminate|].
  destruct (span is_labelch line) as [label r1]. destruct r1 as [|c1 r1']; [discriminate|].
  destruct (negb (is_space c1)); [discriminate|].
  destruct (span is_word _) as [mn r3]. destruct r3 as [|c2 r3']; [discriminate|].
  destruct (negb (is_space c2)); [discriminate|].
  destruct (find_instr (upper_t mn) Tables.instructions) as [j|] eqn:Ef; [|discriminate].
  destruct (Tables.is_string_define j) eqn:Esd.
  - destruct (rstrip _) as [|d rest]; [discriminate|]. destruct (find_from d rest 1); [|discriminate].
    destruct (create_operand _ j) eqn:Ec; try discriminate. intros H. inversion H; subst. cbn [s_instr mk_stmt] in *. congruence.
  - destruct (span is_opch _) as [ops rest]. intros H. apply bind_ok in H as [o [Ho H]]. inversion H; subst. cbn [s_instr s_operand mk_stmt] in *.
    destruct (create_operand ops j) eqn:Ec; try discriminate. cbn [as_parse_error] in Ho. inversion Ho; subst.
    unfold create_operand in Ec. match goal with Hx : Tables.is_pseudo j = true |- _ => rewrite Hx in Ec end.
    exact (pseudo_operand_shape _ _ _ Ec).
Qed.

Lemma parse_lines_shape : forall lines ss, parse_lines lines = Ok ss -> Forall define_shape ss.
Proof.
  induction lines as [|l r IH]; intros ss H; cbn [parse_lines] in H; [inversion H; constructor|].
  apply bind_ok in H as [s [Hs H]]. apply bind_ok in H as [rest [Hr H]]. inversion H; subst.
  destruct s as [st|]; [constructor; [eapply parse_line_shape; eauto | now apply IH] | now apply IH].
Qed.

Lemma expand_list_shape rec fm chain :
  (forall c inner r, Forall define_shape inner -> rec c inner = Ok r -> Forall define_shape r) ->
  forall ss r, Forall define_shape ss -> expand_list rec fm chain ss = Ok r -> Forall define_shape r.
Proof.
  intros Hrec. induction ss as [|s ss IH]; intros r Hin H; cbn [expand_list] in H; [inversion H; constructor|].
  inversion Hin as [|? ? Hs Hss]; subst. destruct (_ && _).
  - destruct (existsb (text_eqb (s_opstr s)) chain); [discriminate|]. destruct (lookup_file (s_opstr s) fm) as [ls|]; [|discriminate].
    apply bind_ok in H as [inner [Hp H]]. apply bind_ok in H as [inner' [Hr H]]. apply bind_ok in H as [rest [Hrest H]].
    inversion H; subst. apply Forall_app. split; [eapply Hrec; [|exact Hr]; eapply parse_lines_shape; eauto | now apply IH].
  - apply bind_ok in H as [rest [Hrest H]]. inversion H; subst. constructor; [exact Hs | now apply IH].
Qed.

Lemma expand_shape fm : forall fuel chain ss r, Forall define_shape ss -> expand fuel fm chain ss = Ok r -> Forall define_shape r.
Proof.
  induction fuel as [|f IH]; intros chain ss r Hin H; cbn [expand] in H.
  - eapply expand_list_shape; [|exact Hin|exact H]. intros; discriminate.
  - eapply expand_list_shape; [|exact Hin|exact H]. intros c inner r0 Hi Hr. eapply IH; eauto.
Qed.

Section Program.
Variables (fm : filemap) (parsed ss : list stmt) (tb : symtab).
Hypothesis Ht : translate_program fm parsed = Ok (ss, tb).
Hypothesis Hparsed : Forall define_shape parsed.

(* every label of the program is in the symbol table with the listing address of the statement it labels *)
Theorem label_names_its_statement k s : nth_error ss k = Some s -> s_label s <> [] ->
  Tables.is_pseudo_define (s_instr s) = false -> lookup (s_label s) tb = Some (cp_addr (s_pkg s)).
Proof.
  intros Hk Hl Hd. unfold translate_program in Ht.
  apply bind_ok in Ht as [ss0 [_ Ht1]]. apply bind_ok in Ht1 as [tb00 [Hsave Ht1]]. apply bind_ok in Ht1 as [tb0 [Hres Ht1]].
  apply bind_ok in Ht1 as [ss1 [H1 Ht1]]. apply bind_ok in Ht1 as [ss2 [H2 Ht1]].
  apply bind_ok in Ht1 as [ss3 [H3 Ht1]]. apply bind_ok in Ht1 as [ss4 [H4 Ht1]].
  apply bind_ok in Ht1 as [ss5 [H5 Ht1]]. apply bind_ok in Ht1 as [tbf [Hbp Ht1]]. inversion Ht1; subst ss5 tbf. clear Ht1.
  (* labels and mnemonics are carried through every pass, position by position *)
  assert (E : map (fun x => (s_label x, s_instr x)) ss = map (fun x => (s_label x, s_instr x)) ss0).
  { transitivity (map (fun x => (s_label x, s_instr x)) ss4).
    { eapply (Forall2_map_eq' rel_fix); [|eapply fix_all_rel; eauto]. intros a b (E1 & E2 & _). cbv beta. now rewrite E1, E2. }
    transitivity (map (fun x => (s_label x, s_instr x)) ss3).
    { eapply (placed_map (fun x => (s_label x, s_instr x))); [|eapply assign_placed; eauto]. intros a b (E1 & E2 & _). cbv beta. now rewrite E1, E2. }
    transitivity (map (fun x => (s_label x, s_instr x)) ss2).
    { eapply (Forall2_map_eq' rel_size); [|eapply size_loop_rel; eauto]. intros a b (E1 & E2 & _). cbv beta. now rewrite E1, E2. }
    transitivity (map (fun x => (s_label x, s_instr x)) ss1).
    { eapply (map_res_map_eq translate_stmt); [|exact H2]. intros a b Hab. destruct (translate_stmt_own _ _ Hab) as (E1 & E2 & _). cbv beta. now rewrite E1, E2. }
    eapply (map_res_map_eq (resolve_stmt tb0)); [|exact H1]. intros a b Hab. destruct (resolve_stmt_keeps _ _ _ Hab) as (E1 & E2). cbv beta. now rewrite E1, E2. }
  destruct (nth_map_eq _ _ _ _ _ E Hk) as (s0 & Hk0 & Es0). inversion Es0 as [[El Ei]].
  (* what save_symbol stored, what the later passes made of it *)
  assert (Hl0 : s_label s0 <> []) by now rewrite El.
  pose proof (save_symbols_lookup _ _ _ _ Hsave k s0 Hk0 Hl0) as Hsv. unfold saved_value in Hsv. rewrite Ei, Hd, N.add_0_l in Hsv.
  pose proof (resolve_defined_keeps _ _ _ Hres _ _ Hsv eq_refl) as Hrv.
  pose proof (backpatch_lookup ss _ _ Hbp _ _ Hrv) as Hb. cbv beta iota in Hb. destruct Hb as (t & Hn & Hlk).
  unfold nth_stmt in Hn. rewrite Nat2N.id, Hk in Hn. inversion Hn; subst t. congruence.
Qed.

(* an EQU symbol whose operand is a number is in the symbol table with that number *)
Theorem equ_constant_names_its_number k s str n : nth_error ss k = Some s -> s_label s <> [] ->
  Tables.is_pseudo_define (s_instr s) = true -> s_operand s = OPseudo str (VNum n) ->
  lookup (s_label s) tb = Some (VNum n).
Proof.
  intros Hk Hl Hd Hop. unfold translate_program in Ht.
  apply bind_ok in Ht as [ss0 [Hex Ht1]]. apply bind_ok in Ht1 as [tb00 [Hsave Ht1]]. apply bind_ok in Ht1 as [tb0 [Hres Ht1]].
  apply bind_ok in Ht1 as [ss1 [H1 Ht1]]. apply bind_ok in Ht1 as [ss2 [H2 Ht1]].
  apply bind_ok in Ht1 as [ss3 [H3 Ht1]]. apply bind_ok in Ht1 as [ss4 [H4 Ht1]].
  apply bind_ok in Ht1 as [ss5 [H5 Ht1]]. apply bind_ok in Ht1 as [tbf [Hbp Ht1]]. inversion Ht1; subst ss5 tbf. clear Ht1.
  set (g := fun x : stmt => (s_label x, s_instr x, s_operand x)).
  assert (E1 : map g ss = map g ss1).
  { transitivity (map g ss4).
    { eapply (Forall2_map_eq' rel_fix); [|eapply fix_all_rel; eauto]. intros a b (A1 & A2 & A3 & _). unfold g. now rewrite A1, A2, A3. }
    transitivity (map g ss3).
    { eapply (placed_map g); [|eapply assign_placed; eauto]. intros a b (A1 & A2 & A3 & _). unfold g. now rewrite A1, A2, A3. }
    transitivity (map g ss2).
    { eapply (Forall2_map_eq' rel_size); [|eapply size_loop_rel; eauto]. intros a b (A1 & A2 & A3 & _). unfold g. now rewrite A1, A2, A3. }
    eapply (map_res_map_eq translate_stmt); [|exact H2]. intros a b Hab. destruct (translate_stmt_own _ _ Hab) as (A1 & A2 & _).
    unfold g. now rewrite A1, A2, (translate_stmt_operand _ _ Hab). }
  destruct (nth_map_eq _ _ _ _ _ E1 Hk) as (s1 & Hk1 & Es1). unfold g in Es1. inversion Es1 as [[El1 Ei1 Eo1]].
  (* the resolve pass: position by position; an EQU operand is left alone *)
  destruct (map_res_spec _ _ _ H1) as [Hlen Hnth].
  assert (Hs0 : exists s0, nth_error ss0 k = Some s0).
  { destruct (nth_error ss0 k) eqn:En; [eauto|]. apply nth_error_None in En.
    assert (k < length ss1)%nat by (apply nth_error_Some; congruence). lia. }
  destruct Hs0 as [s0 Hk0]. destruct (Hnth _ _ Hk0) as (s1' & Hk1' & Hr). rewrite Hk1 in Hk1'. inversion Hk1'; subst s1'.
  destruct (resolve_stmt_keeps _ _ _ Hr) as (Ei0 & El0).
  assert (S0 : Forall define_shape ss0) by (eapply expand_shape; [exact Hparsed | exact Hex]).
  rewrite Forall_forall in S0. destruct (S0 s0 (nth_error_In _ _ Hk0)) as [Hin0 Hshape0]. unfold in_table in Hin0.
  assert (Hd0 : Tables.is_pseudo_define (s_instr s0) = true) by congruence.
  pose proof (Hshape0 Hd0) as Hop0.
  pose proof (resolve_stmt_define tb0 s0 s1 Hin0 Hd0 Hop0 Hr) as Eo0.
  assert (Hl0 : s_label s0 <> []) by congruence.
  pose proof (save_symbols_lookup _ _ _ _ Hsave k s0 Hk0 Hl0) as Hsv. unfold saved_value in Hsv. rewrite Hd0 in Hsv.
  assert (Eop : s_operand s0 = OPseudo str (VNum n)) by congruence. rewrite Eop in Hsv.
  pose proof (resolve_defined_keeps _ _ _ Hres _ _ Hsv eq_refl) as Hrv.
  pose proof (backpatch_lookup ss _ _ Hbp _ _ Hrv) as Hb. cbv beta iota in Hb. congruence.
Qed.
End Program.
