(* PNoCrash.v — no input makes the assembler end in an uncaught exception (property C13, the later passes).
   For EVERY file map and EVERY source: MProgram.assemble never returns Internal k.  Every site of the model
   that stands for an exception class the tool does not translate (IndexError on a statement index, on a
   post-byte choice or on a hex string that is too short; AttributeError on the None that SymbolValue.resolve
   can return) is shown unreachable by invariants carried from parsing to emission:
     - every statement index stored in a value is below the number of statements,
     - a value is never Python None where it is dereferenced,
     - a statement the size loop still has to decide offers two post-byte choices,
     - every value that is emitted renders to at least as many hex digits as the emission loop reads. *)
From V Require Import Base.
From V.model Require Import MText MValues MOperands MProgram.
From V.proofs Require Import PLayout PFrames PClean PContig PC02.
From V.gen Require Tables.
From Coq Require Import ZifyNat ZifyN ZifyBool.
Local Open Scope N_scope.
Ltac Zify.zify_post_hook ::= Z.div_mod_to_equations.

(* ====================================================================================================== *)
(* 1. outcomes                                                                                              *)
(* ====================================================================================================== *)
Definition no_int {A} (r : res A) : Prop := match r with Internal _ => False | _ => True end.

Lemma no_int_bind {A B} (r : res A) (k : A -> res B) :
  no_int r -> (forall a, r = Ok a -> no_int (k a)) -> no_int (bind r k).
Proof. destruct r; cbn; auto. Qed.

Lemma benign_no_int {A} (r : res A) : benign r -> no_int r.
Proof. destruct r; cbn; auto. Qed.

Lemma no_int_as_te {A} (r : res A) : no_int r -> no_int (as_translation_error r).
Proof. destruct r; cbn; auto. Qed.

Ltac ni_step :=
  match goal with
  | |- no_int (Ok _) => exact I
  | |- no_int (Diag _) => exact I
  | |- no_int OTE => exact I
  | |- no_int VTE => exact I
  | |- no_int OutOfFuel => exact I
  | |- no_int Unmodelled => exact I
  | |- no_int (bind _ _) => apply no_int_bind; [|intros ? ?]
  | |- no_int (as_translation_error _) => apply no_int_as_te
  | |- no_int (if ?b then _ else _) => destruct b eqn:?
  | |- no_int (match ?x with _ => _ end) => destruct x eqn:?
  | |- no_int (let '(_, _) := ?x in _) => destruct x eqn:?
  end.
Ltac ni_tac := repeat ni_step.

Lemma num_of_int_ni neg mag p m : no_int (num_of_int neg mag p m).
Proof. apply benign_no_int, num_of_int_benign. Qed.
Lemma num_of_Z_ni z p m : no_int (num_of_Z z p m).
Proof. apply benign_no_int, num_of_Z_benign. Qed.
Lemma numv_ni v : no_int (numv v). Proof. apply benign_no_int, numv_benign. Qed.
Lemma numv_h_ni v h : no_int (numv_h v h).
Proof. unfold numv_h. apply no_int_bind; [apply num_of_int_ni | intros; exact I]. Qed.
Lemma fit_value_ni v d sg : no_int (fit_value v d sg).
Proof. unfold fit_value. destruct (_ || _); [exact I|]. apply no_int_bind; [apply num_of_Z_ni | intros; exact I]. Qed.
#[export] Hint Resolve num_of_int_ni num_of_Z_ni numv_ni numv_h_ni fit_value_ni : ni.

(* ====================================================================================================== *)
(* 2. values: statement indices are in range, None is never a term                                          *)
(* ====================================================================================================== *)
(* a term of an expression *)
Fixpoint tok (n : N) (t : value) : Prop :=
  match t with
  | VPyNone => False
  | VAddr k => k < n
  | VExpr l _ r _ true => tok n l /\ tok n r          (* a term may itself be label arithmetic (repair F56) *)
  | _ => True
  end.
(* the size hint of a number is even (2, 4, twice a byte count) or absent: its rendering has as many digits as
   the emission loop reads *)
Definition hint_ok (o : option N) : Prop := match o with Some h => N.even h = true | None => True end.
(* a value: indices in range, no None, and a rendering the emission loop can read *)
Definition vok (n : N) (v : value) : Prop :=
  match v with
  | VPyNone => False
  | VAddr k => k < n
  | VExpr l _ r _ _ => tok n l /\ tok n r
  | VNum x => hint_ok (n_hint x)
  | VStr s => forallb (fun c => c <? 256) s = true
  | VMulti h => Nat.even (length h) = true
  | _ => True
  end.

Lemma vok_tok n v : vok n v -> tok n v.
Proof. destruct v; cbn; auto. destruct addr; auto. Qed.

Lemma tok_mono n m : n <= m -> forall v, tok n v -> tok m v.
Proof.
  intros Hle. fix IH 1. intros v. destruct v; cbn; try tauto; try lia.
  destruct addr; [|tauto]. intros [H1 H2]. split; apply IH; assumption.
Qed.

Lemma vok_mono n m v : n <= m -> vok n v -> vok m v.
Proof.
  intros Hle. destruct v; cbn; try tauto; try lia.
  intros [H1 H2]. split; eapply tok_mono; eauto.
Qed.

(* what the parser builds contains neither None nor a statement index *)
Definition pure_val (v : value) : Prop :=
  match v with
  | VPyNone | VAddr _ => False
  | VExpr l _ r _ _ => (match l with VNum _ | VSym _ _ => True | _ => False end) /\
                       (match r with VNum _ | VSym _ _ => True | _ => False end)
  | VNum x => hint_ok (n_hint x)
  | VStr s => forallb (fun c => c <? 256) s = true
  | VMulti h => Nat.even (length h) = true
  | _ => True
  end.

Lemma init_hint_ok p m : hint_ok p -> hint_ok (init_hint p m).
Proof. unfold init_hint. destruct (is_ext_mode m); [reflexivity | auto]. Qed.
Lemma post_init_ok i h m : hint_ok h -> hint_ok (fst (post_init i h m)).
Proof.
  unfold post_init. destruct h as [x|]; cbn [fst]; [auto|]. intros _.
  destruct (mode_eqb m MExplExtended); cbn [fst]; [exact I|]. destruct (_ && _); cbn [fst]; [reflexivity | exact I].
Qed.
Lemma num_of_int_hint neg mag p m x : hint_ok p -> num_of_int neg mag p m = Ok x -> hint_ok (n_hint x).
Proof.
  unfold num_of_int. intros Hp. destruct (negb neg && _); [discriminate|].
  pose proof (post_init_ok mag (init_hint p m) m (init_hint_ok p m Hp)) as H. destruct (post_init _ _ _) as [h m'].
  intros E. inversion E; subst. exact H.
Qed.
Lemma num_of_Z_hint z p m x : hint_ok p -> num_of_Z z p m = Ok x -> hint_ok (n_hint x).
Proof. apply num_of_int_hint. Qed.
Lemma num_of_result_hint z m x : num_of_result z m = Ok x -> hint_ok (n_hint x).
Proof.
  unfold num_of_result. pose proof (init_hint_ok None m I) as H0. destruct (z <? 0)%Z.
  - destruct (32768 <? _); [discriminate|]. intros E. inversion E; subst. exact H0.
  - destruct (65535 <? _); [discriminate|]. pose proof (post_init_ok (Z.to_N z) _ m H0) as H. destruct (post_init _ _ _).
    intros E. inversion E; subst. exact H.
Qed.
Lemma num_of_text_hint t p m x : hint_ok p -> num_of_text t p m = Ok x -> hint_ok (n_hint x).
Proof.
  intros Hp. pose proof (init_hint_ok p m Hp) as H0. unfold num_of_text. destruct t as [|c0 ds]; [discriminate|].
  repeat match goal with
  | |- (if ?b then _ else _) = Ok _ -> _ => destruct b
  | |- (let '(_, _) := ?y in _) = Ok _ -> _ => destruct y eqn:?
  end; try discriminate; intros E; inversion E; subst; cbn [n_hint]; try exact H0; try reflexivity.
  all: try (destruct (init_hint p m); [exact H0 | reflexivity]).
  all: try (match goal with Hq : (if ?b then _ else _) = (_, _) |- _ => destruct b; inversion Hq; subst; [reflexivity | exact H0] end).
  all: try (match goal with Hq : post_init ?a ?b ?c = (?h, _) |- hint_ok ?h => pose proof (post_init_ok a b c H0) as Hx; rewrite Hq in Hx; exact Hx end).
Qed.

Lemma pure_vok n v : pure_val v -> vok n v.
Proof.
  destruct v; cbn; try tauto. intros [H1 H2]. split; [destruct v1 | destruct v2]; cbn; try tauto.
Qed.

Lemma atom_pure t v : atom_of_text t = Ok v -> match v with VNum _ | VSym _ _ => True | _ => False end.
Proof.
  unfold atom_of_text. destruct t; [discriminate|]. destruct (mem_c 44 _); [discriminate|].
  destruct (num_of_text _ None MNone); intros H; try (destruct (all_c is_symch _); inversion H; subst; exact I).
  inversion H; subst; exact I.
Qed.

Lemma expr_pure t m v : expr_of_text t m = Ok v -> pure_val v.
Proof.
  unfold expr_of_text. destruct (split_expr t) as [[[l op] r]|]; [|discriminate]. intros H.
  apply bind_ok in H as [lv [Hl H]]. apply bind_ok in H as [rv [Hr H]]. inversion H; subst. cbn.
  split; [eapply atom_pure; eauto | eapply atom_pure; eauto].
Qed.

Lemma forallb_rev {A} (f : A -> bool) l : forallb f (rev l) = forallb f l.
Proof.
  induction l as [|x l IH]; [reflexivity|]. cbn [rev forallb]. rewrite forallb_app, IH. cbn [forallb].
  rewrite andb_true_r. apply andb_comm.
Qed.

Lemma value_of_text_pure t sd i16 de v : value_of_text t sd i16 de = Ok v -> pure_val v.
Proof.
  unfold value_of_text. destruct t as [|c0 rest]; [discriminate|].
  destruct (if sd then _ else None) as [sv|] eqn:Es.
  - intros H. inversion H; subst. destruct sd; [|discriminate]. destruct (rev rest); [inversion Es; subst; reflexivity|].
    destruct (n =? c0); cbn [andb] in Es; [|discriminate]. destruct (forallb _ l) eqn:Ef; inversion Es; subst.
    cbn. now rewrite forallb_rev.
  - destruct (if c0 =? 60 then _ else _) as [m t'].
    unfold ok_or. destruct (expr_of_text t' m) eqn:E1; try (intros H; inversion H; subst; eapply expr_pure; eauto; fail).
    all: destruct (lr_of_text t' m) eqn:E2;
      try (intros H; inversion H; subst; unfold lr_of_text in E2; destruct (split_on 44 t') as [|? [|? [|? ?]]]; inversion E2; subst; exact I; fail).
    all: destruct (num_of_text t' _ m) eqn:E3; cbn [bind];
      try (intros H; inversion H; subst; cbn; eapply num_of_text_hint; [|exact E3]; destruct i16; [reflexivity | exact I]).
    all: destruct (_ && _); intros H; inversion H; subst; exact I.
Qed.

Lemma create_value_pure t i de v : create_value t i de = Ok v -> pure_val v.
Proof. apply value_of_text_pure. Qed.

(* ---------- the symbol table ---------- *)
Definition tb_ok (n : N) (tb : symtab) : Prop := Forall (fun kv => vok n (snd kv)) tb.

Lemma lookup_ok n s tb v : tb_ok n tb -> lookup s tb = Some v -> vok n v.
Proof.
  intros H. induction tb as [|[k x] tb IH]; cbn; [discriminate|]. inversion H; subst.
  destruct (text_eqb k s); [intros E; inversion E; subst; assumption | auto].
Qed.

Lemma get_symbol_ok n s tb v : tb_ok n tb -> get_symbol s tb = Ok v -> vok n v.
Proof. unfold get_symbol. intros H. destruct (lookup s tb) eqn:E; [|discriminate]. intros X; inversion X; subst. eapply lookup_ok; eauto. Qed.

Lemma get_symbol_ni s tb : no_int (get_symbol s tb).
Proof. unfold get_symbol. destruct (lookup s tb); exact I. Qed.

(* resolution: the result is None (a symbol that is neither a number nor an address) or a value in range;
   it is never an uncaught exception *)
Definition vokw (n : N) (v : value) : Prop := v = VPyNone \/ vok n v.

Lemma resolve_symbol_ok n s tb v : tb_ok n tb -> resolve_symbol s tb = Ok v -> vokw n v.
Proof.
  unfold resolve_symbol. intros Ht H. apply bind_ok in H as [sv [Hs H]]. pose proof (get_symbol_ok _ _ _ _ Ht Hs) as Hv.
  destruct sv; try (inversion H; subst; now left).
  - apply bind_ok in H as [n' [Hn H]]. inversion H; subst. right. cbn. eapply num_of_int_hint; [|exact Hn]. exact I.
  - inversion H; subst. right. exact Hv.
  - destruct addr; inversion H; subst; [right; exact Hv | now left].
Qed.

Lemma resolve_expr_ok n l op r m tb v : tb_ok n tb -> tok n l -> tok n r -> resolve_expr l op r m tb = Ok v -> vok n v.
Proof.
  unfold resolve_expr. intros Ht Hl Hr H. apply bind_ok in H as [l' [El H]]. apply bind_ok in H as [r' [Er H]].
  assert (Hl' : tok n l').
  { destruct l; try (inversion El; subst; exact Hl). apply vok_tok. eapply get_symbol_ok; eauto. }
  assert (Hr' : tok n r').
  { destruct r; try (inversion Er; subst; exact Hr). apply vok_tok. eapply get_symbol_ok; eauto. }
  destruct l'; try contradiction; destruct r'; try contradiction; cbn [v_is_numeric v_is_address andb orb] in H;
    try discriminate; try (inversion H; subst; cbn; auto; fail);
    try (apply bind_ok in H as [z [_ H]]; apply bind_ok in H as [nn [Hnn H]]; inversion H; subst; cbn; eapply num_of_result_hint; eauto).
Qed.

Lemma resolve_value_ok n v tb v' : tb_ok n tb -> vok n v -> resolve_value v tb = Ok v' -> vokw n v'.
Proof.
  intros Ht Hv H. destruct v; try contradiction; cbn [resolve_value] in H; try (inversion H; subst; right; exact Hv).
  - eapply resolve_symbol_ok; eauto.
  - right. destruct Hv as [H1 H2]. exact (resolve_expr_ok n v1 op v2 m tb v' Ht H1 H2 H).
Qed.

Lemma expr_arith_ni op a b : no_int (expr_arith op a b).
Proof. unfold expr_arith. ni_tac. Qed.
Lemma num_of_result_ni z m : no_int (num_of_result z m).
Proof. unfold num_of_result. ni_tac. Qed.

Lemma resolve_value_ni v tb : no_int (resolve_value v tb).
Proof.
  destruct v; cbn [resolve_value]; try exact I.
  - unfold resolve_symbol. apply no_int_bind; [apply get_symbol_ni|]. intros sv _. destruct sv; try exact I.
    + apply no_int_bind; [apply num_of_int_ni | intros; exact I].
    + destruct addr; exact I.
  - unfold resolve_expr. apply no_int_bind; [destruct v1; try exact I; apply get_symbol_ni|]. intros l' _.
    apply no_int_bind; [destruct v2; try exact I; apply get_symbol_ni|]. intros r' _.
    destruct l'; try exact I; destruct r'; try exact I; cbn [v_is_numeric v_is_address andb orb]; try exact I;
      apply no_int_bind; [apply expr_arith_ni | intros; apply no_int_bind; [apply num_of_result_ni | intros; exact I]].
Qed.

(* the error classes resolution can end in *)
Lemma resolve_value_diag n v tb c : tb_ok n tb -> vok n v -> resolve_value v tb = Diag c -> c = 20 \/ c = 22 \/ c = 23.
Proof.
  intros Ht Hv H. destruct v; cbn [resolve_value] in H; try discriminate.
  - unfold resolve_symbol, get_symbol in H. destruct (lookup name tb) as [sv|] eqn:E; [|inversion H; auto].
    cbn [bind] in H. destruct sv; try discriminate.
    + unfold num_of_int in H. destruct (negb _ && _); [inversion H; auto|]. destruct (post_init _ _ _); discriminate.
    + destruct addr; discriminate.
  - destruct Hv as [H1 H2]. unfold resolve_expr in H.
    destruct (match v1 with VSym s _ => get_symbol s tb | _ => Ok v1 end) as [l'| | | |] eqn:El; cbn [bind] in H; try discriminate.
    2:{ destruct v1; try discriminate. unfold get_symbol in El. destruct (lookup name tb); inversion El; subst. inversion H; auto. }
    destruct (match v2 with VSym s _ => get_symbol s tb | _ => Ok v2 end) as [r'| | | |] eqn:Er; cbn [bind] in H; try discriminate.
    2:{ destruct v2; try discriminate. unfold get_symbol in Er. destruct (lookup name tb); inversion Er; subst. inversion H; auto. }
    assert (Hl' : tok n l') by (destruct v1; try (inversion El; subst; exact H1); apply vok_tok; eapply get_symbol_ok; eauto).
    assert (Hr' : tok n r') by (destruct v2; try (inversion Er; subst; exact H2); apply vok_tok; eapply get_symbol_ok; eauto).
    destruct l'; try contradiction; destruct r'; try contradiction; cbn [v_is_numeric v_is_address andb orb] in H;
      try (inversion H; auto; fail);
      try (unfold expr_arith in H; repeat match type of H with context [if ?b then _ else _] => destruct b end; cbn [bind] in H;
           try (inversion H; auto; fail);
           unfold num_of_result in H; repeat match type of H with context [if ?b then _ else _] => destruct b end;
           try destruct (post_init _ _ _); cbn [bind] in H; try (inversion H; auto; fail); discriminate).
Qed.

(* ====================================================================================================== *)
(* 3. emission: a value in shape renders to at least as many hex digits as the emission loop reads         *)
(* ====================================================================================================== *)
Lemma emit_pairs_ni : forall k h, (2 * k <= length h)%nat -> no_int (emit_pairs k h).
Proof.
  induction k as [|k IH]; intros h H; cbn [emit_pairs]; [exact I|].
  destruct h as [|a [|b r]]; cbn [length] in H; try lia.
  apply no_int_bind; [apply IH; cbn [length] in H; lia | intros; exact I].
Qed.

Lemma fmt_hex_length w x : (w <= length (fmt_hex w x))%nat.
Proof. unfold fmt_hex. rewrite app_length, repeat_length. lia. Qed.

Lemma even_up_spec n : Nat.even (even_up n) = true /\ (n <= even_up n)%nat.
Proof.
  unfold even_up. destruct (Nat.even n) eqn:E; [split; [exact E | lia]|]. split; [|lia].
  rewrite Nat.even_succ. rewrite <- Nat.negb_even, E. reflexivity.
Qed.

Lemma even_half n : Nat.even n = true -> (2 * ((n + 1) / 2) = n)%nat.
Proof. intros H. apply Nat.even_spec in H as [k ->]. replace (2 * k + 1)%nat with (1 + k * 2)%nat by lia. rewrite Nat.div_add by lia. cbn. lia. Qed.

Lemma N_even_nat h : N.even h = true -> Nat.even (N.to_nat h) = true.
Proof.
  intros H. apply N.even_spec in H as [k ->]. rewrite N2Nat.inj_mul. apply Nat.even_spec. exists (N.to_nat k). reflexivity.
Qed.

Lemma fmt2_concat_length : forall s, forallb (fun c => c <? 256) s = true -> length (concat (map (fmt_hex 2) s)) = (2 * length s)%nat.
Proof.
  induction s as [|c s IH]; intros H; [reflexivity|]. cbn [forallb] in H. apply andb_true_iff in H as [Hc Hs].
  cbn [map concat length]. rewrite app_length, (IH Hs). apply N.ltb_lt in Hc.
  assert (E : length (fmt_hex 2 c) = 2%nat).
  { unfold fmt_hex. rewrite app_length, repeat_length. unfold hexdigits. cbn [hexdigits_aux].
    destruct (c <? 16) eqn:E1; [cbn; lia|]. apply N.ltb_ge in E1.
    assert (E2 : c / 16 <? 16 = true) by (apply N.ltb_lt; lia). rewrite E2. cbn. lia. }
  rewrite E. lia.
Qed.

Theorem emit_value_ni n v : vok n v -> no_int (emit_value v).
Proof.
  intros Hv. destruct v; try contradiction; unfold emit_value; try exact I.
  - (* a number *)
    cbn [vok] in Hv. unfold v_hex, v_hex_len, num_hex, num_hex_len.
    destruct (n_hint n0) as [h|] eqn:Eh; cbn [hint_ok] in Hv.
    + destruct (N.eqb_spec h 0) as [->|Hne].
      * cbn [negb andb N.to_nat Nat.eqb Nat.add Nat.div]. change ((0 + 1) / 2)%nat with 0%nat.
        repeat match goal with |- no_int (match (if ?b then _ else _) with _ => _ end) => destruct b end; exact I.
      * cbn [negb andb Nat.eqb]. assert (E0 : Nat.eqb (N.to_nat h) 0 = false) by (apply Nat.eqb_neq; lia). rewrite E0.
        pose proof (N_even_nat h Hv) as Hev. pose proof (even_half _ Hev) as Hh.
        repeat match goal with |- no_int (match (if ?b then _ else _) with _ => _ end) => destruct b end; try exact I;
          apply emit_pairs_ni; pose proof (fmt_hex_length (N.to_nat h)) as L;
          match goal with |- context [fmt_hex (N.to_nat h) ?x] => specialize (L x) end; lia.
    + cbn [Nat.eqb]. set (L := length (hexdigits (n_int n0))). destruct (even_up_spec L) as [Ee Hle].
      destruct (even_up_spec (even_up L)) as [Ee2 Hle2]. pose proof (even_half _ Ee) as Hh.
      repeat match goal with |- no_int (match (if ?b then _ else _) with _ => _ end) => destruct b end; try exact I;
        apply emit_pairs_ni; pose proof (fmt_hex_length (even_up (even_up L))) as LL;
        match goal with |- context [fmt_hex (even_up (even_up L)) ?x] => specialize (LL x) end; lia.
  - (* an address *)
    cbn [v_hex v_hex_len]. set (L := length (hexdigits idx)). destruct (even_up_spec L) as [Ee Hle].
    apply emit_pairs_ni. pose proof (fmt_hex_length (even_up L) idx) as LL.
    assert ((2 * ((L + 1) / 2) <= even_up L)%nat).
    { unfold even_up in *. destruct (Nat.even L) eqn:E; [rewrite (even_half _ E); lia|].
      assert (Nat.even (S L) = true) by (rewrite Nat.even_succ, <- Nat.negb_even, E; reflexivity).
      pose proof (even_half _ H). replace (S L + 1)%nat with (L + 1 + 1)%nat in H0 by lia.
      assert ((L + 1) / 2 <= (L + 1 + 1) / 2)%nat by (apply Nat.div_le_mono; lia). lia. }
    lia.
  - (* a string *)
    cbn [vok] in Hv. cbn [v_hex v_hex_len]. rewrite (fmt2_concat_length _ Hv).
    apply emit_pairs_ni. rewrite (fmt2_concat_length _ Hv).
    replace ((2 * length s + 1) / 2)%nat with (length s); [lia|]. apply Nat.div_unique with 1%nat; lia.
  - (* a value list *)
    cbn [vok] in Hv. cbn [v_hex v_hex_len]. apply emit_pairs_ni. rewrite (even_half _ Hv). lia.
Qed.

(* ====================================================================================================== *)
(* 4. operands                                                                                              *)
(* ====================================================================================================== *)
Definition sok (n : N) (l : side) : Prop := match l with LVal v => vok n v | LStr _ => True end.

(* as parsed *)
Definition ook (n : N) (o : operand) : Prop :=
  match o with
  | OPseudo _ v | ORelative v | OImmediate v | ODirect v | OExtended v | OUnknown v => vok n v
  | OExtIdx _ v l _ => vok n v /\ sok n l
  | OIndexed _ l _ => sok n l
  | OSpecial _ | OInherent => True
  end.

Lemma multi_hex_even w : Nat.even w = true -> forall parts h, multi_hex w parts = Ok h -> multi_fits w parts = true ->
  Nat.even (length h) = true.
Proof.
  intros Hw. induction parts as [|p r IH]; intros h H Hf; cbn [multi_hex multi_fits] in *; [inversion H; reflexivity|].
  destruct p as [|c p']; [now apply IH|].
  destruct (num_of_text (c :: p') None MNone) as [x| | | |]; cbn [bind] in H; try discriminate.
  destruct (num_hex x w) as [hx|]; [|discriminate]. apply bind_ok in H as [rest [Hr H]]. inversion H; subst.
  apply andb_true_iff in Hf as [Hl Hf]. apply Nat.eqb_eq in Hl. rewrite app_length, Hl.
  rewrite Nat.even_add, Hw, (IH _ Hr Hf). reflexivity.
Qed.

Lemma multi_value_vok n w s v : Nat.even w = true -> multi_value w s = Ok v -> vok n v.
Proof.
  intros Hw. unfold multi_value. intros H. apply bind_ok in H as [h [Hh H]].
  destruct (multi_fits w (split_on 44 s)) eqn:Ef; [|discriminate]. inversion H; subst. cbn. eapply multi_hex_even; eauto.
Qed.

Lemma pseudo_operand_ook n s i o : pseudo_operand s i = Ok o -> ook n o.
Proof.
  unfold pseudo_operand. intros H. apply bind_ok in H as [v [Hv H]].
  assert (Hok : vok n v).
  { destruct (_ && _) in Hv; [eapply multi_value_vok; [|exact Hv]; reflexivity|].
    destruct (_ && _) in Hv; [eapply multi_value_vok; [|exact Hv]; reflexivity|].
    destruct (_ && _) in Hv; [inversion Hv; subst; exact I|]. apply pure_vok. eapply create_value_pure; eauto. }
  destruct (_ && _) in H; [|inversion H; subst; exact Hok].
  destruct (_ && _) in H.
  - apply bind_ok in H as [x [Hx H]]. inversion H; subst. cbn. eapply num_of_int_hint; [|exact Hx]. exact I.
  - destruct (Nat.eqb _ 2).
    + apply bind_ok in H as [x [Hx H]]. inversion H; subst. cbn. eapply num_of_int_hint; [|exact Hx]. exact I.
    + inversion H; subst. exact Hok.
Qed.

Lemma next_if_ote_ok {A} (r k : res A) a : next_if_ote r k = Ok a -> r = Ok a \/ k = Ok a.
Proof.
  unfold next_if_ote. intros H. destruct r as [x|c|c| |]; try discriminate; auto.
  destruct c as [|p]; [discriminate|].
  do 5 (try (destruct p as [p|p|]; try discriminate; try (right; exact H))).
Qed.
Lemma vte_to_ote_ok {A} (r : res A) a : vte_to_ote r = Ok a -> r = Ok a.
Proof.
  unfold vte_to_ote. intros H. destruct r as [x|c|c| |]; try discriminate; auto.
  destruct c as [|p]; [discriminate|].
  do 5 (try (destruct p as [p|p|]; try discriminate)).
Qed.

Lemma create_operand_ook n s i o : create_operand s i = Ok o -> ook n o.
Proof.
  unfold create_operand. destruct (Tables.is_pseudo i); [apply pseudo_operand_ook|].
  destruct (Tables.is_special i); [intros H; inversion H; subst; exact I|].
  destruct (_ && _).
  { intros H. apply bind_ok in H as [v [Hv H]]. inversion H; subst. cbn. apply pure_vok. eapply create_value_pure; eauto. }
  destruct s as [|c s']; [intros H; inversion H; subst; exact I|].
  intros H. apply next_if_ote_ok in H as [H | H].
  - destruct (_ && _) in H; [|discriminate]. apply vte_to_ote_ok in H. apply bind_ok in H as [v [Hv H]].
    pose proof (pure_vok n v (create_value_pure _ _ _ _ Hv)) as Hok.
    destruct v; inversion H; subst; cbn; auto.
  - apply next_if_ote_ok in H as [H | H].
    + apply vte_to_ote_ok in H. apply bind_ok in H as [v [Hv H]]. destruct v; try discriminate. inversion H; subst. exact I.
    + apply next_if_ote_ok in H as [H | H]; apply vte_to_ote_ok in H; apply bind_ok in H as [v [Hv H]];
        pose proof (pure_vok n v (create_value_pure _ _ _ _ Hv)) as Hok.
      * destruct (mode_eqb _ _); inversion H; subst. exact Hok.
      * inversion H; subst. exact Hok.
Qed.

(* ---------- resolve_symbols ---------- *)
Lemma create_value_ni t i de : no_int (create_value t i de).
Proof. apply benign_no_int, create_value_benign. Qed.

Lemma resolve_left_ni l i tb : no_int (resolve_left l i tb).
Proof.
  unfold resolve_left. destruct l as [t|v0]; [|exact I]. destruct (_ || _); [exact I|].
  apply no_int_bind; [apply create_value_ni|]. intros v _.
  apply no_int_bind; [destruct (v_is_symbol v); [apply resolve_value_ni | exact I]|]. intros v1 _.
  destruct v1; try exact I; (apply no_int_bind; [destruct (_ || _); [apply resolve_value_ni | exact I] | intros; exact I]).
Qed.

Lemma resolve_left_sok n l i tb l' : tb_ok n tb -> sok n l -> resolve_left l i tb = Ok l' -> sok n l'.
Proof.
  intros Ht Hl. unfold resolve_left. destruct l as [t|v]; [|intros H; inversion H; subst; exact Hl].
  destruct (_ || _); [intros H; inversion H; subst; exact I|]. intros H.
  apply bind_ok in H as [v [Hv H]]. apply bind_ok in H as [v1 [Hv1 H]].
  pose proof (pure_vok n v (create_value_pure _ _ _ _ Hv)) as Hok.
  assert (H1 : vokw n v1).
  { destruct (v_is_symbol v); [eapply resolve_value_ok; eauto | inversion Hv1; subst; now right]. }
  destruct H1 as [-> | H1]; [discriminate|].
  assert (Hgoal : forall v2, (if v_is_addr_expr v1 || v_is_expr v1 then resolve_value v1 tb else Ok v1) = Ok v2 -> vok n v2).
  { intros v2 E. destruct (_ || _) eqn:Eb.
    - destruct v1; cbn in Eb; try discriminate. destruct H1 as [A B]. cbn [resolve_value] in E. exact (resolve_expr_ok n _ _ _ _ tb v2 Ht A B E).
    - inversion E; subst. exact H1. }
  destruct v1; try contradiction; apply bind_ok in H as [v2 [E2 H]]; inversion H; subst; cbn; apply Hgoal; exact E2.
Qed.

(* after resolve_symbols: a value may be None only where translate() looks before it dereferences *)
Definition is_data_name (i : irow) : bool := text_eqb (mnem i) FCB_t || text_eqb (mnem i) FDB_t.

Definition rok (n : N) (i : irow) (o : operand) : Prop :=
  match o with
  | OPseudo _ v => if is_data_name i then vokw n v else vok n v
  | ORelative v | OImmediate v | ODirect v | OExtended v => vokw n v
  | OUnknown _ => False          (* resolve_symbols turns it into a direct or an extended operand *)
  | OExtIdx _ v l _ => vokw n v /\ sok n l
  | OIndexed _ l _ => sok n l
  | OSpecial _ | OInherent => True
  end.

(* the data flags of the regenerated table belong to FCB and FDB *)
Definition data_row_ok (i : irow) : bool :=
  implb (Tables.is_multi_byte i || Tables.is_multi_word i) (is_data_name i).
Lemma data_rows : forallb data_row_ok Tables.instructions = true.
Proof. vm_compute. reflexivity. Qed.

Lemma resolve_operand_ni o i tb : no_int (resolve_operand o i tb).
Proof.
  destruct o; cbn [resolve_operand]; try exact I.
  - apply no_int_bind; [destruct (_ && _); [apply resolve_value_ni | exact I]|]. intros v' _.
    destruct (_ || _); [destruct v'; try exact I; destruct (_ || _); exact I | exact I].
  - apply no_int_bind; [apply resolve_value_ni | intros; exact I].
  - destruct (_ && _); (apply no_int_bind; [first [apply resolve_value_ni | apply resolve_left_ni] | intros; exact I]).
  - apply no_int_bind; [apply resolve_left_ni | intros; exact I].
  - apply no_int_bind; [apply resolve_value_ni | intros; exact I].
  - apply no_int_bind; [apply resolve_value_ni|]. intros v' _. destruct v'; try exact I; destruct (_ || _); exact I.
Qed.

Lemma resolve_operand_rok n o i tb o' : In i Tables.instructions -> tb_ok n tb -> ook n o ->
  resolve_operand o i tb = Ok o' -> rok n i o'.
Proof.
  intros Hin Ht Ho H. destruct o; cbn [resolve_operand] in H; try (inversion H; subst; cbn in *; auto; try (now right); fail).
  - (* OPseudo *)
    apply bind_ok in H as [v' [Hv H]]. cbn [ook] in Ho.
    assert (Hrow : data_row_ok i = true) by (pose proof data_rows as Hall; rewrite forallb_forall in Hall; now apply Hall).
    unfold data_row_ok in Hrow.
    assert (Hw : vokw n v' /\ (v' = VPyNone -> is_data_name i = true \/ text_eqb (mnem i) RMB_t || text_eqb (mnem i) ORG_t = true)).
    { destruct ((Tables.is_multi_byte i || Tables.is_multi_word i || (text_eqb (mnem i) RMB_t || text_eqb (mnem i) ORG_t)) && (v_is_symbol v || v_is_expr v)) eqn:Ec.
      - split; [eapply resolve_value_ok; eauto|]. intros _. apply andb_true_iff in Ec as [Ec _]. apply orb_true_iff in Ec as [Ec | Ec]; [left | now right].
        rewrite Ec in Hrow. exact Hrow.
      - inversion Hv; subst. split; [now right|]. intros ->. contradiction. }
    destruct Hw as [Hw Hnone]. cbn [rok].
    destruct (text_eqb (mnem i) RMB_t || text_eqb (mnem i) ORG_t) eqn:El.
    + unfold vokw in Hw. destruct v'; try discriminate; cbn [v_is_numeric negb orb] in H; try discriminate.
      destruct (v_negative (VNum n0)); [discriminate|]. inversion H; subst. cbn [rok].
      destruct Hw as [Hw | Hw]; [discriminate|]. destruct (is_data_name i); [right; exact Hw | exact Hw].
    + inversion H; subst. cbn [rok]. destruct (is_data_name i) eqn:Ed; [exact Hw|].
      unfold vokw in Hw. destruct Hw as [-> | Hw]; [|exact Hw]. destruct (Hnone eq_refl) as [X | X]; discriminate.
  - (* ORelative *) apply bind_ok in H as [v' [Hv H]]. inversion H; subst. cbn. eapply resolve_value_ok; eauto.
  - (* OExtIdx *) destruct Ho as [Hv Hl]. destruct (_ && _).
    + apply bind_ok in H as [v' [Hv' H]]. inversion H; subst. cbn. split; [eapply resolve_value_ok; eauto | exact Hl].
    + apply bind_ok in H as [l' [Hl' H]]. inversion H; subst. cbn. split; [now right | eapply resolve_left_sok; eauto].
  - (* OIndexed *) apply bind_ok in H as [l' [Hl' H]]. inversion H; subst. cbn. eapply resolve_left_sok; eauto.
  - (* OImmediate *) apply bind_ok in H as [v' [Hv H]]. inversion H; subst. cbn. eapply resolve_value_ok; eauto.
  - (* OUnknown *) apply bind_ok in H as [v' [Hv H]]. pose proof (resolve_value_ok _ _ _ _ Ht Ho Hv) as Hw.
    destruct v'; try discriminate; destruct (_ || _) in H; inversion H; subst; cbn; exact Hw.
Qed.

(* ====================================================================================================== *)
(* 5. translate(): never an uncaught exception; what the code package holds                                *)
(* ====================================================================================================== *)
Ltac ni_leaf :=
  first [ exact I | apply numv_ni | apply numv_h_ni | apply fit_value_ni | apply num_of_int_ni | apply num_of_Z_ni ].

Lemma simple_pkg_ni opc add sz : no_int (simple_pkg opc add sz).
Proof. unfold simple_pkg. apply no_int_bind; [apply numv_ni | intros; exact I]. Qed.
Lemma mk_idx_pkg_ni opc raw ch add size mx needs : no_int (mk_idx_pkg opc raw ch add size mx needs).
Proof. unfold mk_idx_pkg. apply no_int_bind; [apply numv_ni | intros]. apply no_int_bind; [apply numv_ni | intros; exact I]. Qed.

Ltac ni_step2 :=
  match goal with
  | |- no_int (simple_pkg _ _ _) => apply simple_pkg_ni
  | |- no_int (mk_idx_pkg _ _ _ _ _ _ _) => apply mk_idx_pkg_ni
  | |- no_int (numv _) => apply numv_ni
  | |- no_int (numv_h _ _) => apply numv_h_ni
  | |- no_int (fit_value _ _ _) => apply fit_value_ni
  | |- no_int (opt_op ?o _) => unfold opt_op; destruct o
  | _ => ni_step
  end.
Ltac ni_tac2 := repeat ni_step2.

Lemma pshpul_mask_ni m : forall rs acc, no_int (pshpul_mask m rs acc).
Proof. induction rs as [|r rs IH]; intros acc; cbn [pshpul_mask]; [exact I|]. ni_tac2. apply IH. Qed.

Lemma translate_special_ni s i : no_int (translate_special s i).
Proof. unfold translate_special. apply no_int_bind; [ni_tac2; apply pshpul_mask_ni|]. intros pb _. ni_tac2. Qed.

Lemma translate_pseudo_ni v i : no_int (translate_pseudo v i).
Proof. unfold translate_pseudo. ni_tac2. Qed.

Lemma translate_indexed_ni ind l r i : no_int (translate_indexed ind l r i).
Proof. unfold translate_indexed. ni_tac2. Qed.

Lemma translate_operand_ni o i : no_int (translate_operand o i).
Proof.
  destruct o; cbn [translate_operand]; try apply translate_pseudo_ni; try apply translate_special_ni;
    try apply translate_indexed_ni; ni_tac2; try apply translate_indexed_ni.
Qed.

(* ---------- the code package ---------- *)
Definition pok (n : N) (p : codepkg) : Prop :=
  cp_addr p <> VPyNone /\ vok n (cp_op p) /\ vok n (cp_post p) /\ vok n (cp_add p) /\
  (cp_choices p = [] \/ exists a b, cp_choices p = [a; b]) /\
  (cp_needs p = true -> v_int (cp_add p) < n).

Lemma numv_vok n v x : numv v = Ok x -> vok n x.
Proof. unfold numv. intros H. apply bind_ok in H as [y [Hy H]]. inversion H; subst. cbn. eapply num_of_int_hint; [|exact Hy]. exact I. Qed.
Lemma numv_h_vok n v h x : N.even h = true -> numv_h v h = Ok x -> vok n x.
Proof. unfold numv_h. intros He H. apply bind_ok in H as [y [Hy H]]. inversion H; subst. cbn. eapply num_of_int_hint; [|exact Hy]. exact He. Qed.
Lemma fit_value_vok n v d sg x : N.even d = true -> fit_value v d sg = Ok x -> vok n x.
Proof.
  unfold fit_value. intros He. destruct (_ || _); [discriminate|]. intros H. apply bind_ok in H as [y [Hy H]]. inversion H; subst.
  cbn. eapply num_of_Z_hint; [|exact Hy]. exact He.
Qed.

Lemma simple_pkg_pok n opc add sz p : simple_pkg opc add sz = Ok p -> vok n add -> pok n p.
Proof.
  unfold simple_pkg. intros H Ha. apply bind_ok in H as [ov [Ho H]]. inversion H; subst. unfold pok; cbn.
  repeat split; try discriminate; auto. eapply numv_vok; eauto.
Qed.

Lemma mk_idx_pkg_pok n opc raw ch add size mx needs p : mk_idx_pkg opc raw ch add size mx needs = Ok p ->
  vok n add -> (ch = [] \/ exists a b, ch = [a; b]) -> (needs = true -> v_int add < n) -> pok n p.
Proof.
  unfold mk_idx_pkg. intros H Ha Hc Hn. apply bind_ok in H as [ov [Ho H]]. apply bind_ok in H as [pv [Hp H]]. inversion H; subst.
  unfold pok; cbn. repeat split; try discriminate; auto; eapply numv_vok; eauto.
Qed.

Lemma data_pkg_pok n a sz : vok n a -> pok n (data_pkg a sz).
Proof. intros Ha. unfold pok, data_pkg; cbn. repeat split; try discriminate; auto. Qed.

(* the left value of an indexed operand as translate() prepares it *)
Lemma left_value_bound n lv0 lv : 0 < n -> vok n lv0 ->
  (if v_is_address lv0 then numv (v_int lv0) else Ok lv0) = Ok lv ->
  vok n lv /\ (v_is_address lv0 || v_is_expr lv0 || v_is_addr_expr lv0 = true -> v_int lv < n).
Proof.
  intros Hn Hv H. destruct lv0; cbn [v_is_address] in H.
  5:{ (* an expression *) inversion H; subst. split; [exact Hv|]. intros _. cbn. exact Hn. }
  4:{ (* an address *) split; [eapply numv_vok; eauto|]. intros _. rewrite (numv_int _ _ H). exact Hv. }
  all: inversion H; subst; split; [exact Hv | cbn; intros; discriminate].
Qed.

Ltac pk_walk H :=
  repeat match type of H with
  | bind _ _ = Ok _ => let x := fresh "x" in let Hx := fresh "Hx" in apply bind_ok in H as [x [Hx H]]
  | (if ?b then _ else _) = Ok _ => destruct b eqn:?
  | (match ?v with _ => _ end) = Ok _ => destruct v eqn:?
  | Diag _ = Ok _ => discriminate H
  | OTE = Ok _ => discriminate H
  | VTE = Ok _ => discriminate H
  end.

Ltac vok_side n :=
  first [ exact I | assumption
        | eapply numv_vok; eassumption
        | eapply numv_h_vok; [|eassumption]; reflexivity
        | eapply fit_value_vok; [|eassumption]; reflexivity
        | eapply fit_value_vok; [|eassumption]; match goal with |- N.even (if ?b then _ else _) = true => destruct b; reflexivity end ].

Lemma translate_indexed_pok n ind l r i p : 0 < n -> sok n l -> translate_indexed ind l r i = Ok p -> pok n p.
Proof.
  intros Hn Hl H. unfold translate_indexed, opt_op in H.
  destruct (Tables.ind i) as [opc|]; [|discriminate].
  destruct (negb (valid_index_reg r)); [discriminate|].
  destruct (_ && text_eqb r t_PCR); [discriminate|]. destruct (_ && negb _); [discriminate|].
  destruct (left_is_empty_or_zero l r).
  { pk_walk H; (eapply mk_idx_pkg_pok; [exact H | exact I | left; reflexivity | intros; discriminate]). }
  destruct (left_abd l).
  { eapply mk_idx_pkg_pok; [exact H | exact I | left; reflexivity | intros; discriminate]. }
  destruct (mem_c 43 r || mem_c 45 r); [discriminate|].
  destruct l as [t|lv0]; [discriminate|]. cbn [sok] in Hl.
  destruct lv0 eqn:Elv0; try contradiction; rewrite <- Elv0 in *; clear Elv0;
    (apply bind_ok in H as [lv [Hlv H]]; destruct (left_value_bound n _ _ Hn Hl Hlv) as [Hvl Hbound];
     pk_walk H;
     (eapply mk_idx_pkg_pok; [exact H | vok_side n | first [left; reflexivity | right; eauto] | first [intros; discriminate | exact Hbound | (intros _; apply Hbound; assumption)]])).
Qed.

Lemma vokw_vok n v : vokw n v -> v <> VPyNone -> vok n v.
Proof. intros [-> | H] Hne; [contradiction | exact H]. Qed.

Lemma translate_pseudo_pok n v i p : (if is_data_name i then vokw n v else vok n v) -> translate_pseudo v i = Ok p -> pok n p.
Proof.
  unfold translate_pseudo, is_data_name. intros Hv H.
  destruct (text_eqb (mnem i) FCB_t) eqn:E1; cbn [orb] in Hv.
  { destruct (v_is_multi v) eqn:Em.
    - inversion H; subst. apply data_pkg_pok. apply vokw_vok; [exact Hv | intros ->; discriminate].
    - destruct v; try discriminate; apply bind_ok in H as [a [Ha H]]; inversion H; subst; apply data_pkg_pok;
        try (inversion Ha; subst; apply vokw_vok; [exact Hv | discriminate]).
      cbn [v_is_numeric] in Ha. eapply fit_value_vok; [|exact Ha]. reflexivity. }
  destruct (text_eqb (mnem i) FDB_t) eqn:E2; cbn [orb] in Hv.
  { destruct (v_is_multi v) eqn:Em.
    - inversion H; subst. apply data_pkg_pok. apply vokw_vok; [exact Hv | intros ->; discriminate].
    - destruct v; try discriminate; apply bind_ok in H as [a [Ha H]]; inversion H; subst; apply data_pkg_pok;
        try (inversion Ha; subst; apply vokw_vok; [exact Hv | discriminate]).
      cbn [v_is_numeric] in Ha. eapply fit_value_vok; [|exact Ha]. reflexivity. }
  destruct (text_eqb (mnem i) RMB_t).
  { apply bind_ok in H as [a [Ha H]]. inversion H; subst. apply data_pkg_pok. eapply numv_h_vok; [|exact Ha].
    rewrite N.mul_comm. apply N.even_spec. exists (v_int v). reflexivity. }
  destruct (text_eqb (mnem i) ORG_t).
  { inversion H; subst. unfold pok; cbn. repeat split; auto; try discriminate. intros ->. contradiction. }
  destruct (text_eqb (mnem i) FCC_t).
  { inversion H; subst. now apply data_pkg_pok. }
  inversion H; subst. unfold pok, cp_empty; cbn. repeat split; auto; discriminate.
Qed.

Lemma translate_special_pok n s i p : translate_special s i = Ok p -> pok n p.
Proof.
  unfold translate_special. intros H. apply bind_ok in H as [pb [_ H]]. destruct (Tables.imm i); [|discriminate].
  apply bind_ok in H as [ov [Ho H]]. apply bind_ok in H as [pv [Hp H]]. inversion H; subst.
  unfold pok; cbn. repeat split; auto; try discriminate; eapply numv_vok; eauto.
Qed.

Lemma imm_digits_even i : N.even (imm_digits i) = true.
Proof. unfold imm_digits. destruct (Tables.imm i); [|reflexivity]. apply N.even_spec. eexists. reflexivity. Qed.

Lemma translate_operand_pok n o i p : 0 < n -> rok n i o -> translate_operand o i = Ok p -> pok n p.
Proof.
  intros Hn Ho H. destruct o; cbn [translate_operand rok] in *; try contradiction.
  - eapply translate_pseudo_pok; eauto.
  - eapply translate_special_pok; eauto.
  - (* relative *) destruct v; try discriminate; destruct (Tables.rel i); try discriminate.
    cbn [v_is_address] in H. eapply simple_pkg_pok; [exact H|]. apply vokw_vok; [exact Ho | discriminate].
  - unfold opt_op in H. destruct (Tables.inh i); [|discriminate]. eapply simple_pkg_pok; [exact H | exact I].
  - (* [..] *) unfold opt_op in H. destruct (Tables.ind i) as [opc|]; [|discriminate]. destruct Ho as [Hv Hl].
    destruct v eqn:Ev; try discriminate;
      try (destruct r as [rt|]; [eapply translate_indexed_pok; eauto | discriminate]).
    + apply bind_ok in H as [a [Ha H]]. eapply mk_idx_pkg_pok; [exact H | eapply fit_value_vok; [|exact Ha]; reflexivity | now left | intros; discriminate].
    + eapply mk_idx_pkg_pok; [exact H | apply vokw_vok; [exact Hv | discriminate] | now left | intros; discriminate].
    + destruct addr.
      * eapply mk_idx_pkg_pok; [exact H | apply vokw_vok; [exact Hv | discriminate] | now left | intros; discriminate].
      * destruct r as [rt|]; [eapply translate_indexed_pok; eauto | discriminate].
  - eapply translate_indexed_pok; eauto.
  - (* immediate *) destruct v; try discriminate; unfold opt_op in H; destruct (Tables.imm i); try discriminate;
      apply bind_ok in H as [a [Ha H]]; (eapply simple_pkg_pok; [exact H|]);
      try (inversion Ha; subst; apply vokw_vok; [exact Ho | discriminate]).
    cbn [v_is_numeric] in Ha. eapply fit_value_vok; [|exact Ha]. apply imm_digits_even.
  - (* direct *) destruct v; try discriminate; unfold opt_op in H; destruct (Tables.dir i); try discriminate;
      apply bind_ok in H as [a [Ha H]]; (eapply simple_pkg_pok; [exact H|]);
      try (inversion Ha; subst; apply vokw_vok; [exact Ho | discriminate]).
    cbn [v_is_numeric] in Ha. eapply fit_value_vok; [|exact Ha]. reflexivity.
  - (* extended *) destruct v; try discriminate; unfold opt_op in H; destruct (Tables.ext i); try discriminate;
      apply bind_ok in H as [a [Ha H]]; (eapply simple_pkg_pok; [exact H|]);
      try (inversion Ha; subst; apply vokw_vok; [exact Ho | discriminate]).
    cbn [v_is_numeric] in Ha. eapply fit_value_vok; [|exact Ha]. reflexivity.
Qed.

(* ====================================================================================================== *)
(* 6. statements through the passes                                                                         *)
(* ====================================================================================================== *)
(* an operand after a successful translate(): nothing in it is None any more *)
Definition fok (n : N) (o : operand) : Prop :=
  match o with
  | OPseudo _ v | ORelative v | OImmediate v | ODirect v | OExtended v => vok n v
  | OUnknown _ => False
  | OExtIdx _ v l _ => vok n v /\ sok n l
  | OIndexed _ l _ => sok n l
  | OSpecial _ | OInherent => True
  end.

Lemma translate_fok n o i p : rok n i o -> translate_operand o i = Ok p -> fok n o.
Proof.
  intros Ho H. destruct o; cbn [translate_operand rok fok] in *; auto.
  - (* pseudo *) unfold is_data_name in Ho. unfold translate_pseudo in H.
    destruct (text_eqb (mnem i) FCB_t); cbn [orb] in Ho.
    { apply vokw_vok; [exact Ho|]. intros ->. cbn [v_is_multi] in H. discriminate. }
    destruct (text_eqb (mnem i) FDB_t); cbn [orb] in Ho; [|exact Ho].
    apply vokw_vok; [exact Ho|]. intros ->. cbn [v_is_multi] in H. discriminate.
  - apply vokw_vok; [exact Ho|]. intros ->. discriminate.
  - destruct Ho as [Hv Hl]. split; [|exact Hl]. apply vokw_vok; [exact Hv|]. intros ->.
    unfold opt_op in H. destruct (Tables.ind i); discriminate.
  - apply vokw_vok; [exact Ho|]. intros ->. discriminate.
  - apply vokw_vok; [exact Ho|]. intros ->. discriminate.
  - apply vokw_vok; [exact Ho|]. intros ->. discriminate.
Qed.

(* a package that needs resolution belongs to an operand whose own value is neither a label nor label arithmetic *)
Definition needs_ok (o : operand) (p : codepkg) : Prop :=
  cp_needs p = true -> match operand_value o with VAddr _ | VExpr _ _ _ _ true => False | _ => True end.

Lemma simple_pkg_needs opc add sz p : simple_pkg opc add sz = Ok p -> cp_needs p = false.
Proof. unfold simple_pkg. intros H. apply bind_ok in H as [ov [_ H]]. now inversion H. Qed.
Lemma mk_idx_pkg_needs opc raw ch add size mx needs p : mk_idx_pkg opc raw ch add size mx needs = Ok p -> cp_needs p = needs.
Proof. unfold mk_idx_pkg. intros H. apply bind_ok in H as [ov [_ H]]. apply bind_ok in H as [pv [_ H]]. now inversion H. Qed.

Lemma translate_needs_ok o i p : translate_operand o i = Ok p -> needs_ok o p.
Proof.
  intros H Hn. destruct o; cbn [translate_operand operand_value] in *; try exact I.
  - (* pseudo: never needs resolution *)
    exfalso. unfold translate_pseudo, data_pkg, cp_empty in H.
    repeat match type of H with
    | (if ?b then _ else _) = Ok _ => destruct b
    | (match ?v with _ => _ end) = Ok _ => destruct v
    | bind _ _ = Ok _ => let x := fresh "x" in let Hx := fresh "Hx" in apply bind_ok in H as [x [Hx H]]
    | Diag _ = Ok _ => discriminate H
    end; inversion H; subst; discriminate.
  - exfalso. destruct v; try discriminate; destruct (Tables.rel i); try discriminate;
      destruct (v_is_address _); try discriminate; rewrite (simple_pkg_needs _ _ _ _ H) in Hn; discriminate.
  - unfold opt_op in H. destruct (Tables.ind i); [|discriminate].
    destruct v; try exact I; try discriminate.
    + rewrite (mk_idx_pkg_needs _ _ _ _ _ _ _ _ H) in Hn. discriminate.
    + destruct addr; [|exact I]. rewrite (mk_idx_pkg_needs _ _ _ _ _ _ _ _ H) in Hn. discriminate.
  - exfalso. destruct v; try discriminate; unfold opt_op in H; destruct (Tables.imm i); try discriminate;
      apply bind_ok in H as [a [_ H]]; rewrite (simple_pkg_needs _ _ _ _ H) in Hn; discriminate.
  - exfalso. inversion H; subst. discriminate.
  - exfalso. destruct v; try discriminate; unfold opt_op in H; destruct (Tables.dir i); try discriminate;
      apply bind_ok in H as [a [_ H]]; rewrite (simple_pkg_needs _ _ _ _ H) in Hn; discriminate.
  - exfalso. destruct v; try discriminate; unfold opt_op in H; destruct (Tables.ext i); try discriminate;
      apply bind_ok in H as [a [_ H]]; rewrite (simple_pkg_needs _ _ _ _ H) in Hn; discriminate.
Qed.

(* the invariant of a translated statement in a program of n statements *)
Definition sinv (n : N) (s : stmt) : Prop :=
  fok n (s_operand s) /\ pok n (s_pkg s) /\ needs_ok (s_operand s) (s_pkg s) /\
  (s_fixed s = false -> exists a b, cp_choices (s_pkg s) = [a; b]) /\ N.even (s_hint s) = true.

Lemma translate_stmt_sinv n s s' : 0 < n -> rok n (s_instr s) (s_operand s) -> N.even (s_hint s) = true ->
  translate_stmt s = Ok s' -> sinv n s'.
Proof.
  unfold translate_stmt. intros Hn Ho Hh H. apply bind_ok in H as [p [Hp H]]. apply as_te_ok in Hp. inversion H; subst. clear H.
  unfold sinv; cbn [s_operand s_pkg s_fixed s_hint].
  pose proof (translate_operand_pok _ _ _ _ Hn Ho Hp) as Hpk.
  split; [eapply translate_fok; eauto|]. split; [exact Hpk|]. split; [eapply translate_needs_ok; eauto|]. split; [|exact Hh].
  intros Hf. destruct Hpk as (_ & _ & _ & _ & [Hc | Hc] & _); [|exact Hc].
  exfalso. unfold addr_offset in Hf. rewrite Hc in Hf. cbn [length Nat.eqb negb] in Hf. rewrite andb_true_r, orb_false_r in Hf.
  destruct (cp_needs p); cbn in Hf; discriminate.
Qed.

Lemma translate_stmt_ni s : no_int (translate_stmt s).
Proof. unfold translate_stmt. apply no_int_bind; [apply no_int_as_te, translate_operand_ni | intros; exact I]. Qed.
Lemma resolve_stmt_ni tb s : no_int (resolve_stmt tb s).
Proof. unfold resolve_stmt. apply no_int_bind; [apply no_int_as_te, resolve_operand_ni | intros; exact I]. Qed.

Lemma map_res_ni {A B} (f : A -> res B) (P : A -> Prop) : (forall a, P a -> no_int (f a)) ->
  forall l, Forall P l -> no_int (map_res f l).
Proof.
  intros Hf. induction l as [|a l IH]; intros Hp; cbn [map_res]; [exact I|]. inversion Hp; subst.
  apply no_int_bind; [now apply Hf|]. intros b _. apply no_int_bind; [now apply IH | intros; exact I].
Qed.

(* ---------- the size loop ---------- *)
Lemma pcr_pick_sinv n s k add hint s' : sinv n s -> N.even hint = true -> pcr_pick s k add hint = Ok s' -> sinv n s'.
Proof.
  unfold pcr_pick. intros (Hf & Hp & Hn & _ & _) Hh H. destruct (nth_error _ k); [|discriminate].
  apply bind_ok in H as [pv [Hpv H]]. inversion H; subst. unfold sinv, set_pkg; cbn.
  destruct Hp as (P1 & P2 & P3 & P4 & P5 & P6). unfold pok; cbn.
  repeat split; auto; try discriminate. eapply numv_vok; eauto.
Qed.

Lemma pcr_pick_ni s k add hint : (k < 2)%nat -> (exists a b, cp_choices (s_pkg s) = [a; b]) -> no_int (pcr_pick s k add hint).
Proof.
  intros Hk (a & b & Hc). unfold pcr_pick. rewrite Hc. destruct k as [|[|k]]; [| |lia]; cbn [nth_error];
    (apply no_int_bind; [apply numv_ni | intros; exact I]).
Qed.

Lemma determine_ni n ss this force s : sinv n s -> s_fixed s = false -> no_int (determine ss this force s).
Proof.
  intros (_ & _ & _ & Hc & _) Hf. specialize (Hc Hf). unfold determine.
  destruct (pcr_span ss this s) as [[bw mn] mx]. destruct (pcr_offset s force) as [off f'].
  destruct (_ && negb f'); [apply pcr_pick_ni; [lia | exact Hc]|].
  destruct (_ || _); [apply pcr_pick_ni; [lia | exact Hc] | exact I].
Qed.

Lemma determine_sinv n ss this force s s' : sinv n s -> determine ss this force s = Ok s' -> sinv n s'.
Proof.
  intros Hs. unfold determine. destruct (pcr_span ss this s) as [[bw mn] mx]. destruct (pcr_offset s force) as [off f'].
  destruct (_ && negb f'); [intros H; exact (pcr_pick_sinv n s 0 1 2 s' Hs eq_refl H)|].
  destruct (_ || _); [intros H; exact (pcr_pick_sinv n s 1 2 4 s' Hs eq_refl H)|]. intros H; inversion H; subst; exact Hs.
Qed.

Lemma update_nth_Forall {A} (P : A -> Prop) : forall l k a, Forall P l -> P a -> Forall P (update_nth k a l).
Proof.
  induction l as [|x l IH]; intros k a Hl Ha; [destruct k; constructor|]. inversion Hl; subst.
  destruct k; cbn [update_nth]; constructor; auto.
Qed.

Lemma nth_error_Forall {A} (P : A -> Prop) l k (a : A) : Forall P l -> nth_error l k = Some a -> P a.
Proof. intros H Hn. rewrite Forall_forall in H. apply H. eapply nth_error_In; eauto. Qed.

Lemma sweep_inv n : forall m k ss pr, Forall (sinv n) ss ->
  no_int (sweep m k ss pr) /\ (forall ss' pr', sweep m k ss pr = Ok (ss', pr') -> Forall (sinv n) ss').
Proof.
  induction m as [|m IH]; intros k ss pr Hs; cbn [sweep].
  - split; [exact I|]. intros ss' pr' H. inversion H; subst. exact Hs.
  - destruct (nth_error ss k) as [s|] eqn:Es.
    + pose proof (nth_error_Forall _ _ _ _ Hs Es) as Hsk. destruct (s_fixed s) eqn:Ef; [apply IH; exact Hs|].
      split.
      * apply no_int_bind; [eapply determine_ni; eauto|]. intros s' Hd.
        apply IH. apply update_nth_Forall; [exact Hs | eapply determine_sinv; eauto].
      * intros ss' pr' H. apply bind_ok in H as [s' [Hd H]].
        eapply IH; [|exact H]. apply update_nth_Forall; [exact Hs | eapply determine_sinv; eauto].
    + split; [exact I|]. intros ss' pr' H. inversion H; subst. exact Hs.
Qed.

Lemma first_unfixed_spec : forall ss k j s, first_unfixed ss k = Some (j, s) -> In s ss /\ s_fixed s = false.
Proof.
  induction ss as [|x r IH]; intros k j s H; cbn [first_unfixed] in H; [discriminate|].
  destruct (s_fixed x) eqn:Ef.
  - destruct (IH _ _ _ H) as [Hi Hf]. split; [now right | exact Hf].
  - inversion H; subst. split; [now left | exact Ef].
Qed.

Lemma size_loop_inv n : forall fuel ss, Forall (sinv n) ss ->
  no_int (size_loop fuel ss) /\ (forall ss', size_loop fuel ss = Ok ss' -> Forall (sinv n) ss').
Proof.
  induction fuel as [|f IH]; intros ss Hs; cbn [size_loop].
  - destruct (all_fixed ss); split; try exact I; intros ss' H; [inversion H; subst; exact Hs | discriminate].
  - destruct (all_fixed ss); [split; [exact I | intros ss' H; inversion H; subst; exact Hs]|].
    destruct (sweep_inv n (length ss) 0 ss false Hs) as [Hni Hsw].
    split.
    + apply no_int_bind; [exact Hni|]. intros [ss1 pr] Hr. specialize (Hsw _ _ Hr).
      destruct pr; [apply IH; exact Hsw|].
      destruct (first_unfixed ss1 0) as [[k s]|] eqn:Ef; [|apply IH; exact Hsw].
      destruct (first_unfixed_spec _ _ _ _ Ef) as [Hin Hfx].
      assert (Hsk : sinv n s) by (rewrite Forall_forall in Hsw; now apply Hsw).
      apply no_int_bind; [eapply determine_ni; eauto|]. intros s' Hd.
      apply IH. apply update_nth_Forall; [exact Hsw | eapply determine_sinv; eauto].
    + intros ss' H. apply bind_ok in H as [[ss1 pr] [Hr H]]. specialize (Hsw _ _ Hr).
      destruct pr; [eapply IH; eauto|].
      destruct (first_unfixed ss1 0) as [[k s]|] eqn:Ef; [|eapply IH; eauto].
      destruct (first_unfixed_spec _ _ _ _ Ef) as [Hin Hfx].
      assert (Hsk : sinv n s) by (rewrite Forall_forall in Hsw; now apply Hsw).
      apply bind_ok in H as [s' [Hd H]]. eapply IH; [|exact H].
      apply update_nth_Forall; [exact Hsw | eapply determine_sinv; eauto].
Qed.

(* ---------- the address pass ---------- *)
Lemma assign_inv n : forall ss a0 em, Forall (sinv n) ss ->
  no_int (assign_addresses ss a0 em) /\ (forall ss', assign_addresses ss a0 em = Ok ss' -> Forall (sinv n) ss').
Proof.
  induction ss as [|s r IH]; intros a0 em Hs; cbn [assign_addresses].
  - split; [exact I|]. intros ss' H. inversion H; subst. constructor.
  - inversion Hs as [|? ? Hsk Hr]; subst. destruct Hsk as (Hf & Hp & Hn & Hc & Hh).
    assert (Hpa : no_int (if v_is_none (cp_addr (s_pkg s)) then do a <- as_translation_error (numv a0); Ok (a, a0)
                          else match cp_addr (s_pkg s) with VPyNone => Internal E_ATTR | a => Ok (a, v_int a) end) /\
                  forall av a, (if v_is_none (cp_addr (s_pkg s)) then do a <- as_translation_error (numv a0); Ok (a, a0)
                          else match cp_addr (s_pkg s) with VPyNone => Internal E_ATTR | a => Ok (a, v_int a) end) = Ok (av, a) -> av <> VPyNone).
    { destruct Hp as (Pa & _). destruct (v_is_none _).
      - split; [apply no_int_bind; [apply no_int_as_te, numv_ni | intros; exact I]|].
        intros av a H. apply bind_ok in H as [x [Hx H]]. inversion H; subst. apply as_te_ok in Hx.
        destruct (numv_ok _ _ Hx) as [y [-> _]]. discriminate.
      - split; [destruct (cp_addr (s_pkg s)); try exact I; contradiction|].
        intros av a H. destruct (cp_addr (s_pkg s)); inversion H; subst; discriminate. }
    destruct Hpa as [Hni Hav].
    set (mk := fun av => set_pkg s {| cp_op := cp_op (s_pkg s); cp_addr := av; cp_post := cp_post (s_pkg s); cp_add := cp_add (s_pkg s);
                             cp_size := cp_size (s_pkg s); cp_needs := cp_needs (s_pkg s); cp_choices := cp_choices (s_pkg s);
                             cp_max := cp_max (s_pkg s) |} (s_fixed s) (s_hint s)).
    assert (Hmk : forall av, av <> VPyNone -> sinv n (mk av)).
    { intros av Hne. unfold sinv, mk, set_pkg; cbn. destruct Hp as (P1 & P2 & P3 & P4 & P5 & P6). unfold pok; cbn. repeat split; auto. }
    split.
    + apply no_int_bind; [exact Hni|]. intros [av a] Hpa. destruct (em && _); [exact I|].
      apply no_int_bind; [apply IH; exact Hr | intros; exact I].
    + intros ss' H. apply bind_ok in H as [[av a] [Hpa H]]. destruct (em && _); [discriminate|].
      apply bind_ok in H as [rest [Hrest H]]. inversion H; subst. constructor; [apply Hmk; eapply Hav; eauto | eapply IH; eauto].
Qed.

(* ---------- fix_addresses ---------- *)
Section Fix.
  Variable all : list stmt.
  Let n := N.of_nat (length all).
  Hypothesis Hall : Forall (sinv n) all.

  Lemma nth_stmt_some k : k < n -> exists t, nth_stmt all k = Some t /\ sinv n t.
  Proof.
    intros Hk. unfold nth_stmt. destruct (nth_error all (N.to_nat k)) as [t|] eqn:E.
    - exists t. split; [reflexivity | eapply nth_error_Forall; eauto].
    - apply nth_error_None in E. unfold n in Hk. lia.
  Qed.

  Lemma stmt_addr_ok t : sinv n t -> cp_addr (s_pkg t) <> VPyNone.
  Proof. intros (_ & (H & _) & _). exact H. Qed.

  Lemma addr_of_ni k : k < n -> no_int (addr_of all k).
  Proof.
    intros Hk. unfold addr_of. destruct (nth_stmt_some k Hk) as (t & -> & Ht).
    pose proof (stmt_addr_ok t Ht). destruct (cp_addr (s_pkg t)); try exact I; contradiction.
  Qed.

  Lemma offset_arith_ni op a b : no_int (offset_arith op a b).
  Proof. unfold offset_arith. repeat match goal with |- no_int (if ?c then _ else _) => destruct c end; exact I. Qed.

  Lemma term_value_ni : forall v, tok n v -> no_int (term_value all v).
  Proof.
    fix IH 1. intros v Hv. destruct v; cbn [term_value]; try exact I.
    - apply no_int_bind; [apply addr_of_ni; exact Hv | intros; exact I].
    - destruct addr; [|exact I]. cbn in Hv. destruct Hv as [Hl Hr].
      apply no_int_bind; [apply IH; exact Hl|]. intros a _. apply no_int_bind; [apply IH; exact Hr|]. intros b _.
      apply no_int_bind; [apply offset_arith_ni|]. intros z _.
      apply no_int_bind; [apply no_int_as_te, num_of_Z_ni | intros; exact I].
  Qed.

  Lemma calc_offset_ni l op r : tok n l -> tok n r -> no_int (calc_offset all l op r).
  Proof.
    intros Hl Hr. unfold calc_offset, calc_offset_z. apply no_int_bind.
    - apply no_int_bind; [apply term_value_ni; exact Hl|]. intros a _. apply no_int_bind; [apply term_value_ni; exact Hr|]. intros b _.
      apply offset_arith_ni.
    - intros z _. apply no_int_bind; [apply no_int_as_te, num_of_Z_ni | intros; exact I].
  Qed.

  Lemma operand_value_ok o : fok n o -> vok n (operand_value o).
  Proof. destruct o; cbn; auto; try tauto. Qed.

  Lemma operand_left_ok o l op r m : fok n o -> operand_left o = Some (LVal (VExpr l op r m true)) -> tok n l /\ tok n r.
  Proof.
    destruct o; cbn [operand_left fok]; try discriminate.
    - intros [_ Hl] E. inversion E; subst. exact Hl.
    - intros Hl E. inversion E; subst. exact Hl.
  Qed.

  Lemma addr_value_ni k : k < n ->
    no_int (match nth_stmt all k with
            | Some t => match cp_addr (s_pkg t) with VPyNone => Internal E_ATTR | av => Ok av end
            | None => Internal E_INDEX end).
  Proof.
    intros Hk. destruct (nth_stmt_some k Hk) as (t & E & Ht). rewrite E.
    pose proof (stmt_addr_ok t Ht) as Ha. destruct (cp_addr (s_pkg t)); try exact I. exfalso. now apply Ha.
  Qed.

  (* the part of fix_stmt that runs after the operand's own value has been dealt with *)
  Definition fix_tail (this : N) (s s1 : stmt) : res stmt :=
    let p := s_pkg s in
    if addr_offset p then
      do tv <- (match operand_left (s_operand s) with
                | Some (LVal (VExpr l op r _ true)) => calc_offset all l op r
                | _ => match nth_stmt all (v_int (cp_add (s_pkg s1))) with
                       | Some t => match cp_addr (s_pkg t) with VPyNone => Internal E_ATTR | av => Ok av end
                       | None => Internal E_INDEX
                       end
                end);
      do a' <- as_translation_error (fit_value tv 4 true);
      Ok (with_add s1 a')
    else if cp_needs p then
      do target <- (match operand_left (s_operand s) with
                    | Some (LVal (VExpr l op r _ true)) =>
                        do v <- calc_offset all l op r;
                        Ok (if v_negative v then (- Z.of_N (v_int v))%Z else Z.of_N (v_int v))
                    | _ => do a <- addr_of all (v_int (cp_add (s_pkg s1))); Ok (Z.of_N a)
                    end);
      do start <- addr_of all this;
      let jump := (((target - Z.of_N start - Z.of_N (cp_size p)) + 32768) mod 65536 - 32768)%Z in
      do nn <- as_translation_error (num_of_Z jump (Some (s_hint s)) MNone);
      Ok (with_add s1 (VNum nn))
    else Ok s1.

  Lemma fix_tail_ni this s s1 : this < n -> fok n (s_operand s) ->
    (cp_needs (s_pkg s) = true -> v_int (cp_add (s_pkg s1)) < n) -> no_int (fix_tail this s s1).
  Proof.
    intros Hthis Hf Hidx. unfold fix_tail.
    assert (Hleft : forall l op r m, operand_left (s_operand s) = Some (LVal (VExpr l op r m true)) -> no_int (calc_offset all l op r)).
    { intros l0 op0 r0 m0 El. destruct (operand_left_ok _ _ _ _ _ Hf El). now apply calc_offset_ni. }
    destruct (addr_offset (s_pkg s)) eqn:Eao.
    - assert (Hnd : cp_needs (s_pkg s) = true) by (unfold addr_offset in Eao; now apply andb_true_iff in Eao as [? _]).
      apply no_int_bind; [|intros tv _; apply no_int_bind; [apply no_int_as_te, fit_value_ni | intros; exact I]].
      destruct (operand_left (s_operand s)) as [[tx|lv]|] eqn:El; try (apply addr_value_ni; exact (Hidx Hnd)).
      destruct lv; try (apply addr_value_ni; exact (Hidx Hnd)). destruct addr; [|apply addr_value_ni; exact (Hidx Hnd)].
      eapply Hleft. reflexivity.
    - destruct (cp_needs (s_pkg s)) eqn:End; [|exact I].
      apply no_int_bind.
      + destruct (operand_left (s_operand s)) as [[tx|lv]|] eqn:El;
          try (apply no_int_bind; [apply addr_of_ni; exact (Hidx eq_refl) | intros; exact I]).
        destruct lv; try (apply no_int_bind; [apply addr_of_ni; exact (Hidx eq_refl) | intros; exact I]).
        destruct addr; [|apply no_int_bind; [apply addr_of_ni; exact (Hidx eq_refl) | intros; exact I]].
        apply no_int_bind; [eapply Hleft; reflexivity | intros; exact I].
      + intros tg _. apply no_int_bind; [apply addr_of_ni; exact Hthis|]. intros st _.
        apply no_int_bind; [apply no_int_as_te, num_of_Z_ni | intros; exact I].
  Qed.

  Lemma fix_stmt_ni this s : this < n -> sinv n s -> no_int (fix_stmt all this s).
  Proof.
    intros Hthis (Hf & Hp & Hn & Hc & Hh). unfold fix_stmt.
    destruct (is_relative_op (s_operand s)).
    { repeat match goal with |- no_int (if ?c then _ else _) => destruct c end; try exact I;
        (apply no_int_bind; [apply no_int_as_te, num_of_Z_ni | intros; exact I]). }
    pose proof (operand_value_ok _ Hf) as Hov. unfold needs_ok in Hn.
    destruct Hp as (_&_&_&_&_&P6).
    change (no_int (match operand_value (s_operand s) with
                    | VPyNone => Internal E_ATTR
                    | _ => do s1 <- (match operand_value (s_operand s) with
                              | VExpr l op r _ true =>
                                  do a <- calc_offset all l op r;
                                  do a' <- as_translation_error (fit_value a (match s_operand s with
                                              | OImmediate _ => imm_digits (s_instr s)
                                              | OPseudo _ _ => if Tables.is_multi_byte (s_instr s) then 2 else 4
                                              | ODirect _ => 2 | _ => 4 end) (match s_operand s with ODirect _ => false | _ => true end));
                                  Ok (with_add s a')
                              | VAddr k => match nth_stmt all k with
                                           | Some t => match cp_addr (s_pkg t) with
                                                       | VPyNone => Internal E_ATTR
                                                       | av => do a' <- as_translation_error (fit_value av (match s_operand s with
                                              | OImmediate _ => imm_digits (s_instr s)
                                              | OPseudo _ _ => if Tables.is_multi_byte (s_instr s) then 2 else 4
                                              | ODirect _ => 2 | _ => 4 end) true); Ok (with_add s a')
                                                       end
                                           | None => Internal E_INDEX
                                           end
                              | _ => Ok s
                              end); fix_tail this s s1 end)).
    destruct (operand_value (s_operand s)) as [|nu|nm mm|idx|l op r mm ad|l r mm|st|hx|] eqn:Eov; try contradiction;
      try (cbn [bind]; apply fix_tail_ni; [exact Hthis | exact Hf | exact P6]).
    - (* a label *) cbn [vok] in Hov. destruct (nth_stmt_some idx Hov) as (t & E & Ht). rewrite E.
      pose proof (stmt_addr_ok t Ht) as Ha.
      destruct (cp_addr (s_pkg t)); try (exfalso; now apply Ha);
        (apply no_int_bind; [apply no_int_bind; [apply no_int_as_te, fit_value_ni | intros; exact I]|]; intros s1 _;
         apply fix_tail_ni; [exact Hthis | exact Hf | intros Hnd; specialize (Hn Hnd); contradiction]).
    - (* an expression *) destruct ad.
      + destruct Hov as [Hl Hr]. apply no_int_bind.
        * apply no_int_bind; [now apply calc_offset_ni|]. intros a _. apply no_int_bind; [apply no_int_as_te, fit_value_ni | intros; exact I].
        * intros s1 _. apply fix_tail_ni; [exact Hthis | exact Hf | intros Hnd; specialize (Hn Hnd); contradiction].
      + cbn [bind]. apply fix_tail_ni; [exact Hthis | exact Hf | exact P6].
  Qed.
End Fix.

(* what the later stages need of a statement: an address that is not None and values in shape *)
Definition einv (n : N) (s : stmt) : Prop :=
  cp_addr (s_pkg s) <> VPyNone /\ vok n (cp_op (s_pkg s)) /\ vok n (cp_post (s_pkg s)) /\ vok n (cp_add (s_pkg s)).

Lemma sinv_einv n s : sinv n s -> einv n s.
Proof. intros (_ & (P1 & P2 & P3 & P4 & _) & _). unfold einv. auto. Qed.

Lemma fix_stmt_einv n all this s s' : sinv n s -> fix_stmt all this s = Ok s' -> einv n s'.
Proof.
  intros Hs H. pose proof (fix_stmt_rel _ _ _ _ H) as R. destruct (sinv_einv _ _ Hs) as (E1 & E2 & E3 & E4).
  destruct R as (_&_&_&_&_&_&Ro&Ra&Rp&_). unfold einv. rewrite Ro, Ra, Rp. repeat split; auto.
  destruct Hs as (_ & _ & _ & _ & Hh).
  unfold fix_stmt in H.
  set (dg := match s_operand s with OImmediate _ => imm_digits (s_instr s) | OPseudo _ _ => if Tables.is_multi_byte (s_instr s) then 2 else 4
                                  | ODirect _ => 2 | _ => 4 end) in *.
  assert (Hdg : N.even dg = true).
  { unfold dg. destruct (s_operand s); try reflexivity; [destruct (Tables.is_multi_byte _); reflexivity | apply imm_digits_even]. }
  clearbody dg.
  set (sg := match s_operand s with ODirect _ => false | _ => true end) in *. clearbody sg.
  set (ov := operand_value (s_operand s)) in *. clearbody ov.
  set (ol := operand_left (s_operand s)) in *. clearbody ol.
  destruct (is_relative_op (s_operand s)).
  - destruct (v_int _ <=? this).
    + destruct (_ && _); [discriminate|]. apply bind_ok in H as [nn [Hn H]]. inversion H; subst. cbn. apply as_te_ok in Hn.
      eapply num_of_Z_hint; [|exact Hn]. cbn. destruct (Tables.is_short_branch _); reflexivity.
    + destruct (_ && _); [discriminate|]. apply bind_ok in H as [nn [Hn H]]. inversion H; subst. cbn. apply as_te_ok in Hn.
      eapply num_of_Z_hint; [|exact Hn]. cbn. destruct (Tables.is_short_branch _); reflexivity.
  - inv_all; cbn [with_add set_pkg s_pkg cp_add]; try exact E4;
      repeat match goal with
      | Hx : as_translation_error _ = Ok _ |- _ => apply as_te_ok in Hx
      end;
      first [ eapply fit_value_vok; [|eassumption]; first [exact Hdg | reflexivity]
            | (cbn; eapply num_of_Z_hint; [|eassumption]; exact Hh) ].
Qed.

Lemma fix_all_inv all : let n := N.of_nat (length all) in Forall (sinv n) all ->
  forall ss k, (N.to_nat k + length ss = length all)%nat -> Forall (sinv n) ss ->
  no_int (fix_all all ss k) /\ (forall r, fix_all all ss k = Ok r -> Forall (einv n) r).
Proof.
  intros n Hall. induction ss as [|s r IH]; intros k Hk Hs; cbn [fix_all].
  - split; [exact I|]. intros x H. inversion H; subst. constructor.
  - inversion Hs as [|? ? Hsk Hr]; subst. cbn [length] in Hk.
    assert (Hthis : k < n) by (unfold n; lia).
    assert (Hk' : (N.to_nat (k + 1) + length r = length all)%nat) by lia.
    destruct (IH (k + 1) Hk' Hr) as [Hni Hev]. split.
    + apply no_int_bind; [apply fix_stmt_ni; assumption|]. intros s' _. apply no_int_bind; [exact Hni | intros; exact I].
    + intros x H. apply bind_ok in H as [s' [Hf H]]. apply bind_ok in H as [rest [Hrest H]]. inversion H; subst.
      constructor; [eapply fix_stmt_einv; eauto | now apply Hev].
Qed.

(* ---------- the symbol table ---------- *)
Lemma lookup_snoc k v : forall tb, lookup k (tb ++ [(k, v)]) <> None.
Proof.
  induction tb as [|[k' x] tb IH]; cbn [app lookup].
  - assert (E : text_eqb k k = true) by (apply list_eqb_eq; reflexivity). rewrite E. discriminate.
  - destruct (text_eqb k' k); [discriminate | exact IH].
Qed.

Lemma save_symbols_ok n : forall ss idx tb tb', (N.to_nat idx + length ss <= N.to_nat n)%nat ->
  Forall (fun s => ook n (s_operand s)) ss -> tb_ok n tb -> save_symbols ss idx tb = Ok tb' ->
  tb_ok n tb' /\ (forall lb, lookup lb tb <> None -> lookup lb tb' <> None) /\
  Forall (fun s => s_label s = [] \/ lookup (s_label s) tb' <> None) ss.
Proof.
  induction ss as [|s r IH]; intros idx tb tb' Hlen Ho Ht H; cbn [save_symbols] in H.
  - inversion H; subst. split; [exact Ht|]. split; [auto | constructor].
  - inversion Ho as [|? ? Hos Hor]; subst. cbn [length] in Hlen.
    destruct (s_label s) as [|c lb] eqn:El.
    + destruct (IH (idx + 1) tb tb' ltac:(lia) Hor Ht H) as (A & B & C). split; [exact A|]. split; [exact B|].
      constructor; [now left | exact C].
    + destruct (lookup (c :: lb) tb) eqn:Elk; [discriminate|].
      set (v := if Tables.is_pseudo_define (s_instr s) then match s_operand s with OPseudo _ v => v | _ => VNone end else VAddr idx) in *.
      assert (Hv : vok n v).
      { unfold v. destruct (Tables.is_pseudo_define _); [|cbn; lia]. destruct (s_operand s); try exact I. exact Hos. }
      assert (Ht2 : tb_ok n (tb ++ [(c :: lb, v)])) by (apply Forall_app; split; [exact Ht | constructor; [exact Hv | constructor]]).
      destruct (IH (idx + 1) _ tb' ltac:(lia) Hor Ht2 H) as (A & B & C). split; [exact A|].
      assert (Hkeep : forall k, lookup k tb <> None -> lookup k (tb ++ [(c :: lb, v)]) <> None).
      { clear. intros k. induction tb as [|[k' x] tb IH]; cbn; [congruence|]. destruct (text_eqb k' k); [discriminate | exact IH]. }
      split; [intros k Hk; apply B, Hkeep, Hk|].
      constructor; [|exact C]. right. rewrite El. apply B. apply lookup_snoc.
Qed.

Lemma tb_set_ok n k v tb : tb_ok n tb -> vok n v -> tb_ok n (tb_set k v tb).
Proof.
  intros Ht Hv. induction tb as [|[k' x] tb IH]; cbn [tb_set]; [constructor|].
  inversion Ht as [|? ? Hx Htb]; subst. cbn [snd] in Hx.
  destruct (text_eqb k k').
  - constructor; [exact Hv | exact Htb].
  - constructor; [exact Hx | exact (IH Htb)].
Qed.

Lemma tb_set_keys k v tb lb : lookup lb tb <> None -> lookup lb (tb_set k v tb) <> None.
Proof.
  induction tb as [|[k' x] tb IH]; cbn [tb_set lookup]; [auto|]. destruct (text_eqb k k') eqn:E.
  - cbn [lookup]. destruct (text_eqb k' lb); [discriminate | auto].
  - cbn [lookup]. destruct (text_eqb k' lb); [discriminate | exact IH].
Qed.

Lemma defined_error_ok {A} (r : res A) x : defined_error r = Ok x -> r = Ok x.
Proof.
  unfold defined_error. destruct r as [y|c|c| |]; try discriminate; auto.
  intros H. exfalso. revert H. repeat match goal with |- context [match ?z with _ => _ end] => destruct z end; discriminate.
Qed.

Lemma resolve_defined_inv n : forall ss tb, tb_ok n tb ->
  Forall (fun s => s_label s = [] \/ lookup (s_label s) tb <> None) ss ->
  no_int (resolve_defined ss tb) /\ (forall tb', resolve_defined ss tb = Ok tb' -> tb_ok n tb').
Proof.
  induction ss as [|s r IH]; intros tb Ht Hk; cbn [resolve_defined].
  - split; [exact I|]. intros tb' H. inversion H; subst. exact Ht.
  - inversion Hk as [|? ? Hks Hkr]; subst. destruct (s_label s) as [|c lb] eqn:El; [apply IH; assumption|].
    destruct (Tables.is_pseudo_define (s_instr s)); [|apply IH; assumption].
    destruct Hks as [Hks | Hks]; [discriminate|].
    destruct (lookup (c :: lb) tb) as [v|] eqn:Elk; [|contradiction].
    pose proof (lookup_ok _ _ _ _ Ht Elk) as Hv.
    destruct (v_is_symbol v || v_is_expr v); [|apply IH; assumption].
    assert (Hnext : forall v', vok n v' -> Forall (fun s0 => s_label s0 = [] \/ lookup (s_label s0) (tb_set (c :: lb) v' tb) <> None) r).
    { intros v' _. eapply Forall_impl; [|exact Hkr]. intros s0 [E | E]; [now left | right; now apply tb_set_keys]. }
    split.
    + apply no_int_bind.
      * pose proof (resolve_value_ni v tb) as Hn. destruct (resolve_value v tb) as [x|c0|c0| |] eqn:Er; cbn; auto.
        destruct (resolve_value_diag _ _ _ _ Ht Hv Er) as [-> | [-> | ->]]; exact I.
      * intros v' Hr. destruct (_ || _) eqn:Eb; [|exact I].
        assert (Hv' : vok n v').
        { apply defined_error_ok in Hr. destruct (resolve_value_ok _ _ _ _ Ht Hv Hr) as [-> | X]; [discriminate | exact X]. }
        apply IH; [now apply tb_set_ok | now apply Hnext].
    + intros tb' H. apply bind_ok in H as [v' [Hr H]]. destruct (_ || _) eqn:Eb; [|discriminate].
      assert (Hv' : vok n v').
      { apply defined_error_ok in Hr. destruct (resolve_value_ok _ _ _ _ Ht Hv Hr) as [-> | X]; [discriminate | exact X]. }
      eapply IH; [| |exact H]; [now apply tb_set_ok | now apply Hnext].
Qed.

(* ---------- the symbol table after layout, the listing, the image ---------- *)
Section After.
  Variable ss : list stmt.
  Let n := N.of_nat (length ss).
  Hypothesis Hss : Forall (einv n) ss.

  Lemma nth_stmt_some' k : k < n -> exists t, nth_stmt ss k = Some t /\ einv n t.
  Proof.
    intros Hk. unfold nth_stmt. destruct (nth_error ss (N.to_nat k)) as [t|] eqn:E.
    - exists t. split; [reflexivity | eapply nth_error_Forall; eauto].
    - apply nth_error_None in E. unfold n in Hk. lia.
  Qed.

  Lemma addr_of_ni' k : k < n -> no_int (addr_of ss k).
  Proof.
    intros Hk. unfold addr_of. destruct (nth_stmt_some' k Hk) as (t & E & (Ha & _)). rewrite E.
    destruct (cp_addr (s_pkg t)); try exact I. exfalso. now apply Ha.
  Qed.

  Lemma calc_offset_ni' l op r : tok n l -> tok n r -> no_int (calc_offset ss l op r).
  Proof.
    intros Hl Hr. unfold calc_offset, calc_offset_z.
    assert (Ho : forall o a b, no_int (offset_arith o a b)).
    { intros o a b. unfold offset_arith. repeat match goal with |- no_int (if ?c then _ else _) => destruct c end; exact I. }
    assert (Ht : forall v, tok n v -> no_int (term_value ss v)).
    { fix IH 1. intros v Hv. destruct v; cbn [term_value]; try exact I.
      - apply no_int_bind; [apply addr_of_ni'; exact Hv | intros; exact I].
      - destruct addr; [|exact I]. cbn in Hv. destruct Hv as [Hvl Hvr].
        apply no_int_bind; [apply IH; exact Hvl|]. intros a _. apply no_int_bind; [apply IH; exact Hvr|]. intros b _.
        apply no_int_bind; [apply Ho|]. intros z _.
        apply no_int_bind; [apply no_int_as_te, num_of_Z_ni | intros; exact I]. }
    apply no_int_bind.
    - apply no_int_bind; [now apply Ht|]. intros a _. apply no_int_bind; [now apply Ht|]. intros b _.
      apply Ho.
    - intros z _. apply no_int_bind; [apply no_int_as_te, num_of_Z_ni | intros; exact I].
  Qed.

  Lemma backpatch_inv tb : tb_ok n tb ->
    no_int (backpatch ss tb) /\ (forall tb', backpatch ss tb = Ok tb' -> Forall (fun kv => snd kv <> VPyNone) tb').
  Proof.
    intros Ht. unfold backpatch. set (f := fun kv : text * value => _).
    assert (Hone : forall k v, vok n v -> no_int (f (k, v)) /\ forall kv, f (k, v) = Ok kv -> snd kv <> VPyNone).
    { intros k v Hv. unfold f. cbn [snd fst].
      destruct v; try contradiction; try (split; [exact I | intros kv E; inversion E; subst; cbn; discriminate]).
      - cbn [vok] in Hv. destruct (nth_stmt_some' idx Hv) as (t & E & (Ha & _)). rewrite E.
        split; [exact I|]. intros kv X. inversion X; subst. exact Ha.
      - destruct addr; [|split; [exact I | intros kv E; inversion E; subst; cbn; discriminate]].
        destruct Hv as [Hl Hr']. split.
        + apply no_int_bind; [now apply calc_offset_ni'|]. intros v0 _.
          apply no_int_bind; [apply no_int_as_te, fit_value_ni | intros; exact I].
        + intros kv X. apply bind_ok in X as [v0 [Hc X]]. apply bind_ok in X as [vf [Hf X]]. inversion X; subst. cbn.
          apply as_te_ok in Hf. unfold fit_value in Hf. destruct (_ || _); [discriminate|].
          apply bind_ok in Hf as [nn [_ Hf]]. inversion Hf; subst. discriminate. }
    clearbody f. induction tb as [|[k v] tb IH]; cbn [map_res].
    - split; [exact I|]. intros tb' H. inversion H; subst. constructor.
    - pose proof (Forall_inv Ht) as Hv. pose proof (Forall_inv_tail Ht) as Htb. cbn [snd] in Hv.
      destruct (IH Htb) as [Hni Hr]. destruct (Hone k v Hv) as [H1 H2]. split.
      + apply no_int_bind; [exact H1|]. intros kv _. apply no_int_bind; [exact Hni | intros; exact I].
      + intros tb' H. apply bind_ok in H as [kv [Hk H]]. apply bind_ok in H as [rest [Hrest H]]. inversion H; subst.
        constructor; [now apply H2 | now apply Hr].
  Qed.

  Lemma stmt_result_ni s : einv n s -> no_int (stmt_result s).
  Proof.
    intros (_ & H1 & H2 & H3). unfold stmt_result, stmt_bytes. apply no_int_bind; [|intros; exact I].
    apply no_int_bind; [eapply emit_value_ni; eauto|]. intros a _.
    apply no_int_bind; [eapply emit_value_ni; eauto|]. intros b _.
    apply no_int_bind; [eapply emit_value_ni; eauto | intros; exact I].
  Qed.
End After.

Lemma sym_line_ni kv : snd kv <> VPyNone -> no_int (sym_line kv).
Proof. intros H. unfold sym_line. destruct (snd kv); try contradiction; try (destruct (v_hex _); exact I). Qed.

(* ====================================================================================================== *)
(* 7. the whole assembler                                                                                   *)
(* ====================================================================================================== *)
(* what parsing establishes of a statement *)
Definition parsed_ok (s : stmt) : Prop :=
  In (s_instr s) Tables.instructions /\ (forall n, ook n (s_operand s)) /\ s_hint s = 2.

Lemma parse_line_parsed line st : parse_line line = Ok (Some st) -> parsed_ok st.
Proof.
  unfold parse_line, parsed_ok. intros H.
  destruct (mem_c 10 _); [discriminate|]. destruct (all_c is_space line); [discriminate|].
  destruct (hd 0 (lstrip line) =? 59); [discriminate|].
  destruct (span is_labelch line) as [label r1]. destruct r1 as [|c1 r1']; [discriminate|].
  destruct (negb (is_space c1)); [discriminate|].
  destruct (span is_word _) as [mn r3]. destruct r3 as [|c2 r3']; [discriminate|].
  destruct (negb (is_space c2)); [discriminate|].
  destruct (find_instr (upper_t mn) Tables.instructions) as [j|] eqn:Ef; [|discriminate].
  apply find_instr_In in Ef.
  destruct (Tables.is_string_define j).
  - destruct (rstrip _) as [|d rest]; [discriminate|]. destruct (find_from d rest 1) as [e|]; [|discriminate].
    destruct (create_operand _ j) eqn:Ec; try discriminate. inversion H; subst. cbn.
    split; [exact Ef|]. split; [intros n; eapply create_operand_ook; eauto | reflexivity].
  - destruct (span is_opch _) as [ops rest]. apply bind_ok in H as [o [Ho H]]. inversion H; subst. cbn.
    split; [exact Ef|]. split; [|reflexivity]. intros n. unfold as_parse_error in Ho.
    destruct (create_operand ops j) eqn:Ec; try discriminate. inversion Ho; subst. eapply create_operand_ook; eauto.
Qed.

Lemma parse_lines_parsed : forall lines ss, parse_lines lines = Ok ss -> Forall parsed_ok ss.
Proof.
  induction lines as [|l r IH]; intros ss H; cbn [parse_lines] in H; [inversion H; constructor|].
  apply bind_ok in H as [s [Hs H]]. apply bind_ok in H as [rest [Hr H]]. inversion H; subst.
  destruct s as [st|]; [constructor; [eapply parse_line_parsed; eauto | now apply IH] | now apply IH].
Qed.

Lemma expand_list_inv rec fm chain :
  (forall c inner, Forall parsed_ok inner -> no_int (rec c inner) /\ forall r, rec c inner = Ok r -> Forall parsed_ok r) ->
  forall ss, Forall parsed_ok ss ->
  no_int (expand_list rec fm chain ss) /\ forall r, expand_list rec fm chain ss = Ok r -> Forall parsed_ok r.
Proof.
  intros Hrec. induction ss as [|s ss IH]; intros Hin; cbn [expand_list].
  - split; [exact I|]. intros r H. inversion H; constructor.
  - inversion Hin as [|? ? Hs Hss]; subst. destruct (IH Hss) as [Hni Hr]. destruct (_ && _).
    + destruct (existsb (text_eqb (s_opstr s)) chain); [split; [exact I | discriminate]|].
      destruct (lookup_file (s_opstr s) fm) as [ls|]; [|split; [exact I | discriminate]].
      split.
      * apply no_int_bind; [apply benign_no_int, parse_lines_never_crash|]. intros inner Hp.
        destruct (Hrec (chain ++ [s_opstr s]) inner (parse_lines_parsed _ _ Hp)) as [R1 R2].
        apply no_int_bind; [exact R1|]. intros inner' _. apply no_int_bind; [exact Hni | intros; exact I].
      * intros r H. apply bind_ok in H as [inner [Hp H]]. apply bind_ok in H as [inner' [Hi H]]. apply bind_ok in H as [rest [Hrest H]].
        inversion H; subst. destruct (Hrec (chain ++ [s_opstr s]) inner (parse_lines_parsed _ _ Hp)) as [R1 R2].
        apply Forall_app. split; [now apply R2 | now apply Hr].
    + split.
      * apply no_int_bind; [exact Hni | intros; exact I].
      * intros r H. apply bind_ok in H as [rest [Hrest H]]. inversion H; subst. constructor; [exact Hs | now apply Hr].
Qed.

Lemma expand_inv fm : forall fuel chain ss, Forall parsed_ok ss ->
  no_int (expand fuel fm chain ss) /\ forall r, expand fuel fm chain ss = Ok r -> Forall parsed_ok r.
Proof.
  induction fuel as [|f IH]; intros chain ss Hin; cbn [expand].
  - apply expand_list_inv; [|exact Hin]. intros c inner _. split; [exact I | discriminate].
  - apply expand_list_inv; [|exact Hin]. intros c inner Hi. apply IH. exact Hi.
Qed.

Lemma save_symbols_ni : forall ss idx tb, no_int (save_symbols ss idx tb).
Proof.
  induction ss as [|s r IH]; intros idx tb; cbn [save_symbols]; [exact I|].
  destruct (s_label s); [apply IH|]. destruct (lookup _ tb); [exact I | apply IH].
Qed.

Theorem translate_program_no_internal fm parsed : Forall parsed_ok parsed ->
  no_int (translate_program fm parsed) /\
  forall ss tb, translate_program fm parsed = Ok (ss, tb) ->
    Forall (einv (N.of_nat (length ss))) ss /\ Forall (fun kv => snd kv <> VPyNone) tb.
Proof.
  intros Hp. unfold translate_program.
  destruct (expand_inv fm (S (length fm)) [] parsed Hp) as [N0 P0].
  (* generic: thread the stages *)
  assert (Hmain : forall ss0, expand (S (length fm)) fm [] parsed = Ok ss0 ->
     no_int (do tb0 <- save_symbols ss0 0 []; do tb <- resolve_defined ss0 tb0;
             do ss1 <- map_res (resolve_stmt tb) ss0; do ss2 <- map_res translate_stmt ss1;
             do ss3 <- size_loop (S (length ss2)) ss2; do ss4 <- assign_addresses ss3 0 false;
             do ss5 <- fix_all ss4 ss4 0; do tb' <- backpatch ss5 tb; Ok (ss5, tb')) /\
     forall ss tb, (do tb0 <- save_symbols ss0 0 []; do tb <- resolve_defined ss0 tb0;
             do ss1 <- map_res (resolve_stmt tb) ss0; do ss2 <- map_res translate_stmt ss1;
             do ss3 <- size_loop (S (length ss2)) ss2; do ss4 <- assign_addresses ss3 0 false;
             do ss5 <- fix_all ss4 ss4 0; do tb' <- backpatch ss5 tb; Ok (ss5, tb')) = Ok (ss, tb) ->
       Forall (einv (N.of_nat (length ss))) ss /\ Forall (fun kv => snd kv <> VPyNone) tb).
  { intros ss0 H0. pose proof (P0 _ H0) as Q0. set (n := N.of_nat (length ss0)).
    assert (Hook : Forall (fun s => ook n (s_operand s)) ss0) by (eapply Forall_impl; [|exact Q0]; intros s (_ & H & _); apply H).
    (* facts at each stage, given the stage succeeded *)
    assert (S1 : forall tb0, save_symbols ss0 0 [] = Ok tb0 ->
              tb_ok n tb0 /\ Forall (fun s => s_label s = [] \/ lookup (s_label s) tb0 <> None) ss0).
    { intros tb0 E. destruct (save_symbols_ok n ss0 0 [] tb0 ltac:(unfold n; lia) Hook ltac:(constructor) E) as (A & _ & C). auto. }
    assert (S2 : forall tb ss1, tb_ok n tb -> map_res (resolve_stmt tb) ss0 = Ok ss1 ->
              length ss1 = length ss0 /\ Forall (fun s => rok n (s_instr s) (s_operand s) /\ s_hint s = 2) ss1).
    { intros tb ss1 Ht E. split; [apply (map_res_spec _ _ _ E)|].
      eapply (map_res_Forall (resolve_stmt tb) parsed_ok); [|exact Q0|exact E].
      intros a b (Hi & Ho & Hh) Hab. unfold resolve_stmt in Hab. apply bind_ok in Hab as [o [Hres Hab]]. inversion Hab; subst. cbn.
      apply as_te_ok in Hres. split; [eapply resolve_operand_rok; eauto | exact Hh]. }
    assert (S3 : forall ss1 ss2, length ss1 = length ss0 -> Forall (fun s => rok n (s_instr s) (s_operand s) /\ s_hint s = 2) ss1 ->
              map_res translate_stmt ss1 = Ok ss2 -> length ss2 = length ss0 /\ Forall (sinv n) ss2).
    { intros ss1 ss2 L1 F1 E. split; [rewrite <- L1; apply (map_res_spec _ _ _ E)|].
      assert (Hpos : ss1 <> [] -> 0 < n) by (intros X; unfold n; rewrite <- L1; destruct ss1; [contradiction | cbn; lia]).
      eapply (map_res_Forall translate_stmt (fun s => 0 < n /\ rok n (s_instr s) (s_operand s) /\ s_hint s = 2)); [| |exact E].
      - intros a b (Hn & Ho & Hh) Hab. eapply translate_stmt_sinv; eauto. rewrite Hh. reflexivity.
      - rewrite Forall_forall in *. intros x Hx. split; [apply Hpos; intro X; rewrite X in Hx; destruct Hx | now apply F1]. }
    split.
    - apply no_int_bind; [apply save_symbols_ni|]. intros tb0 E0. destruct (S1 _ E0) as [T0 K0].
      destruct (resolve_defined_inv n ss0 tb0 T0 K0) as [N1 P1].
      apply no_int_bind; [exact N1|]. intros tb E1. pose proof (P1 _ E1) as T1.
      apply no_int_bind; [apply (map_res_ni _ (fun _ => True)); [intros; apply resolve_stmt_ni | now apply Forall_forall]|]. intros ss1 E2.
      destruct (S2 _ _ T1 E2) as [L1 F1].
      apply no_int_bind; [apply (map_res_ni _ (fun _ => True)); [intros; apply translate_stmt_ni | now apply Forall_forall]|]. intros ss2 E3.
      destruct (S3 _ _ L1 F1 E3) as [L2 F2]. destruct (size_loop_inv n (S (length ss2)) ss2 F2) as [N3 P3].
      apply no_int_bind; [exact N3|]. intros ss3 E4. pose proof (P3 _ E4) as F3.
      destruct (assign_inv n ss3 0 false F3) as [N4 P4].
      apply no_int_bind; [exact N4|]. intros ss4 E5. pose proof (P4 _ E5) as F4.
      assert (L4 : length ss4 = length ss0).
      { rewrite (placed_length _ _ _ (assign_placed _ _ _ _ E5)). rewrite <- (Forall2_length' _ _ _ (size_loop_rel _ _ _ E4)). exact L2. }
      assert (F4' : Forall (sinv (N.of_nat (length ss4))) ss4) by (rewrite L4; exact F4).
      destruct (fix_all_inv ss4 F4' ss4 0 ltac:(lia) F4') as [N5 P5].
      apply no_int_bind; [exact N5|]. intros ss5 E6. pose proof (P5 _ E6) as F5.
      assert (L5 : length ss5 = length ss4) by (symmetry; apply (Forall2_length' _ _ _ (fix_all_rel _ _ _ _ E6))).
      assert (F5' : Forall (einv (N.of_nat (length ss5))) ss5) by (rewrite L5; exact F5).
      assert (T1' : tb_ok (N.of_nat (length ss5)) tb) by (rewrite L5, L4; exact T1).
      destruct (backpatch_inv ss5 F5' tb T1') as [N6 _].
      apply no_int_bind; [exact N6 | intros; exact I].
    - intros ss tb H. apply bind_ok in H as [tb0 [E0 H]]. destruct (S1 _ E0) as [T0 K0].
      destruct (resolve_defined_inv n ss0 tb0 T0 K0) as [_ P1].
      apply bind_ok in H as [tb1 [E1 H]]. pose proof (P1 _ E1) as T1.
      apply bind_ok in H as [ss1 [E2 H]]. destruct (S2 _ _ T1 E2) as [L1 F1].
      apply bind_ok in H as [ss2 [E3 H]]. destruct (S3 _ _ L1 F1 E3) as [L2 F2].
      destruct (size_loop_inv n (S (length ss2)) ss2 F2) as [_ P3].
      apply bind_ok in H as [ss3 [E4 H]]. pose proof (P3 _ E4) as F3.
      destruct (assign_inv n ss3 0 false F3) as [_ P4].
      apply bind_ok in H as [ss4 [E5 H]]. pose proof (P4 _ E5) as F4.
      assert (L4 : length ss4 = length ss0).
      { rewrite (placed_length _ _ _ (assign_placed _ _ _ _ E5)). rewrite <- (Forall2_length' _ _ _ (size_loop_rel _ _ _ E4)). exact L2. }
      assert (F4' : Forall (sinv (N.of_nat (length ss4))) ss4) by (rewrite L4; exact F4).
      destruct (fix_all_inv ss4 F4' ss4 0 ltac:(lia) F4') as [_ P5].
      apply bind_ok in H as [ss5 [E6 H]]. pose proof (P5 _ E6) as F5.
      assert (L5 : length ss5 = length ss4) by (symmetry; apply (Forall2_length' _ _ _ (fix_all_rel _ _ _ _ E6))).
      assert (F5' : Forall (einv (N.of_nat (length ss5))) ss5) by (rewrite L5; exact F5).
      assert (T1' : tb_ok (N.of_nat (length ss5)) tb1) by (rewrite L5, L4; exact T1).
      destruct (backpatch_inv ss5 F5' tb1 T1') as [_ P6].
      apply bind_ok in H as [tb' [E7 H]]. inversion H; subst. split; [exact F5' | now apply P6]. }
  split.
  - apply no_int_bind; [exact N0|]. intros ss0 E. apply (Hmain ss0 E).
  - intros ss tb H. apply bind_ok in H as [ss0 [E H]]. eapply (proj2 (Hmain ss0 E)); exact H.
Qed.

(* THE theorem: whatever the files and the source contain, the assembler ends with a result or a diagnostic;
   it never ends in an exception class it does not report *)
Theorem assemble_no_internal fm lines : no_int (assemble fm lines).
Proof.
  unfold assemble. apply no_int_bind; [apply benign_no_int, parse_lines_never_crash|]. intros parsed Hp.
  destruct (translate_program_no_internal fm parsed (parse_lines_parsed _ _ Hp)) as [Hni Hres].
  apply no_int_bind; [exact Hni|]. intros [ss tb] Ht. destruct (Hres _ _ Ht) as [Hs Htb].
  apply no_int_bind.
  - eapply map_res_ni; [|exact Hs]. intros a Ha. exact (stmt_result_ni ss a Ha).
  - intros rs _. apply no_int_bind; [|intros; exact I].
    eapply map_res_ni; [|exact Htb]. intros kv Hkv. now apply sym_line_ni.
Qed.
