(* PCassetteW.v — every tape the model writer produces parses, under the checksum-verifying
   spec parser, to exactly the files that were written (C14; used by C06, C09, C11, C16). *)
From V Require Import Base.
From V.spec Require Import SpecTape.
From V.model Require Import MCassette.
Local Open Scope N_scope.

Lemma parse_block_block ty pl rest :
  (length pl <= 255)%nat -> parse_block (block ty pl ++ rest) = Some (ty, pl, rest).
Proof.
  intros H. unfold block, parse_block. cbn [app].
  rewrite Nat2N.id.
  rewrite <- app_assoc. rewrite firstn_app, Nat.sub_diag, firstn_all. cbn [firstn]. rewrite app_nil_r.
  rewrite skipn_app, Nat.sub_diag, skipn_all. cbn [skipn app].
  rewrite Nat.eqb_refl, N.eqb_refl.
  assert (Hlt : (N.of_nat (length pl) <? 256) = true) by (apply N.ltb_lt; lia).
  rewrite Hlt. reflexivity.
Qed.

Lemma block_starts ty pl : exists r, block ty pl = 85 :: 60 :: r.
Proof. unfold block. cbn [app]. eauto. Qed.

Lemma strip_gap_frame s r : strip_gap s (85 :: 60 :: r) = (s, 85 :: 60 :: r).
Proof. reflexivity. Qed.

Lemma strip_gap_zeros s n r : strip_gap s (repeat 0 n ++ r) = strip_gap s r.
Proof. induction n as [|n IH]; [reflexivity|]. cbn [repeat app strip_gap]. cbn. exact IH. Qed.

Lemma strip_gap_55s s n r :
  strip_gap s (repeat 85 (S n) ++ 85 :: 60 :: r) = (true, 85 :: 60 :: r).
Proof.
  revert s; induction n as [|n IH]; intros s.
  - reflexivity.
  - change (repeat 85 (S (S n)) ++ 85 :: 60 :: r) with (85 :: (repeat 85 (S n) ++ 85 :: 60 :: r)).
    cbn [strip_gap]. change (85 =? 0) with false. change (85 =? 85) with true. cbn iota.
    change (repeat 85 (S n) ++ 85 :: 60 :: r) with (85 :: (repeat 85 n ++ 85 :: 60 :: r)) at 1.
    cbn iota. apply IH.
Qed.

Lemma strip_gap_blank_leader s r :
  strip_gap s (blank ++ leader ++ 85 :: 60 :: r) = (true, 85 :: 60 :: r).
Proof. unfold blank, leader. rewrite strip_gap_zeros. apply (strip_gap_55s s 127). Qed.

(* --- data blocks --- *)

Lemma parse_data_S f bs : parse_data (S f) bs = parse_data_step (parse_data f) bs.
Proof. reflexivity. Qed.

Lemma step_eof rec rest : parse_data_step rec (eof_block ++ rest) = Some ([], rest).
Proof. reflexivity. Qed.

Lemma step_block rec pl rest : pl <> [] -> (length pl <= 255)%nat ->
  parse_data_step rec (block 1 pl ++ rest) =
  match rec rest with Some (d, r) => Some (pl ++ d, r) | None => None end.
Proof.
  intros Hne Hl. unfold parse_data_step.
  destruct (block_starts 1 pl) as [r Hr].
  assert (Hs : snd (strip_gap false (block 1 pl ++ rest)) = block 1 pl ++ rest).
  { rewrite Hr. reflexivity. }
  rewrite Hs, parse_block_block by assumption. destruct pl; congruence.
Qed.

Lemma data_blocks_ok : forall n d fuel pf rest,
  (length d <= n)%nat -> (n < fuel)%nat -> (n < pf)%nat ->
  parse_data pf (data_blocks fuel d ++ eof_block ++ rest) = Some (d, rest).
Proof.
  induction n as [|n IH]; intros d fuel pf rest Hd Hf Hp.
  - destruct d; [|cbn in Hd; lia]. destruct fuel; [lia|]. destruct pf; [lia|].
    cbn [data_blocks app]. rewrite parse_data_S. apply step_eof.
  - destruct fuel as [|fuel]; [lia|]. destruct pf as [|pf]; [lia|].
    rewrite parse_data_S. cbn [data_blocks]. destruct d as [|x d'] eqn:Ed.
    + cbn [app]. apply step_eof.
    + rewrite <- Ed in *. assert (Hne : d <> []) by (subst; discriminate).
      destruct (Nat.ltb_spec (length d) 255) as [Hlt|Hge].
      * rewrite step_block; [|assumption|lia].
        destruct pf; [lia|]. rewrite parse_data_S, step_eof. now rewrite app_nil_r.
      * rewrite <- app_assoc. rewrite step_block.
        -- rewrite (IH (skipn 255 d)); [now rewrite firstn_skipn| |lia|lia].
           rewrite skipn_length. lia.
        -- intro E. apply (f_equal (@length _)) in E. rewrite firstn_length in E. cbn [length] in E. lia.
        -- rewrite firstn_length; lia.
Qed.

Lemma block_length ty pl : length (block ty pl) = (length pl + 6)%nat.
Proof. unfold block. cbn [app length]. rewrite app_length. cbn [length]. lia. Qed.

Lemma data_blocks_length : forall n d fuel, (length d <= n)%nat -> (n < fuel)%nat ->
  (length d <= length (data_blocks fuel d))%nat.
Proof.
  induction n as [|n IH]; intros d fuel Hd Hf.
  - destruct d; [cbn; lia | cbn in Hd; lia].
  - destruct fuel as [|fuel]; [lia|]. cbn [data_blocks]. destruct d as [|x d'] eqn:Ed; [cbn; lia|].
    rewrite <- Ed in *.
    destruct (Nat.ltb_spec (length d) 255) as [Hlt|Hge].
    + rewrite block_length. lia.
    + rewrite app_length, block_length, firstn_length.
      assert (H1 : (length (skipn 255 d) <= length (data_blocks fuel (skipn 255 d)))%nat).
      { apply (IH (skipn 255 d)); [rewrite skipn_length; lia | lia]. }
      rewrite skipn_length in H1. lia.
Qed.

(* --- header --- *)

Lemma name8_length : forall k n, length (name8 k n) = k.
Proof. induction k as [|k IH]; intros n; [reflexivity|]. destruct n; cbn [name8 length]; now rewrite IH. Qed.

Lemma list8 (l : list byte) : length l = 8%nat ->
  exists a b c d e f g h, l = [a;b;c;d;e;f;g;h].
Proof.
  intros H. do 8 (destruct l as [|? l]; [discriminate|]). destruct l; [|discriminate].
  repeat eexists.
Qed.

Lemma decode_header_payload f :
  c_load f < 65536 -> c_exec f < 65536 ->
  decode_header (header_payload f) =
  Some (name8 8 (c_name f), c_type f, c_dtype f, 0, c_load f, c_exec f).
Proof.
  intros Hl He. unfold header_payload.
  destruct (list8 (name8 8 (c_name f)) (name8_length 8 _)) as (a&b&c&d&e&g&h&i&E).
  rewrite E. cbn [app decode_header]. now rewrite !hi_lo_word.
Qed.

Lemma header_payload_length f : length (header_payload f) = 15%nat.
Proof. unfold header_payload. rewrite app_length, name8_length. reflexivity. Qed.

(* --- one file --- *)

Definition valid_addr (f : cfile) : Prop := c_load f < 65536 /\ c_exec f < 65536.

Lemma data_section_starts d fuel rest :
  exists r, data_blocks fuel d ++ eof_block ++ rest = 85 :: 60 :: r.
Proof.
  destruct fuel as [|fuel]; [cbn; eauto|]. cbn [data_blocks]. destruct d as [|x d']; [cbn; eauto|].
  destruct (Nat.ltb _ 255).
  - destruct (block_starts 1 (x :: d')) as [r ->]. cbn [app]. eauto.
  - destruct (block_starts 1 (firstn 255 (x :: d'))) as [r ->]. cbn [app]. eauto.
Qed.

Lemma parse_file_add_file f rest :
  valid_addr f ->
  parse_file (add_file f ++ rest) = Some (norm f, 0, rest).
Proof.
  intros [Hl He]. unfold parse_file, add_file.
  destruct (block_starts 0 (header_payload f)) as [rb Hrb].
  repeat rewrite <- app_assoc.
  rewrite Hrb. cbn [app]. rewrite strip_gap_blank_leader.
  change (85 :: 60 :: rb ++ ?x) with ((85 :: 60 :: rb) ++ x). rewrite <- Hrb.
  rewrite parse_block_block by (rewrite header_payload_length; lia).
  rewrite decode_header_payload by assumption.
  destruct (data_section_starts (c_data f) (S (length (c_data f))) rest) as [rd Hrd].
  rewrite Hrd. rewrite strip_gap_blank_leader. rewrite <- Hrd.
  rewrite (data_blocks_ok (length (c_data f))); [reflexivity|lia|lia|].
  rewrite app_length.
  pose proof (data_blocks_length (length (c_data f)) (c_data f) (S (length (c_data f)))
                (Nat.le_refl _) (Nat.lt_succ_diag_r _)). lia.
Qed.

(* --- the whole tape --- *)

Lemma add_file_starts f : exists r, add_file f = 0 :: r.
Proof. unfold add_file, blank. cbn [repeat app]. eauto. Qed.

Lemma add_file_not_gap f rest : snd (strip_gap false (add_file f ++ rest)) <> [].
Proof.
  unfold add_file. destruct (block_starts 0 (header_payload f)) as [rb Hrb].
  repeat rewrite <- app_assoc. rewrite Hrb. cbn [app]. rewrite strip_gap_blank_leader. discriminate.
Qed.

Lemma parse_fuel_write : forall fs fuel,
  Forall valid_addr fs -> (length fs < fuel)%nat ->
  parse_fuel fuel (write fs) = Some (map (fun f => (norm f, 0)) fs).
Proof.
  induction fs as [|f fs IH]; intros fuel Hv Hf.
  - destruct fuel; [lia|]. reflexivity.
  - destruct fuel as [|fuel]; [cbn in Hf; lia|]. inversion Hv as [|? ? Hvf Hvfs]; subst.
    unfold write. cbn [map concat]. fold (write fs).
    cbn [parse_fuel]. unfold parse_step.
    destruct (snd (strip_gap false (add_file f ++ write fs))) eqn:Eg.
    + exfalso. eapply add_file_not_gap; eauto.
    + rewrite parse_file_add_file by assumption.
      rewrite IH; [reflexivity|assumption|cbn in Hf; lia].
Qed.

Lemma write_length fs : (length fs <= length (write fs))%nat.
Proof.
  induction fs as [|f fs IH]; [cbn; lia|]. unfold write. cbn [map concat]. fold (write fs).
  rewrite app_length. destruct (add_file_starts f) as [r ->]. cbn [length]. lia.
Qed.

Theorem written_tape_wellformed fs :
  Forall valid_addr fs -> parse (write fs) = Some (map (fun f => (norm f, 0)) fs).
Proof.
  intros Hv. unfold parse. apply parse_fuel_write; [assumption|].
  pose proof (write_length fs). lia.
Qed.

(* each data block of a written tape carries at most 255 bytes, and exactly 255 except the last;
   kept as a separate statement because the spec parser accepts any 1..255 chunking. *)
