(* PContig.v — the image is contiguous from its origin (repair F45).  Once a statement with a size has been
   placed, the address pass refuses every ORG that moves the address, so every later statement sits exactly
   at the running address; the origin is the last ORG before the first statement with a size.  Together:
   a statement with a size is listed at  origin + (sum of the sizes of all statements before it). *)
From V Require Import Base.
From V.model Require Import MText MValues MOperands MProgram.
From V.proofs Require Import PLayout PFrames.
From V.gen Require Tables.
From Coq Require Import ZifyNat ZifyN ZifyBool.
Local Open Scope N_scope.

Definition sz (s : stmt) : N := cp_size (s_pkg s).

Lemma sum_range_cons f (x : stmt) l : forall c from, sum_range f (x :: l) (S from) c = sum_range f l from c.
Proof. induction c as [|c IH]; intros from; cbn [sum_range nth_error]; [reflexivity|]. now rewrite IH. Qed.

(* the value a (possibly absent) origin stands for *)
Definition oval (o : option value) : N := match o with Some v => v_int v | None => 0 end.

(* what one step of the pass does to a statement *)
Lemma assign_step s r a0 em ss' : assign_addresses (s :: r) a0 em = Ok ss' ->
  exists s' rest, ss' = s' :: rest /\ same_but_addr s s' /\
    (v_is_none (cp_addr (s_pkg s)) = true -> addr_of_stmt s' = a0) /\
    (v_is_none (cp_addr (s_pkg s)) = false -> cp_addr (s_pkg s') = cp_addr (s_pkg s)) /\
    (em = true -> addr_of_stmt s' = a0) /\
    assign_addresses r (addr_of_stmt s' + sz s) (em || (0 <? sz s)) = Ok rest.
Proof.
  cbn [assign_addresses]. intros H. apply bind_ok in H as [[av a] [Hpa H]].
  destruct (em && negb (a =? a0)) eqn:Econd; [discriminate|]. apply bind_ok in H as [rest [Hr H]]. inversion H; subst ss'. clear H.
  assert (Ha : a = v_int av /\ (v_is_none (cp_addr (s_pkg s)) = true -> v_int av = a0) /\
               (v_is_none (cp_addr (s_pkg s)) = false -> av = cp_addr (s_pkg s))).
  { destruct (v_is_none (cp_addr (s_pkg s))) eqn:En.
    - apply bind_ok in Hpa as [x [Hx Hpa]]. inversion Hpa; subst. apply as_te_ok in Hx.
      rewrite (numv_int _ _ Hx). repeat split; auto; discriminate.
    - destruct (cp_addr (s_pkg s)); inversion Hpa; subst; repeat split; auto; discriminate. }
  destruct Ha as (-> & H1 & H2).
  eexists. eexists. split; [reflexivity|]. unfold same_but_addr, addr_of_stmt, sz, set_pkg. cbn.
  split; [repeat split; reflexivity|]. split; [exact H1|]. split; [exact H2|]. split.
  - intros ->. cbn [andb] in Econd. apply negb_false_iff in Econd. now apply N.eqb_eq in Econd.
  - exact Hr.
Qed.

(* after the first byte: every statement sits at the running address *)
Lemma assign_emitted : forall ss a0 ss', assign_addresses ss a0 true = Ok ss' ->
  forall k s', nth_error ss' k = Some s' -> addr_of_stmt s' = a0 + sum_range sz ss' 0 k.
Proof.
  induction ss as [|s r IH]; intros a0 ss' H k s' Hk.
  - cbn in H. inversion H; subst. destruct k; discriminate.
  - destruct (assign_step _ _ _ _ _ H) as (x & rest & -> & Hsame & _ & _ & Hem & Hr).
    destruct k as [|k]; cbn [nth_error] in Hk.
    + inversion Hk; subst. cbn [sum_range]. rewrite (Hem eq_refl). lia.
    + cbn [orb] in Hr. rewrite (IH _ _ Hr k s' Hk). cbn [sum_range nth_error]. rewrite sum_range_cons.
      rewrite (Hem eq_refl). destruct Hsame as (_&_&_&_&_&_&_&_&_&Es&_). unfold sz. rewrite Es. lia.
Qed.

(* an ORG statement has no size; every other statement has no address of its own *)
Definition wf_org (s : stmt) : Prop :=
  (Tables.is_origin (s_instr s) = true -> sz s = 0) /\
  (Tables.is_origin (s_instr s) = false -> v_is_none (cp_addr (s_pkg s)) = true).

(* before the first byte: the running address is the last ORG's (or 0) *)
Lemma assign_from_origin : forall ss a0 cur ss', assign_addresses ss a0 false = Ok ss' ->
  oval cur = a0 -> Forall wf_org ss ->
  forall k s', nth_error ss' k = Some s' -> 0 < sz s' ->
    addr_of_stmt s' = oval (origin_of ss' cur) + sum_range sz ss' 0 k.
Proof.
  induction ss as [|s r IH]; intros a0 cur ss' H Hcur Hwf k s' Hk Hpos.
  - cbn in H. inversion H; subst. destruct k; discriminate.
  - destruct (assign_step _ _ _ _ _ H) as (x & rest & -> & Hsame & Hnone & Hown & _ & Hr).
    inversion Hwf as [|? ? [Wo Wn] Hwf']; subst.
    assert (Ei : s_instr x = s_instr s) by (destruct Hsame as (_&E&_); exact E).
    assert (Es : sz x = sz s) by (destruct Hsame as (_&_&_&_&_&_&_&_&_&E&_); exact E).
    cbn [origin_of]. fold (sz x). rewrite Ei.
    destruct (N.ltb_spec 0 (sz x)) as [Hx | Hx].
    + (* x is the first statement with a size: it is no ORG, it sits at the running address *)
      assert (Hno : Tables.is_origin (s_instr s) = false).
      { destruct (Tables.is_origin (s_instr s)) eqn:E; [|reflexivity]. specialize (Wo eq_refl). lia. }
      rewrite Hno. specialize (Hnone (Wn Hno)).
      destruct k as [|k]; cbn [nth_error] in Hk.
      * inversion Hk; subst. cbn [sum_range]. lia.
      * cbn [orb] in Hr. assert (Hlt : (0 <? sz s) = true) by (apply N.ltb_lt; lia). rewrite Hlt in Hr.
        rewrite (assign_emitted _ _ _ Hr k s' Hk). cbn [sum_range nth_error]. rewrite sum_range_cons. fold (sz x). lia.
    + (* x has no size *)
      assert (Hz : sz s = 0) by lia.
      destruct k as [|k]; cbn [nth_error] in Hk; [inversion Hk; subst; lia|].
      assert (Hlt : (0 <? sz s) = false) by (apply N.ltb_ge; lia). rewrite Hlt in Hr. cbn [orb] in Hr.
      cbn [sum_range nth_error]. rewrite sum_range_cons. fold (sz x). rewrite Es, Hz, N.add_0_l.
      eapply IH; eauto.
      rewrite Hz, N.add_0_r. destruct (Tables.is_origin (s_instr s)) eqn:E.
      * reflexivity.
      * specialize (Hnone (Wn eq_refl)). lia.
Qed.

Lemma Forall2_length' {A B} (R : A -> B -> Prop) l l' : Forall2 R l l' -> length l = length l'.
Proof. induction 1; cbn; [reflexivity | now f_equal]. Qed.

(* fix_addresses changes neither addresses, sizes nor mnemonics: the origin is the same before and after *)
Lemma origin_of_rel_fix : forall l l' cur, Forall2 rel_fix l l' -> origin_of l' cur = origin_of l cur.
Proof.
  induction l as [|a l IH]; intros l' cur H; inversion H as [|? b ? l2 Hab Hl]; subst; [reflexivity|].
  cbn [origin_of]. destruct Hab as (_ & Ei & _ & _ & _ & _ & _ & Ea & _ & Es & _). rewrite Ei, Ea, Es.
  destruct (0 <? cp_size (s_pkg a)); [reflexivity|]. now apply IH.
Qed.

Lemma sum_range_rel_fix : forall l l', Forall2 rel_fix l l' -> forall c from, sum_range sz l' from c = sum_range sz l from c.
Proof.
  intros l l' H. induction c as [|c IH]; intros from; cbn [sum_range]; [reflexivity|]. rewrite IH. f_equal.
  destruct (nth_error l' from) as [b|] eqn:Eb.
  - destruct (Forall2_nth_r _ _ _ _ _ H Eb) as [a [Ea R]]. rewrite Ea. destruct R as (_&_&_&_&_&_&_&_&_&Es&_). exact Es.
  - assert (nth_error l from = None) as ->; [|reflexivity].
    apply nth_error_None. apply nth_error_None in Eb. now rewrite (Forall2_length' _ _ _ H).
Qed.
