(* PC05list.v — FCB / FDB value lists (MultiByteValue / MultiWordValue).
   For EVERY list of two or more literal spellings p1,...,pk (each a number the assembler reads: decimal, negative
   decimal, $hex, %binary, 'c), the operand text "p1,p2,...,pk" is split back into exactly those pieces, every piece
   is rendered at the directive's width, the list is accepted exactly when every value fits that width, and the
   accepted statement emits one byte (FCB) or two bytes high byte first (FDB) per listed value, in order:
   the two's complement of the value.  The rows of FCB and FDB are looked up in the regenerated table. *)
From V Require Import Base.
From V.model Require Import MText MValues MOperands MProgram.
From V.proofs Require Import PLayout PHex PRender PC05.
From V.gen Require Tables.
From Coq Require Import ZifyNat ZifyN ZifyBool.
Local Open Scope N_scope.
Ltac Zify.zify_post_hook ::= Z.div_mod_to_equations.

(* ---------- the operand text of a list, and splitting it ---------- *)
Fixpoint join (sep : N) (parts : list text) : text :=
  match parts with
  | [] => []
  | p :: r => match r with [] => p | _ :: _ => p ++ sep :: join sep r end
  end.

Lemma split_on_nosep sep t : ~ In sep t -> split_on sep t = [t].
Proof.
  induction t as [|c r IH]; intros H; [reflexivity|]. cbn [split_on].
  destruct (N.eqb_spec c sep) as [E|E]; [exfalso; apply H; left; auto|].
  rewrite IH; [reflexivity|]. intros Hin; apply H; now right.
Qed.

Lemma split_on_app sep p rest : ~ In sep p -> split_on sep (p ++ sep :: rest) = p :: split_on sep rest.
Proof.
  induction p as [|c r IH]; intros H.
  - cbn [app split_on]. now rewrite N.eqb_refl.
  - cbn [app split_on]. destruct (N.eqb_spec c sep) as [E|E]; [exfalso; apply H; left; auto|].
    rewrite IH; [reflexivity|]. intros Hin; apply H; now right.
Qed.

Lemma split_on_join sep : forall parts, parts <> [] -> Forall (fun p => ~ In sep p) parts ->
  split_on sep (join sep parts) = parts.
Proof.
  induction parts as [|p r IH]; intros Hne H; [congruence|].
  inversion H as [|? ? Hp Hr]; subst. destruct r as [|q r'].
  - cbn [join]. now apply split_on_nosep.
  - change (join sep (p :: q :: r')) with (p ++ sep :: join sep (q :: r')).
    rewrite split_on_app by assumption. f_equal. apply IH; [discriminate | assumption].
Qed.

Lemma mem_c_app c a b : mem_c c (a ++ b) = mem_c c a || mem_c c b.
Proof. induction a as [|x a IH]; [reflexivity|]. cbn [app mem_c]. rewrite IH. now rewrite orb_assoc. Qed.

Lemma mem_c_join sep parts : (2 <= length parts)%nat -> mem_c sep (join sep parts) = true.
Proof.
  destruct parts as [|p [|q r]]; cbn [length]; try lia. intros _.
  change (join sep (p :: q :: r)) with (p ++ sep :: join sep (q :: r)).
  rewrite mem_c_app. cbn [mem_c]. rewrite N.eqb_refl. cbn [orb]. now rewrite orb_true_r.
Qed.

(* ---------- one element ---------- *)
(* a listed value: a non-empty piece without a comma that the assembler reads as the number n *)
Definition elem_ok (p : text) (n : num) : Prop := p <> [] /\ ~ In 44 p /\ num_of_text p None MNone = Ok n.
(* the signed number n stands for *)
Definition num_number (n : num) : Z := if n_neg n then (- Z.of_N (n_int n))%Z else Z.of_N (n_int n).

(* a negative literal lies in -32768..-1 (-0 is zero: repair F53) *)
Lemma num_of_text_neg_range t p m x : num_of_text t p m = Ok x -> n_neg x = true -> 1 <= n_int x <= 32768.
Proof.
  unfold num_of_text. destruct t as [|c0 ds]; [discriminate|].
  repeat match goal with
  | |- (if ?b then _ else _) = Ok _ -> _ => destruct b eqn:?
  | |- (let '(_, _) := ?y in _) = Ok _ -> _ => destruct y eqn:?
  end; try discriminate; intros E; inversion E; subst; cbn [n_neg n_int]; try discriminate.
  intros Hn. apply negb_true_iff in Hn. apply N.eqb_neq in Hn.
  match goal with Hq : (32768 <? _) = false |- _ => apply N.ltb_ge in Hq end. lia.
Qed.

(* what NumericValue.hex(size=w) prints for w = 2 and w = 4 *)
Definition rendered (w : nat) (n : num) : N := if n_neg n && Nat.leb 4 w then 65536 - n_int n else get_negative n.

Lemma num_hex_w n w : (w = 2 \/ w = 4)%nat -> (n_neg n = true -> n_int n <= 32768) ->
  num_hex n w = Some (fmt_hex w (rendered w n)).
Proof.
  intros Hw Hr. unfold num_hex, rendered.
  assert (E0 : Nat.eqb w 0 = false) by (destruct Hw; subst; reflexivity).
  assert (E1 : (match n_hint n with Some h => if negb (h =? 0) && Nat.eqb w 0 then N.to_nat h else w | None => w end) = w).
  { destruct (n_hint n); [|reflexivity]. rewrite E0. now rewrite andb_false_r. }
  rewrite E1, E0.
  destruct (n_neg n) eqn:En; cbn [andb]; [|reflexivity].
  assert (E2 : 65536 <? n_int n = false) by (apply N.ltb_ge; specialize (Hr eq_refl); lia).
  rewrite E2. destruct (Nat.leb 4 w); reflexivity.
Qed.

(* ---------- digits ---------- *)
Lemma hexdigits_aux_len : forall f v acc, (S (length acc) <= length (hexdigits_aux (S f) v acc))%nat.
Proof.
  induction f as [|f IH]; intros v acc; rewrite hexdigits_aux_S; destruct (v <? 16).
  - cbn [length]. lia.
  - cbn [hexdigits_aux length]. lia.
  - cbn [length]. lia.
  - specialize (IH (v / 16) (v mod 16 :: acc)). cbn [length] in IH. lia.
Qed.

Lemma hexdigits_len_ge3 v : 256 <= v -> (3 <= length (hexdigits v))%nat.
Proof.
  intros H. unfold hexdigits.
  assert (E1 : v <? 16 = false) by (apply N.ltb_ge; lia). assert (E2 : v / 16 <? 16 = false) by (apply N.ltb_ge; lia).
  rewrite hexdigits_aux_S, E1, hexdigits_aux_S, E2.
  pose proof (hexdigits_aux_len 37 (v / 16 / 16) [v / 16 mod 16; v mod 16]) as L. cbn [length] in L. exact L.
Qed.

Lemma hexdigits_len_ge5 v : 65536 <= v -> (5 <= length (hexdigits v))%nat.
Proof.
  intros H. unfold hexdigits.
  assert (E1 : v <? 16 = false) by (apply N.ltb_ge; lia). assert (E2 : v / 16 <? 16 = false) by (apply N.ltb_ge; lia).
  assert (E3 : v / 16 / 16 <? 16 = false) by (apply N.ltb_ge; lia).
  assert (E4 : v / 16 / 16 / 16 <? 16 = false) by (apply N.ltb_ge; lia).
  rewrite hexdigits_aux_S, E1, hexdigits_aux_S, E2, hexdigits_aux_S, E3, hexdigits_aux_S, E4.
  pose proof (hexdigits_aux_len 35 (v / 16 / 16 / 16 / 16) [v / 16 / 16 / 16 mod 16; v / 16 / 16 mod 16; v / 16 mod 16; v mod 16]) as L.
  cbn [length] in L. exact L.
Qed.

Lemma fmt_hex_len_2 v : Nat.eqb (length (fmt_hex 2 v)) 2 = (v <? 256).
Proof.
  destruct (N.ltb_spec v 256) as [H|H].
  - rewrite fmt_hex_2 by assumption. reflexivity.
  - pose proof (hexdigits_len_ge3 v H) as L. unfold fmt_hex. rewrite app_length, repeat_length. apply Nat.eqb_neq. lia.
Qed.

Lemma fmt_hex_len_4 v : Nat.eqb (length (fmt_hex 4 v)) 4 = (v <? 65536).
Proof.
  destruct (N.ltb_spec v 65536) as [H|H].
  - rewrite fmt_hex_4 by assumption. reflexivity.
  - pose proof (hexdigits_len_ge5 v H) as L. unfold fmt_hex. rewrite app_length, repeat_length. apply Nat.eqb_neq. lia.
Qed.

(* ---------- the whole list ---------- *)
Lemma multi_parts w parts ns : (w = 2 \/ w = 4)%nat -> Forall2 elem_ok parts ns ->
  multi_hex w parts = Ok (concat (map (fun n => fmt_hex w (rendered w n)) ns)) /\
  multi_fits w parts = forallb (fun n => Nat.eqb (length (fmt_hex w (rendered w n))) w) ns.
Proof.
  intros Hw H. induction H as [|p n parts ns (Hne & _ & Hp) _ [IH1 IH2]]; [split; reflexivity|].
  assert (Hh : num_hex n w = Some (fmt_hex w (rendered w n))).
  { apply num_hex_w; [assumption|]. intros Hn. pose proof (num_of_text_neg_range _ _ _ _ Hp Hn). lia. }
  destruct p as [|c p']; [congruence|]. cbn [multi_hex multi_fits map concat forallb].
  rewrite Hp. cbn [bind]. rewrite Hh, IH1, IH2. cbn [bind]. split; reflexivity.
Qed.

(* ---------- what the rendering means ---------- *)
Lemma rendered_2 n : (n_neg n = true -> 1 <= n_int n <= 32768) ->
  (rendered 2 n <? 256) = ((-128 <=? num_number n)%Z && (num_number n <=? 255)%Z) /\
  (rendered 2 n < 256 -> rendered 2 n = Z.to_N (num_number n mod 256)).
Proof.
  intros Hr. unfold rendered, num_number, get_negative. cbn [Nat.leb]. rewrite andb_false_r.
  destruct (n_neg n) eqn:En; cbn [negb].
  - specialize (Hr eq_refl). destruct (N.leb_spec (n_int n) 128) as [H|H].
    + split; [|intros _; lia].
      assert (A : (256 - n_int n <? 256) = true) by (apply N.ltb_lt; lia). rewrite A. symmetry. apply andb_true_iff. split; [apply Z.leb_le | apply Z.leb_le]; lia.
    + split; [|intros; lia].
      assert (A : (65536 - n_int n <? 256) = false) by (apply N.ltb_ge; lia). rewrite A. symmetry. apply andb_false_iff. left. apply Z.leb_gt. lia.
  - split; [|intros; lia].
    assert (A : (-128 <=? Z.of_N (n_int n))%Z = true) by (apply Z.leb_le; lia). rewrite A. cbn [andb].
    destruct (N.ltb_spec (n_int n) 256); symmetry; [apply Z.leb_le | apply Z.leb_gt]; lia.
Qed.

Lemma rendered_4 n : (n_neg n = true -> 1 <= n_int n <= 32768) ->
  (rendered 4 n <? 65536) = ((-32768 <=? num_number n)%Z && (num_number n <=? 65535)%Z) /\
  (rendered 4 n < 65536 -> rendered 4 n = Z.to_N (num_number n mod 65536)).
Proof.
  intros Hr. unfold rendered, num_number, get_negative. cbn [Nat.leb]. rewrite andb_true_r.
  destruct (n_neg n) eqn:En; cbn [negb].
  - specialize (Hr eq_refl). split; [|intros _; lia].
    assert (A : (65536 - n_int n <? 65536) = true) by (apply N.ltb_lt; lia). rewrite A. symmetry. apply andb_true_iff. split; apply Z.leb_le; lia.
  - split; [|intros; lia].
    assert (A : (-32768 <=? Z.of_N (n_int n))%Z = true) by (apply Z.leb_le; lia). rewrite A. cbn [andb].
    destruct (N.ltb_spec (n_int n) 65536); symmetry; [apply Z.leb_le | apply Z.leb_gt]; lia.
Qed.

Lemma elems_range parts ns : Forall2 elem_ok parts ns -> Forall (fun n => n_neg n = true -> 1 <= n_int n <= 32768) ns.
Proof.
  intros H. induction H as [|p n parts ns (_ & _ & Hp) _ IH]; constructor; [|exact IH].
  intros Hn. exact (num_of_text_neg_range _ _ _ _ Hp Hn).
Qed.

Lemma elems_nocomma parts ns : Forall2 elem_ok parts ns -> Forall (fun p => ~ In 44 p) parts.
Proof. intros H. induction H as [|p n parts ns (_ & Hc & _) _ IH]; constructor; assumption. Qed.

Lemma Forall2_length {A B} (R : A -> B -> Prop) l1 l2 : Forall2 R l1 l2 -> length l1 = length l2.
Proof. intros H. induction H; cbn [length]; congruence. Qed.

(* emission of four-digit groups *)
Lemma emit_pairs_words : forall vs, Forall (fun v => v < 65536) vs ->
  emit_pairs (2 * length vs) (concat (map (fmt_hex 4) vs)) = Ok (flat_map (fun v => [v / 256; v mod 256]) vs).
Proof.
  induction vs as [|v vs IH]; intros H; [reflexivity|]. inversion H as [|? ? Hv Hvs]; subst.
  cbn [map concat length flat_map]. rewrite fmt_hex_4 by assumption.
  replace (2 * S (length vs))%nat with (S (S (2 * length vs))) by lia.
  cbn [app emit_pairs]. rewrite (IH Hvs). cbn [bind app]. f_equal. f_equal; [lia|]. f_equal. lia.
Qed.

Lemma concat_len_const {A} (f : A -> list N) k : forall l, Forall (fun x => length (f x) = k) l ->
  length (concat (map f l)) = (k * length l)%nat.
Proof.
  induction l as [|x l IH]; intros H; [cbn; lia|]. pose proof (Forall_inv H) as Hx. pose proof (Forall_inv_tail H) as Hl.
  cbv beta in Hx. cbn [map concat length]. rewrite app_length, Hx, (IH Hl). lia.
Qed.

(* ---------- the table rows ---------- *)
Lemma fcb_row i : find_instr FCB_t Tables.instructions = Some i ->
  Tables.is_pseudo i = true /\ Tables.is_multi_byte i = true /\ Tables.is_pseudo_define i = false /\
  text_eqb (mnem i) FCB_t = true.
Proof. intros H. vm_compute in H. injection H as <-. vm_compute. auto. Qed.

Lemma fdb_row i : find_instr FDB_t Tables.instructions = Some i ->
  Tables.is_pseudo i = true /\ Tables.is_multi_byte i = false /\ Tables.is_multi_word i = true /\
  Tables.is_pseudo_define i = false /\ text_eqb (mnem i) FCB_t = false /\ text_eqb (mnem i) FDB_t = true.
Proof. intros H. vm_compute in H. injection H as <-. vm_compute. repeat split; reflexivity. Qed.

(* ---------- FCB lists ---------- *)
Definition fcb_fits (n : num) : bool := ((-128 <=? num_number n)%Z && (num_number n <=? 255)%Z).
Definition fdb_fits (n : num) : bool := ((-32768 <=? num_number n)%Z && (num_number n <=? 65535)%Z).

Lemma forallb_ext_in {A} (f g : A -> bool) l : Forall (fun x => f x = g x) l -> forallb f l = forallb g l.
Proof. intros H. induction H as [|x l Hx _ IH]; [reflexivity|]. cbn [forallb]. now rewrite Hx, IH. Qed.

(* the operand is accepted exactly when every value fits, and then holds the rendered digits *)
Lemma fcb_list_operand i parts ns :
  find_instr FCB_t Tables.instructions = Some i -> (2 <= length parts)%nat -> Forall2 elem_ok parts ns ->
  create_operand (join 44 parts) i =
    if forallb fcb_fits ns then Ok (OPseudo (join 44 parts) (VMulti (concat (map (fun n => fmt_hex 2 (rendered 2 n)) ns))))
    else Diag 20.
Proof.
  intros Hi Hlen He. destruct (fcb_row i Hi) as (Hp & Hmb & Hpd & _).
  unfold create_operand. rewrite Hp. unfold pseudo_operand. rewrite Hmb, mem_c_join by assumption. cbn [andb].
  unfold multi_value. rewrite split_on_join; [|destruct parts; [cbn in Hlen; lia | discriminate] | now apply (elems_nocomma parts ns)].
  destruct (multi_parts 2 parts ns (or_introl eq_refl) He) as [E1 E2]. rewrite E1, E2. cbn [bind].
  assert (E3 : forallb (fun n => Nat.eqb (length (fmt_hex 2 (rendered 2 n))) 2) ns = forallb fcb_fits ns).
  { apply forallb_ext_in. pose proof (elems_range parts ns He) as Hr. clear -Hr. induction Hr as [|n ns Hn _ IH]; constructor; [|exact IH].
    rewrite fmt_hex_len_2. exact (proj1 (rendered_2 n Hn)). }
  rewrite E3. destruct (forallb fcb_fits ns); [|reflexivity]. cbn [bind v_is_numeric]. now rewrite Hpd.
Qed.

Theorem fcb_list_emits_its_values i parts ns :
  find_instr FCB_t Tables.instructions = Some i -> (2 <= length parts)%nat -> Forall2 elem_ok parts ns ->
  Forall (fun n => (-128 <= num_number n <= 255)%Z) ns ->
  exists v p, create_operand (join 44 parts) i = Ok (OPseudo (join 44 parts) v) /\
    translate_operand (OPseudo (join 44 parts) v) i = Ok p /\
    cp_size p = N.of_nat (length ns) /\ emit_value (cp_op p) = Ok [] /\ emit_value (cp_post p) = Ok [] /\
    emit_value (cp_add p) = Ok (map (fun n => Z.to_N (num_number n mod 256)) ns).
Proof.
  intros Hi Hlen He Hfit. pose proof (fcb_list_operand i parts ns Hi Hlen He) as Hop.
  assert (Hall : forallb fcb_fits ns = true).
  { apply forallb_forall. intros n Hn. rewrite Forall_forall in Hfit. specialize (Hfit n Hn). unfold fcb_fits.
    apply andb_true_iff. split; apply Z.leb_le; lia. }
  rewrite Hall in Hop. destruct (fcb_row i Hi) as (_ & _ & _ & Hm).
  set (h := concat (map (fun n => fmt_hex 2 (rendered 2 n)) ns)) in *.
  pose proof (elems_range parts ns He) as Hr.
  (* every rendered value is a byte, and it is the value modulo 256 *)
  assert (Hb : Forall (fun n => rendered 2 n < 256 /\ rendered 2 n = Z.to_N (num_number n mod 256)) ns).
  { rewrite Forall_forall in *. intros n Hn. destruct (rendered_2 n (Hr n Hn)) as [A B].
    assert (C : rendered 2 n <? 256 = true).
    { rewrite A. specialize (Hfit n Hn). apply andb_true_iff. split; apply Z.leb_le; lia. }
    apply N.ltb_lt in C. auto. }
  assert (Hh : h = concat (map (fmt_hex 2) (map (rendered 2) ns))) by (unfold h; now rewrite map_map).
  assert (Hlt : Forall (fun c => c < 256) (map (rendered 2) ns)).
  { apply Forall_map. eapply Forall_impl; [|exact Hb]. intros n [A _]. exact A. }
  assert (Hlen_h : length h = (2 * length ns)%nat).
  { rewrite Hh. rewrite (concat_len_const (fmt_hex 2) 2).
    - now rewrite map_length.
    - eapply Forall_impl; [|exact Hlt]. intros c Hc. cbv beta in Hc. now rewrite fmt_hex_2. }
  exists (VMulti h), (data_pkg (VMulti h) (v_byte_len (VMulti h))). split; [exact Hop|]. split.
  { cbn [translate_operand]. unfold translate_pseudo. rewrite Hm. reflexivity. }
  unfold data_pkg; cbn [cp_size cp_op cp_post cp_add]. split.
  { unfold v_byte_len. cbn [v_hex_len]. rewrite Hlen_h. f_equal. lia. }
  split; [reflexivity|]. split; [reflexivity|].
  unfold emit_value. cbn [v_hex v_hex_len]. rewrite Hlen_h.
  replace ((2 * length ns + 1) / 2)%nat with (length (map (rendered 2) ns)) by (rewrite map_length; lia).
  rewrite Hh, (emit_pairs_chars _ Hlt). f_equal. apply map_ext_in. intros n Hn.
  rewrite Forall_forall in Hb. exact (proj2 (Hb n Hn)).
Qed.

Theorem fcb_list_out_of_range_rejected i parts ns :
  find_instr FCB_t Tables.instructions = Some i -> (2 <= length parts)%nat -> Forall2 elem_ok parts ns ->
  Exists (fun n => (num_number n < -128 \/ 255 < num_number n)%Z) ns ->
  create_operand (join 44 parts) i = Diag 20.
Proof.
  intros Hi Hlen He Hbad. rewrite (fcb_list_operand i parts ns Hi Hlen He).
  assert (Hall : forallb fcb_fits ns = false).
  { apply not_true_is_false. intros Hall. rewrite forallb_forall in Hall. apply Exists_exists in Hbad as [n [Hn Hb]].
    specialize (Hall n Hn). unfold fcb_fits in Hall. apply andb_true_iff in Hall as [A B].
    apply Z.leb_le in A. apply Z.leb_le in B. lia. }
  now rewrite Hall.
Qed.

(* ---------- FDB lists ---------- *)
Lemma fdb_list_operand i parts ns :
  find_instr FDB_t Tables.instructions = Some i -> (2 <= length parts)%nat -> Forall2 elem_ok parts ns ->
  create_operand (join 44 parts) i =
    if forallb fdb_fits ns then Ok (OPseudo (join 44 parts) (VMulti (concat (map (fun n => fmt_hex 4 (rendered 4 n)) ns))))
    else Diag 20.
Proof.
  intros Hi Hlen He. destruct (fdb_row i Hi) as (Hp & Hmb & Hmw & Hpd & _).
  unfold create_operand. rewrite Hp. unfold pseudo_operand. rewrite Hmb, Hmw, mem_c_join by assumption. cbn [andb negb].
  unfold multi_value. rewrite split_on_join; [|destruct parts; [cbn in Hlen; lia | discriminate] | now apply (elems_nocomma parts ns)].
  destruct (multi_parts 4 parts ns (or_intror eq_refl) He) as [E1 E2]. rewrite E1, E2. cbn [bind].
  assert (E3 : forallb (fun n => Nat.eqb (length (fmt_hex 4 (rendered 4 n))) 4) ns = forallb fdb_fits ns).
  { apply forallb_ext_in. pose proof (elems_range parts ns He) as Hr. clear -Hr. induction Hr as [|n ns Hn _ IH]; constructor; [|exact IH].
    rewrite fmt_hex_len_4. exact (proj1 (rendered_4 n Hn)). }
  rewrite E3. destruct (forallb fdb_fits ns); [|reflexivity]. cbn [bind v_is_numeric]. now rewrite Hpd.
Qed.

Theorem fdb_list_emits_its_values i parts ns :
  find_instr FDB_t Tables.instructions = Some i -> (2 <= length parts)%nat -> Forall2 elem_ok parts ns ->
  Forall (fun n => (-32768 <= num_number n <= 65535)%Z) ns ->
  exists v p, create_operand (join 44 parts) i = Ok (OPseudo (join 44 parts) v) /\
    translate_operand (OPseudo (join 44 parts) v) i = Ok p /\
    cp_size p = N.of_nat (2 * length ns) /\ emit_value (cp_op p) = Ok [] /\ emit_value (cp_post p) = Ok [] /\
    emit_value (cp_add p) =
      Ok (flat_map (fun n => [Z.to_N ((num_number n mod 65536) / 256); Z.to_N (num_number n mod 256)]) ns).
Proof.
  intros Hi Hlen He Hfit. pose proof (fdb_list_operand i parts ns Hi Hlen He) as Hop.
  assert (Hall : forallb fdb_fits ns = true).
  { apply forallb_forall. intros n Hn. rewrite Forall_forall in Hfit. specialize (Hfit n Hn). unfold fdb_fits.
    apply andb_true_iff. split; apply Z.leb_le; lia. }
  rewrite Hall in Hop. destruct (fdb_row i Hi) as (_ & _ & _ & _ & Hm0 & Hm).
  set (h := concat (map (fun n => fmt_hex 4 (rendered 4 n)) ns)) in *.
  pose proof (elems_range parts ns He) as Hr.
  assert (Hb : Forall (fun n => rendered 4 n < 65536 /\ rendered 4 n = Z.to_N (num_number n mod 65536)) ns).
  { rewrite Forall_forall in *. intros n Hn. destruct (rendered_4 n (Hr n Hn)) as [A B].
    assert (C : rendered 4 n <? 65536 = true).
    { rewrite A. specialize (Hfit n Hn). apply andb_true_iff. split; apply Z.leb_le; lia. }
    apply N.ltb_lt in C. auto. }
  assert (Hh : h = concat (map (fmt_hex 4) (map (rendered 4) ns))) by (unfold h; now rewrite map_map).
  assert (Hlt : Forall (fun c => c < 65536) (map (rendered 4) ns)).
  { apply Forall_map. eapply Forall_impl; [|exact Hb]. intros n [A _]. exact A. }
  assert (Hlen_h : length h = (4 * length ns)%nat).
  { rewrite Hh. rewrite (concat_len_const (fmt_hex 4) 4).
    - now rewrite map_length.
    - eapply Forall_impl; [|exact Hlt]. intros c Hc. cbv beta in Hc. now rewrite fmt_hex_4. }
  exists (VMulti h), (data_pkg (VMulti h) (v_byte_len (VMulti h))). split; [exact Hop|]. split.
  { cbn [translate_operand]. unfold translate_pseudo. rewrite Hm0, Hm. reflexivity. }
  unfold data_pkg; cbn [cp_size cp_op cp_post cp_add]. split.
  { unfold v_byte_len. cbn [v_hex_len]. rewrite Hlen_h. f_equal. lia. }
  split; [reflexivity|]. split; [reflexivity|].
  unfold emit_value. cbn [v_hex v_hex_len]. rewrite Hlen_h.
  replace ((4 * length ns + 1) / 2)%nat with (2 * length (map (rendered 4) ns))%nat by (rewrite map_length; lia).
  rewrite Hh, (emit_pairs_words _ Hlt). f_equal. clear -Hb. induction Hb as [|n ns [A B] _ IH]; [reflexivity|].
  cbn [map flat_map]. rewrite IH. f_equal. rewrite B. f_equal; [|f_equal]; lia.
Qed.

Theorem fdb_list_out_of_range_rejected i parts ns :
  find_instr FDB_t Tables.instructions = Some i -> (2 <= length parts)%nat -> Forall2 elem_ok parts ns ->
  Exists (fun n => (num_number n < -32768 \/ 65535 < num_number n)%Z) ns ->
  create_operand (join 44 parts) i = Diag 20.
Proof.
  intros Hi Hlen He Hbad. rewrite (fdb_list_operand i parts ns Hi Hlen He).
  assert (Hall : forallb fdb_fits ns = false).
  { apply not_true_is_false. intros Hall. rewrite forallb_forall in Hall. apply Exists_exists in Hbad as [n [Hn Hb]].
    specialize (Hall n Hn). unfold fdb_fits in Hall. apply andb_true_iff in Hall as [A B].
    apply Z.leb_le in A. apply Z.leb_le in B. lia. }
  now rewrite Hall.
Qed.
