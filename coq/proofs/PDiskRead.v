(* PDiskRead.v — the model reader returns, for ANY sliced image that passes the consistency check,
   exactly the files the spec view (SpecDisk.files_disk) finds (C07 second sentence). *)
From V Require Import Base.
From V.spec Require Import SpecDisk.
From V.model Require Import MDisk.
Local Open Scope N_scope.

Definition dims_ok (d : disk) : Prop :=
  length (gran d) = 68%nat /\ Forall (fun g => length g = GR) (gran d) /\ length (fat d) = 256%nat.

Lemma gran_at_length d g : dims_ok d -> g < 68 -> length (gran_at d g) = GR.
Proof.
  intros (H1 & H2 & _) Hg. unfold gran_at. rewrite Forall_forall in H2. apply H2. apply nth_In. lia.
Qed.

(* ---------- firstn / skipn across a granule boundary ---------- *)

Lemma firstn_skipn_app_long (G R : list byte) skip n :
  (skip <= length G)%nat -> (length G - skip < n)%nat ->
  firstn n (skipn skip (G ++ R)) = firstn (length G - skip) (skipn skip G) ++ firstn (n - (length G - skip)) R.
Proof.
  intros H1 H2. rewrite skipn_app. replace (skip - length G)%nat with 0%nat by lia. cbn [skipn].
  rewrite firstn_app. rewrite skipn_length.
  rewrite (firstn_all2 (skipn skip G)) by (rewrite skipn_length; lia).
  rewrite (firstn_all2 (n := (length G - skip)%nat)) by (rewrite skipn_length; lia). reflexivity.
Qed.

Lemma firstn_skipn_app_short (G R : list byte) skip n :
  (n + skip <= length G)%nat ->
  firstn n (skipn skip (G ++ R)) = firstn n (skipn skip G).
Proof.
  intros H. rewrite skipn_app. replace (skip - length G)%nat with 0%nat by lia. cbn [skipn].
  rewrite firstn_app. rewrite skipn_length. replace (n - (length G - skip))%nat with 0%nat by lia.
  cbn [firstn]. now rewrite app_nil_r.
Qed.

(* ---------- read_chain follows the chain that walk finds ---------- *)

Lemma read_chain_S f d g skip n : read_chain (S f) d g skip n = read_chain_step (read_chain f d) d g skip n.
Proof. reflexivity. Qed.

Lemma walk_in_range d : forall fuel g gs s, walk d fuel g = Some (gs, s) -> Forall (fun x => x < 68) gs /\ gs <> [] /\ hd 0 gs = g.
Proof.
  induction fuel as [|fuel IH]; intros g gs s H; [discriminate|]. cbn [walk] in H.
  destruct (g <? 68) eqn:Eg; [|discriminate]. apply N.ltb_lt in Eg.
  destruct ((192 <=? fat_at d g) && (fat_at d g <=? 201)).
  - inversion H; subst. repeat split; [repeat constructor; assumption | discriminate].
  - destruct (fat_at d g <? 68); [|discriminate].
    destruct (walk d fuel (fat_at d g)) as [[gs' s']|] eqn:E; [|discriminate]. inversion H; subst.
    destruct (IH _ _ _ E) as (H1 & _). repeat split; [now constructor | discriminate].
Qed.

Lemma read_chain_walk d : dims_ok d -> forall fuel g gs s, walk d fuel g = Some (gs, s) ->
  forall fuel' skip n, (length gs <= fuel')%nat -> (skip <= GR)%nat -> (n + skip <= length gs * GR)%nat ->
  read_chain fuel' d g skip n = Ok (firstn n (skipn skip (chain_bytes d gs))).
Proof.
  intros Hd. induction fuel as [|fuel IH]; intros g gs s H fuel' skip n Hf Hs Hn; [discriminate|].
  cbn [walk] in H. destruct (g <? 68) eqn:Eg; [|discriminate]. apply N.ltb_lt in Eg.
  pose proof (gran_at_length d g Hd Eg) as HG.
  assert (E67 : (67 <? g) = false) by (apply N.ltb_ge; lia).
  destruct ((192 <=? fat_at d g) && (fat_at d g <=? 201)) eqn:Et.
  - inversion H; subst. cbn [length] in *. destruct fuel' as [|fuel']; [lia|].
    rewrite read_chain_S. unfold read_chain_step. rewrite E67.
    assert (E : Nat.ltb (GR - skip) n = false) by (apply Nat.ltb_ge; lia). rewrite E.
    unfold chain_bytes. cbn [map concat]. rewrite app_nil_r. reflexivity.
  - destruct (fat_at d g <? 68) eqn:El; [|discriminate].
    destruct (walk d fuel (fat_at d g)) as [[gs' s']|] eqn:E; [|discriminate]. inversion H; subst.
    cbn [length] in *. destruct fuel' as [|fuel']; [lia|].
    rewrite read_chain_S. unfold read_chain_step. rewrite E67.
    unfold chain_bytes. cbn [map concat]. fold (chain_bytes d gs').
    destruct (Nat.ltb_spec (GR - skip) n) as [Hlong|Hshort].
    + rewrite (IH _ _ _ E fuel' 0%nat (n - (GR - skip))%nat); [|lia|lia|lia].
      cbn [bind skipn]. rewrite firstn_skipn_app_long by lia. now rewrite HG.
    + rewrite firstn_skipn_app_short by lia. reflexivity.
Qed.

(* calculate_file_length agrees with the implied length when the last granule has >= 1 sector *)
Lemma calc_len_walk d : forall fuel g gs s b, walk d fuel g = Some (gs, s) -> s <> 0 ->
  forall fuel', (length gs <= fuel')%nat ->
  calc_len fuel' d g b = Ok (implied_len (length gs) s b).
Proof.
  induction fuel as [|fuel IH]; intros g gs s b H Hs fuel' Hf; [discriminate|].
  cbn [walk] in H. destruct (g <? 68) eqn:Eg; [|discriminate].
  destruct ((192 <=? fat_at d g) && (fat_at d g <=? 201)) eqn:Et.
  - inversion H; subst. cbn [length] in *. destruct fuel' as [|fuel']; [lia|]. cbn [calc_len].
    apply andb_true_iff in Et as [E1 E2]. rewrite E1. apply N.leb_le in E1, E2.
    assert (Em : fat_at d g mod 32 = fat_at d g - 192).
    { replace (fat_at d g) with ((fat_at d g - 192) + 6 * 32) at 1 by lia.
      rewrite N.mod_add by discriminate. apply N.mod_small. lia. }
    rewrite Em. destruct (N.eqb_spec (fat_at d g - 192) 0) as [E0|_]; [contradiction|].
    unfold implied_len. cbn [N.of_nat Nat.sub]. destruct (N.eqb_spec (fat_at d g - 192) 0); [contradiction|].
    f_equal.
  - destruct (fat_at d g <? 68) eqn:El; [|discriminate].
    destruct (walk d fuel (fat_at d g)) as [[gs' s']|] eqn:E; [|discriminate]. inversion H; subst.
    cbn [length] in *. destruct fuel' as [|fuel']; [lia|]. cbn [calc_len].
    apply N.ltb_lt in El. assert (E1 : (192 <=? fat_at d g) = false) by (apply N.leb_gt; lia). rewrite E1.
    rewrite (IH _ _ _ b E Hs fuel') by lia. cbn [bind]. f_equal.
    destruct (walk_in_range _ _ _ _ _ E) as (_ & Hne & _).
    unfold implied_len. destruct gs' as [|x r]; [congruence|]. cbn [length].
    replace (S (S (length r)) - 1)%nat with (S (length r)) by lia.
    replace (S (length r) - 1)%nat with (length r) by lia. lia.
Qed.

(* ---------- one directory entry ---------- *)

Definition entry_ascii (e : list byte) : Prop :=
  ascii_only (e_name (decode_entry e)) && ascii_only (e_ext (decode_entry e)) = true.

(* the known divergence of calculate_file_length: an ASCII file whose chain ends in $C0 *)
Definition no_ascii_c0 (d : disk) (e : list byte) : Prop :=
  let de := decode_entry e in
  match kind_of (e_type de) (e_ascii de) with
  | ASCII => forall gs, walk d 68 (e_first de) <> Some (gs, 0)
  | _ => True
  end.

Lemma firstn_prefix5 (l : list byte) n a b c e f rest :
  firstn n l = a :: b :: c :: e :: f :: rest -> exists t, l = a :: b :: c :: e :: f :: t.
Proof.
  intros H. do 5 (destruct n as [|n]; [discriminate|]; destruct l as [|? l]; [discriminate|]; cbn [firstn] in H;
                  inversion H as [[Hh Ht]]; clear H; rename Ht into H; subst).
  eauto.
Qed.

Lemma firstn_prefix3 (l : list byte) n a b c rest :
  firstn n l = a :: b :: c :: rest -> exists t, l = a :: b :: c :: t.
Proof.
  intros H. do 3 (destruct n as [|n]; [discriminate|]; destruct l as [|? l]; [discriminate|]; cbn [firstn] in H;
                  inversion H as [[Hh Ht]]; clear H; rename Ht into H; subst).
  eauto.
Qed.

Lemma implied_len_bound n s b : (1 <= n)%nat -> b <= 256 -> implied_len 1 s b <= 2304 ->
  (N.to_nat (implied_len n s b) <= n * GR)%nat.
Proof.
  intros Hn Hb Hi. unfold implied_len in *. cbn [Nat.sub N.of_nat] in Hi. unfold GR.
  destruct (s =? 0); lia.
Qed.

Lemma chain_bytes_head d g gs : chain_bytes d (g :: gs) = gran_at d g ++ chain_bytes d gs.
Proof. reflexivity. Qed.

Lemma chain_bytes_length d gs : dims_ok d -> Forall (fun x => x < 68) gs ->
  length (chain_bytes d gs) = (length gs * GR)%nat.
Proof.
  intros Hd. induction 1 as [|g gs Hg _ IH]; [reflexivity|].
  rewrite chain_bytes_head, app_length, IH, (gran_at_length d g Hd Hg). cbn [length]. lia.
Qed.

Lemma read_entry_spec d e f gs :
  dims_ok d -> entry_ascii e -> no_ascii_c0 d e ->
  file_of_entry d (decode_entry e) = Some (f, gs) -> read_entry d e = Ok f.
Proof.
  intros Hd Ha Hc H. unfold file_of_entry in H.
  destruct (walk d 68 (e_first (decode_entry e))) as [[gs' s]|] eqn:Ew; [|discriminate].
  destruct ((e_lastbytes (decode_entry e) <=? 256) && (negb (s =? 0) || (e_lastbytes (decode_entry e) =? 0))
            && (implied_len 1 s (e_lastbytes (decode_entry e)) <=? 2304)) eqn:Ec; [|discriminate].
  apply andb_true_iff in Ec as [Ec E3]. apply andb_true_iff in Ec as [E1 E2].
  apply N.leb_le in E1, E3.
  destruct (decode_stream _ _) as [f'|] eqn:Es; [|discriminate]. inversion H; subst f' gs'. clear H.
  destruct (walk_in_range _ _ _ _ _ Ew) as (Hr & Hne & Hhd).
  assert (Hlen : (1 <= length gs)%nat) by (destruct gs; [congruence | cbn; lia]).
  pose proof (implied_len_bound (length gs) s _ Hlen E1 E3) as Hb.
  assert (Hfuel : (length gs <= 68)%nat).
  { clear -Ew. revert Ew. generalize (e_first (decode_entry e)) as g. generalize 68%nat as fuel.
    induction fuel as [|fuel IH] in gs |- *; intros g H; [discriminate|]. cbn [walk] in H.
    destruct (g <? 68); [|discriminate]. destruct (_ && _).
    - inversion H; subst. cbn. lia.
    - destruct (_ <? 68); [|discriminate]. destruct (walk d fuel _) as [[gs' s']|] eqn:E; [|discriminate].
      inversion H; subst. cbn [length]. specialize (IH _ _ E). lia. }
  pose proof (chain_bytes_length d gs Hd Hr) as Hcl.
  set (g := e_first (decode_entry e)) in *.
  assert (Hg : g < 68).
  { destruct gs as [|x r]; [congruence|]. cbn in Hhd. subst x. now inversion Hr. }
  assert (E67 : (67 <? g) = false) by (apply N.ltb_ge; lia).
  unfold read_entry. unfold entry_ascii in Ha. rewrite Ha. cbn [negb]. fold g.
  unfold decode_stream in Es. unfold no_ascii_c0 in Hc. fold g in Hc.
  destruct (kind_of (e_type (decode_entry e)) (e_ascii (decode_entry e))) eqn:Ek.
  - (* ML *)
    rewrite E67.
    destruct (firstn _ (chain_bytes d gs)) as [|z [|lh [|ll [|ah [|al rest]]]]] eqn:Ef; try discriminate.
    destruct (skipn (N.to_nat (word lh ll)) rest) as [|p0 [|p1 [|p2 [|eh [|el [|? ?]]]]]] eqn:Ep; try discriminate.
    destruct ((z =? 0) && (p0 =? 255) && (p1 =? 0) && (p2 =? 0) && Nat.eqb (length (firstn (N.to_nat (word lh ll)) rest)) (N.to_nat (word lh ll))) eqn:Eb; [|discriminate].
    repeat (apply andb_true_iff in Eb as [Eb ?]).
    apply N.eqb_eq in Eb. subst z.
    repeat match goal with H : (_ =? _) = true |- _ => apply N.eqb_eq in H; subst end.
    match goal with H : Nat.eqb _ _ = true |- _ => apply Nat.eqb_eq in H; rename H into El end.
    inversion Es; subst f. clear Es.
    destruct (firstn_prefix5 _ _ _ _ _ _ _ _ Ef) as [t Et].
    assert (Hgr : exists t', gran_at d g = 0 :: lh :: ll :: ah :: al :: t').
    { destruct gs as [|x r]; [congruence|]. cbn [hd] in Hhd. rewrite chain_bytes_head in Et. rewrite Hhd in Et.
      pose proof (gran_at_length d g Hd Hg) as HG. unfold GR in HG.
      remember (gran_at d g) as G eqn:EG. clear EG.
      destruct G as [|a0 [|a1 [|a2 [|a3 [|a4 t']]]]]; cbn [length] in HG; try lia.
      cbn [app] in Et. inversion Et. exists t'. reflexivity. }
    destruct Hgr as [t' ->]. cbn [N.eqb negb].
    set (n := N.to_nat (word lh ll)) in *.
    assert (Hfl : length (firstn (N.to_nat (implied_len (length gs) s (e_lastbytes (decode_entry e)))) (chain_bytes d gs)) = (n + 10)%nat).
    { rewrite Ef. cbn [length]. rewrite <- (firstn_skipn n rest), app_length, El, Ep. cbn [length]. lia. }
    rewrite firstn_length in Hfl.
    rewrite (read_chain_walk d Hd 68 g gs s Ew 70 5 (n + 5)); [|lia|unfold GR; lia|lia].
    cbn [bind]. rewrite Et. cbn [skipn].
    assert (Ht : firstn (n + 5) t = firstn n rest ++ [255; 0; 0; eh; el]).
    { assert (Hr5 : rest = firstn (n + 5) t).
      { rewrite Et in Ef.
        remember (N.to_nat (implied_len (length gs) s (e_lastbytes (decode_entry e)))) as m.
        assert (Hm : m = (n + 10)%nat) by lia.
        rewrite Hm in Ef. replace (n + 10)%nat with (S (S (S (S (S (n + 5)))))) in Ef by lia.
        cbn [firstn] in Ef. inversion Ef. reflexivity. }
      rewrite <- Hr5. rewrite <- (firstn_skipn n rest) at 1. now rewrite Ep. }
    rewrite Ht. rewrite skipn_app, El, Nat.sub_diag.
    rewrite (skipn_all2 (firstn n rest)) by lia. cbn [app skipn N.eqb Pos.eqb andb].
    rewrite firstn_app, El, Nat.sub_diag. cbn [firstn]. rewrite app_nil_r.
    rewrite (firstn_all2 (firstn n rest)) by lia. reflexivity.
  - (* BASIC *)
    rewrite E67.
    destruct (firstn _ (chain_bytes d gs)) as [|z [|lh [|ll rest]]] eqn:Ef; try discriminate.
    destruct ((z =? 255) && Nat.eqb (length rest) (N.to_nat (word lh ll))) eqn:Eb; [|discriminate].
    apply andb_true_iff in Eb as [Ez El]. apply N.eqb_eq in Ez. subst z. apply Nat.eqb_eq in El.
    inversion Es; subst f. clear Es.
    destruct (firstn_prefix3 _ _ _ _ _ _ Ef) as [t Et].
    assert (Hgr : exists t', gran_at d g = 255 :: lh :: ll :: t').
    { destruct gs as [|x r]; [congruence|]. cbn [hd] in Hhd. rewrite chain_bytes_head in Et. rewrite Hhd in Et.
      pose proof (gran_at_length d g Hd Hg) as HG. unfold GR in HG.
      remember (gran_at d g) as G eqn:EG. clear EG.
      destruct G as [|a0 [|a1 [|a2 t']]]; cbn [length] in HG; try lia.
      cbn [app] in Et. inversion Et. exists t'. reflexivity. }
    destruct Hgr as [t' ->]. cbn [N.eqb Pos.eqb negb].
    set (n := N.to_nat (word lh ll)) in *.
    assert (Hfl : length (firstn (N.to_nat (implied_len (length gs) s (e_lastbytes (decode_entry e)))) (chain_bytes d gs)) = (n + 3)%nat).
    { rewrite Ef. cbn [length]. lia. }
    rewrite firstn_length in Hfl.
    rewrite (read_chain_walk d Hd 68 g gs s Ew 70 3 n); [|lia|unfold GR; lia|lia].
    cbn [bind]. rewrite Et. cbn [skipn].
    assert (Hr3 : rest = firstn n t).
    { rewrite Et in Ef.
      remember (N.to_nat (implied_len (length gs) s (e_lastbytes (decode_entry e)))) as m.
      assert (Hm : m = (n + 3)%nat) by lia.
      rewrite Hm in Ef. replace (n + 3)%nat with (S (S (S n))) in Ef by lia.
      cbn [firstn] in Ef. inversion Ef. reflexivity. }
    now rewrite <- Hr3.
  - (* ASCII *)
    inversion Es; subst f. clear Es.
    assert (Hs : s <> 0) by (intro E0; subst s; now apply (Hc gs)).
    rewrite (calc_len_walk d 68 g gs s _ Ew Hs 257) by lia. cbn [bind].
    rewrite (read_chain_walk d Hd 68 g gs s Ew 70 0); [|lia|lia|lia].
    cbn [bind skipn]. reflexivity.
Qed.

(* ---------- the whole directory ---------- *)

Theorem list_files_disk_spec d fs :
  dims_ok d -> Forall (fun e => entry_used e = true -> entry_ascii e /\ no_ascii_c0 d e) (dir d) ->
  files_disk d = Some fs -> list_files_disk d = Ok fs.
Proof.
  intros Hd. unfold files_disk, list_files_disk, entries. revert fs.
  induction (dir d) as [|e es IH]; intros fs Ha H.
  - cbn in H. inversion H; subst. reflexivity.
  - inversion Ha as [|? ? Hae Haes]; subst. cbn [filter read_entries] in *.
    destruct (entry_used e) eqn:Eu.
    + cbn [map all_some] in H.
      destruct (file_of_entry d (decode_entry e)) as [[f gs]|] eqn:Ef; [|discriminate].
      destruct (all_some (map (file_of_entry d) (map decode_entry (filter entry_used es)))) as [r|] eqn:Er; [|discriminate].
      inversion H; subst. cbn [map fst].
      destruct (Hae eq_refl) as [H1 H2].
      rewrite (read_entry_spec d e f gs Hd H1 H2 Ef). cbn [bind].
      rewrite (IH (map fst r) Haes eq_refl). reflexivity.
    + now apply IH.
Qed.
