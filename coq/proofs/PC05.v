(* PC05.v — data directives emit exactly the bytes they specify (property C05): FCC the characters
   between its delimiters (text level, through Statement.parse_line), RMB n zeros, a single FCB / FDB
   value its two's complement at the directive's width (out-of-range values rejected), and the other
   pseudo operations nothing. *)
From V Require Import Base.
From V.model Require Import MText MValues MOperands MProgram.
From V.proofs Require Import PLayout PClean PHex PRender.
From V.gen Require Tables.
From Coq Require Import ZifyNat ZifyN ZifyBool.
Local Open Scope N_scope.

(* ---------- list facts about strip / find ---------- *)
Lemma span_all_false p t c : p c = false -> span p (c :: t) = ([], c :: t).
Proof. intros H. cbn [span]. now rewrite H. Qed.

Lemma lstrip_nonspace c t : is_space c = false -> lstrip (c :: t) = c :: t.
Proof. intros H. unfold lstrip. now rewrite span_all_false. Qed.

Lemma lstrip_snoc u d : is_space d = false -> lstrip (u ++ [d]) = lstrip u ++ [d].
Proof.
  intros H. unfold lstrip. induction u as [|c u IH]; cbn [app span].
  - now rewrite H.
  - destruct (is_space c); [destruct (span is_space (u ++ [d])), (span is_space u); exact IH | reflexivity].
Qed.

Lemma rstrip_cons_nonspace d t : is_space d = false -> rstrip (d :: t) = d :: rstrip t.
Proof. intros H. unfold rstrip. cbn [rev]. rewrite lstrip_snoc by assumption. rewrite rev_app_distr. reflexivity. Qed.

Lemma rstrip_cons_keep c t : rstrip t <> [] -> rstrip (c :: t) = c :: rstrip t.
Proof.
  unfold rstrip. intros H. cbn [rev]. destruct (lstrip (rev t)) as [|x r] eqn:E; [contradiction H; reflexivity|].
  assert (lstrip (rev t ++ [c]) = (x :: r) ++ [c]).
  { unfold lstrip in *. revert E. generalize (rev t). induction l as [|y l IH]; cbn [app span]; [discriminate|].
    destruct (is_space y).
    - destruct (span is_space l) eqn:E1, (span is_space (l ++ [c])) eqn:E2. cbn [snd]. intros E. apply IH in E. exact E.
    - cbn [snd]. intros E. inversion E; subst. reflexivity. }
  rewrite H0, rev_app_distr. reflexivity.
Qed.

Lemma rstrip_string str d tail : is_space d = false -> rstrip (str ++ d :: tail) = str ++ d :: rstrip tail.
Proof.
  intros H. induction str as [|c s IH]; cbn [app].
  - now apply rstrip_cons_nonspace.
  - rewrite rstrip_cons_keep; [now rewrite IH | rewrite IH; destruct s; discriminate].
Qed.

Lemma find_from_skip d : forall str k rest, ~ In d str -> find_from d (str ++ d :: rest) k = Some (k + length str)%nat.
Proof.
  induction str as [|c s IH]; intros k rest H; cbn [app find_from length].
  - rewrite N.eqb_refl. f_equal. lia.
  - destruct (N.eqb_spec c d); [exfalso; apply H; now left|]. rewrite IH by (intro; apply H; now right). f_equal. lia.
Qed.

Lemma firstn_app_exact {A} (a b : list A) : firstn (length a) (a ++ b) = a.
Proof. induction a; cbn; [destruct b; reflexivity | now f_equal]. Qed.

(* ---------- FCC: text level ---------- *)
Definition fcc_line (d : N) (str tail : text) : text := [32; 70; 67; 67; 32] ++ d :: str ++ d :: tail.

Theorem fcc_parses_to_its_characters d str tail :
  is_space d = false -> ~ In d str -> Forall (fun c => c < 256) str -> mem_c 10 (removelast (fcc_line d str tail)) = false ->
  exists st, parse_line (fcc_line d str tail) = Ok (Some st) /\ s_operand st = OPseudo (d :: str ++ [d]) (VStr str) /\
             find_instr FCC_t Tables.instructions = Some (s_instr st) /\ s_label st = [].
Proof.
  intros Hd Hnin Hbyte Hnl. unfold parse_line.
  assert (Hfb : forallb (fun c => c <? 256) (rev str) = true).
  { apply forallb_forall. intros c Hc. apply in_rev in Hc. rewrite Forall_forall in Hbyte. apply N.ltb_lt. now apply Hbyte. } rewrite Hnl. unfold fcc_line. cbn [app].
  set (X := d :: str ++ d :: tail).
  assert (Hl : lstrip (32 :: X) = X).
  { unfold lstrip, X. cbn [span]. rewrite Hd. reflexivity. }
  assert (Hr : rstrip X = d :: str ++ d :: rstrip tail).
  { unfold X. rewrite rstrip_cons_nonspace by assumption. now rewrite rstrip_string. }
  assert (Hff : find_from d (str ++ d :: rstrip tail) 1 = Some (S (length str))).
  { rewrite find_from_skip by assumption. reflexivity. }
  assert (Hfn : firstn (S (S (length str))) (d :: str ++ d :: rstrip tail) = d :: str ++ [d]).
  { rewrite firstn_cons. f_equal. replace (str ++ d :: rstrip tail) with ((str ++ [d]) ++ rstrip tail) by (now rewrite <- app_assoc).
    replace (S (length str)) with (length (str ++ [d])) by (rewrite app_length; cbn; lia). now rewrite firstn_app_exact. }
  assert (Hfn' : firstn (S (length str)) (str ++ d :: rstrip tail) = str ++ [d]).
  { rewrite firstn_cons in Hfn. now inversion Hfn. }
  cbn. rewrite Hl, Hr, Hff, Hfn'.
  unfold create_operand, pseudo_operand, create_value, value_of_text. cbn -[rev]. rewrite rev_app_distr. cbn [rev app]. rewrite N.eqb_refl, Hfb, rev_involutive. cbn.
  eexists. split; [reflexivity|]. cbn. auto.
Qed.



(* the bytes of an FCC statement are its characters *)
Theorem fcc_emits_its_characters i str s :
  text_eqb (mnem i) FCC_t = true -> text_eqb (mnem i) FCB_t = false -> text_eqb (mnem i) FDB_t = false ->
  text_eqb (mnem i) RMB_t = false -> text_eqb (mnem i) ORG_t = false ->
  Forall (fun c => c < 256) str ->
  exists p, translate_operand (OPseudo s (VStr str)) i = Ok p /\
            emit_value (cp_op p) = Ok [] /\ emit_value (cp_post p) = Ok [] /\ emit_value (cp_add p) = Ok str /\
            cp_size p = N.of_nat (length str).
Proof.
  intros H1 H2 H3 H4 H5 Hc. cbn [translate_operand]. unfold translate_pseudo. rewrite H2, H3, H4, H5, H1.
  eexists. split; [reflexivity|]. unfold data_pkg; cbn [cp_op cp_post cp_add cp_size].
  repeat split; try reflexivity; [now apply string_emits_its_characters|].
  unfold v_byte_len, v_hex_len. f_equal.
  assert (L : length (concat (map (fmt_hex 2) str)) = (2 * length str)%nat).
  { clear -Hc. induction str as [|c s IH]; [reflexivity|]. inversion Hc as [|? ? A Hs]; subst. cbn [map concat].
    rewrite app_length, (IH Hs). rewrite fmt_hex_2 by assumption. cbn [length]. lia. }
  rewrite L. symmetry. apply Nat.div_unique with 0%nat; lia.
Qed.

(* ---------- RMB ---------- *)
Lemma repeat_snoc {A} (x : A) n : repeat x n ++ [x] = repeat x (S n).
Proof. induction n; cbn; [reflexivity | now f_equal]. Qed.

Theorem rmb_emits_zeros i s v :
  text_eqb (mnem i) RMB_t = true -> text_eqb (mnem i) FCB_t = false -> text_eqb (mnem i) FDB_t = false ->
  exists p, translate_operand (OPseudo s v) i = Ok p /\ cp_size p = v_int v /\
            emit_value (cp_op p) = Ok [] /\ emit_value (cp_post p) = Ok [] /\
            emit_value (cp_add p) = Ok (repeat 0 (N.to_nat (v_int v))).
Proof.
  intros H1 H2 H3. cbn [translate_operand]. unfold translate_pseudo. rewrite H2, H3, H1.
  unfold numv_h, num_of_int. cbn [negb andb]. change (65535 <? 0) with false. cbv iota.
  unfold post_init, init_hint. cbn [is_ext_mode mode_eqb bind].
  eexists. split; [reflexivity|]. unfold data_pkg; cbn [cp_op cp_post cp_add cp_size]. repeat split; try reflexivity.
  set (n := v_int v) in *. unfold emit_value, v_hex, v_hex_len.
  destruct (N.eq_dec n 0) as [E | Hne].
  - rewrite E. reflexivity.
  - destruct (num_hex_hinted {| n_int := 0; n_neg := false; n_hint := Some (n * 2); n_mode := MExtended |} (n * 2) eq_refl ltac:(lia)) as [Hl Hh].
    rewrite Hl, Hh. cbn [n_neg andb]. unfold get_negative. cbn [n_neg negb n_int].
    unfold fmt_hex. rewrite hexdigits_lt16 by lia. cbn [length].
    replace (N.to_nat (n * 2)) with (2 * N.to_nat n)%nat by lia.
    replace (2 * N.to_nat n - 1)%nat with (2 * N.to_nat n - 1)%nat by lia.
    replace (repeat 0 (2 * N.to_nat n - 1) ++ [0]) with (repeat 0 (2 * N.to_nat n)).
    2:{ rewrite repeat_snoc. f_equal. lia. }
    replace ((2 * N.to_nat n + 1) / 2)%nat with (N.to_nat n) by (apply Nat.div_unique with 1%nat; lia).
    apply emit_pairs_zeros.
Qed.

(* ---------- a single FCB / FDB value ---------- *)
Lemma translate_fcb i s v : text_eqb (mnem i) FCB_t = true -> v_is_numeric v = true ->
  translate_operand (OPseudo s v) i = (do a <- fit_value v 2 true; Ok (data_pkg a 1)).
Proof.
  intros H1 Hn. cbn [translate_operand]. unfold translate_pseudo. rewrite H1. destruct v; try discriminate. reflexivity.
Qed.

Lemma translate_fdb i s v : text_eqb (mnem i) FCB_t = false -> text_eqb (mnem i) FDB_t = true -> v_is_numeric v = true ->
  translate_operand (OPseudo s v) i = (do a <- fit_value v 4 true; Ok (data_pkg a 2)).
Proof.
  intros H0 H1 Hn. cbn [translate_operand]. unfold translate_pseudo. rewrite H0, H1. destruct v; try discriminate. reflexivity.
Qed.

Theorem fcb_single_value i s v p :
  text_eqb (mnem i) FCB_t = true -> v_is_numeric v = true ->
  translate_operand (OPseudo s v) i = Ok p ->
  (-128 <= value_number v <= 255)%Z /\ cp_size p = 1 /\ emit_value (cp_op p) = Ok [] /\ emit_value (cp_post p) = Ok [] /\
  emit_value (cp_add p) = Ok [Z.to_N (value_number v mod 256)].
Proof.
  intros H1 Hn H. rewrite translate_fcb in H by assumption. apply bind_ok in H as [a [Ef H]]. inversion H; subst p.
  destruct (fit_value_2_emits _ _ _ Ef) as (R & _ & E). unfold data_pkg; cbn. auto.
Qed.

Theorem fdb_single_value i s v p :
  text_eqb (mnem i) FCB_t = false -> text_eqb (mnem i) FDB_t = true -> v_is_numeric v = true ->
  translate_operand (OPseudo s v) i = Ok p ->
  (-32768 <= value_number v <= 65535)%Z /\ cp_size p = 2 /\ emit_value (cp_op p) = Ok [] /\ emit_value (cp_post p) = Ok [] /\
  emit_value (cp_add p) = Ok [Z.to_N ((value_number v mod 65536) / 256); Z.to_N (value_number v mod 256)].
Proof.
  intros H0 H1 Hn H. rewrite translate_fdb in H by assumption. apply bind_ok in H as [a [Ef H]]. inversion H; subst p.
  destruct (fit_value_4_emits _ _ Ef) as (R & E). unfold data_pkg; cbn. auto.
Qed.

(* a value that does not fit the directive's width is rejected *)
Theorem fit_value_out_of_range v d (signed : bool) :
  let limit := (16 ^ Z.of_N d)%Z in
  (limit <= value_number v \/ value_number v < (if signed then - (limit / 2) else 0))%Z -> fit_value v d signed = Diag 21.
Proof.
  intros limit H. unfold fit_value. fold (value_number v). fold limit.
  assert (E : ((limit <=? value_number v) || (value_number v <? (if signed then - (limit / 2) else 0)))%Z = true).
  { apply orb_true_iff. destruct H; [left; now apply Z.leb_le | right; now apply Z.ltb_lt]. }
  now rewrite E.
Qed.

Theorem fcb_out_of_range_rejected i s v :
  text_eqb (mnem i) FCB_t = true -> v_is_numeric v = true ->
  (256 <= value_number v \/ value_number v < -128)%Z -> translate_operand (OPseudo s v) i = Diag 21.
Proof.
  intros H1 Hn Hr. rewrite translate_fcb by assumption. rewrite (fit_value_out_of_range v 2 true); [reflexivity|].
  change (16 ^ Z.of_N 2)%Z with 256%Z. change (- (256 / 2))%Z with (-128)%Z. exact Hr.
Qed.

(* ---------- directives that emit nothing ---------- *)
Theorem other_pseudo_emits_nothing i s v p :
  text_eqb (mnem i) FCB_t = false -> text_eqb (mnem i) FDB_t = false -> text_eqb (mnem i) RMB_t = false ->
  text_eqb (mnem i) FCC_t = false ->
  translate_operand (OPseudo s v) i = Ok p ->
  cp_size p = 0 /\ emit_value (cp_op p) = Ok [] /\ emit_value (cp_post p) = Ok [] /\ emit_value (cp_add p) = Ok [].
Proof.
  intros H1 H2 H3 H4 H. cbn [translate_operand] in H. unfold translate_pseudo in H. rewrite H1, H2, H3, H4 in H.
  destruct (text_eqb (mnem i) ORG_t); inversion H; subst; cbn; auto.
Qed.
