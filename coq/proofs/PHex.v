(* PHex.v (hex digit arithmetic, split from PRender.v for compile time) — rendering lemmas: what bytes a value emits (hex()/hex_len()/get_binary_array).
   A value fitted to a 2- or 4-digit field (operands.fit_value, repair F26) emits exactly one or two
   bytes holding its two's complement; a string emits its characters; RMB emits zeros.
   Shared by C01, C05 and C12. *)
From V Require Import Base.
From V.model Require Import MText MValues MOperands MProgram.
From V.proofs Require Import PLayout.
From Coq Require Import ZifyNat ZifyN ZifyBool.
Local Open Scope N_scope.
Ltac Zify.zify_post_hook ::= Z.div_mod_to_equations.

Lemma hexdigits_aux_S f v acc :
  hexdigits_aux (S f) v acc = if v <? 16 then v :: acc else hexdigits_aux f (v / 16) (v mod 16 :: acc).
Proof. reflexivity. Qed.

Lemma hexdigits_lt16 v : v < 16 -> hexdigits v = [v].
Proof. intros H. unfold hexdigits. rewrite hexdigits_aux_S. apply N.ltb_lt in H. now rewrite H. Qed.

Lemma hexdigits_lt256 v : 16 <= v -> v < 256 -> hexdigits v = [v / 16; v mod 16].
Proof.
  intros H1 H2. unfold hexdigits. rewrite !hexdigits_aux_S.
  assert (E1 : v <? 16 = false) by (apply N.ltb_ge; lia). assert (E2 : v / 16 <? 16 = true) by (apply N.ltb_lt; lia).
  now rewrite E1, E2.
Qed.

Lemma hexdigits_lt4096 v : 256 <= v -> v < 4096 -> hexdigits v = [v / 256; (v / 16) mod 16; v mod 16].
Proof.
  intros H1 H2. unfold hexdigits. rewrite !hexdigits_aux_S.
  assert (E1 : v <? 16 = false) by (apply N.ltb_ge; lia). assert (E2 : v / 16 <? 16 = false) by (apply N.ltb_ge; lia).
  assert (E3 : v / 16 / 16 <? 16 = true) by (apply N.ltb_lt; lia).
  rewrite E1, E2, E3. f_equal. lia.
Qed.

Lemma hexdigits_lt65536 v : 4096 <= v -> v < 65536 ->
  hexdigits v = [v / 4096; (v / 256) mod 16; (v / 16) mod 16; v mod 16].
Proof.
  intros H1 H2. unfold hexdigits. rewrite !hexdigits_aux_S.
  assert (E1 : v <? 16 = false) by (apply N.ltb_ge; lia). assert (E2 : v / 16 <? 16 = false) by (apply N.ltb_ge; lia).
  assert (E3 : v / 16 / 16 <? 16 = false) by (apply N.ltb_ge; lia).
  assert (E4 : v / 16 / 16 / 16 <? 16 = true) by (apply N.ltb_lt; lia).
  rewrite E1, E2, E3, E4. f_equal; [lia|]. f_equal. lia.
Qed.

(* a value below 256 rendered in two digits, a value below 65536 rendered in four *)
Lemma fmt_hex_2 v : v < 256 -> fmt_hex 2 v = [v / 16; v mod 16].
Proof.
  intros H. unfold fmt_hex. destruct (N.lt_ge_cases v 16).
  - rewrite hexdigits_lt16 by assumption. cbn [length Nat.sub repeat app]. f_equal; [lia|]. f_equal. lia.
  - rewrite hexdigits_lt256 by assumption. reflexivity.
Qed.

Lemma fmt_hex_4 v : v < 65536 -> fmt_hex 4 v = [v / 4096; (v / 256) mod 16; (v / 16) mod 16; v mod 16].
Proof.
  intros H. unfold fmt_hex. destruct (N.lt_ge_cases v 16); [|destruct (N.lt_ge_cases v 256); [|destruct (N.lt_ge_cases v 4096)]].
  - rewrite hexdigits_lt16 by assumption. cbn [length Nat.sub repeat app]. repeat (f_equal; try lia).
  - rewrite hexdigits_lt256 by assumption. cbn [length Nat.sub repeat app]. repeat (f_equal; try lia).
  - rewrite hexdigits_lt4096 by assumption. cbn [length Nat.sub repeat app]. repeat (f_equal; try lia).
  - rewrite hexdigits_lt65536 by assumption. reflexivity.
Qed.

Lemma emit_pairs_2 a b : emit_pairs 1 [a; b] = Ok [a * 16 + b].
Proof. reflexivity. Qed.
Lemma emit_pairs_4 a b c d : emit_pairs 2 [a; b; c; d] = Ok [a * 16 + b; c * 16 + d].
Proof. reflexivity. Qed.

