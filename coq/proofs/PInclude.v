(* PInclude.v — INCLUDE is textual inclusion (property C19): a program containing INCLUDE f assembles to
   exactly what the program with that line replaced by the lines of f assembles to. *)
From V Require Import Base.
From V.model Require Import MText MValues MOperands MProgram.
From V.proofs Require Import PLayout.
From V.gen Require Tables.
Local Open Scope N_scope.

Lemma bind_assoc {A B C} (r : res A) (f : A -> res B) (g : B -> res C) :
  bind (bind r f) g = bind r (fun a => bind (f a) g).
Proof. destruct r; reflexivity. Qed.

Lemma parse_lines_app : forall a b, parse_lines (a ++ b) = do x <- parse_lines a; do y <- parse_lines b; Ok (x ++ y).
Proof.
  induction a as [|l a IH]; intros b; cbn [app parse_lines].
  - cbn [bind app]. destruct (parse_lines b); reflexivity.
  - rewrite IH. destruct (parse_line l) as [s| | | |]; cbn [bind]; try reflexivity.
    destruct (parse_lines a) as [pa| | | |]; cbn [bind]; try reflexivity.
    destruct (parse_lines b) as [pb| | | |]; cbn [bind]; try reflexivity. destruct s; reflexivity.
Qed.

Definition is_include_stmt (s : stmt) : bool :=
  Tables.is_include (s_instr s) && negb (Nat.eqb (length (s_opstr s)) 0).

Lemma expand_list_app rec fm chain : forall a b,
  expand_list rec fm chain (a ++ b) = do x <- expand_list rec fm chain a; do y <- expand_list rec fm chain b; Ok (x ++ y).
Proof.
  induction a as [|s a IH]; intros b; cbn [app expand_list].
  - cbn [bind app]. destruct (expand_list rec fm chain b); reflexivity.
  - rewrite IH. destruct (_ && _).
    + destruct (existsb (text_eqb (s_opstr s)) chain); [reflexivity|]. destruct (lookup_file (s_opstr s) fm) as [l|]; [|reflexivity].
      destruct (parse_lines l) as [inner| | | |]; cbn [bind]; try reflexivity.
      destruct (rec _ inner) as [i'| | | |]; cbn [bind]; try reflexivity.
      destruct (expand_list rec fm chain a) as [xa| | | |]; cbn [bind]; try reflexivity.
      destruct (expand_list rec fm chain b) as [xb| | | |]; cbn [bind]; try reflexivity. now rewrite app_assoc.
    + destruct (expand_list rec fm chain a) as [xa| | | |]; cbn [bind]; try reflexivity.
      destruct (expand_list rec fm chain b) as [xb| | | |]; cbn [bind]; reflexivity.
Qed.

(* a successful expansion stays the same with more fuel and fewer names on the chain of open includes *)
Lemma existsb_incl n (chain chain' : list text) : incl chain' chain -> existsb (text_eqb n) chain = false -> existsb (text_eqb n) chain' = false.
Proof.
  intros Hi H. destruct (existsb (text_eqb n) chain') eqn:E; [|reflexivity].
  apply existsb_exists in E as [x [Hx Ex]]. assert (existsb (text_eqb n) chain = true); [|congruence].
  apply existsb_exists. exists x. split; [now apply Hi | exact Ex].
Qed.

Lemma expand_list_mono rec rec' fm chain chain' :
  (forall n inner r, rec (chain ++ [n]) inner = Ok r -> rec' (chain' ++ [n]) inner = Ok r) -> incl chain' chain ->
  forall ss r, expand_list rec fm chain ss = Ok r -> expand_list rec' fm chain' ss = Ok r.
Proof.
  intros Hrec Hi. induction ss as [|s ss IH]; intros r H; cbn [expand_list] in *; [exact H|].
  destruct (_ && _).
  - destruct (existsb (text_eqb (s_opstr s)) chain) eqn:Ec; [discriminate|]. rewrite (existsb_incl _ _ _ Hi Ec).
    destruct (lookup_file (s_opstr s) fm); [|discriminate].
    apply bind_ok in H as [inner [Hp H]]. apply bind_ok in H as [i' [Hr H]]. apply bind_ok in H as [rest [Hrest H]].
    rewrite Hp. cbn [bind]. rewrite (Hrec _ _ _ Hr). cbn [bind]. rewrite (IH _ Hrest). exact H.
  - apply bind_ok in H as [rest [Hrest H]]. rewrite (IH _ Hrest). exact H.
Qed.

Lemma expand_mono fm : forall fuel fuel' chain chain' ss r, (fuel <= fuel')%nat -> incl chain' chain ->
  expand fuel fm chain ss = Ok r -> expand fuel' fm chain' ss = Ok r.
Proof.
  induction fuel as [|f IH]; intros fuel' chain chain' ss r Hle Hi H.
  - cbn [expand] in H. destruct fuel'; cbn [expand]; eapply expand_list_mono; try exact H; try exact Hi; intros; discriminate.
  - destruct fuel' as [|f']; [lia|]. cbn [expand] in *. eapply expand_list_mono; [|exact Hi|exact H].
    intros n inner r0 Hr. eapply IH; [lia | | exact Hr].
    intros x Hx. apply in_app_or in Hx as [Hx | Hx]; apply in_or_app; [left; now apply Hi | now right].
Qed.

(* ---------- the splice theorem ---------- *)
Theorem expand_splice F fm pre st post ls inner r :
  is_include_stmt st = true -> lookup_file (s_opstr st) fm = Some ls -> parse_lines ls = Ok inner ->
  expand (S F) fm [] (pre ++ st :: post) = Ok r -> expand (S F) fm [] (pre ++ inner ++ post) = Ok r.
Proof.
  unfold is_include_stmt. intros Hinc Hlk Hp H. cbn [expand] in *.
  rewrite expand_list_app in H. apply bind_ok in H as [a [Ha H]]. apply bind_ok in H as [y [Hy H]].
  cbn [expand_list] in Hy. rewrite Hinc in Hy. cbn [existsb] in Hy. rewrite Hlk, Hp in Hy. cbn [bind] in Hy.
  apply bind_ok in Hy as [b [Hb Hy]]. apply bind_ok in Hy as [c [Hc Hy]]. inversion Hy; subst y. inversion H; subst r.
  rewrite expand_list_app, Ha. cbn [bind]. rewrite expand_list_app.
  assert (Hb' : expand_list (expand F fm) fm [] inner = Ok b).
  { change (expand (S F) fm [] inner = Ok b). eapply expand_mono; [| |exact Hb]; [lia | intros x []]. }
  rewrite Hb', Hc. cbn [bind]. reflexivity.
Qed.

Theorem assemble_splice fm L1 line L2 st ls r :
  parse_line line = Ok (Some st) -> is_include_stmt st = true -> lookup_file (s_opstr st) fm = Some ls ->
  assemble fm (L1 ++ line :: L2) = Ok r -> assemble fm (L1 ++ ls ++ L2) = Ok r.
Proof.
  intros Hline Hinc Hlk H. unfold assemble in *.
  apply bind_ok in H as [parsed [Hparse H]]. apply bind_ok in H as [[ss tb] [Ht H]].
  rewrite parse_lines_app in Hparse. apply bind_ok in Hparse as [p1 [Hp1 Hparse]]. apply bind_ok in Hparse as [p2' [Hp2 Hparse]].
  cbn [parse_lines] in Hp2. rewrite Hline in Hp2. cbn [bind] in Hp2. apply bind_ok in Hp2 as [p2 [Hp2 E2]].
  inversion E2; subst p2'. inversion Hparse; subst parsed. clear E2 Hparse.
  unfold translate_program in Ht. apply bind_ok in Ht as [ss0 [Hexp Ht]].
  (* the include file was parsed during the expansion, so it parses *)
  assert (Hinner : exists inner, parse_lines ls = Ok inner).
  { cbn [expand] in Hexp. rewrite expand_list_app in Hexp. apply bind_ok in Hexp as [a [_ Hexp]]. apply bind_ok in Hexp as [y [Hy _]].
    cbn [expand_list] in Hy. unfold is_include_stmt in Hinc. rewrite Hinc in Hy. cbn [existsb] in Hy. rewrite Hlk in Hy.
    apply bind_ok in Hy as [inner [Hi _]]. eauto. }
  destruct Hinner as [inner Hinner].
  rewrite parse_lines_app, Hp1. cbn [bind]. rewrite parse_lines_app, Hinner, Hp2. cbn [bind].
  unfold translate_program. rewrite (expand_splice _ _ _ _ _ _ _ _ Hinc Hlk Hinner Hexp). cbn [bind].
  rewrite Ht. cbn [bind]. exact H.
Qed.

(* a missing file and an inclusion cycle are TranslationErrors *)
Theorem include_missing_rejected fuel fm chain st post :
  is_include_stmt st = true -> lookup_file (s_opstr st) fm = None -> existsb (text_eqb (s_opstr st)) chain = false ->
  expand (S fuel) fm chain (st :: post) = Diag 2.
Proof. unfold is_include_stmt. intros H1 H2 H3. cbn [expand expand_list]. now rewrite H1, H3, H2. Qed.

Theorem include_cycle_rejected fuel fm chain st post :
  is_include_stmt st = true -> existsb (text_eqb (s_opstr st)) chain = true ->
  expand (S fuel) fm chain (st :: post) = Diag 2.
Proof. unfold is_include_stmt. intros H1 H3. cbn [expand expand_list]. now rewrite H1, H3. Qed.
