(* PTerminate.v — the whole assembly (MProgram.assemble) never runs out of fuel: the only fuelled
   loops are INCLUDE expansion (PClean.expand_ff) and the PCR size loop (PSizeLoop).  Property C13. *)
From V Require Import Base.
From V.model Require Import MText MValues MOperands MProgram.
From V.proofs Require Import PSizeLoop PClean.
From V.gen Require Tables.
Local Open Scope N_scope.

Create HintDb ff.
#[export] Hint Extern 1 (fuel_free (Ok _)) => discriminate : ff.
#[export] Hint Extern 1 (fuel_free (Diag _)) => discriminate : ff.
#[export] Hint Extern 1 (fuel_free (Internal _)) => discriminate : ff.
#[export] Hint Extern 1 (fuel_free Unmodelled) => discriminate : ff.
#[export] Hint Extern 1 (fuel_free VTE) => discriminate : ff.
#[export] Hint Extern 1 (fuel_free OTE) => discriminate : ff.

Ltac ff_step :=
  match goal with
  | |- fuel_free (bind _ _) => apply ff_bind; [|intros ?]
  | |- fuel_free (if ?b then _ else _) => destruct b
  | |- fuel_free (match ?x with _ => _ end) => destruct x
  | |- fuel_free (let '(_, _) := ?x in _) => destruct x
  | |- fuel_free _ => solve [auto with ff]
  end.
Ltac ff_tac := repeat ff_step.

Lemma ff_of_benign {A} (r : res A) : benign r -> fuel_free r. Proof. apply benign_ff. Qed.

Lemma num_of_int_ff neg mag p m : fuel_free (num_of_int neg mag p m). Proof. apply benign_ff, num_of_int_benign. Qed.
Lemma num_of_Z_ff z p m : fuel_free (num_of_Z z p m). Proof. apply benign_ff, num_of_Z_benign. Qed.
Lemma numv_ff v : fuel_free (numv v). Proof. apply benign_ff, numv_benign. Qed.
Lemma numv_h_ff v h : fuel_free (numv_h v h). Proof. unfold numv_h. apply ff_bind; [apply num_of_int_ff | intros; discriminate]. Qed.
Lemma create_value_ff t i de : fuel_free (create_value t i de). Proof. apply benign_ff, create_value_benign. Qed.
#[export] Hint Resolve num_of_int_ff num_of_Z_ff numv_ff numv_h_ff create_value_ff : ff.

Lemma fit_value_ff v d s : fuel_free (fit_value v d s).
Proof. unfold fit_value. ff_tac. Qed.
#[export] Hint Resolve fit_value_ff : ff.

Lemma get_symbol_ff s tb : fuel_free (get_symbol s tb). Proof. unfold get_symbol. ff_tac. Qed.
#[export] Hint Resolve get_symbol_ff : ff.
Lemma resolve_symbol_ff s tb : fuel_free (resolve_symbol s tb). Proof. unfold resolve_symbol. ff_tac. Qed.
Lemma num_of_result_ff z m : fuel_free (num_of_result z m). Proof. unfold num_of_result. ff_tac. Qed.
Lemma expr_arith_ff op l r : fuel_free (expr_arith op l r). Proof. unfold expr_arith. ff_tac. Qed.
#[export] Hint Resolve resolve_symbol_ff num_of_result_ff expr_arith_ff : ff.
Lemma resolve_expr_ff l op r m tb : fuel_free (resolve_expr l op r m tb).
Proof. unfold resolve_expr. ff_tac. Qed.
#[export] Hint Resolve resolve_expr_ff : ff.
Lemma resolve_value_ff v tb : fuel_free (resolve_value v tb). Proof. unfold resolve_value. ff_tac. Qed.
#[export] Hint Resolve resolve_value_ff : ff.
Lemma resolve_left_ff l i tb : fuel_free (resolve_left l i tb). Proof. unfold resolve_left. ff_tac. Qed.
#[export] Hint Resolve resolve_left_ff : ff.
Lemma resolve_operand_ff o i tb : fuel_free (resolve_operand o i tb). Proof. unfold resolve_operand. ff_tac. Qed.

Lemma simple_pkg_ff opc add sz : fuel_free (simple_pkg opc add sz). Proof. unfold simple_pkg. ff_tac. Qed.
Lemma mk_idx_pkg_ff opc raw ch add size mx needs : fuel_free (mk_idx_pkg opc raw ch add size mx needs).
Proof. unfold mk_idx_pkg. ff_tac. Qed.
#[export] Hint Resolve simple_pkg_ff mk_idx_pkg_ff : ff.
Lemma pshpul_mask_ff m : forall regs acc, fuel_free (pshpul_mask m regs acc).
Proof. induction regs as [|r rest IH]; intros acc; cbn [pshpul_mask]; [discriminate|]. destruct (lookup_pshpul _ _ _); [apply IH | discriminate]. Qed.
#[export] Hint Resolve pshpul_mask_ff : ff.
Lemma translate_special_ff s i : fuel_free (translate_special s i). Proof. unfold translate_special. ff_tac. Qed.
Lemma translate_pseudo_ff v i : fuel_free (translate_pseudo v i). Proof. unfold translate_pseudo. ff_tac. Qed.
Lemma translate_indexed_ff ind l r i : fuel_free (translate_indexed ind l r i).
Proof. unfold translate_indexed, opt_op. destruct (Tables.ind i); [|discriminate]. ff_tac. Qed.
#[export] Hint Resolve translate_special_ff translate_pseudo_ff translate_indexed_ff : ff.
Lemma translate_operand_ff o i : fuel_free (translate_operand o i).
Proof. unfold translate_operand, opt_op. ff_tac. Qed.

Lemma resolve_stmt_ff tb s : fuel_free (resolve_stmt tb s).
Proof.
  unfold resolve_stmt. apply ff_bind; [|intros; discriminate]. unfold as_translation_error.
  pose proof (resolve_operand_ff (s_operand s) (s_instr s) tb) as H. unfold fuel_free in *.
  destruct (resolve_operand _ _ _); congruence.
Qed.
Lemma translate_stmt_ff s : fuel_free (translate_stmt s).
Proof.
  unfold translate_stmt. apply ff_bind; [|intros; discriminate]. unfold as_translation_error.
  pose proof (translate_operand_ff (s_operand s) (s_instr s)) as H. unfold fuel_free in *.
  destruct (translate_operand _ _); congruence.
Qed.

Lemma save_symbols_ff : forall ss idx tb, fuel_free (save_symbols ss idx tb).
Proof.
  induction ss as [|s r IH]; intros idx tb; cbn [save_symbols]; [discriminate|].
  destruct (s_label s); [apply IH|]. destruct (lookup _ tb); [discriminate | apply IH].
Qed.

Lemma as_te_ff {A} (r : res A) : fuel_free r -> fuel_free (as_translation_error r).
Proof. unfold fuel_free, as_translation_error. destruct r; congruence. Qed.
#[export] Hint Resolve as_te_ff : ff.

Lemma assign_addresses_ff : forall ss a em, fuel_free (assign_addresses ss a em).
Proof.
  induction ss as [|s r IH]; intros a em; cbn [assign_addresses]; [discriminate|].
  apply ff_bind.
  - destruct (v_is_none _); [apply ff_bind; [apply as_te_ff, numv_ff | intros; discriminate]|]. destruct (cp_addr _); discriminate.
  - intros [av a']. destruct (em && _); [discriminate|]. apply ff_bind; [apply IH | intros; discriminate].
Qed.

Lemma resolve_defined_ff : forall ss tb, fuel_free (resolve_defined ss tb).
Proof.
  induction ss as [|s r IH]; intros tb; cbn [resolve_defined]; [discriminate|].
  destruct (s_label s); [apply IH|]. destruct (Tables.is_pseudo_define _); [|apply IH].
  destruct (lookup _ tb) as [v|]; [|discriminate]. destruct (_ || _); [|apply IH].
  apply ff_bind.
  - pose proof (resolve_value_ff v tb) as Hf. unfold fuel_free, defined_error in *. destruct (resolve_value v tb) as [?|c|?| |]; try congruence.
    repeat match goal with |- context [match ?x with _ => _ end] => destruct x end; discriminate.
  - intros v'. destruct (_ || _); [apply IH | discriminate].
Qed.

Lemma addr_of_ff ss k : fuel_free (addr_of ss k). Proof. unfold addr_of. ff_tac. Qed.
#[export] Hint Resolve addr_of_ff : ff.
Lemma offset_arith_ff op a b : fuel_free (offset_arith op a b). Proof. unfold offset_arith. ff_tac. Qed.
#[export] Hint Resolve offset_arith_ff : ff.
Lemma term_value_ff ss : forall v, fuel_free (term_value ss v).
Proof.
  fix IH 1. intros v. destruct v; cbn [term_value]; ff_tac.
Qed.
#[export] Hint Resolve term_value_ff : ff.
Lemma calc_offset_z_ff ss l op r : fuel_free (calc_offset_z ss l op r). Proof. unfold calc_offset_z. ff_tac. Qed.
#[export] Hint Resolve calc_offset_z_ff : ff.
Lemma calc_offset_ff ss l op r : fuel_free (calc_offset ss l op r). Proof. unfold calc_offset. ff_tac. Qed.
#[export] Hint Resolve calc_offset_ff : ff.

Lemma fix_stmt_ff ss k s : fuel_free (fix_stmt ss k s).
Proof. unfold fix_stmt. ff_tac. Qed.

Lemma fix_all_ff all : forall ss k, fuel_free (fix_all all ss k).
Proof.
  induction ss as [|s r IH]; intros k; cbn [fix_all]; [discriminate|].
  apply ff_bind; [apply fix_stmt_ff|intros s']. apply ff_bind; [apply IH | intros; discriminate].
Qed.

Lemma emit_pairs_ff : forall k h, fuel_free (emit_pairs k h).
Proof.
  induction k as [|k IH]; intros h; cbn [emit_pairs]; [discriminate|].
  destruct h as [|a [|b r]]; try discriminate. apply ff_bind; [apply IH | intros; discriminate].
Qed.
Lemma emit_value_ff v : fuel_free (emit_value v).
Proof. unfold emit_value. destruct v; try discriminate; destruct (v_hex _); try discriminate; apply emit_pairs_ff. Qed.
#[export] Hint Resolve emit_value_ff : ff.
Lemma stmt_result_ff s : fuel_free (stmt_result s).
Proof. unfold stmt_result, stmt_bytes. ff_tac. Qed.
Lemma sym_line_ff kv : fuel_free (sym_line kv). Proof. unfold sym_line. ff_tac. Qed.
Lemma backpatch_ff ss tb : fuel_free (backpatch ss tb).
Proof. unfold backpatch. apply map_res_ff. intros [k v]. cbn [snd fst]. ff_tac. Qed.

Theorem translate_program_terminates fm parsed : fuel_free (translate_program fm parsed).
Proof.
  unfold translate_program.
  apply ff_bind; [apply expand_ff; [constructor | intros x [] | cbn [length]; lia]|intros ss0].
  apply ff_bind; [apply save_symbols_ff|intros tb0].
  apply ff_bind; [apply resolve_defined_ff|intros tb].
  apply ff_bind; [apply map_res_ff, resolve_stmt_ff|intros ss1].
  apply ff_bind; [apply map_res_ff; intros; apply translate_stmt_ff|intros ss2].
  apply ff_bind; [apply size_loop_enough_fuel|intros ss3].
  apply ff_bind; [apply assign_addresses_ff|intros ss4].
  apply ff_bind; [apply fix_all_ff|intros ss5].
  apply ff_bind; [apply backpatch_ff | intros; discriminate].
Qed.

Theorem assemble_terminates fm lines : assemble fm lines <> OutOfFuel.
Proof.
  change (fuel_free (assemble fm lines)). unfold assemble.
  apply ff_bind; [apply parse_lines_ff|intros parsed].
  apply ff_bind; [apply translate_program_terminates|intros [ss tb]].
  apply ff_bind; [apply map_res_ff, stmt_result_ff|intros rs].
  apply ff_bind; [apply map_res_ff, sym_line_ff | intros; discriminate].
Qed.
