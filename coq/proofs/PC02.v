(* PC02.v — program-level layout theorem: in every accepted program each statement other than ORG is
   listed exactly (size of its predecessor) bytes after its predecessor; the image is the in-order
   concatenation of the statements' bytes; label symbols carry the listing address.  Property C02. *)
From V Require Import Base.
From V.model Require Import MText MValues MOperands MProgram.
From V.proofs Require Import PLayout PFrames PClean.
From V.gen Require Tables.
Local Open Scope N_scope.

(* ---------- only ORG gives a statement an address of its own ---------- *)
Lemma simple_pkg_addr opc add sz p : simple_pkg opc add sz = Ok p -> cp_addr p = VNone.
Proof. unfold simple_pkg. intros H. apply bind_ok in H as [ov [_ H]]. now inversion H. Qed.
Lemma mk_idx_pkg_addr opc raw ch add size mx needs p : mk_idx_pkg opc raw ch add size mx needs = Ok p -> cp_addr p = VNone.
Proof. unfold mk_idx_pkg. intros H. apply bind_ok in H as [ov [_ H]]. apply bind_ok in H as [pv [_ H]]. now inversion H. Qed.

Ltac addr_tac H :=
  repeat (match type of H with
  | simple_pkg _ _ _ = Ok _ => exact (simple_pkg_addr _ _ _ _ H)
  | mk_idx_pkg _ _ _ _ _ _ _ = Ok _ => exact (mk_idx_pkg_addr _ _ _ _ _ _ _ _ H)
  | Ok _ = Ok _ => inversion H; subst; reflexivity
  | bind _ _ = Ok _ => let x := fresh "x" in let Hx := fresh "Hx" in apply bind_ok in H as [x [Hx H]]
  | (if ?b then _ else _) = Ok _ => destruct b
  | (match ?v with _ => _ end) = Ok _ => destruct v
  | (let '(_, _) := ?v in _) = Ok _ => destruct v
  | Diag _ = Ok _ => discriminate H
  | OTE = Ok _ => discriminate H
  | Internal _ = Ok _ => discriminate H
  | Unmodelled = Ok _ => discriminate H
  end).

Lemma translate_indexed_addr ind l r i p : translate_indexed ind l r i = Ok p -> cp_addr p = VNone.
Proof. unfold translate_indexed, opt_op. intros H. addr_tac H. Qed.

Lemma translate_special_addr s i p : translate_special s i = Ok p -> cp_addr p = VNone.
Proof. unfold translate_special. intros H. addr_tac H. Qed.

Lemma translate_pseudo_addr v i p : translate_pseudo v i = Ok p -> text_eqb (mnem i) ORG_t = false -> cp_addr p = VNone.
Proof.
  unfold translate_pseudo, data_pkg, cp_empty. intros H Horg. rewrite Horg in H.
  destruct (text_eqb (mnem i) FCB_t); [addr_tac H|]. destruct (text_eqb (mnem i) FDB_t); [addr_tac H|].
  destruct (text_eqb (mnem i) RMB_t); [addr_tac H|]. destruct (text_eqb (mnem i) FCC_t); addr_tac H.
Qed.

Lemma translate_operand_addr o i p : translate_operand o i = Ok p -> text_eqb (mnem i) ORG_t = false -> cp_addr p = VNone.
Proof.
  intros H Horg. destruct o; cbn [translate_operand] in H; unfold opt_op in H.
  - eapply translate_pseudo_addr; eauto.
  - eapply translate_special_addr; eauto.
  - addr_tac H.
  - addr_tac H.
  - destruct (Tables.ind i); [|discriminate].
    destruct v as [| | | |? ? ? ? [|]| | | |]; try discriminate;
      try (destruct r; [eapply translate_indexed_addr; eauto | discriminate]); addr_tac H.
  - eapply translate_indexed_addr; eauto.
  - addr_tac H.
  - inversion H; subst; reflexivity.
  - addr_tac H.
  - addr_tac H.
Qed.

Lemma translate_stmt_own s s' : translate_stmt s = Ok s' ->
  s_instr s' = s_instr s /\ s_label s' = s_label s /\
  (text_eqb (mnem (s_instr s)) ORG_t = false -> has_own_address s' = false).
Proof.
  unfold translate_stmt. intros H. apply bind_ok in H as [p [Hp H]]. inversion H; subst. cbn.
  repeat split. intros Horg. unfold has_own_address. cbn.
  assert (Ht : translate_operand (s_operand s) (s_instr s) = Ok p).
  { unfold as_translation_error in Hp. destruct (translate_operand _ _); try discriminate; assumption. }
  rewrite (translate_operand_addr _ _ _ Ht Horg). reflexivity.
Qed.

Lemma resolve_stmt_keeps tb s s' : resolve_stmt tb s = Ok s' -> s_instr s' = s_instr s /\ s_label s' = s_label s.
Proof. unfold resolve_stmt. intros H. apply bind_ok in H as [o [_ H]]. inversion H; subst. cbn. auto. Qed.

(* ---------- the layout of the final statement list ---------- *)
Definition is_org (s : stmt) : bool := text_eqb (mnem (s_instr s)) ORG_t.

Theorem program_addresses_advance fm parsed ss tb :
  translate_program fm parsed = Ok (ss, tb) ->
  forall i a b, nth_error ss i = Some a -> nth_error ss (S i) = Some b -> is_org b = false ->
    addr_of_stmt b = addr_of_stmt a + size_of_stmt a.
Proof.
  unfold translate_program. intros H.
  apply bind_ok in H as [ss0 [_ H]]. apply bind_ok in H as [tb00 [_ H]]. apply bind_ok in H as [tb0 [_ H]].
  apply bind_ok in H as [ss1 [H1 H]]. apply bind_ok in H as [ss2 [H2 H]].
  apply bind_ok in H as [ss3 [H3 H]]. apply bind_ok in H as [ss4 [H4 H]].
  apply bind_ok in H as [ss5 [H5 H]]. apply bind_ok in H as [tb' [_ H]]. inversion H; subst ss tb. clear H.
  intros i a b Ha Hb Horg.
  pose proof (fix_all_rel _ _ _ _ H5) as R5. pose proof (assign_placed _ _ _ _ H4) as P4.
  pose proof (size_loop_rel _ _ _ H3) as R3.
  destruct (Forall2_nth_r _ _ _ _ _ R5 Ha) as [a4 [Ha4 Ra]]. destruct (Forall2_nth_r _ _ _ _ _ R5 Hb) as [b4 [Hb4 Rb]].
  assert (Hl43 : length ss4 = length ss3) by (eapply placed_length; eauto).
  assert (Hb3 : exists b3, nth_error ss3 (S i) = Some b3).
  { destruct (nth_error ss3 (S i)) eqn:E; [eauto|]. apply nth_error_None in E.
    assert (S i < length ss4)%nat by (apply nth_error_Some; congruence). lia. }
  destruct Hb3 as [b3 Hb3].
  destruct (Forall2_nth_r _ _ _ _ _ R3 Hb3) as [b2 [Hb2 R32]].
  destruct (map_res_spec _ _ _ H2) as [Hl2 Hm2].
  assert (Hb1 : exists b1, nth_error ss1 (S i) = Some b1).
  { destruct (nth_error ss1 (S i)) eqn:E; [eauto|]. apply nth_error_None in E.
    assert (S i < length ss2)%nat by (apply nth_error_Some; congruence). lia. }
  destruct Hb1 as [b1 Hb1]. destruct (Hm2 _ _ Hb1) as [b2' [Hb2' Ht]]. rewrite Hb2 in Hb2'. inversion Hb2'; subst b2'.
  destruct (translate_stmt_own _ _ Ht) as (Hi & _ & Hown).
  (* the mnemonic is the same at every stage *)
  destruct (placed_pointwise _ _ _ _ _ P4 Hb3) as [b4' [Hb4' [S4 _]]]. rewrite Hb4 in Hb4'. inversion Hb4'; subst b4'.
  assert (Hmn : s_instr b = s_instr b1).
  { destruct Rb as (_ & E5 & _). destruct S4 as (_ & E4 & _). destruct R32 as (_ & E3 & _). congruence. }
  assert (Hown3 : has_own_address b3 = false).
  { unfold has_own_address. destruct R32 as (_&_&_&_&_&E&_). rewrite E. apply Hown. unfold is_org in Horg. now rewrite Hmn in Horg. }
  pose proof (placed_adjacent _ _ _ _ _ _ _ P4 Ha4 Hb4 Hb3 Hown3) as Hadj.
  unfold addr_of_stmt, size_of_stmt in *.
  destruct Ra as (_&_&_&_&_&_&_&Ea&_&Es&_). destruct Rb as (_&_&_&_&_&_&_&Eb&_). rewrite Ea, Eb, Es. exact Hadj.
Qed.

(* ---------- the assembled result ---------- *)
Lemma stmt_result_fields s r : stmt_result s = Ok r ->
  r_addr r = addr_of_stmt s /\ r_size r = size_of_stmt s /\ r_mn r = mnem (s_instr s) /\ r_label r = s_label s /\
  stmt_bytes s = Ok (r_bytes r).
Proof. unfold stmt_result. intros H. apply bind_ok in H as [b [Hb H]]. inversion H; subst. cbn. auto. Qed.

Theorem addresses_advance fm lines r :
  assemble fm lines = Ok r ->
  forall i a b, nth_error (r_stmts r) i = Some a -> nth_error (r_stmts r) (S i) = Some b ->
    text_eqb (r_mn b) ORG_t = false -> r_addr b = r_addr a + r_size a.
Proof.
  unfold assemble. intros H. apply bind_ok in H as [parsed [_ H]]. apply bind_ok in H as [[ss tb] [Ht H]].
  apply bind_ok in H as [rs [Hrs H]]. apply bind_ok in H as [syms [_ H]]. inversion H; subst r. cbn [r_stmts]. clear H.
  intros i a b Ha Hb Horg. destruct (map_res_spec _ _ _ Hrs) as [Hl Hm].
  assert (Hsa : exists sa, nth_error ss i = Some sa).
  { destruct (nth_error ss i) eqn:E; [eauto|]. apply nth_error_None in E. assert (i < length rs)%nat by (apply nth_error_Some; congruence). lia. }
  assert (Hsb : exists sb, nth_error ss (S i) = Some sb).
  { destruct (nth_error ss (S i)) eqn:E; [eauto|]. apply nth_error_None in E. assert (S i < length rs)%nat by (apply nth_error_Some; congruence). lia. }
  destruct Hsa as [sa Hsa]. destruct Hsb as [sb Hsb].
  destruct (Hm _ _ Hsa) as [a' [Ha' Fa]]. destruct (Hm _ _ Hsb) as [b' [Hb' Fb]].
  rewrite Ha in Ha'. rewrite Hb in Hb'. inversion Ha'; inversion Hb'; subst a' b'.
  destruct (stmt_result_fields _ _ Fa) as (A1 & A2 & _). destruct (stmt_result_fields _ _ Fb) as (B1 & _ & B3 & _).
  rewrite A1, A2, B1. eapply program_addresses_advance; eauto. unfold is_org. now rewrite <- B3.
Qed.

Theorem image_is_concatenation fm lines r :
  assemble fm lines = Ok r -> r_image r = concat (map r_bytes (r_stmts r)).
Proof.
  unfold assemble. intros H. apply bind_ok in H as [parsed [_ H]]. apply bind_ok in H as [[ss tb] [Ht H]].
  apply bind_ok in H as [rs [Hrs H]]. apply bind_ok in H as [syms [_ H]]. inversion H; subst r. reflexivity.
Qed.

(* when every statement emits as many bytes as the listing reserves and no ORG follows the first
   statement, each statement's bytes sit in the image at (listing address - address of the first) *)
Theorem image_offsets fm lines r :
  assemble fm lines = Ok r ->
  Forall (fun s => r_size s = N.of_nat (length (r_bytes s))) (r_stmts r) ->
  (forall j b, (0 < j)%nat -> nth_error (r_stmts r) j = Some b -> text_eqb (r_mn b) ORG_t = false) ->
  forall k a0 s, nth_error (r_stmts r) 0 = Some a0 -> nth_error (r_stmts r) k = Some s ->
    r_addr s = r_addr a0 + N.of_nat (length (concat (map r_bytes (firstn k (r_stmts r))))).
Proof.
  intros H Hsz Horg. pose proof (addresses_advance _ _ _ H) as Hadv.
  induction k as [|k IH]; intros a0 s H0 Hs.
  - rewrite H0 in Hs. inversion Hs; subst. cbn. lia.
  - assert (Hk : exists p, nth_error (r_stmts r) k = Some p).
    { destruct (nth_error (r_stmts r) k) eqn:E; [eauto|]. apply nth_error_None in E.
      assert (S k < length (r_stmts r))%nat by (apply nth_error_Some; congruence). lia. }
    destruct Hk as [p Hp].
    rewrite (Hadv k p s Hp Hs (Horg (S k) s ltac:(lia) Hs)). rewrite (IH a0 p H0 Hp).
    assert (Hf : firstn (S k) (r_stmts r) = firstn k (r_stmts r) ++ [p]).
    { clear -Hp. revert k Hp. induction (r_stmts r) as [|x l IHl]; intros [|k] Hp; cbn in Hp; try discriminate.
      - inversion Hp; reflexivity.
      - cbn [firstn app]. f_equal. now apply IHl. }
    rewrite Hf, map_app, concat_app, app_length. cbn [map concat]. rewrite app_nil_r.
    rewrite Forall_forall in Hsz. rewrite (Hsz p (nth_error_In _ _ Hp)). lia.
Qed.

(* ---------- labels ---------- *)
Definition nonempty_labels (ls : list text) : list text := filter (fun l => negb (Nat.eqb (length l) 0)) ls.

Lemma lookup_none_notin lb : forall tb, lookup lb tb = None -> ~ In lb (map fst tb).
Proof.
  induction tb as [|[k v] tb IH]; intros H; cbn in *; [tauto|].
  destruct (text_eqb k lb) eqn:E; [discriminate|]. intros [-> | Hin]; [|now apply IH].
  assert (text_eqb lb lb = true) by (apply list_eqb_eq; reflexivity). congruence.
Qed.

Lemma save_symbols_nodup : forall ss idx tb tb', save_symbols ss idx tb = Ok tb' -> NoDup (map fst tb) ->
  NoDup (map fst tb') /\ map fst tb' = map fst tb ++ nonempty_labels (map s_label ss).
Proof.
  induction ss as [|s r IH]; intros idx tb tb' H Hn; cbn [save_symbols] in H.
  - inversion H; subst. split; [assumption|]. cbn. now rewrite app_nil_r.
  - cbn [map nonempty_labels filter]. destruct (s_label s) as [|c lb] eqn:El.
    + cbn [length Nat.eqb negb]. exact (IH _ _ _ H Hn).
    + cbn [length Nat.eqb negb]. destruct (lookup (c :: lb) tb) eqn:Elk; [discriminate|].
      apply IH in H.
      * destruct H as [H1 H2]. split; [assumption|]. rewrite H2, map_app. cbn [map fst]. now rewrite <- app_assoc.
      * rewrite map_app. cbn [map fst]. apply NoDup_snoc; [assumption | now apply lookup_none_notin].
Qed.

Lemma Forall2_map_eq {A B} (R : A -> A -> Prop) (f : A -> B) : (forall a b, R a b -> f b = f a) ->
  forall l l', Forall2 R l l' -> map f l' = map f l.
Proof. intros Hf. induction 1; cbn; [reflexivity|]. f_equal; auto. Qed.

Lemma map_res_map_eq {A B C} (g : A -> res B) (fa : A -> C) (fb : B -> C) : (forall a b, g a = Ok b -> fb b = fa a) ->
  forall l l', map_res g l = Ok l' -> map fb l' = map fa l.
Proof.
  intros Hg. induction l as [|x l IH]; intros l' H; cbn [map_res] in H.
  - inversion H; reflexivity.
  - apply bind_ok in H as [b [Hb H]]. apply bind_ok in H as [rest [Hr H]]. inversion H; subst. cbn. f_equal; auto.
Qed.

Lemma placed_labels : forall ss ss' a0, placed ss ss' a0 -> map s_label ss' = map s_label ss.
Proof.
  induction ss as [|s r IH]; intros [|s' r'] a0 H; cbn in H; try contradiction; [reflexivity|].
  destruct H as ((E & _) & _ & _ & H). cbn. f_equal; [exact E | eapply IH; eauto].
Qed.

(* an accepted program has no label defined twice *)
Theorem accepted_labels_unique fm lines r :
  assemble fm lines = Ok r -> NoDup (nonempty_labels (map r_label (r_stmts r))).
Proof.
  unfold assemble. intros H. apply bind_ok in H as [parsed [_ H]]. apply bind_ok in H as [[ss tb] [Ht H]].
  apply bind_ok in H as [rs [Hrs H]]. apply bind_ok in H as [syms [_ H]]. inversion H; subst r. cbn [r_stmts]. clear H.
  unfold translate_program in Ht.
  apply bind_ok in Ht as [ss0 [_ Ht]]. apply bind_ok in Ht as [tb00 [Hsave Ht]]. apply bind_ok in Ht as [tb0 [_ Ht]].
  apply bind_ok in Ht as [ss1 [H1 Ht]]. apply bind_ok in Ht as [ss2 [H2 Ht]].
  apply bind_ok in Ht as [ss3 [H3 Ht]]. apply bind_ok in Ht as [ss4 [H4 Ht]].
  apply bind_ok in Ht as [ss5 [H5 Ht]]. apply bind_ok in Ht as [tb' [_ Ht]]. inversion Ht; subst ss tb. clear Ht.
  assert (E : map r_label rs = map s_label ss0).
  { transitivity (map s_label ss5).
    { eapply (map_res_map_eq stmt_result s_label r_label); [|exact Hrs].
      intros a b Hab. now destruct (stmt_result_fields _ _ Hab) as (_&_&_&E&_). }
    transitivity (map s_label ss4).
    { eapply (Forall2_map_eq rel_fix s_label); [|eapply fix_all_rel; eauto]. intros a b Hab. now destruct Hab as (E & _). }
    transitivity (map s_label ss3).
    { eapply placed_labels. eapply assign_placed; eauto. }
    transitivity (map s_label ss2).
    { eapply (Forall2_map_eq rel_size s_label); [|eapply size_loop_rel; eauto]. intros a b Hab. now destruct Hab as (E & _). }
    transitivity (map s_label ss1).
    { eapply (map_res_map_eq translate_stmt s_label s_label); [|exact H2].
      intros a b Hab. now destruct (translate_stmt_own _ _ Hab) as (_ & E & _). }
    eapply (map_res_map_eq (resolve_stmt tb0) s_label s_label); [|exact H1].
    intros a b Hab. now destruct (resolve_stmt_keeps _ _ _ Hab) as (_ & E). }
  rewrite E. destruct (save_symbols_nodup _ _ _ _ Hsave ltac:(constructor)) as [Hn He]. cbn [map app] in He.
  now rewrite <- He.
Qed.

(* ====================================================================================================== *)
(* the image loads at its origin (last sentence of the property; repair F45)                               *)
(* ====================================================================================================== *)
From V.proofs Require Import PContig.

(* every statement's instruction is a row of the (regenerated) table *)
Definition in_table (s : stmt) : Prop := In (s_instr s) Tables.instructions.

Lemma parse_line_instr line st : parse_line line = Ok (Some st) -> in_table st.
Proof.
  unfold parse_line, in_table. intros H.
  destruct (mem_c 10 _); [discriminate|]. destruct (all_c is_space line); [discriminate|].
  destruct (hd 0 (lstrip line) =? 59); [discriminate|].
  destruct (span is_labelch line) as [label r1]. destruct r1 as [|c1 r1']; [discriminate|].
  destruct (negb (is_space c1)); [discriminate|].
  destruct (span is_word _) as [mn r3]. destruct r3 as [|c2 r3']; [discriminate|].
  destruct (negb (is_space c2)); [discriminate|].
  destruct (find_instr (upper_t mn) Tables.instructions) as [j|] eqn:Ef; [|discriminate].
  apply find_instr_In in Ef.
  destruct (Tables.is_string_define j).
  - destruct (rstrip _) as [|d rest]; [discriminate|]. destruct (find_from d rest 1); [|discriminate].
    destruct (create_operand _ j); try discriminate. inversion H; subst. exact Ef.
  - destruct (span is_opch _) as [ops rest]. apply bind_ok in H as [o [_ H]]. inversion H; subst. exact Ef.
Qed.

Lemma parse_lines_instr : forall lines ss, parse_lines lines = Ok ss -> Forall in_table ss.
Proof.
  induction lines as [|l r IH]; intros ss H; cbn [parse_lines] in H; [inversion H; constructor|].
  apply bind_ok in H as [s [Hs H]]. apply bind_ok in H as [rest [Hr H]]. inversion H; subst.
  destruct s as [st|]; [constructor; [eapply parse_line_instr; eauto | now apply IH] | now apply IH].
Qed.

Lemma expand_list_instr rec fm chain :
  (forall c inner r, Forall in_table inner -> rec c inner = Ok r -> Forall in_table r) ->
  forall ss r, Forall in_table ss -> expand_list rec fm chain ss = Ok r -> Forall in_table r.
Proof.
  intros Hrec. induction ss as [|s ss IH]; intros r Hin H; cbn [expand_list] in H; [inversion H; constructor|].
  inversion Hin as [|? ? Hs Hss]; subst. destruct (_ && _).
  - destruct (existsb (text_eqb (s_opstr s)) chain); [discriminate|]. destruct (lookup_file (s_opstr s) fm) as [ls|]; [|discriminate].
    apply bind_ok in H as [inner [Hp H]]. apply bind_ok in H as [inner' [Hr H]]. apply bind_ok in H as [rest [Hrest H]].
    inversion H; subst. apply Forall_app. split; [eapply Hrec; [|exact Hr]; eapply parse_lines_instr; eauto | now apply IH].
  - apply bind_ok in H as [rest [Hrest H]]. inversion H; subst. constructor; [exact Hs | now apply IH].
Qed.

Lemma expand_instr fm : forall fuel chain ss r, Forall in_table ss -> expand fuel fm chain ss = Ok r -> Forall in_table r.
Proof.
  induction fuel as [|f IH]; intros chain ss r Hin H; cbn [expand] in H.
  - eapply expand_list_instr; [|exact Hin|exact H]. intros; discriminate.
  - eapply expand_list_instr; [|exact Hin|exact H]. intros c inner r0 Hi Hr. eapply IH; eauto.
Qed.

(* what the table says about ORG (checked on the regenerated table) *)
Definition opt_none (o : option N) : bool := match o with None => true | Some _ => false end.
Definition org_row_ok (i : irow) : bool :=
  if Tables.is_origin i then
    text_eqb (mnem i) ORG_t && opt_none (Tables.inh i) && opt_none (Tables.imm i) && opt_none (Tables.dir i) &&
    opt_none (Tables.ind i) && opt_none (Tables.ext i) && opt_none (Tables.rel i)
  else negb (text_eqb (mnem i) ORG_t).

Lemma org_rows : forallb org_row_ok Tables.instructions = true.
Proof. vm_compute. reflexivity. Qed.

Lemma org_row_of s : in_table s -> org_row_ok (s_instr s) = true.
Proof. intros H. pose proof org_rows as Hall. rewrite forallb_forall in Hall. now apply Hall. Qed.

Lemma opt_none_eq o : opt_none o = true -> o = None. Proof. destruct o; [discriminate | reflexivity]. Qed.

(* an ORG statement reserves nothing and its size is decided at once *)
Lemma translate_operand_org o i p : Tables.is_origin i = true -> org_row_ok i = true ->
  translate_operand o i = Ok p -> cp_size p = 0 /\ cp_needs p = false /\ cp_choices p = [].
Proof.
  intros Ho Hrow H. unfold org_row_ok in Hrow. rewrite Ho in Hrow.
  repeat (apply andb_true_iff in Hrow as [Hrow ?]).
  repeat match goal with Hx : opt_none _ = true |- _ => apply opt_none_eq in Hx end.
  assert (Em : mnem i = ORG_t) by (apply list_eqb_eq; exact Hrow).
  destruct o; cbn [translate_operand] in H; unfold opt_op in H;
    repeat match goal with Hx : _ = None |- _ => rewrite Hx in H end; try discriminate.
  all: try (destruct v; discriminate).
  all: try (inversion H; subst; cbn; auto; fail).
  all: try (unfold translate_indexed, opt_op in H; match goal with Hx : Tables.ind _ = None |- _ => rewrite Hx in H end; discriminate).
  all: try (unfold translate_special in H; destruct (if is_pshpul _ then _ else _); try discriminate;
            cbn [bind] in H; match goal with Hx : Tables.imm _ = None |- _ => rewrite Hx in H end; discriminate).
  (* OPseudo: the ORG branch of translate_pseudo *)
  unfold translate_pseudo in H. rewrite Em in H.
  change (text_eqb ORG_t FCB_t) with false in H. change (text_eqb ORG_t FDB_t) with false in H.
  change (text_eqb ORG_t RMB_t) with false in H. change (text_eqb ORG_t ORG_t) with true in H. cbv iota in H.
  inversion H; subst. cbn. auto.
Qed.

Lemma translate_stmt_wf_org s s' : in_table s -> translate_stmt s = Ok s' ->
  wf_org s' /\ (Tables.is_origin (s_instr s') = true -> s_fixed s' = true).
Proof.
  intros Hin H. pose proof (org_row_of s Hin) as Hrow. destruct (translate_stmt_own _ _ H) as (Ei & _ & Hown).
  unfold translate_stmt in H. apply bind_ok in H as [p [Hp H]]. apply as_te_ok in Hp. inversion H; subst s'. cbn [s_instr] in *.
  unfold wf_org, sz. cbn [s_instr s_pkg s_fixed]. destruct (Tables.is_origin (s_instr s)) eqn:Eo.
  - destruct (translate_operand_org _ _ _ Eo Hrow Hp) as (H1 & H2 & H3). rewrite H2, H3. cbn.
    split; [split; [auto | discriminate] | auto].
  - split; [split; [discriminate|] | discriminate]. intros _.
    unfold org_row_ok in Hrow. rewrite Eo in Hrow. apply negb_true_iff in Hrow.
    specialize (Hown Hrow). unfold has_own_address in Hown. cbn [s_pkg] in Hown. now apply negb_false_iff in Hown.
Qed.

Lemma map_res_Forall {A B} (f : A -> res B) (P : A -> Prop) (Q : B -> Prop) :
  (forall a b, P a -> f a = Ok b -> Q b) -> forall l l', Forall P l -> map_res f l = Ok l' -> Forall Q l'.
Proof.
  intros Hf. induction l as [|a l IH]; intros l' Hp H; cbn [map_res] in H; [inversion H; constructor|].
  inversion Hp; subst. apply bind_ok in H as [b [Hb H]]. apply bind_ok in H as [rest [Hr H]]. inversion H; subst.
  constructor; [eapply Hf; eauto | now apply IH].
Qed.

Lemma Forall2_Forall {A} (R : A -> A -> Prop) (P Q : A -> Prop) : (forall a b, R a b -> P a -> Q b) ->
  forall l l', Forall2 R l l' -> Forall P l -> Forall Q l'.
Proof. intros Hr. induction 1; intros Hp; [constructor|]. inversion Hp; subst. constructor; eauto. Qed.

Lemma sum_range_nil f : forall c from, sum_range f [] from c = 0.
Proof. induction c as [|c IH]; intros from; cbn [sum_range]; [reflexivity|]. rewrite IH. now destruct from. Qed.

Lemma sum_sizes_bytes : forall ss rs, map_res stmt_result ss = Ok rs ->
  Forall (fun s => r_size s = N.of_nat (length (r_bytes s))) rs ->
  forall k, sum_range sz ss 0 k = N.of_nat (length (concat (map r_bytes (firstn k rs)))).
Proof.
  induction ss as [|s ss IH]; intros rs H Hsz k; cbn [map_res] in H.
  - inversion H; subst. rewrite sum_range_nil. now destruct k.
  - apply bind_ok in H as [r0 [Hr0 H]]. apply bind_ok in H as [rs' [Hrs H]]. inversion H; subst rs. clear H.
    inversion Hsz as [|? ? Hz Hsz']; subst. destruct k as [|k]; [reflexivity|].
    cbn [sum_range nth_error firstn map concat]. rewrite sum_range_cons, (IH _ Hrs Hsz' k), app_length.
    destruct (stmt_result_fields _ _ Hr0) as (_ & Fz & _). unfold sz. fold (size_of_stmt s). rewrite <- Fz, Hz. lia.
Qed.

Definition origin_value (r : result) : N := oval (r_origin r).

(* THE theorem: loading the image at the reported origin puts the bytes of every statement that has any at the
   address the listing shows for it.  (size = emitted bytes is property C12's count, stated as a hypothesis.) *)
Theorem image_loads_at_origin fm lines r :
  assemble fm lines = Ok r ->
  Forall (fun s => r_size s = N.of_nat (length (r_bytes s))) (r_stmts r) ->
  forall k s, nth_error (r_stmts r) k = Some s -> r_bytes s <> [] ->
    r_addr s = origin_value r + N.of_nat (length (concat (map r_bytes (firstn k (r_stmts r))))).
Proof.
  unfold assemble. intros H Hsz. apply bind_ok in H as [parsed [Hparse H]]. apply bind_ok in H as [[ss tb] [Ht H]].
  apply bind_ok in H as [rs [Hrs H]]. apply bind_ok in H as [syms [_ H]]. inversion H; subst r. clear H.
  unfold origin_value. cbn [r_stmts r_origin] in *.
  unfold translate_program in Ht.
  apply bind_ok in Ht as [ss0 [H0 Ht]]. apply bind_ok in Ht as [tb00 [_ Ht]]. apply bind_ok in Ht as [tb0 [_ Ht]].
  apply bind_ok in Ht as [ss1 [H1 Ht]]. apply bind_ok in Ht as [ss2 [H2 Ht]].
  apply bind_ok in Ht as [ss3 [H3 Ht]]. apply bind_ok in Ht as [ss4 [H4 Ht]].
  apply bind_ok in Ht as [ss5 [H5 Ht]]. apply bind_ok in Ht as [tb' [_ Ht]]. inversion Ht; subst ss tb. clear Ht.
  (* every instruction is a table row, from parsing to translation *)
  assert (I0 : Forall in_table ss0) by (eapply expand_instr; [eapply parse_lines_instr; eauto | exact H0]).
  assert (I1 : Forall in_table ss1).
  { eapply (map_res_Forall (resolve_stmt tb0) in_table in_table); [|exact I0|exact H1].
    intros a b Ha Hab. unfold in_table. destruct (resolve_stmt_keeps _ _ _ Hab) as [E _]. now rewrite E. }
  assert (W2 : Forall (fun s => wf_org s /\ (Tables.is_origin (s_instr s) = true -> s_fixed s = true)) ss2).
  { eapply (map_res_Forall translate_stmt in_table); [|exact I1|exact H2]. intros a b Ha Hab. eapply translate_stmt_wf_org; eauto. }
  assert (W3 : Forall wf_org ss3).
  { eapply (Forall2_Forall rel_size); [|eapply size_loop_rel; eauto|exact W2].
    intros a b R [[Wo Wn] Wf]. destruct R as (_ & Ei & _ & _ & _ & Ea & _ & _ & _ & Efix).
    unfold wf_org. rewrite Ei. split.
    - intros Ho. rewrite (Efix (Wf Ho)). auto.
    - intros Ho. rewrite Ea. auto. }
  (* the address pass, then fix_addresses *)
  pose proof (fix_all_rel _ _ _ _ H5) as R5.
  intros k s Hk Hne. destruct (map_res_spec _ _ _ Hrs) as [Hl Hm].
  assert (Hs5 : exists s5, nth_error ss5 k = Some s5).
  { destruct (nth_error ss5 k) eqn:E; [eauto|]. apply nth_error_None in E.
    assert (k < length rs)%nat by (apply nth_error_Some; congruence). lia. }
  destruct Hs5 as [s5 Hs5]. destruct (Hm _ _ Hs5) as [s' [Hs' Fs]]. rewrite Hk in Hs'. inversion Hs'; subst s'.
  destruct (stmt_result_fields _ _ Fs) as (Fa & Fz & _ & _ & _).
  destruct (Forall2_nth_r _ _ _ _ _ R5 Hs5) as [s4 [Hs4 R45]].
  assert (Hpos : 0 < sz s4).
  { destruct R45 as (_&_&_&_&_&_&_&_&_&Es&_). unfold sz. rewrite <- Es. fold (size_of_stmt s5). rewrite <- Fz.
    rewrite Forall_forall in Hsz. rewrite (Hsz s (nth_error_In _ _ Hk)). destruct (r_bytes s); [contradiction | cbn; lia]. }
  pose proof (assign_from_origin ss3 0 None ss4 H4 eq_refl W3 k s4 Hs4 Hpos) as Haddr.
  rewrite Fa. unfold addr_of_stmt in *. destruct R45 as (_&_&_&_&_&_&_&Ea&_). rewrite Ea, Haddr.
  rewrite (origin_of_rel_fix _ _ None R5). f_equal.
  (* the sum of the sizes is the number of bytes emitted so far *)
  rewrite <- (sum_range_rel_fix _ _ R5). eapply sum_sizes_bytes; eauto.
Qed.
